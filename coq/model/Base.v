(* Base: small utilities shared by every model. Stdlib only. *)
From Coq Require Import List Bool Arith ZArith Lia.
Import ListNotations.

Module Base.
Fixpoint failing_from {A} (f : A -> bool) (l : list A) (i : nat) : list nat :=
  match l with
  | [] => []
  | x :: r => if f x then failing_from f r (S i) else i :: failing_from f r (S i)
  end.
(* indices of the cases on which the check is false; used by the correspondence harness *)
Definition failing {A} (f : A -> bool) (l : list A) : list nat := failing_from f l 0.
End Base.

Definition count_if {A} (f : A -> bool) (l : list A) : Z := Z.of_nat (length (filter f l)).

Fixpoint list_eqb {A} (eqb : A -> A -> bool) (a b : list A) : bool :=
  match a, b with
  | [], [] => true
  | x :: a', y :: b' => eqb x y && list_eqb eqb a' b'
  | _, _ => false
  end.

Definition mem_nat (x : nat) (l : list nat) : bool := existsb (Nat.eqb x) l.

Definition is_nil {A} (l : list A) : bool := match l with [] => true | _ => false end.

Lemma is_nil_true {A} (l : list A) : is_nil l = true <-> l = [].
Proof. destruct l; simpl; split; congruence. Qed.

Lemma filter_nil_iff {A} (f : A -> bool) (l : list A) :
  filter f l = [] <-> forall x, In x l -> f x = false.
Proof.
  induction l as [|a l IH]; simpl.
  - split; [intros _ x []|reflexivity].
  - destruct (f a) eqn:E.
    + split; [discriminate|]. intros H. specialize (H a (or_introl eq_refl)). congruence.
    + rewrite IH. split.
      * intros H x [<-|Hx]; auto.
      * intros H x Hx. apply H. now right.
Qed.

Lemma filter_nonnil_iff {A} (f : A -> bool) (l : list A) :
  filter f l <> [] <-> exists x, In x l /\ f x = true.
Proof.
  induction l as [|a l IH]; simpl.
  - split; [congruence|intros [x [[] _]]].
  - destruct (f a) eqn:E.
    + split; [intros _; exists a; auto|discriminate].
    + rewrite IH. split.
      * intros [x [Hx Hf]]. exists x; auto.
      * intros [x [[<-|Hx] Hf]]; [congruence|exists x; auto].
Qed.
