(* Bloom: hand model of queue/dedup.py:BloomDeduplicator, as the algorithm the Python runs.
   - the bit array is the bytearray: a list of bytes (N), bit [pos] lives in byte [pos // 8] at bit
     [pos % 8]; index arithmetic, the set/get expressions, the position formula (h1 + i*h2) % m and the
     bytearray length come from Gen_Dedup (regenerated from the source);
   - h1, h2 : id -> N are ABSTRACT (Section variables): MD5 / SHA-1 are not in the proofs.  The code
     applies no `or 1` / odd-forcing to h2, and neither does the model (h2 = 0 mod m is allowed);
   - message ids are N (the harness maps the distinct id strings of a case injectively to 0,1,2,...);
   - size m, number of hashes k and capacity (expected_items) are parameters of a filter: the float
     formulas _optimal_size/_optimal_hashes are not modelled, the correspondence reads m, k from the
     real object;
   - the age half of should_reset (time.monotonic) is the oracle flag [aged].
   No proofs in this file. *)
From Coq Require Import List Bool NArith Lia.
Import ListNotations.
From Stab.gen Require Import Gen_Dedup.
Local Open Scope N_scope.

Fixpoint upd_nth {A} (n : nat) (f : A -> A) (l : list A) : list A :=
  match l, n with
  | [], _ => []
  | x :: r, O => f x :: r
  | x :: r, S n' => x :: upd_nth n' f r
  end.

(* _get_bit: bool(self._bit_array[byte_idx] & (1 << bit_idx)) *)
Definition get_bit (bs : list N) (pos : N) : bool :=
  negb (get_bit_expr (nth (N.to_nat (byte_idx pos)) bs 0) (bit_idx pos) =? 0).

(* _set_bit: self._bit_array[byte_idx] |= 1 << bit_idx *)
Definition set_bit (bs : list N) (pos : N) : list N :=
  upd_nth (N.to_nat (byte_idx pos)) (fun b => set_bit_expr b (bit_idx pos)) bs.

Record bloom := mkBloom {
  b_size : N;          (* _size (bits) *)
  b_k : nat;           (* _num_hashes *)
  b_cap : N;           (* _expected_items *)
  b_bits : list N;     (* _bit_array *)
  b_items : N;         (* _items_added *)
  b_auth : bool;       (* _authoritative *)
}.

Definition zero_bits (m : N) : list N := repeat 0 (N.to_nat (bit_array_len m)).

(* __init__ (after the float formulas chose m and k) *)
Definition bloom_new (m : N) (k : nat) (cap : N) : bloom := mkBloom m k cap (zero_bits m) 0 false.

(* popcount of one byte / of the array: fill_ratio's  sum(bin(b).count("1") for b in self._bit_array) *)
Fixpoint pop_pos (p : positive) : N :=
  match p with xH => 1 | xO q => pop_pos q | xI q => N.succ (pop_pos q) end.
Definition popN (n : N) : N := match n with N0 => 0 | Npos p => pop_pos p end.
Definition fill_bits (f : bloom) : N := fold_right (fun b acc => popN b + acc) 0 (b_bits f).

(* should_reset(threshold): age > max_age (oracle) or set_bits / size > threshold, the threshold being the
   rational rotation_threshold_num / rotation_threshold_den that mixins.py passes *)
Definition should_reset (f : bloom) (aged : bool) : bool :=
  aged || (rotation_threshold_num * b_size f <? rotation_threshold_den * fill_bits f).

Section Hash.
Variables h1 h2 : N -> N.

(* _get_hash_positions *)
Definition positions (f : bloom) (id : N) : list N :=
  map (fun i => bloom_pos (h1 id) (h2 id) (N.of_nat i) (b_size f)) (seq 0 (b_k f)).

(* maybe_seen: False at the first unset bit, True otherwise *)
Definition maybe_seen (f : bloom) (id : N) : bool := forallb (get_bit (b_bits f)) (positions f id).

Definition set_all (bs : list N) (ps : list N) : list N := fold_left set_bit ps bs.

Definition mark_seen (f : bloom) (id : N) : bloom :=
  mkBloom (b_size f) (b_k f) (b_cap f) (set_all (b_bits f) (positions f id)) (b_items f + 1) (b_auth f).

Definition reset (f : bloom) : bloom :=
  mkBloom (b_size f) (b_k f) (b_cap f) (zero_bits (b_size f)) 0 false.

(* hydrate: mark every given id, then grant authority *)
Definition hydrate (f : bloom) (ids : list N) : bloom :=
  let f' := fold_left mark_seen ids f in
  mkBloom (b_size f') (b_k f') (b_cap f') (b_bits f') (b_items f') true.

(* the filter as a state machine *)
Inductive bop := BMark (id : N) | BHydrate (ids : list N) | BReset | BQuery (id : N).

Definition bstep (f : bloom) (op : bop) : bloom :=
  match op with
  | BMark id => mark_seen f id
  | BHydrate ids => hydrate f ids
  | BReset => reset f
  | BQuery _ => f
  end.

Definition brun (f : bloom) (ops : list bop) : bloom := fold_left bstep ops f.

Definition is_reset (op : bop) : bool := match op with BReset => true | _ => false end.
Definition no_reset (ops : list bop) : bool := forallb (fun o => negb (is_reset o)) ops.

(* ids the filter has been told about by an op *)
Definition told_by (op : bop) (id : N) : bool :=
  match op with
  | BMark x => x =? id
  | BHydrate ids => existsb (N.eqb id) ids
  | _ => false
  end.
Definition told (ops : list bop) (id : N) : bool := existsb (fun o => told_by o id) ops.

(* ---- observation used by the correspondence check (harness/props/c09.py) ---- *)
Definition bits_to_N (bs : list N) : N := fold_right (fun b acc => b + 256 * acc) 0 bs.

(* (answer, authoritative, items_added, set bits, should_reset(0.7) with a young filter, bit array) ;
   answer = maybe_seen for a query, the authoritative flag otherwise *)
Definition bobs := (bool * bool * N * N * bool * N)%type.
Definition observe (f : bloom) (op : bop) : bobs :=
  (match op with BQuery id => maybe_seen f id | _ => b_auth f end,
   b_auth f, b_items f, fill_bits f, should_reset f false, bits_to_N (b_bits f)).

Fixpoint brun_obs (f : bloom) (ops : list bop) : list bobs :=
  match ops with
  | [] => []
  | op :: r => let f' := bstep f op in observe f' op :: brun_obs f' r
  end.
End Hash.

(* the hash oracle of a correspondence case: a table id -> (h1, h2) *)
Definition tbl1 (t : list (N * N)) (i : N) : N := fst (nth (N.to_nat i) t (0, 0)).
Definition tbl2 (t : list (N * N)) (i : N) : N := snd (nth (N.to_nat i) t (0, 0)).

Definition bobs_eqb (a b : bobs) : bool :=
  match a, b with
  | (a1, a2, a3, a4, a5, a6), (b1, b2, b3, b4, b5, b6) =>
      Bool.eqb a1 b1 && Bool.eqb a2 b2 && (a3 =? b3) && (a4 =? b4) && Bool.eqb a5 b5 && (a6 =? b6)
  end.

Fixpoint obs_list_eqb (a b : list bobs) : bool :=
  match a, b with
  | [], [] => true
  | x :: a', y :: b' => bobs_eqb x y && obs_list_eqb a' b'
  | _, _ => false
  end.

(* one differential case: filter parameters, hash table, op list, observations made on the real object *)
Definition check_bloom_case (c : (N * nat * N) * list (N * N) * list bop * list bobs) : bool :=
  match c with
  | ((m, k, cap), t, ops, expected) =>
      obs_list_eqb (brun_obs (tbl1 t) (tbl2 t) (bloom_new m k cap) ops) expected
  end.

Fixpoint list_N_eqb (a b : list N) : bool :=
  match a, b with
  | [], [] => true
  | x :: a', y :: b' => (x =? y) && list_N_eqb a' b'
  | _, _ => false
  end.

(* positions with raw (un-reduced) hash values: ((m, k), (h1, h2), expected positions) *)
Definition check_positions_case (c : (N * nat) * (N * N) * list N) : bool :=
  match c with
  | ((m, k), (a, b), expected) =>
      list_N_eqb (positions (fun _ => a) (fun _ => b) (bloom_new m k 1) 0) expected
  end.
