(* Codec: executable model of the SQLite persistence codec of stabilize
   (persistence/sqlite/helpers.py: insert_stage / upsert_task, converters.py: execution_to_dict / row_to_*,
   store/stage_ops.py + transaction.py: store_stage).

   WHAT is written to / read from which column with which kind is NOT stated here: it is the generated
   lists of gen/Gen_Codec.v.  This file gives the meaning of each kind:
     encode  : wkind -> Python value -> value bound to the SQL parameter   (None = the expression raises)
     sql_store : what SQLite keeps for that value in a column of the given affinity
     decode  : rkind -> column value -> Python value handed to the dataclass constructor
   JSON text is ABSTRACT (type jtext, enc = json.dumps, dec = json.loads, jempty = "is the empty string");
   the iteration order of a Python set (list(s)) is the arbitrary function [order].
   Records are association lists field -> value, rows are association lists column -> value, so that the
   generated lists drive to_row / read_field generically.  No proofs in this file. *)
From Coq Require Import List ZArith String Bool Permutation.
Import ListNotations.
From Stab.model Require Import CodecT.
Open Scope string_scope.

(* ---------- association lists ---------- *)
Fixpoint sget {A} (k : string) (l : list (string * A)) : option A :=
  match l with
  | [] => None
  | (k', v) :: r => if String.eqb k k' then Some v else sget k r
  end.

Fixpoint sset {A} (k : string) (v : A) (l : list (string * A)) : list (string * A) :=
  match l with
  | [] => [(k, v)]
  | (k', v') :: r => if String.eqb k k' then (k, v) :: r else (k', v') :: sset k v r
  end.

Definition smem (k : string) (l : list string) : bool := existsb (String.eqb k) l.

Fixpoint snodup (l : list string) : bool :=
  match l with
  | [] => true
  | x :: r => negb (smem x r) && snodup r
  end.

Definition pkey_eqb (a b : pkey) : bool :=
  match a, b with
  | KStr x, KStr y => String.eqb x y
  | KInt x, KInt y => Z.eqb x y
  | _, _ => false
  end.

Fixpoint kget (k : pkey) (l : list (pkey * pyval)) : option pyval :=
  match l with
  | [] => None
  | (k', v) :: r => if pkey_eqb k k' then Some v else kget k r
  end.

Fixpoint map_opt {A B} (f : A -> option B) (l : list A) : option (list B) :=
  match l with
  | [] => Some []
  | x :: r => match f x, map_opt f r with
              | Some y, Some ys => Some (y :: ys)
              | _, _ => None
              end
  end.

Definition record := list (string * pyval).

(* ---------- Python truthiness ---------- *)
Definition py_truthy (v : pyval) : bool :=
  match v with
  | VNone => false
  | VBool b => b
  | VInt z => negb (Z.eqb z 0)
  | VStr s => negb (String.eqb s "")
  | VList l | VTuple l | VSet l => match l with [] => false | _ => true end
  | VDict l => match l with [] => false | _ => true end
  | VFloat _ => true          (* abstraction: 0.0 is not represented *)
  | VEnum _ _ | VObj _ _ | VDatetime _ | VDefault => true
  end.

(* ---------- JSON-representable values (what json.dumps / json.loads give back unchanged) ---------- *)
Definition is_kstr (k : pkey) : bool := match k with KStr _ => true | KInt _ => false end.

Fixpoint jrep (v : pyval) : bool :=
  match v with
  | VNone | VBool _ | VInt _ | VFloat _ | VStr _ => true
  | VList l => forallb jrep l
  | VDict kvs => forallb (fun kv => is_kstr (fst kv) && jrep (snd kv)) kvs
  | VTuple _ | VSet _ | VEnum _ _ | VObj _ _ | VDatetime _ | VDefault => false
  end.

(* the two literals that appear after `or` inside json.loads(...) *)
Definition lit_json (l : string) : option pyval :=
  if String.eqb l "{}" then Some (VDict [])
  else if String.eqb l "[]" then Some (VList [])
  else None.

Definition lit_val (d : lit) : pyval := match d with LStr s => VStr s | LInt z => VInt z end.

Definition int64 (z : Z) : bool := (Z.leb (-9223372036854775808) z && Z.leb z 9223372036854775807)%Z.

(* ---------- enum tables ---------- *)
Section Enums.
Variable ET : list (string * list (string * string)).   (* class -> [(member name, member value)] *)

Definition enum_members (cls : string) : list (string * string) :=
  match sget cls ET with Some ms => ms | None => [] end.
Definition enum_value (cls m : string) : option string := sget m (enum_members cls).
Definition enum_has (cls m : string) : bool := smem m (map fst (enum_members cls)).
Fixpoint find_by_value (v : string) (ms : list (string * string)) : option string :=
  match ms with
  | [] => None
  | (n, v') :: r => if String.eqb v v' then Some n else find_by_value v r
  end.
Definition enum_by_value (cls v : string) : option string := find_by_value v (enum_members cls).
Definition enum_by_name (cls n : string) : option string := if enum_has cls n then Some n else None.
End Enums.

(* ---------- small dataclasses stored as JSON objects ---------- *)
Definition obj_to_dict (sp : objspec) (fs : list (string * pyval)) : option pyval :=
  option_map VDict (map_opt (fun kf => option_map (fun v => (KStr (fst kf), v)) (sget (snd kf) fs)) (o_to sp)).

Fixpoint find_from (f : string) (l : list (string * string * pyval)) : option (string * pyval) :=
  match l with
  | [] => None
  | (f', k, d) :: r => if String.eqb f f' then Some (k, d) else find_from f r
  end.

Definition obj_of_dict (sp : objspec) (d : pyval) : option pyval :=
  match d with
  | VDict kvs =>
      Some (VObj (o_cls sp)
        (map (fun ft => (fst ft,
                match find_from (fst ft) (o_from sp) with
                | Some (k, dflt) => match kget (KStr k) kvs with Some v => v | None => dflt end
                | None => VDefault
                end)) (o_fields sp)))
  | _ => None
  end.

Fixpoint find_spec (cls : string) (OS : list objspec) : option objspec :=
  match OS with
  | [] => None
  | sp :: r => if String.eqb cls (o_cls sp) then Some sp else find_spec cls r
  end.

Fixpoint find_col (c : string) (cols : list column) : option column :=
  match cols with
  | [] => None
  | x :: r => if String.eqb c (c_name x) then Some x else find_col c r
  end.

Fixpoint find_w (c : string) (W : list wentry) : option wentry :=
  match W with
  | [] => None
  | e :: r => if String.eqb c (w_col e) then Some e else find_w c r
  end.

Fixpoint find_r (f : string) (R : list rentry) : option rentry :=
  match R with
  | [] => None
  | e :: r => if String.eqb f (r_field e) then Some e else find_r f r
  end.

(* ================================================================================================ *)
Section Codec.
Variable jtext : Type.
Variable enc : pyval -> jtext.                 (* json.dumps *)
Variable dec : jtext -> option pyval.          (* json.loads; None = raises *)
Variable jempty : jtext -> bool.               (* the text is "" *)
Variable order : list pyval -> list pyval.     (* list(s) for a set s: some enumeration of its elements *)
Variable ET : list (string * list (string * string)).
Variable OS : list objspec.

Inductive colval : Type :=
| CNull
| CInt (z : Z)
| CStr (s : string)
| CJson (t : jtext)          (* a str produced by json.dumps *)
| CBad.                      (* SQLite would convert / the adapter would refuse: no prediction *)

Definition row := list (string * colval).

Definition col_truthy (c : colval) : bool :=
  match c with
  | CNull => false
  | CInt z => negb (Z.eqb z 0)
  | CStr s => negb (String.eqb s "")
  | CJson t => negb (jempty t)
  | CBad => false
  end.

Definition is_null (c : colval) : bool := match c with CNull => true | _ => false end.

(* sqlite3 parameter adaptation of a plain Python value; None = OverflowError *)
Definition to_col (v : pyval) : option colval :=
  match v with
  | VNone => Some CNull
  | VInt z => if int64 z then Some (CInt z) else None
  | VBool b => Some (CInt (if b then 1 else 0)%Z)
  | VStr s => Some (CStr s)
  | _ => Some CBad
  end.

Definition of_col (c : colval) : option pyval :=
  match c with
  | CNull => Some VNone
  | CInt z => Some (VInt z)
  | CStr s => Some (VStr s)
  | CJson _ | CBad => None
  end.

(* column affinity: a value of the matching storage class is kept as is; anything else is converted by
   SQLite in ways this model does not predict *)
Definition sql_store (a : affinity) (c : colval) : colval :=
  match a, c with
  | _, CNull => CNull
  | AText, CStr s => CStr s
  | AText, CJson t => CJson t
  | AInteger, CInt z => CInt z
  | _, _ => CBad
  end.

Definition enc_enum_value (v : pyval) : option colval :=
  match v with
  | VEnum c m => option_map CStr (enum_value ET c m)
  | _ => None
  end.

Definition enc_obj (cls : string) (v : pyval) : option colval :=
  match v, find_spec cls OS with
  | VObj c fs, Some sp => if String.eqb c cls then option_map (fun d => CJson (enc d)) (obj_to_dict sp fs) else None
  | _, _ => None
  end.

Definition encode (k : wkind) (v : pyval) : option colval :=
  match k with
  | WRaw | WParam => to_col v
  | WConst z => Some (CInt z)
  | WVersionBump => None
  | WEnumName => match v with VEnum _ m => Some (CStr m) | _ => None end
  | WEnumValue => enc_enum_value v
  | WOptEnumValue => if py_truthy v then enc_enum_value v else Some CNull
  | WJson _ => Some (CJson (enc v))
  | WJsonList => match v with
                 | VSet l => Some (CJson (enc (VList (order l))))
                 | VList l | VTuple l => Some (CJson (enc (VList l)))
                 | _ => None
                 end
  | WJsonObj cls => enc_obj cls v
  | WOptJsonObj cls => if py_truthy v then enc_obj cls v else Some CNull
  | WBool01 => Some (CInt (if py_truthy v then 1 else 0)%Z)
  end.

Definition dec_enum_value (cls : string) (c : colval) : option pyval :=
  match c with
  | CStr s => option_map (VEnum cls) (enum_by_value ET cls s)
  | _ => None
  end.

(* json.loads(row[c] or l) *)
Definition dec_json_or (l : string) (c : colval) : option pyval :=
  if col_truthy c then match c with CJson t => dec t | _ => None end else lit_json l.

Definition dec_obj (cls : string) (d : pyval) : option pyval :=
  match find_spec cls OS with Some sp => obj_of_dict sp d | None => None end.

Definition decode_known (k : rkind) (c : colval) : option pyval :=
  match k with
  | RRaw => of_col c
  | ROr d => if col_truthy c then of_col c else Some (lit_val d)
  | REnumByName cls => match c with CStr s => option_map (VEnum cls) (enum_by_name ET cls s) | _ => None end
  | REnumByValue cls => dec_enum_value cls c
  | REnumByValueOr cls dm => if col_truthy c then dec_enum_value cls c else Some (VEnum cls dm)
  | ROptEnumByValue cls => if col_truthy c then dec_enum_value cls c else Some VNone
  | RJson l => dec_json_or l c
  | RJsonIfStr l => match c with
                    | CJson _ => dec_json_or l c
                    | CNull | CInt _ => lit_json l
                    | CStr _ | CBad => None
                    end
  | RSetOfJson l => match dec_json_or l c with Some (VList xs) => Some (VSet xs) | _ => None end
  | RJsonObj cls l => match dec_json_or l c with Some d => dec_obj cls d | None => None end
  | ROptJsonObj cls =>
      if col_truthy c then
        match c with
        | CJson t => match dec t with
                     | Some d => if py_truthy d then dec_obj cls d else Some VNone
                     | None => None
                     end
        | _ => None
        end
      else Some VNone
  | RBool => match c with CBad => None | _ => Some (VBool (col_truthy c)) end
  end.

(* a value SQLite converted in a way the model does not follow yields no prediction, whatever the reader does *)
Definition decode (k : rkind) (c : colval) : option pyval :=
  match c with
  | CBad => None
  | _ => decode_known k c
  end.

(* ---------- rows ---------- *)
(* value kept in column [w_col e] when statement entry [e] is executed for record r *)
Definition write_col (cols : list column) (r : record) (e : wentry) : option (string * colval) :=
  match sget (w_field e) r, find_col (w_col e) cols with
  | Some v, Some c =>
      match encode (w_kind e) v with
      | Some cv => let s := sql_store (c_aff c) cv in
                   if c_notnull c && is_null s then None else Some (w_col e, s)
      | None => None
      end
  | _, _ => None
  end.

(* INSERT: every listed column gets its value; None = the statement raises *)
Definition to_row (cols : list column) (W : list wentry) (r : record) : option row :=
  map_opt (write_col cols r) W.

(* one keyword of the row_to_* constructor call *)
Definition read_field (R : list rentry) (rw : row) (f : string) : option pyval :=
  match find_r f R with
  | Some e => match sget (r_col e) rw with Some c => decode (r_kind e) c | None => None end
  | None => None
  end.

Definition of_row (R : list rentry) (rw : row) : list (string * option pyval) :=
  map (fun e => (r_field e, read_field R rw (r_field e))) R.

(* UPDATE … SET: the listed columns are overwritten, [col = col + 1] bumps *)
Definition update_col (cols : list column) (s : record) (rw : row) (e : wentry) : option (string * colval) :=
  match w_kind e with
  | WVersionBump => match sget (w_col e) rw with Some (CInt z) => Some (w_col e, CInt (z + 1)) | _ => None end
  | _ => write_col cols s e
  end.

Fixpoint apply_sets (l : list (string * colval)) (rw : row) : row :=
  match l with
  | [] => rw
  | (c, v) :: r => apply_sets r (sset c v rw)
  end.

Definition apply_update (cols : list column) (U : list wentry) (s : record) (rw : row) : option row :=
  match map_opt (update_col cols s rw) U with
  | Some sets => Some (apply_sets sets rw)
  | None => None
  end.

(* WHERE col = :param AND …  (only plain comparisons of ids / versions / status names) *)
Definition col_eq_plain (a b : colval) : bool :=
  match a, b with
  | CInt x, CInt y => Z.eqb x y
  | CStr x, CStr y => String.eqb x y
  | _, _ => false
  end.

Definition row_matches (Wh : list wentry) (s : record) (rw : row) : bool :=
  forallb (fun e => match sget (w_field e) s, sget (w_col e) rw with
                    | Some v, Some c => match encode (w_kind e) v with Some cv => col_eq_plain cv c | None => false end
                    | _, _ => false
                    end) Wh.

(* the UPDATE of store_stage on a table: matching rows are rewritten, all others are untouched;
   None = ConcurrencyError (no row matched) or the statement raises *)
Definition update_table (cols : list column) (U Wh : list wentry) (s : record) (tbl : list row) : option (list row) :=
  if existsb (row_matches Wh s) tbl then
    map_opt (fun rw => if row_matches Wh s rw then apply_update cols U s rw else Some rw) tbl
  else None.

(* ---------- task order: SELECT … WHERE stage_id = ? ORDER BY id ASC ---------- *)
Definition row_id (rw : row) : string := match sget "id" rw with Some (CStr s) => s | _ => "" end.

Fixpoint insert_by_id (x : row) (l : list row) : list row :=
  match l with
  | [] => [x]
  | y :: r => if String.ltb (row_id x) (row_id y) then x :: y :: r else y :: insert_by_id x r
  end.

Definition sort_by_id (l : list row) : list row := fold_right insert_by_id [] l.

(* the generated ORDER BY list decides; no ORDER BY = insertion (rowid) order, which SQL does not promise *)
Definition select_tasks (ord : list (string * bool)) (inserted : list row) : option (list row) :=
  match ord with
  | [(c, true)] => if String.eqb c "id" then Some (sort_by_id inserted) else None
  | [(c, false)] => if String.eqb c "id" then Some (rev (sort_by_id inserted)) else None
  | [] => Some inserted
  | _ => None
  end.


Fixpoint strs_ascending (l : list string) : bool :=
  match l with
  | [] => true
  | x :: r => match r with
              | [] => true
              | y :: _ => String.ltb x y && strs_ascending r
              end
  end.

(* ================================================================================================ *)
(* static checks on the generated lists (computed) and dynamic checks on a record (the wf predicate) *)

Definition ftype_is (a b : ftype) : bool :=
  match a, b with
  | TStr, TStr | TInt, TInt | TBool, TBool | TDatetime, TDatetime
  | TJsonDict, TJsonDict | TJsonList, TJsonList | TSetStr, TSetStr => true
  | _, _ => false
  end.

(* types whose values are scalars that sqlite3 stores as such *)
Definition raw_type_ok (t : ftype) (a : affinity) : bool :=
  match t, a with
  | TStr, AText | TOpt TStr, AText | TInt, AInteger | TOpt TInt, AInteger => true
  | _, _ => false
  end.

Definition spec_names (sp : objspec) : list string := map fst (o_fields sp).

(* to-dict / from-dict of a nested class mention the same keys, one per field *)
Definition spec_ok (sp : objspec) : bool :=
  snodup (spec_names sp) && snodup (map fst (o_to sp))
  && match o_to sp with [] => false | _ => true end
  && forallb (fun f => match find_from f (o_from sp) with
                       | Some (k, _) => match sget k (o_to sp) with Some f' => String.eqb f f' | None => false end
                       | None => false
                       end) (spec_names sp)
  && forallb (fun kf => smem (snd kf) (spec_names sp)) (o_to sp).

Definition enum_values_ok (cls : string) : bool :=
  snodup (map snd (enum_members ET cls)) && snodup (map fst (enum_members ET cls))
  && forallb (fun nv => negb (String.eqb (snd nv) "")) (enum_members ET cls).

(* write side: the kind fits the declared type and the column affinity *)
Definition w_ok (t : ftype) (a : affinity) (k : wkind) : bool :=
  match k with
  | WRaw => raw_type_ok t a
  | WParam => match t, a with TStr, AText => true | _, _ => false end
  | WConst _ => match t, a with TInt, AInteger => true | _, _ => false end
  | WVersionBump => false
  | WEnumName => match t, a with TEnum _, AText => true | _, _ => false end
  | WEnumValue => match t, a with TEnum cls, AText => enum_values_ok cls | _, _ => false end
  | WOptEnumValue => match t, a with TOpt (TEnum cls), AText => enum_values_ok cls | _, _ => false end
  | WJson _ => match t, a with TJsonDict, AText | TJsonList, AText => true | _, _ => false end
  | WJsonList => match t, a with TSetStr, AText => true | _, _ => false end
  | WJsonObj cls => match t, a with
                    | TObj c, AText => String.eqb c cls && match find_spec cls OS with Some sp => spec_ok sp && String.eqb (o_cls sp) cls | None => false end
                    | _, _ => false
                    end
  | WOptJsonObj cls => match t, a with
                       | TOpt (TObj c), AText => String.eqb c cls && match find_spec cls OS with Some sp => spec_ok sp && String.eqb (o_cls sp) cls | None => false end
                       | _, _ => false
                       end
  | WBool01 => match t, a with TBool, AInteger => true | _, _ => false end
  end.

Definition lit_fits (t : ftype) (d : lit) : bool :=
  match t, d with
  | TStr, LStr _ | TOpt TStr, LStr _ | TInt, LInt _ | TOpt TInt, LInt _ => true
  | _, _ => false
  end.

Definition lit_ok (l : string) : bool := match lit_json l with Some _ => true | None => false end.

(* read kind inverts write kind *)
Definition inv_ok (t : ftype) (wk : wkind) (rk : rkind) : bool :=
  match wk, rk with
  | WRaw, RRaw => true
  | WRaw, ROr d => lit_fits t d
  | WConst _, RRaw => true
  | WConst _, ROr d => lit_fits t d
  | WEnumName, REnumByName cls => match t with TEnum c => String.eqb c cls | _ => false end
  | WEnumValue, REnumByValue cls => match t with TEnum c => String.eqb c cls | _ => false end
  | WEnumValue, REnumByValueOr cls _ => match t with TEnum c => String.eqb c cls | _ => false end
  | WOptEnumValue, ROptEnumByValue cls => match t with TOpt (TEnum c) => String.eqb c cls | _ => false end
  | WJson _, RJson l => lit_ok l
  | WJson _, RJsonIfStr l => lit_ok l
  | WJsonList, RSetOfJson l => lit_ok l
  | WJsonObj cls, RJsonObj cls' l => String.eqb cls cls' && lit_ok l
  | WOptJsonObj cls, ROptJsonObj cls' => String.eqb cls cls'
  | WBool01, RBool => true
  | _, _ => false
  end.

Definition field_type (FT : list (string * ftype)) (k : wkind) (f : string) : option ftype :=
  match k with
  | WParam => Some TStr
  | _ => sget f FT
  end.

(* every statement entry is well-typed; every listed field is written to a column that is read back into
   the same field with the inverse kind *)
Definition codec_ok (FT : list (string * ftype)) (cols : list column) (W : list wentry) (R : list rentry)
           (listed : list string) : bool :=
  snodup (map w_col W) && snodup (map r_field R)
  && forallb (fun e => match field_type FT (w_kind e) (w_field e), find_col (w_col e) cols with
                       | Some t, Some c => w_ok t (c_aff c) (w_kind e)
                       | _, _ => false
                       end) W
  && forallb (fun f => match find_r f R with
                       | Some re => match find_w (r_col re) W with
                                    | Some we => String.eqb (w_field we) f
                                                 && match sget f FT with Some t => inv_ok t (w_kind we) (r_kind re) | None => false end
                                    | None => false
                                    end
                       | None => false
                       end) listed.

(* ---------- the wf predicate: values of the declared type ---------- *)
Definition wf_flat (t : ftype) (v : pyval) : bool :=
  match t, v with
  | TStr, VStr _ => true
  | TInt, VInt _ => true
  | TBool, VBool _ => true
  | TJsonDict, VDict _ => jrep v
  | TJsonList, VList _ => jrep v
  | TOpt TStr, VStr _ | TOpt TInt, VInt _ | TOpt TBool, VBool _ => true
  | TOpt _, VNone => true
  | _, _ => false
  end.

Fixpoint wf_fields (fts : list (string * ftype)) (fs : list (string * pyval)) : bool :=
  match fts, fs with
  | [], [] => true
  | (f, t) :: r, (f', v) :: r' => String.eqb f f' && wf_flat t v && wf_fields r r'
  | _, _ => false
  end.

Definition wf_obj (cls : string) (v : pyval) : bool :=
  match v, find_spec cls OS with
  | VObj c fs, Some sp => String.eqb c cls && wf_fields (o_fields sp) fs
  | _, _ => false
  end.

Definition is_vstr (v : pyval) : bool := match v with VStr _ => true | _ => false end.

Definition wf_value (t : ftype) (v : pyval) : bool :=
  match t with
  | TEnum cls => match v with VEnum c m => String.eqb c cls && enum_has ET cls m | _ => false end
  | TOpt (TEnum cls) => match v with VNone => true | VEnum c m => String.eqb c cls && enum_has ET cls m | _ => false end
  | TObj cls => wf_obj cls v
  | TOpt (TObj cls) => match v with VNone => true | _ => wf_obj cls v end
  | TSetStr => match v with VSet l => forallb is_vstr l | _ => false end
  | TDatetime => match v with VDatetime _ => true | _ => false end
  | TOther => false
  | _ => wf_flat t v
  end.

(* what an `or`-default / an SQL constant cannot represent, and SQLite's limits *)
Definition or_ok (rk : rkind) (v : pyval) : bool :=
  match rk with
  | ROr d => py_truthy v || match v, d with
                            | VStr s, LStr s' => String.eqb s s'
                            | VInt z, LInt z' => Z.eqb z z'
                            | _, _ => false
                            end
  | _ => true
  end.

Definition const_ok (wk : wkind) (v : pyval) : bool :=
  match wk with
  | WConst z => match v with VInt z' => Z.eqb z z' | _ => false end
  | _ => true
  end.

Definition range_ok (v : pyval) : bool := match v with VInt z => int64 z | _ => true end.

Definition notnull_ok (c : column) (v : pyval) : bool :=
  negb (c_notnull c) || match v with VNone => false | _ => true end.

Definition value_ok (t : ftype) (c : column) (wk : wkind) (v : pyval) : bool :=
  wf_value t v && const_ok wk v && range_ok v && notnull_ok c v.

(* the wf predicate of a record w.r.t. one INSERT statement and one row_to_* reader *)
Definition record_ok (FT : list (string * ftype)) (cols : list column) (W : list wentry) (R : list rentry)
           (listed : list string) (r : record) : bool :=
  forallb (fun e => match sget (w_field e) r, field_type FT (w_kind e) (w_field e), find_col (w_col e) cols with
                    | Some v, Some t, Some c => value_ok t c (w_kind e) v
                    | _, _, _ => false
                    end) W
  && forallb (fun f => match find_r f R, sget f r with
                       | Some re, Some v => or_ok (r_kind re) v
                       | _, _ => false
                       end) listed.

(* ---------- UPDATE statements ---------- *)
Definition is_bump (k : wkind) : bool := match k with WVersionBump => true | _ => false end.
Definition not_bump (e : wentry) : bool := negb (is_bump (w_kind e)).

(* the non-bump entries are a well-typed codec for [listed]; the bump entries are integer columns *)
Definition upd_ok (FT : list (string * ftype)) (cols : list column) (U : list wentry) (R : list rentry)
           (listed : list string) : bool :=
  codec_ok FT cols (filter not_bump U) R listed
  && snodup (map w_col U)
  && forallb (fun e => not_bump e || match find_col (w_col e) cols with
                                     | Some c => match c_aff c with AInteger => true | _ => false end
                                     | None => false
                                     end) U.

(* the caller's record is wf for the written fields and the stored row has an integer to bump *)
Definition upd_record_ok (FT : list (string * ftype)) (cols : list column) (U : list wentry) (R : list rentry)
           (listed : list string) (s : record) (rw : row) : bool :=
  record_ok FT cols (filter not_bump U) R listed s
  && forallb (fun e => not_bump e || match sget (w_col e) rw with Some (CInt _) => true | _ => false end) U.

(* the INSERT stores the record's id unchanged in the TEXT column id (needed to relate ORDER BY id to the ids) *)
Definition id_entry_ok (FT : list (string * ftype)) (cols : list column) (W : list wentry) : bool :=
  match find_w "id" W, find_col "id" cols, sget "id" FT with
  | Some e, Some c, Some TStr =>
      String.eqb (w_field e) "id" && match w_kind e with WRaw => true | _ => false end
      && match c_aff c with AText => true | _ => false end
  | _, _, _ => false
  end.

Definition rec_id (r : record) : string := match sget "id" r with Some (VStr s) => s | _ => "" end.

End Codec.

Arguments CNull {jtext}.
Arguments CInt {jtext} z.
Arguments CStr {jtext} s.
Arguments CJson {jtext} t.
Arguments CBad {jtext}.

(* ---------- the ideal JSON instance: used to RUN the model in the correspondence check, and as the
   witness that the JSON hypotheses of the theorems are satisfiable ---------- *)
Definition ideal_enc (v : pyval) : pyval := v.
Definition ideal_dec (t : pyval) : option pyval := Some t.
Definition ideal_empty (t : pyval) : bool := false.
Definition ideal_order (l : list pyval) : list pyval := l.

(* ---------- structural equality of values (used by the correspondence check only) ---------- *)
Fixpoint pyval_eqb (a b : pyval) {struct a} : bool :=
  let fix list_eq (l l' : list pyval) {struct l} : bool :=
    match l, l' with
    | [], [] => true
    | x :: r, y :: r' => pyval_eqb x y && list_eq r r'
    | _, _ => false
    end in
  let fix kv_eq (l l' : list (pkey * pyval)) {struct l} : bool :=
    match l, l' with
    | [], [] => true
    | (k, x) :: r, (k', y) :: r' => pkey_eqb k k' && pyval_eqb x y && kv_eq r r'
    | _, _ => false
    end in
  let fix f_eq (l l' : list (string * pyval)) {struct l} : bool :=
    match l, l' with
    | [], [] => true
    | (k, x) :: r, (k', y) :: r' => String.eqb k k' && pyval_eqb x y && f_eq r r'
    | _, _ => false
    end in
  match a, b with
  | VNone, VNone => true
  | VBool x, VBool y => Bool.eqb x y
  | VInt x, VInt y => Z.eqb x y
  | VFloat x, VFloat y => Z.eqb x y
  | VStr x, VStr y => String.eqb x y
  | VList l, VList l' => list_eq l l'
  | VTuple l, VTuple l' => list_eq l l'
  | VDict l, VDict l' => kv_eq l l'
  | VSet l, VSet l' => list_eq l l'
  | VEnum c m, VEnum c' m' => String.eqb c c' && String.eqb m m'
  | VObj c l, VObj c' l' => String.eqb c c' && f_eq l l'
  | VDatetime x, VDatetime y => Z.eqb x y
  | VDefault, VDefault => true
  | _, _ => false
  end.

Definition opt_pyval_eqb (a b : option pyval) : bool :=
  match a, b with
  | Some x, Some y => pyval_eqb x y
  | None, None => true
  | _, _ => false
  end.

(* equality of values as the property means it: sets are compared as sets, everything else exactly *)
Definition veq (a b : pyval) : Prop :=
  match a, b with
  | VSet l, VSet l' => Permutation l l'
  | _, _ => a = b
  end.
