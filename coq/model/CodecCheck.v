(* CodecCheck: the executable comparisons the correspondence harness (harness/props/c19.py) evaluates inside
   Coq: the model (model/Codec.v, model/MsgCodec.v on the generated lists, ideal JSON instance) is run on the
   record the harness WROTE through the real store / queue and its prediction is compared with the record
   the harness OBSERVED (retrieve / retrieve_stage / poll_one).  Definitions only.

   case conventions: [valid] = the generator claims the input satisfies the wf predicate (then the model's wf
   must agree and every field must be predicted); observation None = the implementation raised. *)
From Coq Require Import List ZArith String Bool.
Import ListNotations.
From Stab.model Require Import CodecT Codec MsgCodec CodecSpec.
From Stab.gen Require Import Gen_Codec Gen_Messages.
Open Scope string_scope.

Definition is_none {A} (o : option A) : bool := match o with None => true | Some _ => false end.

(* every predicted field equals the observed one; an unpredicted field is tolerated only outside wf *)
Definition fields_agree (wf : bool) (pred : string -> option pyval) (fields : list string) (obs : record) : bool :=
  forallb (fun f => match pred f with
                    | Some v => opt_pyval_eqb (Some v) (sget f obs)
                    | None => negb wf
                    end) fields.

Definition check_row (wfp : record -> bool) (cols : list column) (W : list wentry) (R : list rentry)
           (c : bool * record * option record) : bool :=
  let '(valid, w, obs) := c in
  (negb valid || wfp w)
  && match ideal_row cols W w, obs with
     | Some rw, Some o => fields_agree (wfp w) (ideal_read R rw) (map r_field R) o
     | None, None => negb (wfp w)
     | _, _ => false
     end.

Definition check_stage := check_row wf_stage stage_columns stage_insert stage_read.
Definition check_task := check_row wf_task task_columns task_insert task_read.
Definition check_workflow := check_row wf_workflow workflow_columns workflow_insert workflow_read.

Fixpoint rows_agree (wf : bool) (rows : list (row pyval)) (obs : list record) : bool :=
  match rows, obs with
  | [], [] => true
  | rw :: r, o :: r' => fields_agree wf (ideal_read task_read rw) (map r_field task_read) o && rows_agree wf r r'
  | _, _ => false
  end.

(* tasks of a stage: inserted in list order, selected with the generated ORDER BY; which_select: false =
   retrieve, true = retrieve_stage *)
Definition check_tasks (c : bool * bool * list record * option (list record)) : bool :=
  let '(valid, which_select, ts, obs) := c in
  (negb valid || wf_tasks ts)
  && match map_opt (ideal_row task_columns task_insert) ts, obs with
     | Some rows, Some os =>
         match select_tasks pyval (if which_select then tasks_order_retrieve_stage else tasks_order_retrieve) rows with
         | Some sel => rows_agree (wf_tasks ts) sel os
         | None => false
         end
     | None, None => negb (wf_tasks ts)
     | _, _ => false
     end.

(* store_stage on an existing stage: path 0 = store, 1 = store + expected_phase, 2 = transaction,
   3 = transaction + expected_phase *)
Definition update_list (path : nat) : list wentry :=
  match path with
  | 0%nat => stage_update_store
  | 1%nat => stage_update_store_phase
  | 2%nat => stage_update_txn
  | _ => stage_update_txn_phase
  end.

Definition where_list (path : nat) : list wentry :=
  match path with
  | 0%nat => stage_where_store
  | 1%nat => stage_where_store_phase
  | 2%nat => stage_where_txn
  | _ => stage_where_txn_phase
  end.

(* the caller's record carries the argument expected_phase as a pseudo-field on the odd paths; a row that
   does not satisfy the WHERE clause is not updated and store_stage raises ConcurrencyError *)
Definition check_update (c : bool * nat * record * record * option record) : bool :=
  let '(valid, path, w0, s, obs) := c in
  match ideal_row stage_columns stage_insert w0 with
  | Some rw0 =>
      if row_matches pyval ideal_enc ideal_order enum_table obj_specs (where_list path) s rw0 then
        let wf := wf_stage w0 && wf_stage_update s rw0 in
        (negb valid || wf)
        && match ideal_update stage_columns (update_list path) s rw0, obs with
           | Some rw', Some o => fields_agree wf (ideal_read stage_read rw') (map r_field stage_read) o
           | None, None => negb wf
           | _, _ => false
           end
      else negb valid && is_none obs
  | None => false
  end.

(* store() raised: the model must say that the INSERT of at least one of the rows raises
   (0 = workflow row, 1 = stage row, anything else = task row) *)
Definition check_store_raises (c : list (nat * record)) : bool :=
  existsb (fun kr => match fst kr with
                     | 0%nat => is_none (ideal_row workflow_columns workflow_insert (snd kr))
                     | 1%nat => is_none (ideal_row stage_columns stage_insert (snd kr))
                     | _ => is_none (ideal_row task_columns task_insert (snd kr))
                     end) c.

(* the tasks after store_stage: an existing task (same id) is UPDATEd, a new one INSERTed after the others *)
Definition upsert_row (rows : option (list (row pyval))) (t : record) : option (list (row pyval)) :=
  match rows with
  | None => None
  | Some rs =>
      if existsb (fun rw => String.eqb (row_id pyval rw) (rec_id t)) rs
      then map_opt (fun rw => if String.eqb (row_id pyval rw) (rec_id t)
                              then ideal_update task_columns task_update t rw else Some rw) rs
      else option_map (fun rw => (rs ++ [rw])%list) (ideal_row task_columns task_insert t)
  end.

Definition check_task_update (c : bool * list record * list record * option (list record)) : bool :=
  let '(valid, stored, callers, obs) := c in
  match fold_left upsert_row callers (map_opt (ideal_row task_columns task_insert) stored), obs with
  | Some rows, Some os =>
      match select_tasks pyval tasks_order_retrieve_stage rows with
      | Some sel => rows_agree valid sel os
      | None => false
      end
  | None, None => negb valid
  | _, _ => false
  end.

Fixpoint list_eq_names (a b : list string) : bool :=
  match a, b with
  | [], [] => true
  | x :: r, y :: r' => String.eqb x y && list_eq_names r r'
  | _, _ => false
  end.

(* messages: txn = false: SqliteQueue.push, true: AtomicTransaction.push_message *)
Definition check_msg (c : bool * bool * msg * option msg) : bool :=
  let '(valid, txn, m, obs) := c in
  (negb valid || wf_message m)
  && match ideal_msg_roundtrip (if txn then ser_txn else ser_queue) m, obs with
     | Some m', Some o =>
         String.eqb (m_cls m') (m_cls o)
         && list_eq_names (map fst (m_fields m')) (map fst (m_fields o))
         && forallb (fun f => smem f deser_popped || opt_pyval_eqb (sget f (m_fields m')) (sget f (m_fields o)))
                    (map fst (m_fields m'))
     | None, None => negb (wf_message m)
     | _, _ => false
     end.
