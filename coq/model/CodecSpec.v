(* CodecSpec: C19's vocabulary instantiated on the GENERATED lists (gen/Gen_Codec.v, gen/Gen_Messages.v):
   the fields the property lists, the wf predicates (record_ok / wf_msg on the generated tables), the JSON
   hypotheses as one proposition, and concrete example records used as non-vacuity witnesses and by the
   correspondence harness.  Definitions only. *)
From Coq Require Import List ZArith String Bool Permutation.
Import ListNotations.
From Stab.model Require Import CodecT Codec MsgCodec.
From Stab.gen Require Import Gen_Codec Gen_Messages.
Open Scope string_scope.

(* ---------- what is trusted about Python's json and set iteration ---------- *)
Definition json_ok {jtext : Type} (enc : pyval -> jtext) (dec : jtext -> option pyval) (jempty : jtext -> bool)
           (order : list pyval -> list pyval) : Prop :=
  (forall v, jrep v = true -> dec (enc v) = Some v)
  /\ (forall v, jempty (enc v) = false)
  /\ (forall l, Permutation (order l) l).

(* ---------- the fields the property lists ---------- *)
Definition stage_listed : list string :=
  ["id"; "ref_id"; "type"; "name"; "status"; "context"; "outputs"; "requisite_stage_ref_ids";
   "parent_stage_id"; "synthetic_stage_owner"; "start_time"; "end_time"; "start_time_expiry"; "scheduled_time";
   "version"; "join_type"; "join_threshold"; "split_type"; "split_conditions"; "mi_config";
   "deferred_choice_group"; "milestone_ref_id"; "milestone_status"; "mutex_key"; "cancel_region"].

Definition task_listed : list string :=
  ["id"; "name"; "implementing_class"; "status"; "start_time"; "end_time"; "stage_start"; "stage_end";
   "loop_start"; "loop_end"; "task_exception_details"; "version"].

Definition workflow_listed : list string :=
  ["id"; "type"; "application"; "name"; "status"; "context"; "start_time"; "end_time"; "start_time_expiry";
   "trigger"; "is_canceled"; "canceled_by"; "cancellation_reason"; "paused"; "pipeline_config_id";
   "is_limit_concurrent"; "max_concurrent_executions"; "keep_waiting_pipelines"; "origin"].

(* store_stage: what the UPDATE may write, and the listed fields it must leave alone *)
Definition stage_update_cols : list string := ["status"; "context"; "outputs"; "start_time"; "end_time"; "version"].
Definition stage_updated : list string := ["status"; "context"; "outputs"; "start_time"; "end_time"].
Definition stage_frame : list string :=
  ["id"; "ref_id"; "type"; "name"; "requisite_stage_ref_ids"; "parent_stage_id"; "synthetic_stage_owner";
   "start_time_expiry"; "scheduled_time"; "join_type"; "join_threshold"; "split_type"; "split_conditions";
   "mi_config"; "deferred_choice_group"; "milestone_ref_id"; "milestone_status"; "mutex_key"; "cancel_region"].
Definition task_updated : list string :=
  ["name"; "implementing_class"; "status"; "start_time"; "end_time"; "stage_start"; "stage_end";
   "loop_start"; "loop_end"; "task_exception_details"].

(* ---------- wf predicates (boolean, computed) ---------- *)
(* a stage record carries the INSERT's parameter execution_id as a pseudo-field, a task record stage_id *)
Definition wf_stage (s : record) : bool :=
  record_ok enum_table obj_specs stage_fields stage_columns stage_insert stage_read stage_listed s.
Definition wf_task (t : record) : bool :=
  record_ok enum_table obj_specs task_fields task_columns task_insert task_read task_listed t.
Definition wf_workflow (w : record) : bool :=
  record_ok enum_table obj_specs workflow_fields workflow_columns workflow_insert workflow_read workflow_listed w.

(* the caller's stage [s] is saved over the stored row [rw] *)
Definition wf_stage_update {jtext} (s : record) (rw : row jtext) : bool :=
  upd_record_ok jtext enum_table obj_specs stage_fields stage_columns stage_update_store stage_read stage_updated s rw.
Definition wf_task_update {jtext} (t : record) (rw : row jtext) : bool :=
  upd_record_ok jtext enum_table obj_specs task_fields task_columns task_update task_read task_updated t rw.

(* tasks of one stage: each wf, ids strictly ascending (ULIDs in creation order) *)
Definition wf_tasks (ts : list record) : bool := forallb wf_task ts && strs_ascending (map rec_id ts).

Definition wf_message (m : msg) : bool := wf_msg enum_table msg_classes message_types m.

(* the only fields a delivered message may differ in: the queue's own bookkeeping *)
Definition msg_metadata : list string := ["message_id"; "created_at"; "attempts"; "max_attempts"].

(* ---------- examples ---------- *)
Definition ex_mi : pyval :=
  VObj "MultiInstanceConfig"
    [("count", VInt 3); ("count_from_context", VStr ""); ("sync_on_complete", VBool true);
     ("allow_dynamic", VBool false); ("collection_from_context", VStr "items"); ("join_threshold", VInt 0);
     ("cancel_remaining", VBool false)].

Definition ex_stage : record :=
  [("id", VStr "01S1"); ("execution_id", VStr "01E1"); ("ref_id", VStr "join"); ("type", VStr "t"); ("name", VStr "");
   ("status", VEnum "WorkflowStatus" "RUNNING");
   ("context", VDict [(KStr "k", VList [VInt 1; VNone; VFloat 7]); (KStr "", VDict [])]);
   ("outputs", VDict []);
   ("requisite_stage_ref_ids", VSet [VStr "a"; VStr "b"]); ("parent_stage_id", VNone);
   ("synthetic_stage_owner", VEnum "SyntheticStageOwner" "STAGE_AFTER");
   ("start_time", VInt 5); ("end_time", VNone); ("start_time_expiry", VNone); ("scheduled_time", VInt 0);
   ("version", VInt 0);
   ("join_type", VEnum "JoinType" "N_OF_M"); ("join_threshold", VInt 0);
   ("split_type", VEnum "SplitType" "OR"); ("split_conditions", VDict [(KStr "b", VStr "x > 1")]);
   ("mi_config", ex_mi);
   ("deferred_choice_group", VNone); ("milestone_ref_id", VStr "m"); ("milestone_status", VStr "SUCCEEDED");
   ("mutex_key", VStr ""); ("cancel_region", VStr "r")].

Definition ex_task (id : string) : record :=
  [("id", VStr id); ("stage_id", VStr "01S1"); ("name", VStr "n"); ("implementing_class", VStr "shell");
   ("status", VEnum "WorkflowStatus" "NOT_STARTED"); ("start_time", VNone); ("end_time", VInt 9);
   ("stage_start", VBool true); ("stage_end", VBool false); ("loop_start", VBool false); ("loop_end", VBool false);
   ("task_exception_details", VDict [(KStr "e", VStr "boom")]); ("version", VInt 0)].

Definition ex_workflow : record :=
  [("id", VStr "01E1"); ("type", VEnum "WorkflowType" "ORCHESTRATION"); ("application", VStr "app"); ("name", VStr "w");
   ("status", VEnum "WorkflowStatus" "NOT_STARTED"); ("context", VDict [(KStr "x", VInt 1)]);
   ("start_time", VNone); ("end_time", VNone); ("start_time_expiry", VInt 12);
   ("trigger", VObj "Trigger" [("type", VStr "manual"); ("user", VStr "u"); ("parameters", VDict [(KStr "p", VBool true)]);
                               ("artifacts", VList [VDict []]); ("payload", VDict [])]);
   ("is_canceled", VBool true); ("canceled_by", VStr "u"); ("cancellation_reason", VNone);
   ("paused", VObj "PausedDetails" [("paused_by", VStr "u"); ("pause_time", VInt 1); ("resume_time", VNone); ("paused_ms", VInt 0)]);
   ("pipeline_config_id", VNone); ("is_limit_concurrent", VBool false); ("max_concurrent_executions", VInt 0);
   ("keep_waiting_pipelines", VBool false); ("origin", VStr "api")].

(* the stored row of ex_stage under the ideal JSON instance, and a caller's modified copy *)
Definition ideal_row (cols : list column) (W : list wentry) (r : record) : option (row pyval) :=
  to_row pyval ideal_enc ideal_order enum_table obj_specs cols W r.
Definition ideal_read (R : list rentry) (rw : row pyval) (f : string) : option pyval :=
  read_field pyval ideal_dec ideal_empty enum_table obj_specs R rw f.
Definition ideal_update (cols : list column) (U : list wentry) (s : record) (rw : row pyval) : option (row pyval) :=
  apply_update pyval ideal_enc ideal_order enum_table obj_specs cols U s rw.

Definition ex_stage_changed : record :=
  sset "status" (VEnum "WorkflowStatus" "SUCCEEDED")
    (sset "outputs" (VDict [(KStr "o", VInt 1)]) (sset "end_time" (VInt 77) (sset "name" (VStr "renamed in memory") ex_stage))).

(* a default instance of a message class: the non-vacuity witness for every registered class *)
Definition default_mvalue (t : mtype) : pyval :=
  match t with
  | MStr => VStr "x" | MInt => VInt 1 | MBool => VBool true | MJson => VDict [(KStr "k", VList [VInt 1])]
  | MDatetime => VDatetime 0 | MOptStr => VNone
  | MEnum cls | MOptEnum cls => match enum_members enum_table cls with (n, _) :: _ => VEnum cls n | [] => VNone end
  end.
Definition default_msg (cls : string) : msg :=
  mkMsg cls (match sget cls msg_classes with Some fts => map (fun ft => (fst ft, default_mvalue (snd ft))) fts | None => [] end).

Definition iso_const (z : Z) : string := "iso".
Definition ideal_msg_roundtrip (B : list ser_branch) (m : msg) : option msg :=
  deserialize pyval ideal_dec enum_table msg_classes message_types deser_restores deser_popped (type_name m)
    (serialize pyval ideal_enc iso_const enum_table B m).

(* ---------- what "read back unchanged" means ---------- *)
Section Statements.
Variable jtext : Type.
Variable enc : pyval -> jtext.
Variable dec : jtext -> option pyval.
Variable jempty : jtext -> bool.
Variable order : list pyval -> list pyval.
Variable iso : Z -> string.

(* every listed field of record r is read back from row rw, equal (sets: as sets) *)
Definition reads_back (R : list rentry) (listed : list string) (r : record) (rw : row jtext) : Prop :=
  forall f, In f listed ->
    exists v v', sget f r = Some v /\ read_field jtext dec jempty enum_table obj_specs R rw f = Some v' /\ veq v' v.

(* message m pushed with serialiser B is delivered as an instance of the same class with the same fields,
   equal outside the metadata keys popped by deserialize_message *)
Definition msg_back (B : list ser_branch) (m : msg) : Prop :=
  exists m', deserialize jtext dec enum_table msg_classes message_types deser_restores deser_popped (type_name m)
               (serialize jtext enc iso enum_table B m) = Some m'
    /\ m_cls m' = m_cls m
    /\ map fst (m_fields m') = map fst (m_fields m)
    /\ forall f, ~ In f deser_popped -> sget f (m_fields m') = sget f (m_fields m).
End Statements.
