(* CodecT: the vocabulary shared by the translator output (gen/Gen_Codec.v, gen/Gen_Messages.v) and the
   hand-written codec models (model/Codec.v, model/MsgCodec.v).  Types only; stdlib only.

   pyval   Python values as far as the persistence / queue codecs can tell them apart
   ftype   declared type of a dataclass field (from its annotation)
   wkind   shape of the expression bound to a column in an INSERT / UPDATE  (write side)
   rkind   shape of the expression bound to a constructor keyword in row_to_*  (read side)            *)
From Coq Require Import List ZArith String Bool.
Import ListNotations.

Inductive pkey : Type := KStr (s : string) | KInt (z : Z).

Inductive pyval : Type :=
| VNone
| VBool (b : bool)
| VInt (z : Z)
| VFloat (id : Z)                                 (* a finite float, identified by an opaque tag *)
| VStr (s : string)
| VList (l : list pyval)
| VTuple (l : list pyval)                         (* NOT JSON-representable: comes back as a list *)
| VDict (kvs : list (pkey * pyval))               (* KInt keys are NOT JSON-representable: come back as strings *)
| VSet (l : list pyval)                           (* a set; the list order carries no meaning *)
| VEnum (cls member : string)
| VObj (cls : string) (fields : list (string * pyval))   (* instance of a small dataclass (Trigger, ...) *)
| VDatetime (id : Z)
| VDefault.                                       (* "whatever the constructor default is" (fresh metadata) *)

Inductive ftype : Type :=
| TStr | TInt | TBool | TDatetime
| TJsonDict | TJsonList | TSetStr
| TEnum (cls : string)
| TObj (cls : string)
| TOpt (t : ftype)
| TOther.

Inductive mtype : Type :=
| MStr | MInt | MBool | MJson | MDatetime | MOptStr
| MEnum (cls : string) | MOptEnum (cls : string).

Inductive affinity : Type := AText | AInteger.
Record column : Type := mkCol { c_name : string; c_aff : affinity; c_notnull : bool }.

Inductive lit : Type := LStr (s : string) | LInt (z : Z).

Inductive wkind : Type :=
| WRaw                       (* obj.f *)
| WParam                     (* a function parameter (execution_id, stage_id, expected_phase) *)
| WConst (z : Z)             (* an integer literal inside the SQL text *)
| WVersionBump               (* col = col + 1 inside the SQL text *)
| WEnumName                  (* obj.f.name *)
| WEnumValue                 (* obj.f.value *)
| WOptEnumValue              (* obj.f.value if obj.f else None *)
| WJson (default_str : bool) (* json.dumps(obj.f [, default=str]) *)
| WJsonList                  (* json.dumps(list(obj.f)) *)
| WJsonObj (cls : string)    (* json.dumps(<to-dict of obj.f>) *)
| WOptJsonObj (cls : string) (* json.dumps(<to-dict of obj.f>) if obj.f else None *)
| WBool01.                   (* 1 if obj.f else 0 *)

Inductive rkind : Type :=
| RRaw                                (* row[c] *)
| ROr (d : lit)                       (* row[c] or d *)
| REnumByName (cls : string)          (* Cls[row[c]] *)
| REnumByValue (cls : string)         (* Cls(row[c]) *)
| REnumByValueOr (cls dm : string)    (* Cls(row[c]) if row[c] else Cls.dm *)
| ROptEnumByValue (cls : string)      (* Cls(row[c]) if row[c] else None *)
| RJson (l : string)                  (* json.loads(row[c] or l) *)
| RJsonIfStr (l : string)             (* json.loads(row[c] or l) if isinstance(row[c], str) else <l> *)
| RSetOfJson (l : string)             (* set(json.loads(row[c] or l)) *)
| RJsonObj (cls l : string)           (* Cls.from_dict(json.loads(row[c] or l)) *)
| ROptJsonObj (cls : string)          (* from-dict of json.loads(row[c]) if row[c] and the dict is non-empty, else None *)
| RBool.                              (* bool(row[c]) *)

Record wentry : Type := mkW { w_col : string; w_field : string; w_kind : wkind }.
Record rentry : Type := mkR { r_field : string; r_col : string; r_kind : rkind }.

(* a small dataclass stored as a JSON object: its fields, the (key, field) list of its to-dict and the
   (field, key, default) list of its from-dict *)
Record objspec : Type := mkObj {
  o_cls : string;
  o_fields : list (string * ftype);
  o_to : list (string * string);
  o_from : list (string * string * pyval) }.

Inductive flow_step : Type :=
| FSelectExists | FUpdate | FRaiseIfNoRow | FVersionIncr | FUpsertTasks | FElseInsert | FCommit.

(* message serialisers: the branches of the per-value if/elif chain, in order *)
Inductive ser_branch : Type := SBSkipPrivate | SBDatetimeIso | SBEnumName | SBEnumValue | SBIdentity.
Inductive guard : Type := GIsStr | GTruthy.
Record restore : Type := mkRestore { rs_key : string; rs_guard : guard; rs_cls : string }.
