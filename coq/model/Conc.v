(* Conc: statement-level small-step semantics of several workers racing on one workflow (C04, C11).

   Durable state = stage rows with version / status / the engine-owned context flags, the claim table, the queue
   as the list of pushed rows, the processed marks, the ghost ledger of NOT_STARTED->RUNNING claim commits (the
   record types of coq/model/Engine.v restricted to what the programs touch).  Each WORKER is a program counter over the statements of one handler invocation:

     Read steps  - each SELECT whose result the handler uses is its own atomic snapshot of the durable state
                   (Python's sqlite3 opens no transaction for a SELECT): retrieve_stage; get_upstream_stages;
                   repository.retrieve for the mutex fast path, for the deferred-choice fast path and for the
                   sibling cancel; get_downstream_stages; the re-read of _update_join_tracking;
     Txn steps   - first DML .. COMMIT / ROLLBACK: atomic and mutually exclusive (SQLite's single-writer lock,
                   trusted): the claim transaction [acquire_claim(mutex) ; acquire_claim(choice) ;
                   store_stage(expected_phase)], every queue.push (own commit), every `with transaction` block,
                   every plain repository.store_stage, the post-handler processed mark, the claims sweep.

   Programs: StartStageHandler (handlers/start_stage/*.py), CompleteStageHandler with _update_join_tracking's
   re-read/CAS loop (handlers/complete_stage/{handler,split_logic}.py), SignalStageHandler's persistent-buffer
   branch (handlers/signal_stage.py; the generic "non-claimant writer that bumps the version"), and
   cleanup_completed_stage_claims (persistence/sqlite/operations.py).  A schedule is a list of worker indices;
   `run_conc` interleaves.  The retry loops carry their real counts as fuel (join tracking: Gen_Occ.
   join_tracking_max_tries; retry_on_concurrency_error: Gen_Config.concurrency_max_retries re-runs) and the
   exhausted outcome is the explicit pc PRaised (the handler raised: the message stays in the queue).

   Over-approximation (sound for the safety theorems, which quantify over ALL schedules): the model has no
   write lock, so it also admits schedules SQLite excludes (a writer between the DML and the COMMIT of another
   writer; a writer while a failed plain store_stage keeps its implicit transaction open).  The correspondence
   (harness/props/c04.py) runs real threads only through schedules SQLite admits.

   Not modelled (pc PUnmodelled, never reached by the correspondence): a message for a stage row that does not
   exist, SignalStage for a SUSPENDED stage; not represented at all: synthetic stages, milestone / start-time
   expiry checks, the data merged by _plan_stage (C16), task rows' own versions (C07). *)
From Coq Require Import List Bool Arith ZArith Lia.
Import ListNotations.
From Stab.model Require Import Base StatusM Readiness StageStat.
From Stab.gen Require Import Gen_Config Gen_Guards Gen_Occ Gen_Conc.

(* ------------------------------------------------------------------------------------------ *)
(* durable state                                                                               *)
(* The record types and the functions get_stage .. siblings_not_started below are the ones of  *)
(* coq/model/Engine.v (validated at commit granularity by harness/engine_corr.py), restricted  *)
(* to the fields the three programs read or write; Conc keeps its own copy so that the engine  *)
(* model can grow (new handlers, new stage fields) without touching the race proofs.  User     *)
(* context / outputs are not represented (C16); a task is its status.                          *)
(* ------------------------------------------------------------------------------------------ *)

Record stage := {
  s_reqs : list nat;                 (* requisite_stage_ref_ids, as stage indices *)
  s_join : join_type;
  s_threshold : Z;
  s_cof : bool;                      (* context.continuePipelineOnFailure *)
  s_fp : bool;                       (* context.failPipeline (default true) *)
  s_enabled : option bool;           (* context.stageEnabled when it is a bool literal *)
  s_mutex : option nat;              (* mutex_key *)
  s_choice : option nat;             (* deferred_choice_group *)
  s_status : status;
  s_started : bool;                  (* start_time is not None *)
  s_ended : bool;                    (* end_time is not None *)
  s_version : Z;
  s_fired : bool;                    (* context._join_fired *)
  s_branches : list nat;             (* context._completed_branches *)
  s_bypass : bool;                   (* context._jump_bypass *)
  s_jump_count : Z;                  (* context._jump_count (0 when absent) *)
  s_buffered : list nat;             (* context._buffered_signals (signal name tags) *)
  s_has_exc : bool;                  (* "exception" in context *)
  s_plan_pending : bool;             (* context._plan_pending: claimed, plan commit still to come *)
  s_tasks : list status;             (* task statuses *)
}.

Inductive msg :=
| MCompleteWorkflow (retry : Z)
| MStartStage (s : nat) (retry : Z)
| MCompleteStage (s : nat)
| MSkipStage (s : nat)
| MCancelStage (s : nat)
| MStartTask (s t : nat)
| MSignalStage (s name : nat) (persistent : bool)
| MOther (code s t : nat).           (* a queue row of a type none of the programs pushes *)

Record qrow := { q_id : nat; q_msg : msg }.

Record state := {
  w_status : status;                 (* pipeline_executions.status *)
  w_stages : list stage;
  w_queue : list qrow;               (* in id order *)
  w_next : nat;                      (* next AUTOINCREMENT id *)
  w_processed : list nat;            (* processed_messages (row ids), newest first *)
  w_claims : list (bool * nat * nat);(* stage_claims of this execution: (is_mutex, key, owner stage) *)
  g_starts : list (nat * Z);         (* ghost: NOT_STARTED->RUNNING claim commits (stage, jump_count), newest first *)
}.

Definition get_stage (s : state) (i : nat) : option stage := nth_error (w_stages s) i.

Fixpoint list_set {A} (l : list A) (i : nat) (x : A) : list A :=
  match l, i with
  | [], _ => []
  | _ :: r, O => x :: r
  | a :: r, S j => a :: list_set r j x
  end.

Definition put_stage (i : nat) (st : stage) (s : state) : state :=
  {| w_status := w_status s; w_stages := list_set (w_stages s) i st; w_queue := w_queue s; w_next := w_next s;
     w_processed := w_processed s; w_claims := w_claims s; g_starts := g_starts s |}.

Definition push (m : msg) (s : state) : state :=
  {| w_status := w_status s; w_stages := w_stages s; w_queue := w_queue s ++ [{| q_id := w_next s; q_msg := m |}];
     w_next := S (w_next s); w_processed := w_processed s; w_claims := w_claims s; g_starts := g_starts s |}.

Definition mark (id : nat) (s : state) : state :=
  {| w_status := w_status s; w_stages := w_stages s; w_queue := w_queue s; w_next := w_next s;
     w_processed := if mem_nat id (w_processed s) then w_processed s else id :: w_processed s;
     w_claims := w_claims s; g_starts := g_starts s |}.

Definition with_claims (c : list (bool * nat * nat)) (s : state) : state :=
  {| w_status := w_status s; w_stages := w_stages s; w_queue := w_queue s; w_next := w_next s;
     w_processed := w_processed s; w_claims := c; g_starts := g_starts s |}.

Definition ghost_start (i : nat) (jc : Z) (s : state) : state :=
  {| w_status := w_status s; w_stages := w_stages s; w_queue := w_queue s; w_next := w_next s;
     w_processed := w_processed s; w_claims := w_claims s; g_starts := (i, jc) :: g_starts s |}.

(* store_stage of an object whose only changes are the given ones; version + 1 *)
Definition st_set (st : stage) (x : status) (started ended : bool) (fired : bool) (branches : list nat)
           (has_exc : bool) (tasks : list status) : stage :=
  {| s_reqs := s_reqs st; s_join := s_join st; s_threshold := s_threshold st; s_cof := s_cof st; s_fp := s_fp st;
     s_enabled := s_enabled st; s_mutex := s_mutex st; s_choice := s_choice st;
     s_status := x; s_started := started; s_ended := ended; s_version := s_version st + 1;
     s_fired := fired; s_branches := branches; s_bypass := s_bypass st; s_jump_count := s_jump_count st;
     s_buffered := s_buffered st; s_has_exc := has_exc; s_plan_pending := s_plan_pending st; s_tasks := tasks |}.

Definition st_status (st : stage) (x : status) : stage :=
  st_set st x (s_started st) (s_ended st) (s_fired st) (s_branches st) (s_has_exc st) (s_tasks st).
Definition st_touch (st : stage) : stage := st_status st (s_status st).
Definition st_end (st : stage) (x : status) : stage :=
  st_set st x (s_started st) true (s_fired st) (s_branches st) (s_has_exc st) (s_tasks st).
Definition st_exc (st : stage) : stage :=
  st_set st (s_status st) (s_started st) (s_ended st) (s_fired st) (s_branches st) true (s_tasks st).

(* in-memory changes of the engine-owned context flags (no store: the version is untouched) *)
Definition st_ctl (st : stage) (bypass : bool) (buffered : list nat) : stage :=
  {| s_reqs := s_reqs st; s_join := s_join st; s_threshold := s_threshold st; s_cof := s_cof st; s_fp := s_fp st;
     s_enabled := s_enabled st; s_mutex := s_mutex st; s_choice := s_choice st;
     s_status := s_status st; s_started := s_started st; s_ended := s_ended st; s_version := s_version st;
     s_fired := s_fired st; s_branches := s_branches st; s_bypass := bypass; s_jump_count := s_jump_count st;
     s_buffered := buffered; s_has_exc := s_has_exc st; s_plan_pending := s_plan_pending st; s_tasks := s_tasks st |}.

Definition with_pending (st : stage) (p : bool) : stage :=
  {| s_reqs := s_reqs st; s_join := s_join st; s_threshold := s_threshold st; s_cof := s_cof st; s_fp := s_fp st;
     s_enabled := s_enabled st; s_mutex := s_mutex st; s_choice := s_choice st;
     s_status := s_status st; s_started := s_started st; s_ended := s_ended st; s_version := s_version st;
     s_fired := s_fired st; s_branches := s_branches st; s_bypass := s_bypass st; s_jump_count := s_jump_count st;
     s_buffered := s_buffered st; s_has_exc := s_has_exc st; s_plan_pending := p; s_tasks := s_tasks st |}.

Definition seqn (n : nat) : list nat := seq 0 n.

(* get_downstream_stages: stages whose requisites contain i, in creation (row) order *)
Definition downstream (s : state) (i : nat) : list nat :=
  filter (fun j => match get_stage s j with Some d => mem_nat i (s_reqs d) | None => false end)
         (seqn (length (w_stages s))).

(* get_upstream_stages: the requisites found, in row order, with their durable status *)
Definition upstream (s : state) (st : stage) : list up :=
  flat_map (fun j => match get_stage s j with
                     | Some u => if mem_nat j (s_reqs st) then [(j, s_status u)] else []
                     | None => [] end)
           (seqn (length (w_stages s))).

Definition rstage_of (st : stage) : rstage :=
  {| r_join := s_join st; r_threshold := s_threshold st; r_fired := s_fired st; r_activated := None |}.

Definition should_skip (st : stage) : bool :=
  match s_enabled st with Some false => true | _ => false end.

(* _is_mutex_blocked / _is_deferred_choice_claimed on a snapshot of all stages (status tests from Gen_Conc) *)
Definition mutex_blocked (s : state) (i : nat) (st : stage) : bool :=
  match s_mutex st with
  | None => false
  | Some k => existsb (fun j => negb (j =? i) &&
                 match get_stage s j with
                 | Some o => match s_mutex o with Some k' => (k =? k') && mutex_blocks (s_status o) | None => false end
                 | None => false end) (seqn (length (w_stages s)))
  end.

Definition choice_claimed (s : state) (i : nat) (st : stage) : bool :=
  match s_choice st with
  | None => false
  | Some g => existsb (fun j => negb (j =? i) &&
                 match get_stage s j with
                 | Some o => match s_choice o with Some g' => (g =? g') && choice_blocks (s_status o) | None => false end
                 | None => false end) (seqn (length (w_stages s)))
  end.

Definition claim_lookup (cl : list (bool * nat * nat)) (is_mutex : bool) (k : nat) : option nat :=
  match find (fun c => Bool.eqb (fst (fst c)) is_mutex && (snd (fst c) =? k)) cl with
  | Some c => Some (snd c)
  | None => None
  end.

(* AtomicTransaction.acquire_claim inside one write transaction: (acquired?, new claim table) *)
Definition acquire_claim (s : state) (is_mutex : bool) (k : nat) (i : nat) (steal : bool) : bool * list (bool * nat * nat) :=
  match claim_lookup (w_claims s) is_mutex k with
  | None => (true, w_claims s ++ [(is_mutex, k, i)])
  | Some owner =>
      if owner =? i then (true, w_claims s)
      else if steal && match get_stage s owner with Some o => is_complete (s_status o) | None => true end
           then (true, map (fun c => if Bool.eqb (fst (fst c)) is_mutex && (snd (fst c) =? k) then (is_mutex, k, i) else c) (w_claims s))
      else (false, w_claims s)
  end.

(* _collect_start_messages without synthetic stages *)
Definition first_msgs (i : nat) (st : stage) : list msg :=
  match s_tasks st with
  | [] => [MCompleteStage i]
  | _ => [MStartTask i 0]
  end.

Definition siblings_not_started (s : state) (i : nat) (g : nat) : list nat :=
  filter (fun j => negb (j =? i) &&
            match get_stage s j with
            | Some o => match s_choice o with Some g' => (g =? g') && sibling_cancelled (s_status o) | None => false end
            | None => false end) (seqn (length (w_stages s))).

(* ------------------------------------------------------------------------------------------ *)
(* queue-only writes, stage modifications                                                      *)
(* ------------------------------------------------------------------------------------------ *)

Inductive qop := QPush (m : msg) | QMark (id : nat).

Definition apply_qop (s : state) (q : qop) : state :=
  match q with QPush m => push m s | QMark id => mark id s end.
Definition apply_qops (s : state) (qs : list qop) : state := fold_left apply_qop qs s.

(* what a handler changes in its in-memory stage object before a store_stage; every store bumps the version *)
Inductive wmod :=
| MPlan                   (* plan commit: _join_fired for DISCRIMINATOR / N_OF_M, _plan_pending cleared *)
| MTerminal               (* wait budget exhausted: TERMINAL, end_time, exception *)
| MBranch (b : nat)       (* _update_join_tracking: _completed_branches + [b] *)
| MEnd (x : status)       (* CompleteStage: status x, end_time *)
| MBuffer (name : nat).   (* SignalStage, persistent, stage not SUSPENDED: _buffered_signals + [name] *)

(* the tests already made when an MEnd pc is built (x <> RUNNING: handler.py `if status == RUNNING: ... return`;
   RUNNING -> NOT_STARTED is not in the transition table, set_stage_status validates) repeated so that the
   step function is total on arbitrary pcs *)
Definition end_ok (x : status) : bool := negb (status_eqb x RUNNING) && negb (status_eqb x NOT_STARTED).

Definition apply_mod (m : wmod) (o : stage) : stage :=
  match m with
  | MPlan =>
      with_pending (st_set o (s_status o) (s_started o) (s_ended o)
                           (match s_join o with J_DISCRIMINATOR | J_N_OF_M => true | _ => s_fired o end)
                           (s_branches o) (s_has_exc o) (s_tasks o)) false
  | MTerminal =>
      if status_eqb (s_status o) NOT_STARTED
      then st_set o TERMINAL (s_started o) true (s_fired o) (s_branches o) true (s_tasks o)
      else st_exc o
  | MBranch b =>
      st_set o (s_status o) (s_started o) (s_ended o) (s_fired o) (s_branches o ++ [b]) (s_has_exc o) (s_tasks o)
  | MEnd x => if end_ok x then st_end o x else st_touch o
  | MBuffer n => st_touch (st_ctl o (s_bypass o) (s_buffered o ++ [n]))
  end.

(* `del stage.context["_jump_bypass"]` done in memory before the readiness evaluation *)
Definition eff (st : stage) : stage :=
  if s_bypass st then st_ctl st false (s_buffered st) else st.

(* the object the claim transaction stores: zombie re-plan (stage already RUNNING) stores it unchanged *)
Definition claim_obj (st : stage) : stage :=
  let e := eff st in
  if status_eqb (s_status e) claim_phase_zombie then st_touch e
  else with_pending (st_set e RUNNING true (s_ended e) (s_fired e) (s_branches e) (s_has_exc e) (s_tasks e)) true.

(* ------------------------------------------------------------------------------------------ *)
(* workers                                                                                     *)
(* ------------------------------------------------------------------------------------------ *)

Inductive pc :=
(* StartStage *)
| SReadStage                       (* before retrieve_stage *)
| SReadUps (st : stage)            (* before get_upstream_stages; st = the stage row as read *)
| SReadMutex (st : stage)          (* before _is_mutex_blocked's repository.retrieve *)
| SReadChoice (st : stage)         (* before _is_deferred_choice_claimed's repository.retrieve *)
| SClaim (st : stage)              (* before the claim transaction *)
| SReadSibs (cl : stage)           (* claimed; before _cancel_deferred_choice_siblings' repository.retrieve *)
(* generic *)
| PCas (j : nat) (base : stage) (phase : bool) (m : wmod) (qs : list qop) (ok fail : pc)
                                   (* store_stage(apply m base) [expected_phase = base's status] ; qs ; COMMIT *)
| PCommits (cs : list (list qop)) (next : pc)   (* unconditional commits, one Txn step each *)
| PMark                            (* _handle_message's post-handler mark_message_processed (own commit) *)
| PDone
| PRaised                          (* the handler raised: no mark, the message stays in the queue *)
| PUnmodelled
(* CompleteStage *)
| CReadStage (outer : nat)         (* before retrieve_stage; outer = re-runs left in retry_on_concurrency_error *)
| CReadDown (outer : nat) (st : stage) (x : status)
| CTrackRead (outer : nat) (st : stage) (x : status) (ds todo : list nat) (fuel : nat)
(* SignalStage (persistent) *)
| BRead (outer : nat)
(* claims sweep *)
| WSweep.

Inductive wkind :=
| WStart (id i : nat) (retry : Z)
| WComplete (id b : nat)
| WSignal (id i name : nat)
| WSweeper.

Record worker := { w_kind : wkind; w_pc : pc }.

Definition reruns : nat := Z.to_nat concurrency_max_retries.
Definition track_tries : nat := Z.to_nat join_tracking_max_tries.

Definition init_pc (k : wkind) : pc :=
  match k with
  | WStart _ _ _ => SReadStage
  | WComplete _ _ => CReadStage reruns
  | WSignal _ _ _ => BRead reruns
  | WSweeper => WSweep
  end.
Definition spawn (k : wkind) : worker := {| w_kind := k; w_pc := init_pc k |}.

Definition kind_id (k : wkind) : nat :=
  match k with WStart id _ _ => id | WComplete id _ => id | WSignal id _ _ => id | WSweeper => 0 end.

Definition commits (cs : list (list qop)) (next : pc) : pc :=
  match cs with [] => next | _ => PCommits cs next end.

Inductive skind := KR | KT.

Inductive effect :=
| ENone
| EQ (qs : list qop)
| EClaim (i : nat) (cl : list (bool * nat * nat)) (obj : stage) (fresh : bool)
| EPut (j : nat) (obj : stage) (qs : list qop)
| ESweep.

Definition apply_effect (s : state) (e : effect) : state :=
  match e with
  | ENone => s
  | EQ qs => apply_qops s qs
  | EClaim i cl obj fresh =>
      let s1 := put_stage i obj (with_claims cl s) in
      if fresh then ghost_start i (s_jump_count obj) s1 else s1
  | EPut j obj qs => apply_qops (put_stage j obj s) qs
  | ESweep => if is_complete (w_status s) then with_claims [] s else s
  end.

(* store_stage's UPDATE ... WHERE id AND version [AND status = expected_phase] matched a row *)
Definition cas_ok (s : state) (j : nat) (base : stage) (phase : bool) : bool :=
  match get_stage s j with
  | Some row => (s_version row =? s_version base)%Z && (negb phase || status_eqb (s_status row) (s_status base))
  | None => false
  end.

Definition retry_or_raise (k : wkind) (outer : nat) : pc :=
  match outer with
  | S o => match k with WComplete _ _ => CReadStage o | WSignal _ _ _ => BRead o | _ => PRaised end
  | O => PRaised
  end.

(* ---- StartStage ---- *)
Definition plan_pc (id i : nat) (cl : stage) : pc :=
  PCas i cl false MPlan (QMark id :: map QPush (first_msgs i cl)) PMark
       (if plan_conc_error_swallowed then PMark else PRaised).

Definition requeue_pc (i : nat) (retry : Z) : pc :=
  commits [[QPush (MStartStage i (retry + mutex_requeue_increment))]] PMark.
Definition cancel_self_pc (id i : nat) : pc := commits [[QMark id; QPush (MCancelStage i)]] PMark.

Definition after_choice_check (st : stage) : pc := SClaim st.
Definition after_mutex_check (st : stage) : pc :=
  match s_choice (eff st) with
  | Some _ => if choice_fast_guard (s_status (eff st)) then SReadChoice st else after_choice_check st
  | None => after_choice_check st
  end.

Definition after_ups (s : state) (id i : nat) (retry : Z) (st : stage) : pc :=
  let ups := upstream s st in
  let r := evaluate_readiness (rstage_of st) ups (s_bypass st) in
  match rr_phase r with
  | P_READY =>
      let e := eff st in
      let zombie := status_eqb (s_status e) RUNNING && (s_plan_pending e || is_nil (s_tasks e)) in
      if negb (start_stage_fresh (s_status e)) && negb zombie then PMark
      else if should_skip e then commits [[QMark id; QPush (MSkipStage i)]] PMark
      else match s_mutex e with
           | Some _ => SReadMutex st
           | None => after_mutex_check st
           end
  | P_SKIP => commits [[QPush (MCompleteWorkflow 0)]] PMark
  | _ =>
      if start_stage_late (s_status st) then PMark
      else if start_stage_waits r ups then PMark
      else if wait_exhausted retry max_stage_wait_retries
           then PCas i st false MTerminal [QPush (MCompleteStage i)] PMark PRaised
      else commits [[QPush (MStartStage i (retry + 1))]] PMark
  end.

Definition claim_step (s : state) (id i : nat) (retry : Z) (st : stage) : effect * pc :=
  let e := eff st in
  let zombie := status_eqb (s_status e) claim_phase_zombie in
  let expected := if zombie then claim_phase_zombie else claim_phase_fresh in
  let m := match s_mutex e with
           | Some k => acquire_claim s true k i mutex_claim_steals
           | None => (true, w_claims s) end in
  if negb (fst m) then (ENone, requeue_pc i retry)                    (* _ClaimBlockedError("mutex"): rollback *)
  else
    let c := match s_choice e with
             | Some g => acquire_claim (with_claims (snd m) s) false g i choice_claim_steals
             | None => (true, snd m) end in
    if negb (fst c) then (ENone, cancel_self_pc id i)                 (* _ClaimBlockedError("choice"): rollback *)
    else
      match get_stage s i with
      | Some row =>
          if (s_version row =? s_version st)%Z && (negb claim_uses_expected_phase || status_eqb (s_status row) expected)
          then (EClaim i (snd c) (claim_obj st) (negb zombie),
                match s_choice e with
                | Some _ => SReadSibs (claim_obj st)
                | None => plan_pc id i (claim_obj st) end)
          else (ENone, if claim_conc_error_swallowed then PMark else PRaised)   (* ConcurrencyError: rollback *)
      | None => (ENone, PUnmodelled)
      end.

(* _cancel_deferred_choice_siblings: one queue.push(CancelStage) per sibling seen NOT_STARTED, each its own commit *)
Definition sibs_pc (s : state) (id i : nat) (cl : stage) : pc :=
  commits (match s_choice cl with
           | Some g => map (fun j => [QPush (MCancelStage j)]) (siblings_not_started s i g)
           | None => [] end) (plan_pc id i cl).

(* ---- CompleteStage ---- *)
Definition success_like (x : status) : bool :=
  status_eqb x SUCCEEDED || status_eqb x FAILED_CONTINUE || status_eqb x SKIPPED.

Definition final_pc (k : wkind) (outer id b : nat) (st : stage) (x : status) (ds : list nat) : pc :=
  PCas b st false (MEnd x)
       (QMark id :: map QPush (match ds with [] => [MCompleteWorkflow 0] | _ => map (fun d => MStartStage d 0) ds end))
       PMark (retry_or_raise k outer).

Definition track_pc (k : wkind) (outer id b : nat) (st : stage) (x : status) (ds todo : list nat) (fuel : nat) : pc :=
  match todo with
  | [] => final_pc k outer id b st x ds
  | _ => CTrackRead outer st x ds todo fuel
  end.

Definition tracked_join (s : state) (d : nat) : bool :=
  match get_stage s d with
  | Some dst => match s_join dst with J_DISCRIMINATOR | J_N_OF_M => true | _ => false end
  | None => false
  end.

Definition complete_read (s : state) (k : wkind) (outer id b : nat) : pc :=
  match get_stage s b with
  | None => PUnmodelled
  | Some st =>
      if status_eqb (s_status st) NOT_STARTED then commits [[QMark id]] PMark
      else if negb (complete_stage_guard (s_status st)) then
        (if is_halt (s_status st) then commits [[QMark id; QPush (MCompleteWorkflow 0)]] PMark else PMark)
      else
        let x := determine_status (s_status st) (s_cof st) (s_fp st) [] (s_tasks st) [] in
        if status_eqb x RUNNING then commits [[QMark id]] PMark
        else if negb (can_transition (s_status st) x) then PRaised
        else if success_like x then CReadDown outer st x
        else PCas b st false (MEnd x) [QPush (MCancelStage b); QPush (MCompleteWorkflow 0)] PMark (retry_or_raise k outer)
  end.

Definition track_read (s : state) (k : wkind) (outer id b : nat) (st : stage) (x : status) (ds todo : list nat) (fuel : nat) : pc :=
  match todo with
  | [] => final_pc k outer id b st x ds
  | d :: rest =>
      match get_stage s d with
      | None => PUnmodelled
      | Some fr =>
          if mem_nat b (s_branches fr) then track_pc k outer id b st x ds rest track_tries
          else PCas d fr true (MBranch b) []
                    (track_pc k outer id b st x ds rest track_tries)
                    (match fuel with
                     | S (S f) => CTrackRead outer st x ds todo (S f)
                     | _ => retry_or_raise k outer end)
      end
  end.

(* ---- SignalStage (persistent) ---- *)
Definition signal_read (s : state) (k : wkind) (outer id i name : nat) : pc :=
  match get_stage s i with
  | None => PUnmodelled
  | Some st =>
      if status_eqb (s_status st) SUSPENDED then PUnmodelled
      else PCas i st false (MBuffer name) [QMark id] PMark (retry_or_raise k outer)
  end.

(* ---- one step of one worker: None = the worker has nothing left to do ---- *)
Definition step_worker (s : state) (w : worker) : option (skind * effect * pc) :=
  let k := w_kind w in
  match w_pc w with
  | PDone | PRaised | PUnmodelled => None
  | PMark => Some (KT, EQ [QMark (kind_id k)], PDone)
  | PCommits [] next => Some (KT, EQ [], next)
  | PCommits (c :: rest) next => Some (KT, EQ c, commits rest next)
  | PCas j base phase m qs ok fail =>
      if cas_ok s j base phase then Some (KT, EPut j (apply_mod m base) qs, ok)
      else Some (KT, ENone, fail)
  | WSweep => match k with WSweeper => Some (KT, ESweep, PDone) | _ => None end
  | SReadStage =>
      match k with
      | WStart id i retry =>
          Some (KR, ENone, match get_stage s i with Some st => SReadUps st | None => PUnmodelled end)
      | _ => None end
  | SReadUps st =>
      match k with WStart id i retry => Some (KR, ENone, after_ups s id i retry st) | _ => None end
  | SReadMutex st =>
      match k with
      | WStart id i retry =>
          Some (KR, ENone, if mutex_blocked s i (eff st) then requeue_pc i retry else after_mutex_check st)
      | _ => None end
  | SReadChoice st =>
      match k with
      | WStart id i retry =>
          Some (KR, ENone, if choice_claimed s i (eff st) then cancel_self_pc id i else after_choice_check st)
      | _ => None end
  | SClaim st =>
      match k with
      | WStart id i retry => let r := claim_step s id i retry st in Some (KT, fst r, snd r)
      | _ => None end
  | SReadSibs cl =>
      match k with WStart id i retry => Some (KR, ENone, sibs_pc s id i cl) | _ => None end
  | CReadStage outer =>
      match k with WComplete id b => Some (KR, ENone, complete_read s k outer id b) | _ => None end
  | CReadDown outer st x =>
      match k with
      | WComplete id b =>
          let ds := downstream s b in
          Some (KR, ENone, track_pc k outer id b st x ds (filter (tracked_join s) ds) track_tries)
      | _ => None end
  | CTrackRead outer st x ds todo fuel =>
      match k with WComplete id b => Some (KR, ENone, track_read s k outer id b st x ds todo fuel) | _ => None end
  | BRead outer =>
      match k with WSignal id i name => Some (KR, ENone, signal_read s k outer id i name) | _ => None end
  end.

(* ------------------------------------------------------------------------------------------ *)
(* interleaving                                                                                *)
(* ------------------------------------------------------------------------------------------ *)

Definition cfg := (state * list worker)%type.

Definition step_cfg (c : cfg) (n : nat) : cfg :=
  match nth_error (snd c) n with
  | None => c
  | Some w =>
      match step_worker (fst c) w with
      | None => c
      | Some (_, e, p) => (apply_effect (fst c) e, list_set (snd c) n {| w_kind := w_kind w; w_pc := p |})
      end
  end.

Definition run_conc (sched : list nat) (c : cfg) : cfg := fold_left step_cfg sched c.

(* the kind of every step taken (None: the scheduled worker had nothing to do), for the correspondence *)
Fixpoint trace_conc (sched : list nat) (c : cfg) : list (option skind) :=
  match sched with
  | [] => []
  | n :: r =>
      (match nth_error (snd c) n with
       | Some w => match step_worker (fst c) w with Some (k, _, _) => Some k | None => None end
       | None => None end) :: trace_conc r (step_cfg c n)
  end.

Definition finished (w : worker) : bool :=
  match w_pc w with PDone | PRaised | PUnmodelled => true | _ => false end.

(* ------------------------------------------------------------------------------------------ *)
(* acquire_claim exactly as coded (statement by statement on the claim table), for the lemma   *)
(* acquire_claim_coded_eq: inside one write transaction it computes Engine.acquire_claim       *)
(* ------------------------------------------------------------------------------------------ *)

Definition claim_is (is_mutex : bool) (k : nat) (c : bool * nat * nat) : bool :=
  Bool.eqb (fst (fst c)) is_mutex && (snd (fst c) =? k).

(* INSERT OR IGNORE: (rowcount, table) *)
Definition insert_or_ignore (cl : list (bool * nat * nat)) (is_mutex : bool) (k i : nat) : nat * list (bool * nat * nat) :=
  match claim_lookup cl is_mutex k with
  | None => (1, cl ++ [(is_mutex, k, i)])
  | Some _ => (0, cl)
  end.

(* UPDATE stage_claims SET stage_id = :stage_id WHERE key AND stage_id = :owner_id: (rowcount, table) *)
Definition update_owner (cl : list (bool * nat * nat)) (is_mutex : bool) (k i owner : nat) : nat * list (bool * nat * nat) :=
  (length (filter (fun c => claim_is is_mutex k c && (snd c =? owner)) cl),
   map (fun c => if claim_is is_mutex k c && (snd c =? owner) then (is_mutex, k, i) else c) cl).

Definition acquire_claim_coded (s : state) (is_mutex : bool) (k i : nat) (steal : bool) : bool * list (bool * nat * nat) :=
  let r1 := insert_or_ignore (w_claims s) is_mutex k i in
  if fst r1 =? 1 then (true, snd r1)
  else
    match claim_lookup (snd r1) is_mutex k with
    | None => let r2 := insert_or_ignore (snd r1) is_mutex k i in (fst r2 =? 1, snd r2)   (* vanished-row retry *)
    | Some owner =>
        if owner =? i then (true, snd r1)
        else if steal then
          let owner_gone := match get_stage s owner with None => true | Some _ => false end in
          let owner_terminal := match get_stage s owner with Some o => is_complete (s_status o) | None => false end in
          if owner_gone || owner_terminal
          then let r3 := update_owner (snd r1) is_mutex k i owner in (fst r3 =? 1, snd r3)
          else (false, snd r1)
        else (false, snd r1)
    end.

(* ------------------------------------------------------------------------------------------ *)
(* helpers for the correspondence: compact stage constructor and the abstraction compared      *)
(* ------------------------------------------------------------------------------------------ *)

Definition mk_stage (reqs : list nat) (join : join_type) (threshold : Z) (mutex choice : option nat)
           (st : status) (started : bool) (version : Z) (fired : bool) (branches : list nat) (buffered : list nat)
           (pending : bool) (tasks : list status) : stage :=
  {| s_reqs := reqs; s_join := join; s_threshold := threshold; s_cof := false; s_fp := true; s_enabled := None;
     s_mutex := mutex; s_choice := choice; s_status := st; s_started := started;
     s_ended := is_complete st; s_version := version; s_fired := fired; s_branches := branches; s_bypass := false;
     s_jump_count := 0; s_buffered := buffered; s_has_exc := false; s_plan_pending := pending; s_tasks := tasks |}.

Definition mk_state (wst : status) (stages : list stage) (queue : list (nat * msg)) (next : nat)
           (claims : list (bool * nat * nat)) : state :=
  {| w_status := wst; w_stages := stages;
     w_queue := map (fun p => {| q_id := fst p; q_msg := snd p |}) queue; w_next := next;
     w_processed := []; w_claims := claims; g_starts := [] |}.

(* per stage: status, version, _plan_pending, _join_fired, _completed_branches, #_buffered_signals *)
Definition stage_view (st : stage) : status * Z * bool * bool * list nat * nat :=
  (s_status st, s_version st, s_plan_pending st, s_fired st, s_branches st, length (s_buffered st)).

(* message as the harness prints it: (type code, stage, task-or-0, retry) *)
Definition msg_view (m : msg) : nat * nat * nat * Z :=
  match m with
  | MCompleteWorkflow r => (1, 0, 0, r)
  | MStartStage s r => (3, s, 0, r)
  | MCompleteStage s => (4, s, 0, 0%Z)
  | MSkipStage s => (5, s, 0, 0%Z)
  | MCancelStage s => (6, s, 0, 0%Z)
  | MStartTask s t => (7, s, t, 0%Z)
  | MSignalStage s n _ => (11, s, n, 0%Z)
  | MOther c s t => (c, s, t, 0%Z)
  end.

Record view := {
  v_stages : list (status * Z * bool * bool * list nat * nat);
  v_claims : list (bool * nat * nat);          (* in table order *)
  v_queue : list (nat * (nat * nat * nat * Z)); (* (row id, message) in id order *)
  v_processed : list nat;                       (* newest first *)
  v_starts : list nat;                          (* stages that committed NOT_STARTED -> RUNNING, newest first *)
  v_pcs : list nat;                             (* per worker: 0 done, 1 raised, 2 unmodelled, 3 unfinished *)
}.

Definition pc_code (w : worker) : nat :=
  match w_pc w with PDone => 0 | PRaised => 1 | PUnmodelled => 2 | _ => 3 end.

Definition view_of (c : cfg) : view :=
  let s := fst c in
  {| v_stages := map stage_view (w_stages s);
     v_claims := w_claims s;
     v_queue := map (fun r => (q_id r, msg_view (q_msg r))) (w_queue s);
     v_processed := w_processed s;
     v_starts := map fst (g_starts s);
     v_pcs := map pc_code (snd c) |}.

Definition status_code (x : status) : nat :=
  match x with
  | NOT_STARTED => 0 | RUNNING => 1 | PAUSED => 2 | SUSPENDED => 3 | SUCCEEDED => 4 | FAILED_CONTINUE => 5
  | TERMINAL => 6 | CANCELED => 7 | REDIRECT => 8 | STOPPED => 9 | SKIPPED => 10 | BUFFERED => 11 end.

Definition sview_eqb (a b : status * Z * bool * bool * list nat * nat) : bool :=
  match a, b with
  | (s1, v1, p1, f1, b1, n1), (s2, v2, p2, f2, b2, n2) =>
      status_eqb s1 s2 && (v1 =? v2)%Z && Bool.eqb p1 p2 && Bool.eqb f1 f2 && list_eqb Nat.eqb b1 b2 && (n1 =? n2)
  end.
Definition claim_eqb (a b : bool * nat * nat) : bool :=
  Bool.eqb (fst (fst a)) (fst (fst b)) && (snd (fst a) =? snd (fst b)) && (snd a =? snd b).
Definition qview_eqb (a b : nat * (nat * nat * nat * Z)) : bool :=
  match a, b with
  | (i1, (t1, s1, k1, r1)), (i2, (t2, s2, k2, r2)) => (i1 =? i2) && (t1 =? t2) && (s1 =? s2) && (k1 =? k2) && (r1 =? r2)%Z
  end.
Definition skind_eqb (a b : option skind) : bool :=
  match a, b with
  | Some KR, Some KR | Some KT, Some KT | None, None => true
  | _, _ => false end.

(* a correspondence case: initial durable state, the workers, the schedule really executed (worker index per
   model step), the kind of each step, and what the implementation committed *)
Record ccase := {
  cc_state : state;
  cc_workers : list wkind;
  cc_sched : list nat;
  cc_kinds : list (option skind);
  cc_stages : list (status * Z * bool * bool * list nat * nat);
  cc_claims : list (bool * nat * nat);
  cc_queue : list (nat * (nat * nat * nat * Z));
  cc_processed : list nat;        (* sorted ascending *)
  cc_starts : list nat;           (* stages with a NOT_STARTED -> RUNNING audit row, in commit order *)
  cc_pcs : list nat;
}.

Fixpoint insert_sorted (x : nat) (l : list nat) : list nat :=
  match l with [] => [x] | y :: r => if x <=? y then x :: l else y :: insert_sorted x r end.
Definition sort_nat (l : list nat) : list nat := fold_right insert_sorted [] l.

Definition check_case (c : ccase) : bool :=
  let c0 := (cc_state c, map spawn (cc_workers c)) in
  let v := view_of (run_conc (cc_sched c) c0) in
  list_eqb skind_eqb (trace_conc (cc_sched c) c0) (cc_kinds c) &&
  list_eqb sview_eqb (v_stages v) (cc_stages c) &&
  (length (v_claims v) =? length (cc_claims c)) && forallb (fun a => existsb (claim_eqb a) (v_claims v)) (cc_claims c) &&
  list_eqb qview_eqb (v_queue v) (cc_queue c) &&
  list_eqb Nat.eqb (sort_nat (v_processed v)) (cc_processed c) &&
  list_eqb Nat.eqb (rev (v_starts v)) (cc_starts c) &&
  list_eqb Nat.eqb (v_pcs v) (cc_pcs c).
