(* DataFlow: executable model of what a starting stage sees (C16).

   get_merged_ancestor_outputs (persistence/sqlite/queries.py): nodes dict from the rows; BFS over
   requisites collecting the ancestor set; Kahn's algorithm over the ancestor sub-DAG; merge of the
   outputs in that order (non-list: last write wins; list onto list: append the items not yet present).
   _plan_stage (handlers/start_stage/planner.py): ancestors, then the declarative reducers over the
   DIRECT upstreams' outputs, then the stage's own context with the same list rule, reducer keys shielded.

   Every place where the Python iterates a `set` or depends on SQL row order is a parameter:
     * the iteration order of each `requisites` set is the order of the list `s_reqs` (theorems are
       for every DAG, hence for every such order);
     * the iteration order of the `ancestors` set (used three times by Kahn: in_degree/graph
       construction and the initial queue) is the explicit argument `order`, any permutation of the
       BFS result;
     * the row order of get_upstream_stages (no ORDER BY) is the explicit argument `ups`, any
       permutation of the direct requisites that exist.
   Loops run on explicit fuel and return OutOfFuel when it is exhausted (DataFlowP: it never is).
   No proofs here. *)
From Coq Require Import List Bool Arith ZArith.
Import ListNotations.
From Stab.model Require Import Base Reducers.

Record stage : Type := mkStage {
  s_ref : nat;                       (* ref_id *)
  s_reqs : list nat;                 (* requisite_stage_ref_ids (JSON list, read into a set) *)
  s_outputs : ctx;                   (* outputs *)
  s_context : ctx;                   (* the stage's own context before planning (user keys) *)
  s_reducers : list (nat * rname)    (* output_reducers, in dict order *)
}.
Definition dag : Type := list stage.

(* nodes[row["ref_id"]] = {...} for row in rows: a later row replaces an earlier one (the schema's
   UNIQUE(execution_id, ref_id) makes the difference unobservable) *)
Definition lookup (d : dag) (r : nat) : option stage := find (fun s => Nat.eqb (s_ref s) r) (rev d).

(* set(req_ids): duplicates collapse *)
Definition req_set (st : stage) : list nat := nodup Nat.eq_dec (s_reqs st).

Inductive merr : Type := OutOfFuel | KeyError | ReducerError (e : rerr).
Inductive res (A : Type) : Type := Ok (a : A) | Err (e : merr).
Arguments Ok {A} a.
Arguments Err {A} e.

(* ---- BFS.  `visited` is kept as the list of refs in the order they were added; the Python adds a
   ref to `visited` and to `ancestors` at the same time and `visited` starts as {stage_ref_id}, so
   ancestors = visited without its first element.  `queue` is popped at the front. ---- *)
Definition bfs_visit (qv : list nat * list nat) (r : nat) : list nat * list nat :=
  if mem_nat r (snd qv) then qv else (fst qv ++ [r], snd qv ++ [r]).

Fixpoint bfs (d : dag) (fuel : nat) (queue visited : list nat) : option (list nat) :=
  match fuel with
  | O => None
  | S f =>
      match queue with
      | [] => Some visited
      | cur :: q =>
          match lookup d cur with
          | None => bfs d f q visited                       (* if not node: continue *)
          | Some st => let qv := fold_left bfs_visit (req_set st) (q, visited) in
                       bfs d f (fst qv) (snd qv)
          end
      end
  end.

(* every ref that can ever be visited *)
Definition universe (d : dag) (s : nat) : list nat := s :: flat_map s_reqs d.
Definition bfs_fuel (d : dag) (s : nat) : nat := S (length (universe d s)).

Definition ancestors (d : dag) (s : nat) : option (list nat) :=
  match bfs d (bfs_fuel d s) [s] [s] with
  | Some visited => Some (tl visited)
  | None => None
  end.

(* ---- Kahn over the ancestor sub-DAG, `order` = iteration order of the set `ancestors` ---- *)
Definition reqs_of (d : dag) (a : nat) : list nat :=
  match lookup d a with Some st => req_set st | None => [] end.

(* in_degree[aid] = number of requisites of aid that are ancestors *)
Definition in_degree (d : dag) (order : list nat) (a : nat) : Z :=
  Z.of_nat (length (filter (fun r => mem_nat r order) (reqs_of d a))).

(* graph[u]: the ancestors that list u as a requisite, in the iteration order of `ancestors` *)
Definition succs (d : dag) (order : list nat) (u : nat) : list nat :=
  filter (fun a => mem_nat u (reqs_of d a)) order.

Definition upd (f : nat -> Z) (k : nat) (z : Z) : nat -> Z := fun x => if Nat.eqb x k then z else f x.

(* for v in graph[u]: in_degree[v] -= 1; if in_degree[v] == 0: queue.append(v) *)
Definition kahn_relax (qi : list nat * (nat -> Z)) (v : nat) : list nat * (nat -> Z) :=
  let ind := upd (snd qi) v (snd qi v - 1)%Z in
  if Z.eqb (ind v) 0 then (fst qi ++ [v], ind) else (fst qi, ind).

Fixpoint kahn (d : dag) (order : list nat) (fuel : nat) (queue sorted : list nat) (ind : nat -> Z)
  : option (list nat) :=
  match fuel with
  | O => None
  | S f =>
      match queue with
      | [] => Some sorted
      | u :: q => let qi := fold_left kahn_relax (succs d order u) (q, ind) in
                  kahn d order f (fst qi) (sorted ++ [u]) (snd qi)
      end
  end.

Definition all_known (d : dag) (l : list nat) : bool :=
  forallb (fun a => match lookup d a with Some _ => true | None => false end) l.

(* sorted_ancestors; nodes[aid] raises KeyError for an ancestor that has no row *)
Definition merge_order (d : dag) (order : list nat) : res (list nat) :=
  if all_known d order then
    match kahn d order (S (length order))
               (filter (fun a => Z.eqb (in_degree d order a) 0) order) [] (in_degree d order) with
    | Some l => Ok l
    | None => Err OutOfFuel
    end
  else Err KeyError.

(* ---- the merge ---- *)
(* for item in value: if item not in existing: existing.append(item) *)
Definition append_new (existing items : list atom) : list atom :=
  fold_left (fun acc i => if existsb (atom_eqb i) acc then acc else acc ++ [i]) items existing.

(* the value stored under a key that currently holds `cur` when `v` arrives *)
Definition merge_value (cur : option value) (v : value) : value :=
  match cur, v with
  | Some (VList e), VList n => VList (append_new e n)
  | _, _ => v
  end.

Definition merge_entry (acc : ctx) (kv : nat * value) : ctx :=
  cset (fst kv) (merge_value (cget (fst kv) acc) (snd kv)) acc.

(* for key, value in outputs.items(): ... *)
Definition merge_into (acc outs : ctx) : ctx := fold_left merge_entry outs acc.

Definition outputs_of (d : dag) (a : nat) : ctx :=
  match lookup d a with Some st => s_outputs st | None => [] end.

Definition merge_sorted (d : dag) (sorted : list nat) : ctx :=
  fold_left (fun acc a => merge_into acc (outputs_of d a)) sorted [].

(* get_merged_ancestor_outputs(conn, execution_id, stage_ref_id) *)
Definition merged_ancestor_outputs (d : dag) (s : nat) (order : list nat) : res ctx :=
  match lookup d s with
  | None => Ok []                                            (* if stage_ref_id not in nodes: return {} *)
  | Some _ =>
      match ancestors d s with
      | None => Err OutOfFuel
      | Some _ => match merge_order d order with
                  | Ok sorted => Ok (merge_sorted d sorted)
                  | Err e => Err e
                  end
      end
  end.

(* ---- _plan_stage ---- *)
(* branch_outputs = [u.outputs for u in upstreams if u is not None and u.outputs] *)
Definition branch_outputs (d : dag) (ups : list nat) : list ctx :=
  filter (fun o => negb (is_nil o)) (map (outputs_of d) ups).

Definition is_reducer_key (reducers : list (nat * rname)) (k : nat) : bool :=
  existsb (fun kr => Nat.eqb (fst kr) k) reducers.

(* for key, value in stage.context.items(): if key in reducers: continue; else the list rule *)
Definition merge_own (reducers : list (nat * rname)) (acc own : ctx) : ctx :=
  fold_left (fun acc kv => if is_reducer_key reducers (fst kv) then acc else merge_entry acc kv) own acc.

Definition plan_context (d : dag) (s : nat) (order ups : list nat) : res ctx :=
  match lookup d s with
  | None => Err KeyError                                     (* the handler has no stage to plan *)
  | Some st =>
      match merged_ancestor_outputs d s order with
      | Err e => Err e
      | Ok anc_out =>
          (* `if reducers:` only skips work: with no reducers the result below is the same *)
          match apply_output_reducers (s_reducers st) (branch_outputs d ups) with
          | RErr e => Err (ReducerError e)
          | ROk reduced => Ok (merge_own (s_reducers st) (cupdate anc_out reduced) (s_context st))
          end
      end
  end.

(* the direct upstreams get_upstream_stages can return: requisites of s that have a row *)
Definition upstream_refs (d : dag) (s : nat) : list nat :=
  filter (fun r => match lookup d r with Some _ => true | None => false end) (reqs_of d s).

(* ---- a second planning of the same stage (jump loops).  reset_stage_for_retry clears `outputs` of the
   re-armed stages but leaves `context` as the first planning stored it; the stage is then planned
   again on the graph d2 whose ancestors carry the outputs of the new iteration. ---- *)
Definition set_context (st : stage) (c : ctx) : stage :=
  mkStage (s_ref st) (s_reqs st) (s_outputs st) c (s_reducers st).

Definition replace_stage (d : dag) (s : nat) (c : ctx) : dag :=
  map (fun st => if Nat.eqb (s_ref st) s then set_context st c else st) d.

Definition replan_context (d1 d2 : dag) (s : nat) (order1 ups1 order2 ups2 : list nat) : res ctx :=
  match plan_context d1 s order1 ups1 with
  | Err e => Err e
  | Ok c1 => plan_context (replace_stage d2 s c1) s order2 ups2
  end.

(* ---- the repair proposed in fixes/C16-*.diff: _plan_stage first drops the keys a previous planning
   hydrated from ancestors (recorded under `_hydrated_keys`), and records the keys it hydrates now:
   those of the ancestor/reducer result that the stage's context does not have itself ---- *)
Definition remove_keys (ks : list nat) (c : ctx) : ctx := filter (fun kv => negb (mem_nat (fst kv) ks)) c.

Definition hydrated_keys (d : dag) (s : nat) (order ups : list nat) : list nat :=
  match lookup d s, merged_ancestor_outputs d s order with
  | Some st, Ok anc_out =>
      match apply_output_reducers (s_reducers st) (branch_outputs d ups) with
      | ROk reduced => filter (fun k => negb (cmem k (s_context st))) (map fst (cupdate anc_out reduced))
      | RErr _ => []
      end
  | _, _ => []
  end.

Definition replan_context_fixed (d1 d2 : dag) (s : nat) (order1 ups1 order2 ups2 : list nat) : res ctx :=
  match plan_context d1 s order1 ups1 with
  | Err e => Err e
  | Ok c1 => plan_context (replace_stage d2 s (remove_keys (hydrated_keys d1 s order1 ups1) c1)) s order2 ups2
  end.

(* ---- comparison helpers for the correspondence harness ---- *)
Definition ctx_sub (a b : ctx) : bool :=
  forallb (fun kv => match cget (fst kv) b with Some w => value_eqb (snd kv) w | None => false end) a.
Definition ctx_eqb (a b : ctx) : bool := ctx_sub a b && ctx_sub b a.

Definition same_set (a b : list nat) : bool :=
  forallb (fun x => mem_nat x b) a && forallb (fun x => mem_nat x a) b && Nat.eqb (length a) (length b).

(* observed outcome of the implementation: 0 = returned a context, 1 = KeyError, 2 = TypeError,
   3 = ValueError (max()/min() of nothing, or "Unknown output reducer") *)
Definition res_matches (r : res ctx) (code : nat) (observed : ctx) : bool :=
  match r, code with
  | Ok c, O => ctx_eqb c observed
  | Err KeyError, 1%nat => true
  | Err (ReducerError TypeErr), 2%nat => true
  | Err (ReducerError ValueErr), 3%nat => true
  | Err (ReducerError UnknownReducer), 3%nat => true
  | _, _ => false
  end.

(* The harness observes the merge order of the implementation (a probe list key gives
   sorted_ancestors); Kahn run on its own result reproduces it, so the observed order, completed by
   the ancestors that a cycle kept out of it, is a valid `order` argument. *)
Definition full_order (d : dag) (s : nat) (osorted : list nat) : list nat :=
  let anc := match ancestors d s with Some a => a | None => [] end in
  osorted ++ filter (fun a => negb (mem_nat a osorted)) anc.

Definition check_case (d : dag) (s : nat) (osorted ups : list nat)
           (mcode : nat) (mobs : ctx) (pcode : nat) (pobs : ctx) : bool :=
  let anc := match ancestors d s with Some a => a | None => [] end in
  let order := full_order d s osorted in
  forallb (fun a => mem_nat a anc) osorted
  && same_set ups (upstream_refs d s)
  && res_matches (merged_ancestor_outputs d s order) mcode mobs
  && match mcode, merge_order d order with
     | O, Ok l => list_eqb Nat.eqb l osorted
     | O, Err _ => false
     | _, _ => true
     end
  && res_matches (plan_context d s order ups) pcode pobs.

Definition check_replan (fixed : bool) (d1 d2 : dag) (s : nat) (os1 ups1 os2 ups2 : list nat)
           (pcode : nat) (pobs : ctx) : bool :=
  res_matches ((if fixed then replan_context_fixed else replan_context)
                 d1 d2 s (full_order d1 s os1) ups1 (full_order d2 s os2) ups2) pcode pobs.

Definition check_reducers (reds : list (nat * rname)) (branches : list ctx) (code : nat) (obs : ctx) : bool :=
  match apply_output_reducers reds branches, code with
  | ROk c, O => ctx_eqb c obs
  | RErr TypeErr, 2%nat => true
  | RErr ValueErr, 3%nat => true
  | RErr UnknownReducer, 3%nat => true
  | _, _ => false
  end.
