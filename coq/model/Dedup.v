(* Dedup: hand model of QueueProcessorMixin._handle_message's duplicate handling
   (queue/processor/mixins.py), of _hydrate_deduplicator, of the hydration in QueueProcessor.__init__
   (queue/processor/processor.py) and of the durable processed_messages set
   (persistence/sqlite/operations.py, transaction.py), as the algorithm the Python runs.

   State  = (durable processed set, in-memory filter).          Config = flags of the processor + the two
   structural facts the translator reads off _handle_message (is mark_seen executed before / after the
   handler).  All guards are the regenerated Gen_Dedup definitions.

   A delivery is `_handle_message(message)`; what the handler does is a parameter of the action:
     HOk own          handler returns; own = it committed txn.mark_message_processed(id) in its transaction
     HRaiseBefore     handler raises, nothing about this id was committed
     HRaiseAfterMark  handler committed its transaction (effects + processed mark) and raised afterwards
                      (e.g. AddMultiInstanceHandler writes after its commit) -- the caller reschedules
   A process crash at any of these points is the outcome followed by Restart.
   No proofs in this file. *)
From Coq Require Import List Bool NArith Lia.
Import ListNotations.
From Stab.gen Require Import Gen_Dedup.
From Stab.model Require Import Bloom.
Local Open Scope N_scope.

Record config := mkCfg {
  c_enable : bool;     (* config.enable_deduplication *)
  c_trust : bool;      (* config.dedup_trust_negative_cache *)
  c_store : bool;      (* self._store is not None *)
  c_early : bool;      (* dedup.mark_seen(id) before handler.handle (Gen_Dedup.early_mark) *)
  c_late : bool;       (* dedup.mark_seen(id) after handler.handle  (Gen_Dedup.late_mark) *)
}.

(* the configuration the current source has, for either value of the trust option *)
Definition code_cfg (trust : bool) : config := mkCfg enable_deduplication_default trust true early_mark late_mark.

Record dstate := mkSt {
  d_durable : list N;  (* processed_messages.message_id, in insertion order, no duplicates *)
  d_filt : bloom;      (* the process-global BloomDeduplicator *)
}.

Inductive outcome := HOk (own : bool) | HRaiseBefore | HRaiseAfterMark.

Inductive action :=
  | Deliver (mid : option N) (aged : bool) (o : outcome)   (* _handle_message; aged = filter older than max_age *)
  | Restart          (* process restart: reset_deduplicator(), fresh filter, QueueProcessor.__init__ *)
  | NewProcessor     (* a further QueueProcessor.__init__ in the same process (shared global filter) *)
  | Rotate           (* dedup.reset(); _hydrate_deduplicator() *)
  | ResetOnly        (* dedup.reset() by anyone *)
  | ExternalMark (id : N)   (* ANOTHER worker/process marks an id processed *)
  | Sweep.           (* retention sweep: cleanup_old_processed_messages removes the rows *)

Definition mem (x : N) (l : list N) : bool := existsb (N.eqb x) l.

(* INSERT OR IGNORE INTO processed_messages *)
Definition add_id (id : N) (D : list N) : list N := if mem id D then D else D ++ [id].

(* one log entry per delivery: id, "was in the durable set when delivered", handler invoked,
   this invocation made the processed mark durable *)
Record lentry := mkLog { l_id : option N; l_was : bool; l_inv : bool; l_com : bool }.

Section Hash.
Variables h1 h2 : N -> N.

(* _hydrate_deduplicator *)
Definition hydrate_from_store (cfg : config) (D : list N) (f : bloom) : bloom :=
  if c_store cfg then
    let ids := firstn (N.to_nat (hydrate_fetch_limit (b_cap f))) D in
    if hydrate_too_many (N.of_nat (length ids)) (b_cap f) then f else hydrate h1 h2 f ids
  else f.

(* _handle_message *)
Definition handle (cfg : config) (st : dstate) (mid : option N) (aged : bool) (o : outcome) : dstate * lentry :=
  let D := d_durable st in
  let f := d_filt st in
  match mid with
  | None =>
      (* message_id is None: both blocks are skipped (has_id = false); were a guard true here the Python
         would call maybe_seen(None) and raise -- reported as "not invoked" *)
      if dedup_on_guard (c_enable cfg) false || mark_guard (c_enable cfg) false
      then (st, mkLog None false false false)
      else (st, mkLog None false true false)
  | Some id =>
      let was := mem id D in
      let on1 := dedup_on_guard (c_enable cfg) true in
      let on2 := mark_guard (c_enable cfg) true in
      if on1 && dup_consult_guard (maybe_seen h1 h2 f id) (c_trust cfg) (b_auth f) && dup_skip_guard (c_store cfg) was
      then (st, mkLog (Some id) was false false)
      else
        let f1 := if on1 && should_reset f aged then hydrate_from_store cfg D (reset f) else f in
        let f2 := if on1 && c_early cfg then mark_seen h1 h2 f1 id else f1 in
        match o with
        | HRaiseBefore => (mkSt D f2, mkLog (Some id) was true false)
        | HRaiseAfterMark => (mkSt (add_id id D) f2, mkLog (Some id) was true true)
        | HOk own =>
            let D1 := if own then add_id id D else D in
            let f3 := if on2 && c_late cfg then mark_seen h1 h2 f2 id else f2 in
            let D2 := if on2 && mark_store_guard (c_store cfg) then add_id id D1 else D1 in
            (mkSt D2 f3, mkLog (Some id) was true (mem id D2))
        end
  end.

Definition step (cfg : config) (st : dstate) (a : action) : dstate * list lentry :=
  let D := d_durable st in
  let f := d_filt st in
  match a with
  | Deliver mid aged o => let (st', e) := handle cfg st mid aged o in (st', [e])
  | Restart =>
      let f0 := bloom_new (b_size f) (b_k f) (b_cap f) in
      (mkSt D (if init_hydrate_guard (c_enable cfg) (c_store cfg) then hydrate_from_store cfg D f0 else f0), [])
  | NewProcessor =>
      (mkSt D (if init_hydrate_guard (c_enable cfg) (c_store cfg) then hydrate_from_store cfg D f else f), [])
  | Rotate => (mkSt D (hydrate_from_store cfg D (reset f)), [])
  | ResetOnly => (mkSt D (reset f), [])
  | ExternalMark id => (mkSt (add_id id D) f, [])
  | Sweep => (mkSt [] f, [])
  end.

Fixpoint run (cfg : config) (st : dstate) (h : list action) : dstate * list lentry :=
  match h with
  | [] => (st, [])
  | a :: r => let (st1, l1) := step cfg st a in
              let (st2, l2) := run cfg st1 r in (st2, l1 ++ l2)
  end.

(* process start on a database that already holds D0: fresh filter, then QueueProcessor.__init__ *)
Definition boot (cfg : config) (m : N) (k : nat) (cap : N) (D0 : list N) : dstate :=
  fst (step cfg (mkSt D0 (bloom_new m k cap)) Restart).
End Hash.

(* ---- premises on histories, as boolean (decidable) predicates ---- *)
Definition is_external (a : action) : bool := match a with ExternalMark _ => true | _ => false end.
Definition is_raise_after (a : action) : bool := match a with Deliver _ _ HRaiseAfterMark => true | _ => false end.
Definition is_sweep (a : action) : bool := match a with Sweep => true | _ => false end.

(* the documented premise of dedup_trust_negative_cache: this process is the only writer *)
Definition single_writer (h : list action) : bool := forallb (fun a => negb (is_external a)) h.
Definition no_raise_after_mark (h : list action) : bool := forallb (fun a => negb (is_raise_after a)) h.
Definition no_sweep (h : list action) : bool := forallb (fun a => negb (is_sweep a)) h.

(* what the proof of the trusted fast path needs from a history *)
Definition hist_ok (cfg : config) (h : list action) : bool :=
  negb (c_trust cfg)
  || (single_writer h && (c_early cfg || (c_late cfg && no_raise_after_mark h))).

(* the statement of C09 on a log: no delivery of an already-processed id invoked the handler *)
Definition rehandled (e : lentry) : bool := l_was e && l_inv e.
Definition no_rehandle (log : list lentry) : bool := forallb (fun e => negb (rehandled e)) log.

(* ghost counter: handler invocations for [id] whose processed mark became durable *)
Definition committed_for (id : N) (e : lentry) : bool :=
  match l_id e with Some x => (x =? id) && l_inv e && l_com e | None => false end.
Definition commit_count (id : N) (log : list lentry) : nat := length (filter (committed_for id) log).

(* ---- observation used by the correspondence check ---- *)
(* after every action: (durable set as a list, authoritative, items_added, bit array) + the log entries *)
Definition dobs := (list N * bool * N * N * list (bool * bool * bool))%type.

Definition obs_of (st : dstate) (l : list lentry) : dobs :=
  (d_durable st, b_auth (d_filt st), b_items (d_filt st), bits_to_N (b_bits (d_filt st)),
   map (fun e => (l_was e, l_inv e, l_com e)) l).

Fixpoint run_obs (h1 h2 : N -> N) (cfg : config) (st : dstate) (h : list action) : list dobs :=
  match h with
  | [] => []
  | a :: r => let (st1, l1) := step h1 h2 cfg st a in obs_of st1 l1 :: run_obs h1 h2 cfg st1 r
  end.

Definition same_set (a b : list N) : bool :=
  Nat.eqb (length a) (length b) && forallb (fun x => mem x b) a && forallb (fun x => mem x a) b.

Fixpoint triples_eqb (a b : list (bool * bool * bool)) : bool :=
  match a, b with
  | [], [] => true
  | (x1, x2, x3) :: a', (y1, y2, y3) :: b' => Bool.eqb x1 y1 && Bool.eqb x2 y2 && Bool.eqb x3 y3 && triples_eqb a' b'
  | _, _ => false
  end.

Definition dobs_eqb (a b : dobs) : bool :=
  match a, b with
  | (d1, a1, i1, b1, l1), (d2, a2, i2, b2, l2) =>
      same_set d1 d2 && Bool.eqb a1 a2 && (i1 =? i2) && (b1 =? b2) && triples_eqb l1 l2
  end.

Fixpoint dobs_list_eqb (a b : list dobs) : bool :=
  match a, b with
  | [], [] => true
  | x :: a', y :: b' => dobs_eqb x y && dobs_list_eqb a' b'
  | _, _ => false
  end.

(* one differential case: (enable, trust, has_store), filter parameters, ids already durable at boot,
   hash table, history, observations made on the real QueueProcessor / store / filter.
   early/late come from the regenerated Gen_Dedup. *)
Definition check_dedup_case
  (c : (bool * bool * bool) * (N * nat * N) * list N * list (N * N) * list action * list dobs) : bool :=
  match c with
  | ((en, tr, hs), (m, k, cap), D0, t, h, expected) =>
      let cfg := mkCfg en tr hs early_mark late_mark in
      dobs_list_eqb (run_obs (tbl1 t) (tbl2 t) cfg (boot (tbl1 t) (tbl2 t) cfg m k cap D0) h) expected
  end.

(* ---- concrete instances used by the witnesses (Example / ..._refuted) in props/C09.v ---- *)
Definition wh1 (x : N) : N := x * 7 + 3.
Definition wh2 (x : N) : N := x * 5 + 1.
(* dedup on, trust on, store, mark_seen only AFTER the handler: the shape of _handle_message today *)
Definition trust_cfg : config := mkCfg true true true false true.
