(* Engine: hand model of the message handlers of stabilize at COMMIT granularity.

   A handler invocation is  (ghost pre-effect, list of atomic commits, raised?)  computed from the
   durable state the handler read.  `deliver` applies: the poll commit, the durable duplicate check,
   the handler's commits, the post-handler processed mark, the ack — or only a prefix of them (a crash
   between two commits).  Sources modelled (the same algorithm, not what it should do):
     queue/processor/mixins.py:_handle_message, handlers/start_workflow.py, start_stage/*.py,
     start_task.py, run_task/{handler,result,error}.py, complete_task.py, complete_stage/*.py,
     skip_stage.py, cancel_stage.py, complete_workflow.py, workflow_control.py (CancelWorkflow),
     signal_stage.py, jump_to_stage/*.py, recovery.py.
   Tied to the source by the commit-level correspondence (harness/engine_corr.py); status sets, the
   transition table and the guards come from coq/gen (regenerated from the source on every run). *)
From Coq Require Import List Bool Arith ZArith Lia.
Import ListNotations.
From Stab.model Require Import Base StatusM Readiness StageStat.
From Stab.gen Require Import Gen_Config Gen_Guards.

(* ------------------------------------------------------------------------------------------ *)
(* data                                                                                        *)
(* ------------------------------------------------------------------------------------------ *)

(* user data is symbolic: key tag -> value tag, kept sorted by key (canonical form) *)
Definition kv := list (nat * Z).

Fixpoint kv_set (k : nat) (v : Z) (m : kv) : kv :=
  match m with
  | [] => [(k, v)]
  | (k', v') :: r =>
      if k <? k' then (k, v) :: m
      else if k =? k' then (k, v) :: r
      else (k', v') :: kv_set k v r
  end.

(* dict.update: right operand wins *)
Definition kv_update (base upd : kv) : kv := fold_left (fun m p => kv_set (fst p) (snd p) m) upd base.

Fixpoint kv_get (k : nat) (m : kv) : option Z :=
  match m with
  | [] => None
  | (k', v) :: r => if k =? k' then Some v else kv_get k r
  end.

Record task := { t_status : status; t_started : bool; t_disabled : bool (* a SkippableTask whose is_enabled() is false *) }.

(* synthetic stages (before / after / on-failure children planned by a StageDefinitionBuilder) *)
Inductive owner := OwnBefore | OwnAfter.                (* SyntheticStageOwner.STAGE_BEFORE / STAGE_AFTER *)
Definition owner_eqb (a b : owner) : bool :=
  match a, b with OwnBefore, OwnBefore | OwnAfter, OwnAfter => true | _, _ => false end.

(* what the builder of a stage type adds: one child per template; `tp_chain` = graph.append (depends on the
   previously added child), otherwise graph.add *)
Record tmpl := { tp_script : nat; tp_ntasks : nat; tp_chain : bool; tp_blocking : bool (* child context._blocking_failure *) }.

(* static description of a stage as a (possible) parent / child *)
Record syn := {
  y_parent : option nat;             (* parent_stage_id *)
  y_owner : option owner;            (* synthetic_stage_owner *)
  y_script : nat;                    (* label of the builder template (harness bookkeeping: which scripted behaviour the
                                        stage's tasks have; the model's oracle is keyed by the row index) *)
  y_ntasks : nat;                    (* builder.build_tasks: tasks built at plan time when the stage has none *)
  y_before : list tmpl;              (* builder.before_stages *)
  y_after : list tmpl;               (* builder.after_stages *)
  y_fail : list tmpl;                (* builder.on_failure_stages *)
  y_blocking : bool;                 (* context._blocking_failure: FAILED_CONTINUE counts as TERMINAL *)
  y_milestone : option (nat * status);(* milestone_ref_id (as a stage index; out of range = not found) / milestone_status *)
  y_expired : bool;                  (* start_time_expiry lies in the past *)
}.

Record stage := {
  s_reqs : list nat;                 (* requisite_stage_ref_ids, as stage indices (all smaller than own index) *)
  s_join : join_type;
  s_threshold : Z;
  s_cof : bool;                      (* context.continuePipelineOnFailure *)
  s_fp : bool;                       (* context.failPipeline (default true) *)
  s_enabled : option bool;           (* context.stageEnabled when it is a bool literal *)
  s_mutex : option nat;              (* mutex_key *)
  s_choice : option nat;             (* deferred_choice_group *)
  s_max_jumps : option Z;            (* context._max_jumps *)
  s_split_or : bool;                 (* split_type == OR *)
  s_conds : list (nat * bool);       (* split_conditions: downstream stage -> value of its (literal) condition *)
  s_status : status;
  s_started : bool;                  (* start_time is not None *)
  s_ended : bool;                    (* end_time is not None *)
  s_version : Z;
  s_fired : bool;                    (* context._join_fired *)
  s_branches : list nat;             (* context._completed_branches *)
  s_bypass : bool;                   (* context._jump_bypass *)
  s_jump_count : Z;                  (* context._jump_count (0 when absent) *)
  s_buffered : list nat;             (* context._buffered_signals (signal name tags) *)
  s_signal : option nat;             (* context._signal_name *)
  s_has_exc : bool;                  (* "exception" in context *)
  s_plan_pending : bool;             (* context._plan_pending: claimed, plan commit still to come *)
  s_hydrated : list nat;             (* context._hydrated_keys: keys copied from ancestors by the last planning *)
  s_ctx : kv;                        (* user context keys *)
  s_outs : kv;                       (* outputs *)
  s_tasks : list task;
  s_syn : syn;
  s_onfail : bool;                   (* context._on_failure_planned *)
}.

Inductive msg :=
| MStartWorkflow
| MCompleteWorkflow (retry : Z)
| MCancelWorkflow
| MStartStage (s : nat) (retry : Z)
| MCompleteStage (s : nat)
| MSkipStage (s : nat)
| MCancelStage (s : nat)
| MStartTask (s t : nat)
| MRunTask (s t : nat)
| MCompleteTask (s t : nat) (st : status)
| MJumpToStage (s target : nat) (jctx jouts : kv)
| MSignalStage (s name : nat) (persistent : bool)
| MPauseTask (s t : nat)
| MResumeStage (s : nat)
| MRestartStage (s : nat)
| MContinueParent (s : nat) (o : owner) (retry : Z).

Record qrow := { q_id : nat; q_msg : msg; q_attempts : Z }.

Record state := {
  w_status : status;
  w_canceled : bool;
  w_max_jumps : option Z;            (* workflow context _max_jumps *)
  w_stages : list stage;
  w_queue : list qrow;               (* in id order *)
  w_next : nat;                      (* next AUTOINCREMENT id *)
  w_processed : list nat;            (* processed_messages (row ids), newest first *)
  w_claims : list (bool * nat * nat);(* stage_claims: (is_mutex, key, owner stage) *)
  g_execs : list (nat * nat);        (* ghost ledger: task executions (stage, task), newest first *)
  g_starts : list (nat * Z);         (* ghost: NOT_STARTED->RUNNING claim commits (stage, jump_count) *)
}.

(* what a task does on its n-th execution *)
Inductive tresult :=
| RSucceed (outs : kv)
| RTerminal
| RFailedContinue
| RStopped
| RRunning (ctx : kv)
| RTransient (ctx : kv)              (* TransientError, context_update (possibly empty) *)
| RPermanent                         (* PermanentError or any other exception *)
| RJump (target : nat)
| RSuspend
| RSkipped
| RCanceled
| RRedirect.                         (* REDIRECT without target *)

Definition oracle := nat -> nat -> nat -> tresult.

(* ------------------------------------------------------------------------------------------ *)
(* state access                                                                                *)
(* ------------------------------------------------------------------------------------------ *)

Definition get_stage (s : state) (i : nat) : option stage := nth_error (w_stages s) i.

Fixpoint list_set {A} (l : list A) (i : nat) (x : A) : list A :=
  match l, i with
  | [], _ => []
  | _ :: r, O => x :: r
  | a :: r, S j => a :: list_set r j x
  end.

Definition with_stages (s : state) (l : list stage) : state :=
  {| w_status := w_status s; w_canceled := w_canceled s; w_max_jumps := w_max_jumps s; w_stages := l;
     w_queue := w_queue s; w_next := w_next s; w_processed := w_processed s; w_claims := w_claims s;
     g_execs := g_execs s; g_starts := g_starts s |}.

Definition put_stage (i : nat) (st : stage) (s : state) : state := with_stages s (list_set (w_stages s) i st).

Definition set_wf_status (x : status) (s : state) : state :=
  {| w_status := x; w_canceled := w_canceled s; w_max_jumps := w_max_jumps s; w_stages := w_stages s;
     w_queue := w_queue s; w_next := w_next s; w_processed := w_processed s; w_claims := w_claims s;
     g_execs := g_execs s; g_starts := g_starts s |}.

Definition set_canceled (s : state) : state :=
  {| w_status := w_status s; w_canceled := true; w_max_jumps := w_max_jumps s; w_stages := w_stages s;
     w_queue := w_queue s; w_next := w_next s; w_processed := w_processed s; w_claims := w_claims s;
     g_execs := g_execs s; g_starts := g_starts s |}.

Definition push (m : msg) (s : state) : state :=
  {| w_status := w_status s; w_canceled := w_canceled s; w_max_jumps := w_max_jumps s; w_stages := w_stages s;
     w_queue := w_queue s ++ [{| q_id := w_next s; q_msg := m; q_attempts := 0 |}];
     w_next := S (w_next s); w_processed := w_processed s; w_claims := w_claims s;
     g_execs := g_execs s; g_starts := g_starts s |}.

Definition pushes (ms : list msg) (s : state) : state := fold_left (fun s m => push m s) ms s.

Definition mark (id : nat) (s : state) : state :=
  {| w_status := w_status s; w_canceled := w_canceled s; w_max_jumps := w_max_jumps s; w_stages := w_stages s;
     w_queue := w_queue s; w_next := w_next s;
     w_processed := if mem_nat id (w_processed s) then w_processed s else id :: w_processed s;
     w_claims := w_claims s; g_execs := g_execs s; g_starts := g_starts s |}.

Definition with_queue (q : list qrow) (s : state) : state :=
  {| w_status := w_status s; w_canceled := w_canceled s; w_max_jumps := w_max_jumps s; w_stages := w_stages s;
     w_queue := q; w_next := w_next s; w_processed := w_processed s; w_claims := w_claims s;
     g_execs := g_execs s; g_starts := g_starts s |}.

Definition ack (id : nat) (s : state) : state :=
  with_queue (filter (fun r => negb (q_id r =? id)) (w_queue s)) s.

Definition bump_attempts (id : nat) (s : state) : state :=
  with_queue (map (fun r => if q_id r =? id then {| q_id := q_id r; q_msg := q_msg r; q_attempts := q_attempts r + 1 |} else r)
                  (w_queue s)) s.

Definition with_claims (c : list (bool * nat * nat)) (s : state) : state :=
  {| w_status := w_status s; w_canceled := w_canceled s; w_max_jumps := w_max_jumps s; w_stages := w_stages s;
     w_queue := w_queue s; w_next := w_next s; w_processed := w_processed s; w_claims := c;
     g_execs := g_execs s; g_starts := g_starts s |}.

Definition ghost_exec (i t : nat) (s : state) : state :=
  {| w_status := w_status s; w_canceled := w_canceled s; w_max_jumps := w_max_jumps s; w_stages := w_stages s;
     w_queue := w_queue s; w_next := w_next s; w_processed := w_processed s; w_claims := w_claims s;
     g_execs := (i, t) :: g_execs s; g_starts := g_starts s |}.

Definition ghost_start (i : nat) (jc : Z) (s : state) : state :=
  {| w_status := w_status s; w_canceled := w_canceled s; w_max_jumps := w_max_jumps s; w_stages := w_stages s;
     w_queue := w_queue s; w_next := w_next s; w_processed := w_processed s; w_claims := w_claims s;
     g_execs := g_execs s; g_starts := (i, jc) :: g_starts s |}.

(* stage record updates *)
Definition st_set (st : stage) (status : status) (started ended : bool) (fired : bool) (branches : list nat)
           (has_exc : bool) (ctx outs : kv) (tasks : list task) : stage :=
  {| s_reqs := s_reqs st; s_join := s_join st; s_threshold := s_threshold st; s_cof := s_cof st; s_fp := s_fp st;
     s_enabled := s_enabled st; s_mutex := s_mutex st; s_choice := s_choice st; s_max_jumps := s_max_jumps st; s_split_or := s_split_or st; s_conds := s_conds st;
     s_status := status; s_started := started; s_ended := ended; s_version := s_version st + 1;
     s_fired := fired; s_branches := branches; s_bypass := s_bypass st; s_jump_count := s_jump_count st;
     s_buffered := s_buffered st; s_signal := s_signal st; s_has_exc := has_exc; s_plan_pending := s_plan_pending st; s_hydrated := s_hydrated st;
     s_ctx := ctx; s_outs := outs; s_tasks := tasks; s_syn := s_syn st; s_onfail := s_onfail st |}.

(* store_stage of an object whose only changes are the given ones; version + 1 *)
Definition st_status (st : stage) (x : status) : stage :=
  st_set st x (s_started st) (s_ended st) (s_fired st) (s_branches st) (s_has_exc st) (s_ctx st) (s_outs st) (s_tasks st).
Definition st_touch (st : stage) : stage := st_status st (s_status st).
Definition st_end (st : stage) (x : status) : stage :=
  st_set st x (s_started st) true (s_fired st) (s_branches st) (s_has_exc st) (s_ctx st) (s_outs st) (s_tasks st).
Definition st_tasks (st : stage) (ts : list task) : stage :=
  st_set st (s_status st) (s_started st) (s_ended st) (s_fired st) (s_branches st) (s_has_exc st) (s_ctx st) (s_outs st) ts.
Definition st_data (st : stage) (ctx outs : kv) : stage :=
  st_set st (s_status st) (s_started st) (s_ended st) (s_fired st) (s_branches st) (s_has_exc st) ctx outs (s_tasks st).
Definition st_exc (st : stage) : stage :=
  st_set st (s_status st) (s_started st) (s_ended st) (s_fired st) (s_branches st) true (s_ctx st) (s_outs st) (s_tasks st).

Definition st_ctl (st : stage) (bypass : bool) (jc : Z) (buffered : list nat) (sig : option nat) : stage :=
  {| s_reqs := s_reqs st; s_join := s_join st; s_threshold := s_threshold st; s_cof := s_cof st; s_fp := s_fp st;
     s_enabled := s_enabled st; s_mutex := s_mutex st; s_choice := s_choice st; s_max_jumps := s_max_jumps st; s_split_or := s_split_or st; s_conds := s_conds st;
     s_status := s_status st; s_started := s_started st; s_ended := s_ended st; s_version := s_version st;
     s_fired := s_fired st; s_branches := s_branches st; s_bypass := bypass; s_jump_count := jc;
     s_buffered := buffered; s_signal := sig; s_has_exc := s_has_exc st; s_plan_pending := s_plan_pending st; s_hydrated := s_hydrated st;
     s_ctx := s_ctx st; s_outs := s_outs st; s_tasks := s_tasks st; s_syn := s_syn st; s_onfail := s_onfail st |}.

(* context change folded into a store that is already counted (no extra version bump) *)
Definition with_ctx (st : stage) (ctx : kv) : stage :=
  {| s_reqs := s_reqs st; s_join := s_join st; s_threshold := s_threshold st; s_cof := s_cof st; s_fp := s_fp st;
     s_enabled := s_enabled st; s_mutex := s_mutex st; s_choice := s_choice st; s_max_jumps := s_max_jumps st; s_split_or := s_split_or st; s_conds := s_conds st;
     s_status := s_status st; s_started := s_started st; s_ended := s_ended st; s_version := s_version st;
     s_fired := s_fired st; s_branches := s_branches st; s_bypass := s_bypass st; s_jump_count := s_jump_count st;
     s_buffered := s_buffered st; s_signal := s_signal st; s_has_exc := s_has_exc st; s_plan_pending := s_plan_pending st; s_hydrated := s_hydrated st;
     s_ctx := ctx; s_outs := s_outs st; s_tasks := s_tasks st; s_syn := s_syn st; s_onfail := s_onfail st |}.

Definition with_pending (st : stage) (p : bool) : stage :=
  {| s_reqs := s_reqs st; s_join := s_join st; s_threshold := s_threshold st; s_cof := s_cof st; s_fp := s_fp st;
     s_enabled := s_enabled st; s_mutex := s_mutex st; s_choice := s_choice st; s_max_jumps := s_max_jumps st; s_split_or := s_split_or st; s_conds := s_conds st;
     s_status := s_status st; s_started := s_started st; s_ended := s_ended st; s_version := s_version st;
     s_fired := s_fired st; s_branches := s_branches st; s_bypass := s_bypass st; s_jump_count := s_jump_count st;
     s_buffered := s_buffered st; s_signal := s_signal st; s_has_exc := s_has_exc st; s_plan_pending := p; s_hydrated := s_hydrated st;
     s_ctx := s_ctx st; s_outs := s_outs st; s_tasks := s_tasks st; s_syn := s_syn st; s_onfail := s_onfail st |}.

Definition with_hydrated (st : stage) (ctx : kv) (h : list nat) : stage :=
  {| s_reqs := s_reqs st; s_join := s_join st; s_threshold := s_threshold st; s_cof := s_cof st; s_fp := s_fp st;
     s_enabled := s_enabled st; s_mutex := s_mutex st; s_choice := s_choice st; s_max_jumps := s_max_jumps st; s_split_or := s_split_or st; s_conds := s_conds st;
     s_status := s_status st; s_started := s_started st; s_ended := s_ended st; s_version := s_version st;
     s_fired := s_fired st; s_branches := s_branches st; s_bypass := s_bypass st; s_jump_count := s_jump_count st;
     s_buffered := s_buffered st; s_signal := s_signal st; s_has_exc := s_has_exc st; s_plan_pending := s_plan_pending st;
     s_hydrated := h; s_ctx := ctx; s_outs := s_outs st; s_tasks := s_tasks st; s_syn := s_syn st; s_onfail := s_onfail st |}.

Definition with_onfail (st : stage) (b : bool) : stage :=
  {| s_reqs := s_reqs st; s_join := s_join st; s_threshold := s_threshold st; s_cof := s_cof st; s_fp := s_fp st;
     s_enabled := s_enabled st; s_mutex := s_mutex st; s_choice := s_choice st; s_max_jumps := s_max_jumps st; s_split_or := s_split_or st; s_conds := s_conds st;
     s_status := s_status st; s_started := s_started st; s_ended := s_ended st; s_version := s_version st;
     s_fired := s_fired st; s_branches := s_branches st; s_bypass := s_bypass st; s_jump_count := s_jump_count st;
     s_buffered := s_buffered st; s_signal := s_signal st; s_has_exc := s_has_exc st; s_plan_pending := s_plan_pending st;
     s_hydrated := s_hydrated st; s_ctx := s_ctx st; s_outs := s_outs st; s_tasks := s_tasks st; s_syn := s_syn st; s_onfail := b |}.

Definition task_set (ts : list task) (t : nat) (x : status) (started : bool) : list task :=
  match nth_error ts t with
  | Some tk => list_set ts t {| t_status := x; t_started := started; t_disabled := t_disabled tk |}
  | None => ts
  end.

Definition seqn (n : nat) : list nat := seq 0 n.

(* stages whose requisites contain i, in creation (row) order: get_downstream_stages *)
Definition downstream (s : state) (i : nat) : list nat :=
  filter (fun j => match get_stage s j with Some d => mem_nat i (s_reqs d) | None => false end)
         (seqn (length (w_stages s))).

(* get_upstream_stages: the requisites found, in row order, with their durable status *)
Definition upstream (s : state) (st : stage) : list up :=
  flat_map (fun j => match get_stage s j with
                     | Some u => if mem_nat j (s_reqs st) then [(j, s_status u)] else []
                     | None => [] end)
           (seqn (length (w_stages s))).

(* ---- synthetic stages ---- *)
Definition parent_is (i : nat) (c : stage) : bool :=
  match y_parent (s_syn c) with Some p => p =? i | None => false end.
Definition owner_is (o : owner) (c : stage) : bool :=
  match y_owner (s_syn c) with Some o' => owner_eqb o o' | None => false end.
Definition is_top_level (st : stage) : bool :=
  match y_parent (s_syn st) with None => true | Some _ => false end.

(* stage.synthetic_stages() / get_synthetic_stages, in row order *)
Definition children (s : state) (i : nat) : list nat :=
  filter (fun j => match get_stage s j with Some c => parent_is i c | None => false end) (seqn (length (w_stages s))).
Definition kids (s : state) (i : nat) (o : owner) : list nat :=
  filter (fun j => match get_stage s j with Some c => owner_is o c | None => false end) (children s i).
Definition status_at (s : state) (j : nat) : status :=
  match get_stage s j with Some c => s_status c | None => NOT_STARTED end.
Definition initial_at (s : state) (j : nat) : bool :=
  match get_stage s j with Some c => is_nil (s_reqs c) | None => false end.

(* StageExecution.create_synthetic + StageGraphBuilder.add / append: the k-th new child gets row index base + k *)
Definition mk_child (parent : nat) (o : owner) (reqs : list nat) (t : tmpl) : stage :=
  {| s_reqs := reqs; s_join := J_AND; s_threshold := 0; s_cof := false; s_fp := true; s_enabled := None; s_mutex := None;
     s_choice := None; s_max_jumps := None; s_split_or := false; s_conds := []; s_status := NOT_STARTED; s_started := false;
     s_ended := false; s_version := 0; s_fired := false; s_branches := []; s_bypass := false; s_jump_count := 0;
     s_buffered := []; s_signal := None; s_has_exc := false; s_plan_pending := false; s_hydrated := []; s_ctx := []; s_outs := [];
     s_tasks := [];
     s_syn := {| y_parent := Some parent; y_owner := Some o; y_script := tp_script t; y_ntasks := tp_ntasks t;
                 y_before := []; y_after := []; y_fail := []; y_blocking := tp_blocking t; y_milestone := None; y_expired := false |};
     s_onfail := false |}.

Fixpoint mk_children_from (k : nat) (base parent : nat) (o : owner) (ts : list tmpl) : list stage :=
  match ts with
  | [] => []
  | t :: r => mk_child parent o (if tp_chain t && (0 <? k) then [base + k - 1] else []) t
              :: mk_children_from (S k) base parent o r
  end.
Definition mk_children (base parent : nat) (o : owner) (ts : list tmpl) : list stage := mk_children_from 0 base parent o ts.

(* indices (base + k) of the new children that are initial (no requisites) *)
Definition new_initial (base : nat) (cs : list stage) : list nat :=
  map fst (filter (fun p => is_nil (s_reqs (snd p))) (combine (seq base (length cs)) cs)).

Definition fresh_tasks (n : nat) : list task := repeat {| t_status := NOT_STARTED; t_started := false; t_disabled := false |} n.

Definition rstage_of (st : stage) : rstage :=
  {| r_join := s_join st; r_threshold := s_threshold st; r_fired := s_fired st; r_activated := None |}.

(* transitive ancestors of a stage, as a membership list; fuel = number of stages *)
Fixpoint ancestors_fuel (fuel : nat) (s : state) (frontier : list nat) (acc : list nat) : list nat :=
  match fuel with
  | O => acc
  | S f =>
      let reqs := flat_map (fun j => match get_stage s j with Some u => s_reqs u | None => [] end) frontier in
      let fresh := filter (fun j => negb (mem_nat j acc)) (nodup Nat.eq_dec reqs) in
      match fresh with
      | [] => acc
      | _ => ancestors_fuel f s fresh (acc ++ fresh)
      end
  end.

Definition ancestors (s : state) (st : stage) : list nat :=
  ancestors_fuel (length (w_stages s)) s (nodup Nat.eq_dec (s_reqs st)) (nodup Nat.eq_dec (s_reqs st)).

(* get_merged_ancestor_outputs on scalar values: ancestors merged in a topological order (stage
   indices increase along edges, so index order is one), later writers win *)
Definition merged_ancestor_outputs (s : state) (st : stage) : kv :=
  let anc := ancestors s st in
  fold_left (fun m j => if mem_nat j anc then
                          match get_stage s j with Some u => kv_update m (s_outs u) | None => m end
                        else m)
            (seqn (length (w_stages s))) [].

(* _plan_stage: the keys hydrated by a previous planning are dropped; then ancestors first, the stage's
   own context on top; the keys that came only from ancestors are recorded as hydrated *)
Definition own_ctx (st : stage) : kv := filter (fun p => negb (mem_nat (fst p) (s_hydrated st))) (s_ctx st).
Definition planned_ctx (s : state) (st : stage) : kv := kv_update (merged_ancestor_outputs s st) (own_ctx st).
Definition planned_hydrated (s : state) (st : stage) : list nat :=
  map fst (filter (fun p => match kv_get (fst p) (own_ctx st) with Some _ => false | None => true end)
                  (merged_ancestor_outputs s st)).

(* ------------------------------------------------------------------------------------------ *)
(* handlers                                                                                    *)
(* ------------------------------------------------------------------------------------------ *)

(* A commit is a list of primitive writes executed in ONE database transaction (deep embedding: every
   property of "all commits" is an induction over this datatype). *)
Inductive op :=
| OPut (i : nat) (st : stage)          (* store_stage of the handler's stage object (row overwritten) *)
| OMut (i : nat) (f : stage -> stage)  (* store_stage of a freshly re-read stage after applying f *)
| OPush (m : msg)                      (* push_message (or queue.push for a non-transactional push) *)
| OMark (id : nat)                     (* mark_message_processed *)
| OWf (x : status)                     (* update_workflow_status *)
| OCancelFlag                          (* repository.cancel: is_canceled := true *)
| OClaims (c : list (bool * nat * nat))(* stage_claims after acquire_claim *)
| OGStart (i : nat) (jc : Z)           (* ghost: this commit moved stage i NOT_STARTED -> RUNNING *)
| OBump (id : nat)                     (* poll_one's claim: attempts + 1 (lock) *)
| OAck (id : nat)                      (* queue.ack: delete the row *)
| OAdd (st : stage).                   (* store_stage of a NEW (synthetic) stage: appended, row index = old length *)

Definition commit := list op.

Definition mutate_stage (j : nat) (f : stage -> stage) (s : state) : state :=
  match get_stage s j with Some st => put_stage j (f st) s | None => s end.

Definition apply_op (s : state) (o : op) : state :=
  match o with
  | OPut i st => put_stage i st s
  | OMut i f => mutate_stage i f s
  | OPush m => push m s
  | OMark id => mark id s
  | OWf x => set_wf_status x s
  | OCancelFlag => set_canceled s
  | OClaims c => with_claims c s
  | OGStart i jc => ghost_start i jc s
  | OBump id => bump_attempts id s
  | OAck id => ack id s
  | OAdd st => with_stages s (w_stages s ++ [st])
  end.

Definition apply_commit (s : state) (c : commit) : state := fold_left apply_op c s.

Record hres := { h_pre : option (nat * nat); (* the task executed by this handler invocation (before any commit) *)
                 h_commits : list commit;
                 h_raised : bool }.          (* handler raised: processor reschedules, no mark, no ack *)

Definition ok (cs : list commit) : hres := {| h_pre := None; h_commits := cs; h_raised := false |}.
Definition raised : hres := {| h_pre := None; h_commits := []; h_raised := true |}.
Definition txn (fs : list commit) : commit := concat fs.
Definition c_put (i : nat) (st : stage) : commit := [OPut i st].
Definition c_mutate (i : nat) (f : stage -> stage) : commit := [OMut i f].
Definition c_push (m : msg) : commit := [OPush m].
Definition c_pushes (ms : list msg) : commit := map OPush ms.
Definition c_mark (id : nat) : commit := [OMark id].
Definition c_wf (x : status) : commit := [OWf x].
Definition c_cancel : commit := [OCancelFlag].

(* ---- StartWorkflow ---- *)
Definition initial_stages (s : state) : list nat :=
  filter (fun j => match get_stage s j with Some u => is_nil (s_reqs u) && is_top_level u | None => false end)
         (seqn (length (w_stages s))).

Definition handle_start_workflow (s : state) (id : nat) : hres :=
  if negb (status_eqb (w_status s) NOT_STARTED) then ok []
  else if w_canceled s then ok []
  else match initial_stages s with
       | [] => ok [txn [c_wf TERMINAL; c_mark id]]
       | ini => ok [txn [c_wf RUNNING; c_mark id; c_pushes (map (fun j => MStartStage j 0) ini)]]
       end.

(* ---- StartStage ---- *)
Definition should_skip (st : stage) : bool :=
  match s_enabled st with Some false => true | _ => false end.

(* _is_milestone_expired (WCP-18): the stage is skipped when its milestone stage cannot be found, or has completed
   in another status than the required one *)
Definition milestone_expired (s : state) (st : stage) : bool :=
  match y_milestone (s_syn st) with
  | None => false
  | Some (m, req) =>
      match get_stage s m with
      | None => true
      | Some ms => if status_eqb (s_status ms) req then false else is_complete (s_status ms)
      end
  end.

Definition mutex_blocked (s : state) (i : nat) (st : stage) : bool :=
  match s_mutex st with
  | None => false
  | Some k => existsb (fun j => negb (j =? i) &&
                 match get_stage s j with
                 | Some o => match s_mutex o with Some k' => (k =? k') && status_eqb (s_status o) RUNNING | None => false end
                 | None => false end) (seqn (length (w_stages s)))
  end.

Definition choice_claimed (s : state) (i : nat) (st : stage) : bool :=
  match s_choice st with
  | None => false
  | Some g => existsb (fun j => negb (j =? i) &&
                 match get_stage s j with
                 | Some o => match s_choice o with Some g' => (g =? g') && negb (status_eqb (s_status o) NOT_STARTED) | None => false end
                 | None => false end) (seqn (length (w_stages s)))
  end.

Definition claim_lookup (cl : list (bool * nat * nat)) (is_mutex : bool) (k : nat) : option nat :=
  match find (fun c => Bool.eqb (fst (fst c)) is_mutex && (snd (fst c) =? k)) cl with
  | Some c => Some (snd c)
  | None => None
  end.

(* AtomicTransaction.acquire_claim: (acquired?, new claim table) *)
Definition acquire_claim (s : state) (is_mutex : bool) (k : nat) (i : nat) (steal : bool) : bool * list (bool * nat * nat) :=
  match claim_lookup (w_claims s) is_mutex k with
  | None => (true, w_claims s ++ [(is_mutex, k, i)])
  | Some owner =>
      if owner =? i then (true, w_claims s)
      else if steal && match get_stage s owner with Some o => is_complete (s_status o) | None => true end
           then (true, map (fun c => if Bool.eqb (fst (fst c)) is_mutex && (snd (fst c) =? k) then (is_mutex, k, i) else c) (w_claims s))
      else (false, w_claims s)
  end.

(* _plan_stage: tasks are built by the builder only when the stage has none; before stages are built only when the
   stage has no before child yet (a re-plan adds no second set) *)
Definition planned_tasks (st : stage) : list task :=
  match s_tasks st with [] => fresh_tasks (y_ntasks (s_syn st)) | ts => ts end.

Definition new_before (s : state) (i : nat) (st : stage) : list stage :=
  match kids s i OwnBefore with
  | [] => mk_children (length (w_stages s)) i OwnBefore (y_before (s_syn st))
  | _ => []
  end.

(* _collect_start_messages: initial before stages (persisted ones, whatever their status, and the new ones), else the
   first task, else the initial after stages, else CompleteStage *)
Definition first_msgs (s : state) (i : nat) (st : stage) : list msg :=
  let befores := filter (initial_at s) (kids s i OwnBefore) ++ new_initial (length (w_stages s)) (new_before s i st) in
  match befores with
  | _ :: _ => map (fun j => MStartStage j 0) befores
  | [] =>
      match planned_tasks st with
      | _ :: _ => [MStartTask i 0]
      | [] =>
          match filter (initial_at s) (kids s i OwnAfter) with
          | _ :: _ as afters => map (fun j => MStartStage j 0) afters
          | [] => [MCompleteStage i]
          end
      end
  end.

Definition siblings_not_started (s : state) (i : nat) (g : nat) : list nat :=
  filter (fun j => negb (j =? i) &&
            match get_stage s j with
            | Some o => match s_choice o with Some g' => (g =? g') && status_eqb (s_status o) NOT_STARTED | None => false end
            | None => false end) (seqn (length (w_stages s))).

Definition start_if_ready (s : state) (id i : nat) (retry : Z) (st0 : stage) (bypass : bool) : hres :=
  (* st0 = the stage as read, with _jump_bypass already deleted in memory when it was set *)
  let st := if bypass then st_ctl st0 false (s_jump_count st0) (s_buffered st0) (s_signal st0) else st0 in
  let zombie := status_eqb (s_status st) RUNNING && (s_plan_pending st || (is_nil (s_tasks st) && is_nil (children s i))) in
  if negb (start_stage_fresh (s_status st)) && negb zombie then ok []
  else if should_skip st then ok [txn [c_mark id; c_push (MSkipStage i)]]
  else if milestone_expired s st then ok [txn [c_mark id; c_push (MSkipStage i)]]
  else if mutex_blocked s i st then ok [c_push (MStartStage i (retry + 1))]
  else if status_eqb (s_status st) NOT_STARTED && choice_claimed s i st then ok [txn [c_mark id; c_push (MCancelStage i)]]
  else if y_expired (s_syn st) then ok [txn [c_mark id; c_push (MSkipStage i)]]
  else
    (* claim transaction *)
    let m := match s_mutex st with
             | Some k => acquire_claim s true k i true
             | None => (true, w_claims s) end in
    if negb (fst m) then ok [c_push (MStartStage i (retry + 1))]
    else
      let s1 := with_claims (snd m) s in
      let c := match s_choice st with
               | Some g => acquire_claim s1 false g i false
               | None => (true, snd m) end in
      if negb (fst c) then ok [txn [c_mark id; c_push (MCancelStage i)]]
      else
        let claimed := if zombie then st_touch st
                       else with_pending (st_set st RUNNING true (s_ended st) (s_fired st) (s_branches st) (s_has_exc st)
                                                         (s_ctx st) (s_outs st) (s_tasks st)) true in
        let claim_commit : commit :=
          [OClaims (snd c); OPut i claimed] ++ (if zombie then [] else [OGStart i (s_jump_count st)]) in
        let sib_commits : list commit :=
          match s_choice st with
          | Some g => map (fun j => c_push (MCancelStage j)) (siblings_not_started s i g)
          | None => [] end in
        let fired := match s_join st with J_DISCRIMINATOR | J_N_OF_M => true | _ => s_fired st end in
        let planned := with_pending (with_hydrated
                         (st_set claimed (s_status claimed) (s_started claimed) (s_ended claimed) fired (s_branches claimed)
                                 (s_has_exc claimed) (planned_ctx s st) (s_outs claimed) (planned_tasks st))
                         (planned_ctx s st) (planned_hydrated s st)) false in
        ok ([claim_commit] ++ sib_commits ++
            [txn [c_put i planned; map OAdd (new_before s i st); c_mark id; c_pushes (first_msgs s i st)]]).

(* a synthetic stage whose parent is NOT_STARTED: the parent was re-armed by a jump after this StartStage was queued *)
Definition parent_not_started (s : state) (st : stage) : bool :=
  match y_parent (s_syn st) with
  | Some p => match get_stage s p with Some ps => status_eqb (s_status ps) NOT_STARTED | None => false end
  | None => false
  end.

Definition handle_start_stage (s : state) (id i : nat) (retry : Z) : hres :=
  match get_stage s i with
  | None => ok []
  | Some st =>
      if parent_not_started s st then ok [c_mark id] else
      let ups := upstream s st in
      let bypass := s_bypass st in
      let r := evaluate_readiness (rstage_of st) ups bypass in
      match rr_phase r with
      | P_READY => start_if_ready s id i retry st bypass
      | P_SKIP => ok [c_push (MCompleteWorkflow 0)]
      | _ =>
          if start_stage_late (s_status st) then ok []
          else if start_stage_waits r ups then ok []
          else if wait_exhausted retry max_stage_wait_retries then
            if can_transition (s_status st) TERMINAL then
              ok [txn [c_put i (st_set st TERMINAL (s_started st) true (s_fired st) (s_branches st) true (s_ctx st) (s_outs st) (s_tasks st)); c_push (MCompleteStage i)]]
            else (* InvalidStateTransitionError -> generic except -> do_mark_error on the fresh stage *)
              ok [txn [c_put i (st_exc st); c_push (MCompleteStage i)]]
          else ok [c_push (MStartStage i (retry + 1))]
      end
  end.

(* ---- StartTask ---- *)
Definition before_incomplete (s : state) (i : nat) : bool :=
  existsb (fun j => negb (is_complete (status_at s j))) (kids s i OwnBefore).

Definition handle_start_task (s : state) (id i t : nat) : hres :=
  match get_stage s i with
  | None => ok []
  | Some st =>
      match nth_error (s_tasks st) t with
      | None => ok []
      | Some tk =>
          (* a StartTask left over from before a jump re-armed the stage: the stage is NOT_STARTED again *)
          if status_eqb (s_status st) NOT_STARTED then ok [c_mark id]
          (* a duplicate StartTask of the previous iteration: a before stage (re-armed) is not finished yet *)
          else if before_incomplete s i then ok [c_mark id]
          else if negb (start_task_guard (t_status tk)) then ok [c_mark id]
          else if t_disabled tk then
            ok [txn [c_put i (st_tasks st (task_set (s_tasks st) t SKIPPED (t_started tk))); c_mark id; c_push (MCompleteTask i t SKIPPED)]]
          else ok [txn [c_put i (st_tasks st (task_set (s_tasks st) t RUNNING true)); c_mark id; c_push (MRunTask i t)]]
      end
  end.

(* ---- RunTask ---- *)
Definition count_execs (s : state) (i t : nat) : nat :=
  length (filter (fun p => (fst p =? i) && (snd p =? t)) (g_execs s)).

Definition jump_target_ok (s : state) (tg : nat) : bool := tg <? length (w_stages s).

Definition process_result (s : state) (id i t : nat) (st : stage) (tk : task) (r : tresult) : list commit :=
  match r with
  | RRunning c =>
      [txn [c_put i (st_data st (kv_update (s_ctx st) c) (s_outs st)); c_push (MRunTask i t)]]
  | RSucceed o =>
      [txn [c_put i (st_data st (s_ctx st) (kv_update (s_outs st) o)); c_mark id; c_push (MCompleteTask i t SUCCEEDED)]]
  | RFailedContinue => [txn [c_put i (st_touch st); c_mark id; c_push (MCompleteTask i t FAILED_CONTINUE)]]
  | RStopped => [txn [c_put i (st_touch st); c_mark id; c_push (MCompleteTask i t STOPPED)]]
  | RSkipped => [txn [c_put i (st_touch st); c_mark id; c_push (MCompleteTask i t SKIPPED)]]
  | RRedirect => [txn [c_put i (st_touch st); c_mark id; c_push (MCompleteTask i t REDIRECT)]]
  | RCanceled =>
      [txn [c_put i (st_touch st); c_mark id; c_push (MCompleteTask i t (failure_status (s_cof st) (s_fp st) CANCELED))]]
  | RTerminal =>
      [txn [c_put i (st_touch st); c_mark id; c_push (MCompleteTask i t (failure_status (s_cof st) (s_fp st) TERMINAL))]]
  | RJump tg =>
      [txn [c_put i (st_touch st); c_mark id; c_push (MJumpToStage i tg [] []); c_push (MCompleteTask i t REDIRECT)]]
  | RSuspend =>
      match s_buffered st with
      | sig :: rest =>
          (* consume the first buffered signal and re-run the task in the same commit *)
          (* stage.status = RUNNING and task.status = RUNNING are assigned directly (no validation) *)
          [txn [c_put i (st_set (st_ctl st (s_bypass st) (s_jump_count st) rest (Some sig)) RUNNING (s_started st) (s_ended st)
                                (s_fired st) (s_branches st) (s_has_exc st) (s_ctx st) (s_outs st)
                                (task_set (s_tasks st) t RUNNING (t_started tk)));
                c_mark id; c_push (MRunTask i t)]]
      | [] =>
          [txn [c_put i (st_set st SUSPENDED (s_started st) (s_ended st) (s_fired st) (s_branches st) (s_has_exc st)
                                   (s_ctx st) (s_outs st) (task_set (s_tasks st) t SUSPENDED (t_started tk))); c_mark id]]
      end
  | RTransient _ | RPermanent => []   (* exceptions: see handle_exception *)
  end.

Definition mark_terminal (id i t : nat) (st : stage) : list commit :=
  [txn [c_put i (st_exc st); c_mark id; c_push (MCompleteTask i t (failure_status (s_cof st) (s_fp st) TERMINAL))]].

Definition handle_exception (s : state) (id i t : nat) (st : stage) (attempts : Z) (r : tresult) : list commit :=
  match r with
  | RTransient c =>
      if retry_guard attempts default_max_attempts then
        match c with
        | [] => [txn [c_push (MRunTask i t)]]
        | _ => [txn [c_put i (st_data st (kv_update (s_ctx st) c) (s_outs st)); c_push (MRunTask i t)]]
        end
      else mark_terminal id i t st
  | _ => mark_terminal id i t st
  end.

Definition handle_run_task (orc : oracle) (s : state) (id i t : nat) (attempts : Z) : hres :=
  match get_stage s i with
  | None => ok []
  | Some st =>
      match nth_error (s_tasks st) t with
      | None => ok []
      | Some tk =>
          if negb (run_task_guard (t_status tk)) then ok [c_mark id]
          else if w_canceled s then ok [txn [c_mark id; c_push (MCompleteTask i t CANCELED)]]
          else if is_complete (w_status s) then ok [txn [c_mark id; c_push (MCompleteTask i t CANCELED)]]
          else if status_eqb (w_status s) PAUSED then ok [txn [c_mark id; c_push (MPauseTask i t)]]
          else
            let r := orc i t (count_execs s i t) in
            {| h_pre := Some (i, t);
               h_commits := match r with
                            | RTransient _ | RPermanent => handle_exception s id i t st attempts r
                            | _ => process_result s id i t st tk r
                            end;
               h_raised := false |}
      end
  end.

(* ---- CompleteTask ---- *)
Definition handle_complete_task (s : state) (id i t : nat) (x : status) : hres :=
  match get_stage s i with
  | None => ok []
  | Some st =>
      match nth_error (s_tasks st) t with
      | None => ok []
      | Some tk =>
          if negb (complete_task_guard (t_status tk) x) then ok [c_mark id]
          else if negb (can_transition (t_status tk) x) then raised
          else
            let st' := st_tasks st (task_set (s_tasks st) t x (t_started tk)) in
            if status_eqb x REDIRECT then ok [txn [c_put i st'; c_mark id]]
            else if S t <? length (s_tasks st) then ok [txn [c_put i st'; c_mark id; c_push (MStartTask i (S t))]]
            else ok [txn [c_put i st'; c_mark id; c_push (MCompleteStage i)]]
      end
  end.

(* ---- CompleteStage ---- *)
Definition join_tracking (s : state) (i : nat) (ds : list nat) : list commit :=
  flat_map (fun d => match get_stage s d with
                     | Some dst =>
                         match s_join dst with
                         | J_DISCRIMINATOR | J_N_OF_M =>
                             if mem_nat i (s_branches dst) then []
                             else [c_mutate d (fun f => st_set f (s_status f) (s_started f) (s_ended f) (s_fired f)
                                                                    (s_branches f ++ [i]) (s_has_exc f) (s_ctx f) (s_outs f) (s_tasks f))]
                         | _ => []
                         end
                     | None => [] end) ds.

(* _apply_split_logic: AND-split activates every downstream; OR-split evaluates the per-downstream condition
   (no condition = activated), and activates the first downstream when none matched.
   (_record_activated_branches never finds the OR-join: the handler's execution object holds only the stage,
   its upstreams and its synthetic children — so OR-joins fall back to AND semantics; modelled as that.) *)
Definition cond_of (st : stage) (d : nat) : bool :=
  match find (fun p => fst p =? d) (s_conds st) with Some p => snd p | None => true end.

Definition apply_split (st : stage) (ds : list nat) : list nat * list nat :=
  if negb (s_split_or st) || is_nil (s_conds st) then (ds, [])
  else match filter (cond_of st) ds with
       | [] => match ds with d0 :: r => ([d0], r) | [] => ([], []) end
       | act => (act, filter (fun d => negb (cond_of st d)) ds)
       end.

Definition downstream_msgs (st : stage) (ds : list nat) : list msg :=
  match ds with
  | [] => [MCompleteWorkflow 0]
  | _ => let sp := apply_split st ds in
         match fst sp with
         | [] => map (fun d => MStartStage d 0) ds
         | act => map (fun d => MStartStage d 0) act ++ map MSkipStage (snd sp)
         end
  end.

(* where a finished (or failed) stage reports to: the workflow for a top-level stage, its parent for a child *)
Definition up_msg (st : stage) : msg :=
  match y_owner (s_syn st), y_parent (s_syn st) with
  | Some _, Some p => MCompleteStage p
  | _, _ => MCompleteWorkflow 0
  end.

(* after a continuable completion: downstream stages (with the split decision), else the parent, else the workflow *)
Definition next_msgs (st : stage) (ds : list nat) : list msg :=
  match ds with
  | _ :: _ => downstream_msgs st ds
  | [] => match y_owner (s_syn st) with
          | Some o => match y_parent (s_syn st) with Some p => [MContinueParent p o 0] | None => [] end
          | None => [MCompleteWorkflow 0]
          end
  end.

Definition core_ok (x : status) : bool := status_eqb x SUCCEEDED || status_eqb x SKIPPED || status_eqb x FAILED_CONTINUE.

Definition handle_complete_stage (s : state) (id i : nat) : hres :=
  match get_stage s i with
  | None => ok []
  | Some st =>
      if status_eqb (s_status st) NOT_STARTED then ok [c_mark id]
      else if negb (complete_stage_guard (s_status st)) then
        if is_halt (s_status st) then ok [txn [c_mark id; c_push (up_msg st)]] else ok []
      else
        let before := map (status_at s) (kids s i OwnBefore) in
        let after := map (status_at s) (kids s i OwnAfter) in
        let tasks := map t_status (s_tasks st) in
        let x := determine_status (s_status st) (s_cof st) (s_fp st) before tasks after in
        let first_after := filter (initial_at s) (kids s i OwnAfter) in
        let base := length (w_stages s) in
        (* after stages: when the status is complete and not a halt, or RUNNING only because every initial after
           stage is still NOT_STARTED while the core work (before stages + tasks) is done *)
        let do_after :=
          (is_complete x && negb (is_halt x)) ||
          (status_eqb x RUNNING && negb (is_nil first_after) &&
           forallb (fun j => status_eqb (status_at s j) NOT_STARTED) first_after &&
           negb (is_nil (before ++ tasks)) && forallb core_ok (before ++ tasks)) in
        let new_after := if do_after && is_nil first_after then mk_children base i OwnAfter (y_after (s_syn st)) else [] in
        let after_ns := filter (fun j => status_eqb (status_at s j) NOT_STARTED) first_after ++ new_initial base new_after in
        if do_after && negb (is_nil after_ns) then
          ok [txn [c_put i (st_touch st); map OAdd new_after; c_mark id; c_pushes (map (fun j => MStartStage j 0) after_ns)]]
        else
          let failing := negb do_after && is_failure x in
          if failing && existsb (fun j => negb (is_complete (status_at s j))) first_after then ok [c_mark id]
          else
            let new_fail := if failing && negb (s_onfail st) then mk_children base i OwnAfter (y_fail (s_syn st)) else [] in
            let fail_ns := filter (fun j => status_eqb (status_at s j) NOT_STARTED) first_after ++ new_initial base new_fail in
            if negb (is_nil new_fail) && negb (is_nil fail_ns) then
              ok [txn [c_put i (st_touch (with_onfail st true)); map OAdd new_fail; c_mark id;
                       c_pushes (map (fun j => MStartStage j 0) fail_ns)]]
            else
              let st := if negb (is_nil new_fail) then with_onfail st true else st in
              if status_eqb x RUNNING then ok [c_mark id]
              else
              (* _blocking_failure: FAILED_CONTINUE is converted to TERMINAL before the status is assigned *)
              let x := if status_eqb x FAILED_CONTINUE && y_blocking (s_syn st) then TERMINAL else x in
              if negb (can_transition (s_status st) x) then raised
              else
                let st' := st_end st x in
                if status_eqb x SUCCEEDED || status_eqb x FAILED_CONTINUE || status_eqb x SKIPPED then
                  let ds := downstream s i in
                  ok (join_tracking s i ds ++
                      [txn [c_put i st'; c_mark id; c_pushes (next_msgs st ds)]])
                else ok [txn [c_put i st'; c_push (MCancelStage i); c_push (up_msg st)]]
  end.

(* ---- SkipStage ---- *)
Definition handle_skip_stage (s : state) (id i : nat) : hres :=
  match get_stage s i with
  | None => ok []
  | Some st =>
      if negb (skip_stage_guard (s_status st)) then ok []
      else
        let ds := downstream s i in
        ok [txn [c_put i (st_end st SKIPPED); c_mark id;
                 c_pushes (match ds with
                           | [] => match y_owner (s_syn st) with
                                   | Some o => match y_parent (s_syn st) with Some p => [MContinueParent p o 0] | None => [] end
                                   | None => [MCompleteWorkflow 0] end
                           | _ => map (fun d => MStartStage d 0) ds end)]]
  end.

(* ---- CancelStage ---- *)
Definition cancel_tasks (ts : list task) : list task :=
  map (fun tk => if status_eqb (t_status tk) NOT_STARTED || status_eqb (t_status tk) RUNNING
                 then {| t_status := CANCELED; t_started := t_started tk; t_disabled := t_disabled tk |} else tk) ts.

Definition handle_cancel_stage (s : state) (id i : nat) : hres :=
  match get_stage s i with
  | None => ok []
  | Some st =>
      if negb (cancel_stage_guard (s_status st)) then ok []
      else if negb (can_transition (s_status st) CANCELED) then raised
      else ok [txn [c_put i (st_set st CANCELED (s_started st) true (s_fired st) (s_branches st) (s_has_exc st)
                                         (s_ctx st) (s_outs st) (cancel_tasks (s_tasks st))); c_mark id]]
  end.

(* ---- CompleteWorkflow ---- *)
(* CompleteWorkflowHandler._can_still_start: the stage's own join rule says READY (no jump bypass) *)
Definition can_still_start (s : state) (st : stage) : bool :=
  match rr_phase (evaluate_readiness (rstage_of st) (upstream s st) false) with P_READY => true | _ => false end.

Definition tl_view (s : state) : list tl_stage :=
  map (fun st => (s_status st, can_still_start s st)) (filter is_top_level (w_stages s)).

Definition running_stages (s : state) : list nat :=
  filter (fun j => match get_stage s j with Some u => status_eqb (s_status u) RUNNING && is_top_level u | None => false end)
         (seqn (length (w_stages s))).

Definition handle_complete_workflow (s : state) (id : nat) (retry : Z) : hres :=
  if is_complete (w_status s) then ok []
  else match determine_final_status (tl_view s) false retry max_stage_wait_retries with
       | Requeue => ok [c_push (MCompleteWorkflow (retry + 1))]
       | Final x =>
           if negb (can_transition (w_status s) x) then raised
           else ok [txn [c_wf x; c_mark id;
                         c_pushes (if status_eqb x SUCCEEDED then [] else map MCancelStage (running_stages s))]]
       end.

(* ---- CancelWorkflow ---- *)
Definition incomplete_stages (s : state) : list nat :=
  (* every unfinished stage, synthetic children included *)
  filter (fun j => match get_stage s j with Some u => negb (is_complete (s_status u)) | None => false end)
         (seqn (length (w_stages s))).

Definition handle_cancel_workflow (s : state) (id : nat) : hres :=
  if is_complete (w_status s) then ok [c_mark id]
  else ok [c_cancel;
           txn [c_mark id; c_pushes (map MCancelStage (incomplete_stages s)); c_push (MCompleteWorkflow 0)]].

(* ---- SignalStage (signal_stage.py) ---- *)
Definition handle_signal_stage (s : state) (id i name : nat) (persistent : bool) : hres :=
  match get_stage s i with
  | None => ok []
  | Some st =>
      if status_eqb (s_status st) SUSPENDED then
        (* deliver: stage and its first suspended task back to RUNNING, re-run the task *)
        let st1 := st_ctl st (s_bypass st) (s_jump_count st) (s_buffered st) (Some name) in
        match find (fun p => status_eqb (t_status (snd p)) SUSPENDED) (combine (seqn (length (s_tasks st))) (s_tasks st)) with
        | Some (ti, tk) =>
            ok [txn [c_put i (st_set st1 RUNNING (s_started st) (s_ended st) (s_fired st) (s_branches st) (s_has_exc st)
                                         (s_ctx st) (s_outs st) (task_set (s_tasks st) ti RUNNING (t_started tk)));
                     c_mark id; c_push (MRunTask i ti)]]
        | None =>
            ok [txn [c_put i (st_status st1 RUNNING); c_mark id; c_push (MStartStage i 0)]]
        end
      else if persistent then
        ok [txn [c_put i (st_touch (st_ctl st (s_bypass st) (s_jump_count st) (s_buffered st ++ [name]) (s_signal st))); c_mark id]]
      else ok [c_mark id]
  end.

(* ---- JumpToStage (jump_to_stage/{handler,traversal,reset}.py) ---- *)
Definition reqs_of (s : state) (j : nat) : list nat :=
  match get_stage s j with Some u => s_reqs u | None => [] end.

(* one scan of get_resettable_downstream_stages' while-loop body (the scope grows during the scan) *)
Definition scope_pass (s : state) (scope : list nat) : list nat :=
  fold_left (fun sc j => if mem_nat j sc then sc
                         else let rq := reqs_of s j in
                              if negb (is_nil rq) && forallb (fun r => mem_nat r sc) rq then sc ++ [j] else sc)
            (seqn (length (w_stages s))) scope.

Fixpoint scope_fix (fuel : nat) (s : state) (scope : list nat) : list nat :=
  match fuel with
  | O => scope
  | S f => let sc := scope_pass s scope in
           if length sc =? length scope then scope else scope_fix f s sc
  end.

(* get_resettable_downstream_stages / get_skippable_downstream_stages: the closure without its seed *)
Definition closed_downstream (s : state) (seed : nat) : list nat :=
  tl (scope_fix (S (length (w_stages s))) s [seed]).

(* get_downstream_stages: naive transitive dependents *)
Fixpoint dependents_fix (fuel : nat) (s : state) (acc : list nat) (seed : nat) : list nat :=
  match fuel with
  | O => acc
  | S f =>
      let acc' := fold_left (fun a j => if mem_nat j a then a
                                        else if existsb (fun r => (r =? seed) || mem_nat r a) (reqs_of s j) then a ++ [j] else a)
                            (seqn (length (w_stages s))) acc in
      if length acc' =? length acc then acc else dependents_fix f s acc' seed
  end.
Definition all_dependents (s : state) (seed : nat) : list nat :=
  dependents_fix (S (length (w_stages s))) s [] seed.

Definition reset_for_retry (st : stage) : stage :=
  st_set st NOT_STARTED false false false [] (s_has_exc st) (s_ctx st) [] (map (fun tk => {| t_status := NOT_STARTED; t_started := false; t_disabled := t_disabled tk |}) (s_tasks st)).

Definition to_terminal (st : stage) : stage :=
  st_set st TERMINAL (s_started st) true (s_fired st) (s_branches st) (s_has_exc st) (s_ctx st) (s_outs st)
         (map (fun tk => if status_eqb (t_status tk) RUNNING then {| t_status := TERMINAL; t_started := t_started tk; t_disabled := t_disabled tk |} else tk) (s_tasks st)).

Definition to_succeeded (st : stage) : stage :=
  st_set st SUCCEEDED (s_started st) true (s_fired st) (s_branches st) (s_has_exc st) (s_ctx st) (s_outs st)
         (map (fun tk => if status_eqb (t_status tk) RUNNING then {| t_status := SUCCEEDED; t_started := t_started tk; t_disabled := t_disabled tk |} else tk) (s_tasks st)).

Definition to_skipped (st : stage) : stage :=
  st_set st SKIPPED (s_started st) true (s_fired st) (s_branches st) (s_has_exc st) (s_ctx st) (s_outs st)
         (map (fun tk => {| t_status := SKIPPED; t_started := t_started tk; t_disabled := t_disabled tk |}) (s_tasks st)).

Definition effective_max_jumps (s : state) (src : stage) : Z :=
  match w_max_jumps s with
  | Some m => m
  | None => match s_max_jumps src with Some m => m | None => default_max_jumps end
  end.

Definition handle_jump (s : state) (id i tg : nat) (jctx : kv) : hres :=
  match get_stage s i with
  | None => ok []
  | Some src =>
      if w_canceled s then ok [c_mark id] else
      match get_stage s tg with
      | None => ok [txn [c_mutate i to_terminal; c_mark id; c_push (MCompleteStage i)]]
      | Some tgt =>
          if jump_exhausted (s_jump_count src) (effective_max_jumps s src) then
            ok [txn [c_mutate i to_terminal; c_mark id; c_push (MCompleteStage i)]]
          else
            let resets := filter (fun j => negb (j =? i) && negb (j =? tg)) (closed_downstream s tg) in
            let self_loop := i =? tg in
            let backward := self_loop || mem_nat i (all_dependents s tg) in
            let chain := tg :: all_dependents s tg in
            let skipped := if backward then []
                           else filter (fun j => negb (mem_nat j chain) &&
                                          match get_stage s j with Some u => status_eqb (s_status u) NOT_STARTED | None => false end)
                                       (filter (fun j => mem_nat j (closed_downstream s i)) (seqn (length (w_stages s)))) in
            let nj := (s_jump_count src + 1)%Z in
            let set_jc (st : stage) := st_ctl st (s_bypass st) nj (s_buffered st) (s_signal st) in
            (* _synthetic_reset_mutations: one reset per synthetic child (get_synthetic_stages, row order, read before
               the transaction), appended right after the mutation of its re-armed parent *)
            let kid_resets (j : nat) : list commit := map (fun c => c_mutate c reset_for_retry) (children s j) in
            let src_mut : list commit :=
              if self_loop then []
              else if backward then c_mutate i (fun st => set_jc (reset_for_retry st)) :: kid_resets i
              else [c_mutate i (fun st => set_jc (to_succeeded st))] in
            let tgt_mut : commit :=
              c_mutate tg (fun st => let r := reset_for_retry st in
                                   st_ctl (with_ctx r (kv_update (s_ctx r) jctx)) true nj (s_buffered r) (s_signal r)) in
            ok [txn (flat_map (fun j => c_mutate j reset_for_retry :: kid_resets j) resets ++
                     map (fun j => c_mutate j to_skipped) skipped ++
                     src_mut ++ tgt_mut :: kid_resets tg ++ [c_mark id; c_push (MStartStage tg 0)])]
      end
  end.

(* ---- PauseTask / ResumeStage / RestartStage (workflow_control.py) ---- *)
Definition handle_pause_task (s : state) (id i t : nat) : hres :=
  match get_stage s i with
  | None => ok []
  | Some st =>
      match nth_error (s_tasks st) t with
      | None => ok []
      | Some tk =>
          if is_complete (t_status tk) then ok [c_mark id]
          else if negb (can_transition (t_status tk) PAUSED) || negb (can_transition (s_status st) PAUSED) then raised
          else ok [txn [c_put i (st_set st PAUSED (s_started st) (s_ended st) (s_fired st) (s_branches st) (s_has_exc st)
                                        (s_ctx st) (s_outs st) (task_set (s_tasks st) t PAUSED (t_started tk))); c_mark id]]
      end
  end.

Definition handle_resume_stage (s : state) (id i : nat) : hres :=
  match get_stage s i with
  | None => ok []
  | Some st =>
      if negb (status_eqb (s_status st) PAUSED) then ok [c_mark id]
      else
        let wf_ops := if status_eqb (w_status s) PAUSED then c_wf RUNNING else [] in
        match find (fun p => status_eqb (t_status (snd p)) PAUSED) (combine (seqn (length (s_tasks st))) (s_tasks st)) with
        | Some (ti, tk) =>
            ok [txn [c_put i (st_set st RUNNING (s_started st) (s_ended st) (s_fired st) (s_branches st) (s_has_exc st)
                                     (s_ctx st) (s_outs st) (task_set (s_tasks st) ti RUNNING (t_started tk)));
                     wf_ops; c_mark id; c_push (MRunTask i ti)]]
        | None => ok [txn [c_put i (st_status st RUNNING); wf_ops; c_mark id]]
        end
  end.

Definition handle_restart_stage (s : state) (id i : nat) : hres :=
  match get_stage s i with
  | None => ok []
  | Some st =>
      if w_canceled s then ok [c_mark id]
      else if negb (is_complete (s_status st)) then ok [c_mark id]
      else ok [txn [c_put i (reset_for_retry st); (if is_complete (w_status s) then c_wf RUNNING else []);
                    c_mark id; c_push (MStartStage i 0)]]
  end.

(* ---- ContinueParentStage (continue_parent_stage.py) ---- *)
Definition handle_continue_parent (s : state) (id i : nat) (o : owner) (retry : Z) : hres :=
  match get_stage s i with
  | None => ok []
  | Some st =>
      let ks := map (status_at s) (kids s i o) in
      if existsb in_halt ks then
        (* _halted_children_status: children that were merely CANCELED cancel the parent; a TERMINAL / STOPPED one fails it *)
        let x := if forallb (fun k => negb (in_halt k) || status_eqb k CANCELED) ks then CANCELED else TERMINAL in
        if negb (can_transition (s_status st) x) then raised
        else ok [txn [c_put i (st_end st x); c_mark id; c_push (MCompleteStage i)]]
      else if negb (forallb in_continuable ks) then
        if (max_stage_wait_retries <=? retry)%Z then
          if negb (can_transition (s_status st) TERMINAL) then raised
          else ok [txn [c_put i (st_set st TERMINAL (s_started st) true (s_fired st) (s_branches st) true (s_ctx st) (s_outs st) (s_tasks st));
                        c_mark id; c_push (MCompleteStage i)]]
        else ok [c_push (MContinueParent i o (retry + 1))]
      else
        match o with
        | OwnAfter => ok [txn [c_mark id; c_push (MCompleteStage i)]]
        | OwnBefore =>
            match s_tasks st with
            | _ :: _ => ok [txn [c_mark id; c_push (MStartTask i 0)]]
            | [] =>
                match filter (initial_at s) (kids s i OwnAfter) with
                | [] => ok [txn [c_mark id; c_push (MCompleteStage i)]]
                | afters =>
                    match filter (fun j => status_eqb (status_at s j) NOT_STARTED) afters with
                    | [] => ok []
                    | ns => ok [txn [c_mark id; c_pushes (map (fun j => MStartStage j 0) ns)]]
                    end
                end
            end
        end
  end.

(* ------------------------------------------------------------------------------------------ *)
(* dispatch, delivery, recovery                                                                *)
(* ------------------------------------------------------------------------------------------ *)

Definition handle (orc : oracle) (s : state) (r : qrow) : hres :=
  let id := q_id r in
  match q_msg r with
  | MStartWorkflow => handle_start_workflow s id
  | MCompleteWorkflow k => handle_complete_workflow s id k
  | MCancelWorkflow => handle_cancel_workflow s id
  | MStartStage i k => handle_start_stage s id i k
  | MCompleteStage i => handle_complete_stage s id i
  | MSkipStage i => handle_skip_stage s id i
  | MCancelStage i => handle_cancel_stage s id i
  | MStartTask i t => handle_start_task s id i t
  | MRunTask i t => handle_run_task orc s id i t (q_attempts r)
  | MCompleteTask i t x => handle_complete_task s id i t x
  | MJumpToStage i tg c o => handle_jump s id i tg c
  | MSignalStage i n p => handle_signal_stage s id i n p
  | MPauseTask i t => handle_pause_task s id i t
  | MResumeStage i => handle_resume_stage s id i
  | MRestartStage i => handle_restart_stage s id i
  | MContinueParent i o k => handle_continue_parent s id i o k
  end.

Definition find_row (s : state) (id : nat) : option qrow := find (fun r => q_id r =? id) (w_queue s).

(* one delivery: the poll's claim commit; then the in-memory / external pre-effect of the handler (the
   task execution); then the handler's commits, the post-handler processed mark and the ack *)
Record delivery := { d_poll : commit; d_pre : option (nat * nat); d_rest : list commit }.

Definition delivery_commits (orc : oracle) (s : state) (id : nat) (do_ack : bool) : option delivery :=
  match find_row s id with
  | None => None
  | Some r0 =>
      if (queue_max_attempts <=? q_attempts r0)%Z then None   (* poll_one filters the row out *)
      else
        let s1 := bump_attempts id s in
        let r := {| q_id := id; q_msg := q_msg r0; q_attempts := q_attempts r0 + 1 |} in
        if mem_nat id (w_processed s1) then
          Some {| d_poll := [OBump id]; d_pre := None; d_rest := if do_ack then [[OAck id]] else [] |}
        else
          let h := handle orc s1 r in
          Some {| d_poll := [OBump id]; d_pre := h_pre h;
                  d_rest := h_commits h ++ (if h_raised h then [] else [OMark id] :: (if do_ack then [[OAck id]] else [])) |}
  end.

Definition apply_pre (p : option (nat * nat)) (s : state) : state :=
  match p with Some (i, t) => ghost_exec i t s | None => s end.

Fixpoint apply_commits (cs : list commit) (s : state) : state :=
  match cs with [] => s | c :: r => apply_commits r (apply_commit s c) end.

(* recovery.py:_recover_workflow — one transaction pushing every recovery message *)
Definition has_pending_for_task (s : state) (i t : nat) : bool :=
  existsb (fun r => match q_msg r with
                    | MStartTask a b | MRunTask a b | MCompleteTask a b _ | MPauseTask a b => (a =? i) && (b =? t)
                    | _ => false end) (w_queue s).

Definition recover_stage (s : state) (i : nat) (st : stage) : list msg :=
  if status_eqb (s_status st) RUNNING then
    let idx := seqn (length (s_tasks st)) in
    let running := filter (fun t => match nth_error (s_tasks st) t with Some tk => status_eqb (t_status tk) RUNNING | None => false end) idx in
    let notstarted := filter (fun t => match nth_error (s_tasks st) t with Some tk => status_eqb (t_status tk) NOT_STARTED | None => false end) idx in
    match running with
    | _ :: _ => flat_map (fun t => if has_pending_for_task s i t then [] else [MRunTask i t]) running
    | [] =>
        if negb (s_plan_pending st) && existsb (fun j => negb (is_complete (status_at s j))) (kids s i OwnBefore) then [] else
        match notstarted with
        | t :: _ => if s_started st && negb (s_plan_pending st)
                    then (if has_pending_for_task s i t then [] else [MStartTask i t]) else [MStartStage i 0]
        | [] => [MStartStage i 0]
        end
    end
  else if status_eqb (s_status st) NOT_STARTED then
    if s_started st || existsb t_started (s_tasks st) then [MStartStage i 0]
    else if can_start (rstage_of st) (negb (is_nil (s_reqs st))) false (upstream s st) then [MStartStage i 0]
    else []
  else [].

Definition recovery_msgs (s : state) : list msg :=
  if is_complete (w_status s) then []
  else if negb (status_eqb (w_status s) RUNNING || status_eqb (w_status s) NOT_STARTED) then []
  else
    let ms := flat_map (fun i => match get_stage s i with Some st => recover_stage s i st | None => [] end)
                       (seqn (length (w_stages s))) in
    let requeued := existsb (fun i => match get_stage s i with
                                      | Some st => negb (is_nil (recover_stage s i st)) ||
                                                   status_eqb (s_status st) RUNNING
                                      | None => false end) (seqn (length (w_stages s))) in
    match ms with
    | [] => if negb requeued && status_eqb (w_status s) NOT_STARTED then [MStartWorkflow] else []
    | _ => ms
    end.

Definition recover (s : state) : state := apply_commit s (c_pushes (recovery_msgs s)).

(* ------------------------------------------------------------------------------------------ *)
(* actions and runs                                                                            *)
(* ------------------------------------------------------------------------------------------ *)

Inductive action :=
| Deliver (id : nat) (do_ack : bool)          (* a full delivery (ack or leave the row for redelivery) *)
| DeliverCut (id : nat) (k : nat)             (* crash after the first k commits of this delivery *)
| Recover
| Cancel                                      (* Orchestrator.cancel: push CancelWorkflow *)
| Signal (i name : nat) (persistent : bool)   (* push SignalStage *)
| Submit                                      (* Orchestrator.start: push StartWorkflow *)
| Pause                                       (* store.pause: workflow status := PAUSED (operator) *)
| Unpause                                     (* Orchestrator.unpause: push ResumeStage for every PAUSED stage *)
| Restart (i : nat).                          (* Orchestrator.restart: push RestartStage *)

Definition paused_stages (s : state) : list nat :=
  filter (fun j => match get_stage s j with Some u => status_eqb (s_status u) PAUSED | None => false end)
         (seqn (length (w_stages s))).

Definition step (orc : oracle) (s : state) (a : action) : state :=
  match a with
  | Deliver id do_ack =>
      match delivery_commits orc s id do_ack with
      | None => s
      | Some d => apply_commits (d_rest d) (apply_pre (d_pre d) (apply_commit s (d_poll d)))
      end
  | DeliverCut id k =>
      (* k = 0: the process died before the poll commit: the handler never ran *)
      match k, delivery_commits orc s id true with
      | S k', Some d => apply_commits (firstn k' (d_rest d)) (apply_pre (d_pre d) (apply_commit s (d_poll d)))
      | _, _ => s
      end
  | Recover => recover s
  | Cancel => push MCancelWorkflow s
  | Signal i n p => push (MSignalStage i n p) s
  | Submit => push MStartWorkflow s
  | Pause => set_wf_status PAUSED s
  | Unpause => apply_commit s (c_pushes (map MResumeStage (paused_stages s)))
  | Restart i => push (MRestartStage i) s
  end.

Definition run (orc : oracle) (s : state) (acts : list action) : state := fold_left (step orc) acts s.

(* states after every commit of an action (for the commit-level correspondence) *)
Fixpoint scan_commits (cs : list commit) (s : state) : list state :=
  match cs with [] => [] | c :: r => let s' := apply_commit s c in s' :: scan_commits r s' end.

Definition step_trace (orc : oracle) (s : state) (a : action) : list state :=
  match a with
  | Deliver id do_ack =>
      match delivery_commits orc s id do_ack with
      | None => []
      | Some d => apply_commit s (d_poll d) :: scan_commits (d_rest d) (apply_pre (d_pre d) (apply_commit s (d_poll d)))
      end
  | DeliverCut id k =>
      match k, delivery_commits orc s id true with
      | S k', Some d => apply_commit s (d_poll d) :: scan_commits (firstn k' (d_rest d)) (apply_pre (d_pre d) (apply_commit s (d_poll d)))
      | _, _ => []
      end
  | _ => [step orc s a]
  end.

(* initial state of a workflow *)
Definition mk_task (disabled : bool) : task := {| t_status := NOT_STARTED; t_started := false; t_disabled := disabled |}.

Definition top_syn (script : nat) : syn :=
  {| y_parent := None; y_owner := None; y_script := script; y_ntasks := 0; y_before := []; y_after := []; y_fail := [];
     y_blocking := false; y_milestone := None; y_expired := false |}.

Definition init_state (stages : list stage) (wmax : option Z) : state :=
  {| w_status := NOT_STARTED; w_canceled := false; w_max_jumps := wmax;
     w_stages := stages; w_queue := [];
     w_next := 1; w_processed := []; w_claims := []; g_execs := []; g_starts := [] |}.
