(* Candidate invariants of the engine as EXECUTABLE boolean clauses.  They are evaluated by the extracted
   oracle on every state visited by the correspondence runs (a test that guides the proofs: a clause that
   fails on a reachable state of the validated model cannot be an invariant); the clauses that survive are
   proved inductive in proofs/EngineInvP.v. *)
From Coq Require Import List Bool Arith ZArith.
Import ListNotations.
From Stab.model Require Import Base StatusM Readiness StageStat Engine.

Definition stages_idx (s : state) : list (nat * stage) := combine (seqn (length (w_stages s))) (w_stages s).

Definition all_stages (s : state) (p : nat -> stage -> bool) : bool :=
  forallb (fun q => p (fst q) (snd q)) (stages_idx s).

Definition task_is (x : status) (tk : task) : bool := status_eqb (t_status tk) x.

(* I1: a RUNNING task lives in a RUNNING stage *)
Definition i_running_task (s : state) : bool :=
  all_stages s (fun _ st => negb (existsb (task_is RUNNING) (s_tasks st)) || status_eqb (s_status st) RUNNING).

(* I2: a NOT_STARTED stage has only NOT_STARTED tasks *)
Definition i_not_started_stage (s : state) : bool :=
  all_stages s (fun _ st => negb (status_eqb (s_status st) NOT_STARTED) || forallb (task_is NOT_STARTED) (s_tasks st)).

(* I3: a SUSPENDED stage has a SUSPENDED task and vice versa (unless the stage was canceled) *)
Definition i_suspended (s : state) : bool :=
  all_stages s (fun _ st =>
    (negb (status_eqb (s_status st) SUSPENDED) || existsb (task_is SUSPENDED) (s_tasks st)) &&
    (negb (existsb (task_is SUSPENDED) (s_tasks st)) || status_eqb (s_status st) SUSPENDED || is_complete (s_status st))).

(* I4: a pending StartTask for a NOT_STARTED task targets a RUNNING stage *)
Definition i_start_task_msg (s : state) : bool :=
  forallb (fun r => match q_msg r with
                    | MStartTask i t =>
                        match get_stage s i with
                        | Some st => match nth_error (s_tasks st) t with
                                     | Some tk => negb (task_is NOT_STARTED tk) || status_eqb (s_status st) RUNNING
                                                  || mem_nat (q_id r) (w_processed s)
                                     | None => true end
                        | None => true end
                    | _ => true end) (w_queue s).

(* I5: tasks of a stage run in sequence: no task is started (non NOT_STARTED, non CANCELED, non SKIPPED)
   after a NOT_STARTED one *)
Fixpoint seq_ok (seen_not_started : bool) (ts : list task) : bool :=
  match ts with
  | [] => true
  | tk :: r =>
      let x := t_status tk in
      if status_eqb x NOT_STARTED then seq_ok true r
      else if seen_not_started && negb (status_eqb x CANCELED || status_eqb x SKIPPED) then false
      else seq_ok seen_not_started r
  end.
Definition i_sequential (s : state) : bool := all_stages s (fun _ st => seq_ok false (s_tasks st)).

(* I6: at most one task of a stage is RUNNING or SUSPENDED *)
Definition i_one_active (s : state) : bool :=
  all_stages s (fun _ st => length (filter (fun tk => task_is RUNNING tk || task_is SUSPENDED tk) (s_tasks st)) <=? 1).

(* I7: completed workflow => no RUNNING task will be executed: trivial; completed stage => no RUNNING task *)
Definition i_complete_stage (s : state) : bool :=
  all_stages s (fun _ st => negb (is_complete (s_status st)) || negb (existsb (task_is RUNNING) (s_tasks st))).

(* I8: queue ids are below the allocator and strictly increasing; processed ids are below the allocator *)
Fixpoint increasing (prev : nat) (l : list nat) : bool :=
  match l with [] => true | x :: r => (prev <? x) && increasing x r end.
Definition i_ids (s : state) : bool :=
  increasing 0 (map q_id (w_queue s)) && forallb (fun r => q_id r <? w_next s) (w_queue s)
  && forallb (fun p => p <? w_next s) (w_processed s).

(* I9: the ghost start ledger: a stage has a start entry iff it has left NOT_STARTED at some point: stage
   started flag set => ledger has it *)
Definition i_started_flag (s : state) : bool :=
  all_stages s (fun i st => negb (status_eqb (s_status st) RUNNING) || s_started st).

(* I10: mutex: two RUNNING stages never share a mutex key; a RUNNING stage with a mutex key owns the claim *)
Definition i_mutex (s : state) : bool :=
  all_stages s (fun i st =>
    match s_mutex st with
    | Some k => negb (status_eqb (s_status st) RUNNING) ||
                match claim_lookup (w_claims s) true k with Some o => o =? i | None => false end
    | None => true end).

(* I11: deferred choice: every stage of a group that has left NOT_STARTED other than by CANCELED/SKIPPED is the claim owner *)
Definition i_choice (s : state) : bool :=
  all_stages s (fun i st =>
    match s_choice st with
    | Some g => status_eqb (s_status st) NOT_STARTED || status_eqb (s_status st) CANCELED || status_eqb (s_status st) SKIPPED
                || status_eqb (s_status st) TERMINAL
                || match claim_lookup (w_claims s) false g with Some o => o =? i | None => false end
    | None => true end).

(* I12: a stage is planned-pending only while RUNNING *)
Definition i_plan_pending (s : state) : bool :=
  all_stages s (fun _ st => negb (s_plan_pending st) || status_eqb (s_status st) RUNNING || is_complete (s_status st)).

(* I13: workflow complete => (queue may still hold messages but) no stage is RUNNING with a RUNNING task
   whose RunTask would execute: RunTask checks is_complete. trivial; skip.  I13: NOT_STARTED workflow => all stages NOT_STARTED *)
Definition i_wf_not_started (s : state) : bool :=
  negb (status_eqb (w_status s) NOT_STARTED) || all_stages s (fun _ st => status_eqb (s_status st) NOT_STARTED).

(* ---- message-related candidates (towards the token invariant) ---- *)
Definition unprocessed (s : state) (r : qrow) : bool := negb (mem_nat (q_id r) (w_processed s)).

(* I14: an unprocessed StartTask for a NOT_STARTED task: no task of that stage is RUNNING or SUSPENDED *)
Definition i_start_task_exclusive (s : state) : bool :=
  forallb (fun r => match q_msg r with
                    | MStartTask i t =>
                        negb (unprocessed s r) ||
                        match get_stage s i with
                        | Some st => match nth_error (s_tasks st) t with
                                     | Some tk => negb (task_is NOT_STARTED tk) ||
                                                  negb (existsb (fun x => task_is RUNNING x || task_is SUSPENDED x) (s_tasks st))
                                     | None => true end
                        | None => true end
                    | _ => true end) (w_queue s).

(* I15: an unprocessed CompleteStage for a RUNNING stage: no task NOT_STARTED or RUNNING *)
Definition i_complete_stage_msg (s : state) : bool :=
  forallb (fun r => match q_msg r with
                    | MCompleteStage i =>
                        negb (unprocessed s r) ||
                        match get_stage s i with
                        | Some st => negb (status_eqb (s_status st) RUNNING) ||
                                     negb (existsb (fun x => task_is RUNNING x || task_is NOT_STARTED x) (s_tasks st))
                        | None => true end
                    | _ => true end) (w_queue s).

(* I16: a NOT_STARTED stage has no unprocessed task-level or CompleteStage message (false once jumps re-arm stages) *)
Definition i_not_started_no_msgs (s : state) : bool :=
  forallb (fun r => negb (unprocessed s r) ||
                    match q_msg r with
                    | MStartTask i _ | MRunTask i _ | MCompleteTask i _ _ | MCompleteStage i =>
                        match get_stage s i with Some st => negb (status_eqb (s_status st) NOT_STARTED) | None => true end
                    | _ => true end) (w_queue s).

(* I17 (token): every RUNNING task has an unprocessed RunTask / CompleteTask / PauseTask / JumpToStage message
   (false between a crash and the next recovery sweep) *)
Definition i_running_task_token (s : state) : bool :=
  all_stages s (fun i st =>
    forallb (fun p => negb (task_is RUNNING (snd p)) ||
                      existsb (fun r => unprocessed s r &&
                                        match q_msg r with
                                        | MRunTask a b | MCompleteTask a b _ | MPauseTask a b => (a =? i) && (b =? fst p)
                                        | MJumpToStage a _ _ _ => a =? i
                                        | _ => false end) (w_queue s))
            (combine (seqn (length (s_tasks st))) (s_tasks st))).

(* ---- the candidate inductive invariant of the jump-free / restart-free fragment ---- *)
Definition active (tk : task) : bool := task_is RUNNING tk || task_is SUSPENDED tk || task_is PAUSED tk.
Definition live_stage (st : stage) : bool :=
  status_eqb (s_status st) RUNNING || status_eqb (s_status st) SUSPENDED || status_eqb (s_status st) PAUSED.

Definition for_msgs (s : state) (p : qrow -> bool) : bool := forallb (fun r => negb (unprocessed s r) || p r) (w_queue s).

(* C: an unprocessed StartTask for a NOT_STARTED task: stage RUNNING, no active task *)
Definition j_start_task (s : state) : bool :=
  for_msgs s (fun r => match q_msg r with
    | MStartTask i t =>
        match get_stage s i with
        | Some st => match nth_error (s_tasks st) t with
                     | Some tk => negb (task_is NOT_STARTED tk) ||
                                  (status_eqb (s_status st) RUNNING && negb (existsb active (s_tasks st)))
                     | None => true end
        | None => true end
    | _ => true end).

(* D: an unprocessed CompleteStage for a live stage: every task has left NOT_STARTED and is not active *)
Definition j_complete_stage (s : state) : bool :=
  for_msgs s (fun r => match q_msg r with
    | MCompleteStage i =>
        match get_stage s i with
        | Some st => negb (live_stage st) || negb (existsb (fun x => task_is NOT_STARTED x || active x) (s_tasks st))
        | None => true end
    | _ => true end).

(* E: at most one active task per stage *)
Definition j_one_active (s : state) : bool :=
  all_stages s (fun _ st => length (filter active (s_tasks st)) <=? 1).

(* F: at most one unprocessed StartTask with a NOT_STARTED target per stage (same task allowed twice) *)
Definition start_task_targets (s : state) (i : nat) : list nat :=
  flat_map (fun r => if unprocessed s r then
                       match q_msg r with
                       | MStartTask a t =>
                           if a =? i then
                             match get_stage s i with
                             | Some st => match nth_error (s_tasks st) t with
                                          | Some tk => if task_is NOT_STARTED tk then [t] else []
                                          | None => [] end
                             | None => [] end
                           else []
                       | _ => [] end
                     else []) (w_queue s).
Definition j_unique_start_task (s : state) : bool :=
  all_stages s (fun i _ => match start_task_targets s i with
                           | [] => true
                           | t :: r => forallb (Nat.eqb t) r end).

(* G: an unprocessed StartTask(i,t): every earlier task has left NOT_STARTED *)
Definition j_start_task_prefix (s : state) : bool :=
  for_msgs s (fun r => match q_msg r with
    | MStartTask i t =>
        match get_stage s i with
        | Some st => forallb (fun x => negb (task_is NOT_STARTED x)) (firstn t (s_tasks st))
        | None => true end
    | _ => true end).

(* H: the tasks that have left NOT_STARTED form a prefix *)
Fixpoint prefix_started (seen_ns : bool) (ts : list task) : bool :=
  match ts with
  | [] => true
  | tk :: r => if task_is NOT_STARTED tk then prefix_started true r
               else negb seen_ns && prefix_started seen_ns r
  end.
Definition j_prefix (s : state) : bool := all_stages s (fun _ st => prefix_started false (s_tasks st)).

(* I: a SUSPENDED / PAUSED task lives in a SUSPENDED / PAUSED (or completed) stage *)
Definition j_waiting_task (s : state) : bool :=
  all_stages s (fun _ st =>
    (negb (existsb (task_is SUSPENDED) (s_tasks st)) || status_eqb (s_status st) SUSPENDED || is_complete (s_status st)) &&
    (negb (existsb (task_is PAUSED) (s_tasks st)) || status_eqb (s_status st) PAUSED || is_complete (s_status st))).

(* P: plan-pending: RUNNING, nothing of the stage started, no task-level message yet *)
Definition j_plan_pending (s : state) : bool :=
  all_stages s (fun i st =>
    negb (s_plan_pending st) ||
    (status_eqb (s_status st) RUNNING && forallb (task_is NOT_STARTED) (s_tasks st) &&
     for_msgs s (fun r => match q_msg r with
                          | MStartTask a _ | MRunTask a _ | MCompleteTask a _ _ | MPauseTask a _ | MCompleteStage a => negb (a =? i)
                          | _ => true end))).

(* B2 with PauseTask *)
Definition j_not_started_no_msgs (s : state) : bool :=
  for_msgs s (fun r => match q_msg r with
    | MStartTask i _ | MRunTask i _ | MCompleteTask i _ _ | MPauseTask i _ | MCompleteStage i =>
        match get_stage s i with Some st => negb (status_eqb (s_status st) NOT_STARTED) | None => true end
    | _ => true end).

Definition inv_jf (s : state) : list bool :=
  [i_running_task s; i_not_started_stage s; j_not_started_no_msgs s; j_start_task s; j_complete_stage s; j_one_active s;
   j_unique_start_task s; j_start_task_prefix s; j_prefix s; j_waiting_task s; j_plan_pending s].

Definition inv_clauses (s : state) : list bool :=
  [i_running_task s; i_not_started_stage s; i_suspended s; i_start_task_msg s; i_sequential s; i_one_active s;
   i_complete_stage s; i_ids s; i_started_flag s; i_mutex s; i_choice s; i_plan_pending s; i_wf_not_started s;
   i_start_task_exclusive s; i_complete_stage_msg s; i_not_started_no_msgs s; i_running_task_token s] ++ inv_jf s.
