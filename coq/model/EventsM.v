(* EventsM: the event log, the replay fold, snapshots, the recorders and the store-transaction scope.
   Executable model of
     events/replay.py        EventReplayer._apply_event / rebuild_workflow_state / _load_state_from_snapshot
     events/store/sqlite     append (AUTOINCREMENT sequence), get_events_for_workflow, get_latest_snapshot
     events/recorder/*.py    which event every record_* call appends; _record joins the open store transaction
     events/txn_scope.py     begin / commit / abort_store_transaction (deferred bus publication)
     handlers/*              which event each lifecycle step records, and where (inside / after / before the transaction)
   Tables (event types, replayed-status table, recorder payloads, record-call positions, restored snapshot fields)
   come from coq/gen/Gen_Events.v, regenerated from the source on every check.  No proofs here. *)
From Coq Require Import List Bool NArith Lia Sorted.
Import ListNotations.
From Stab.model Require Import Base StatusM.
From Stab.gen Require Export Gen_Events.
Local Open Scope N_scope.

(* ------------------------------------------------------------------------------------------------ *)
(* insertion-ordered association lists (Python dicts: update in place, new keys appended)            *)
(* ------------------------------------------------------------------------------------------------ *)

Fixpoint aget {V} (k : N) (m : list (N * V)) : option V :=
  match m with
  | [] => None
  | (k', v) :: r => if N.eqb k k' then Some v else aget k r
  end.

Fixpoint aset {V} (k : N) (v : V) (m : list (N * V)) : list (N * V) :=
  match m with
  | [] => [(k, v)]
  | (k', v') :: r => if N.eqb k k' then (k', v) :: r else (k', v') :: aset k v r
  end.

(* dict.update(other) *)
Definition aupdate {V} (m other : list (N * V)) : list (N * V) :=
  fold_left (fun acc kv => aset (fst kv) (snd kv) acc) other m.

(* ------------------------------------------------------------------------------------------------ *)
(* events                                                                                            *)
(* ------------------------------------------------------------------------------------------------ *)

(* scalar payload entries the replay reads with event.data.get(<key>) *)
Inductive dkey := K_application | K_name | K_ref_id | K_type | K_stage_id | K_error | K_reason | K_retry_count.

Definition dkey_eqb (a b : dkey) : bool :=
  match a, b with
  | K_application, K_application | K_name, K_name | K_ref_id, K_ref_id | K_type, K_type | K_stage_id, K_stage_id
  | K_error, K_error | K_reason, K_reason | K_retry_count, K_retry_count => true
  | _, _ => false
  end.

Record event := mkEvent {
  seq : N;                          (* events.sequence *)
  ewf : N;                          (* workflow_id (tag) *)
  kind : ekind;                     (* event_type *)
  ety : etype;                      (* entity_type *)
  eid : N;                          (* entity_id (tag) *)
  ets : N;                          (* timestamp (tag) *)
  d_status : option status;         (* data.get("status") *)
  d_ctx : option (list (N * N));    (* data["context"] when the key is present *)
  d_outs : option (list (N * N));   (* data["outputs"] when the key is present *)
  d_scal : list (dkey * N);         (* the other payload entries, data.get(key) -> value tag *)
  etag : N                          (* ghost: which recording step appended it (not read by the replay) *)
}.

Fixpoint dget (k : dkey) (l : list (dkey * N)) : option N :=
  match l with
  | [] => None
  | (k', v) :: r => if dkey_eqb k k' then Some v else dget k r
  end.

Definition set_seq (n : N) (e : event) : event :=
  mkEvent n (ewf e) (kind e) (ety e) (eid e) (ets e) (d_status e) (d_ctx e) (d_outs e) (d_scal e) (etag e).

(* ------------------------------------------------------------------------------------------------ *)
(* replayed state (events/replay.py: WorkflowState, with stage / task dicts as records)              *)
(* ------------------------------------------------------------------------------------------------ *)

Record sstate := mkS {
  s_ref : option N; s_type : option N; s_name : option N;       (* set when the entry is created *)
  s_status : option status; s_start : option N; s_end : option N;
  s_outs : option (list (N * N)); s_error : option N; s_skip : option N }.

Record kstate := mkK {
  k_name : option N; k_stage : option N;
  k_status : option status; k_start : option N; k_end : option N;
  k_outs : option (list (N * N)); k_error : option N; k_retry : option N }.

Record rstate := mkR {
  w_status : option status; w_app : option N; w_name : option N;
  w_start : option N; w_end : option N;
  w_ctx : list (N * N);
  r_stages : list (N * sstate);
  r_tasks : list (N * kstate) }.

Definition init_rstate : rstate := mkR None None None None None [] [] [].

(* the status an event gives its entity (Gen_Events.status_effect is the table read off replay.py) *)
Definition apply_status (t : etype) (e : event) (old : option status) : option status :=
  match status_effect t (kind e) with
  | SE_none => old
  | SE_const s => Some s
  | SE_data dflt => Some (match d_status e with Some s => s | None => dflt end)
  end.

Definition ctx_merge (c : list (N * N)) (e : event) : list (N * N) :=
  match d_ctx e with Some u => aupdate c u | None => c end.

Definition apply_workflow_event (st : rstate) (e : event) : rstate :=
  let status' := apply_status ET_WORKFLOW e (w_status st) in
  match kind e with
  | E_WORKFLOW_CREATED =>
      mkR status' (dget K_application (d_scal e)) (dget K_name (d_scal e)) (w_start st) (w_end st) (w_ctx st) (r_stages st) (r_tasks st)
  | E_WORKFLOW_STARTED =>
      mkR status' (w_app st) (w_name st) (Some (ets e)) (w_end st) (ctx_merge (w_ctx st) e) (r_stages st) (r_tasks st)
  | E_WORKFLOW_COMPLETED | E_WORKFLOW_FAILED | E_WORKFLOW_CANCELED =>
      mkR status' (w_app st) (w_name st) (w_start st) (Some (ets e)) (w_ctx st) (r_stages st) (r_tasks st)
  | E_CONTEXT_UPDATED =>
      mkR status' (w_app st) (w_name st) (w_start st) (w_end st) (ctx_merge (w_ctx st) e) (r_stages st) (r_tasks st)
  | _ =>
      mkR status' (w_app st) (w_name st) (w_start st) (w_end st) (w_ctx st) (r_stages st) (r_tasks st)
  end.

Definition new_stage (e : event) : sstate :=
  mkS (dget K_ref_id (d_scal e)) (dget K_type (d_scal e)) (dget K_name (d_scal e)) None None None None None None.

Definition apply_stage_fields (s : sstate) (e : event) : sstate :=
  let status' := apply_status ET_STAGE e (s_status s) in
  match kind e with
  | E_STAGE_STARTED => mkS (s_ref s) (s_type s) (s_name s) status' (Some (ets e)) (s_end s) (s_outs s) (s_error s) (s_skip s)
  | E_STAGE_COMPLETED =>
      mkS (s_ref s) (s_type s) (s_name s) status' (s_start s) (Some (ets e))
          (match d_outs e with Some o => Some o | None => s_outs s end) (s_error s) (s_skip s)
  | E_STAGE_FAILED => mkS (s_ref s) (s_type s) (s_name s) status' (s_start s) (Some (ets e)) (s_outs s) (dget K_error (d_scal e)) (s_skip s)
  | E_STAGE_SKIPPED => mkS (s_ref s) (s_type s) (s_name s) status' (s_start s) (s_end s) (s_outs s) (s_error s) (dget K_reason (d_scal e))
  | _ => mkS (s_ref s) (s_type s) (s_name s) status' (s_start s) (s_end s) (s_outs s) (s_error s) (s_skip s)
  end.

Definition apply_stage_event (st : rstate) (e : event) : rstate :=
  let s := match aget (eid e) (r_stages st) with Some s => s | None => new_stage e end in
  mkR (w_status st) (w_app st) (w_name st) (w_start st) (w_end st) (w_ctx st)
      (aset (eid e) (apply_stage_fields s e) (r_stages st)) (r_tasks st).

Definition new_task (e : event) : kstate :=
  mkK (dget K_name (d_scal e)) (dget K_stage_id (d_scal e)) None None None None None None.

Definition apply_task_fields (t : kstate) (e : event) : kstate :=
  let status' := apply_status ET_TASK e (k_status t) in
  match kind e with
  | E_TASK_STARTED => mkK (k_name t) (k_stage t) status' (Some (ets e)) (k_end t) (k_outs t) (k_error t) (k_retry t)
  | E_TASK_COMPLETED =>
      mkK (k_name t) (k_stage t) status' (k_start t) (Some (ets e))
          (match d_outs e with Some o => Some o | None => k_outs t end) (k_error t) (k_retry t)
  | E_TASK_FAILED => mkK (k_name t) (k_stage t) status' (k_start t) (Some (ets e)) (k_outs t) (dget K_error (d_scal e)) (k_retry t)
  | E_TASK_RETRIED =>
      mkK (k_name t) (k_stage t) status' (k_start t) (k_end t) (k_outs t) (k_error t)
          (Some (match dget K_retry_count (d_scal e) with
                 | Some n => n
                 | None => (match k_retry t with Some r => r | None => 0 end) + 1
                 end))
  | _ => mkK (k_name t) (k_stage t) status' (k_start t) (k_end t) (k_outs t) (k_error t) (k_retry t)
  end.

Definition apply_task_event (st : rstate) (e : event) : rstate :=
  let t := match aget (eid e) (r_tasks st) with Some t => t | None => new_task e end in
  mkR (w_status st) (w_app st) (w_name st) (w_start st) (w_end st) (w_ctx st)
      (r_stages st) (aset (eid e) (apply_task_fields t e) (r_tasks st)).

(* EventReplayer._apply_event (the global migrator has no migration registered: identity) *)
Definition apply_event (st : rstate) (e : event) : rstate :=
  match ety e with
  | ET_WORKFLOW => apply_workflow_event st e
  | ET_STAGE => apply_stage_event st e
  | ET_TASK => apply_task_event st e
  end.

Definition replay_from (st : rstate) (l : list event) : rstate := fold_left apply_event l st.
Definition replay (l : list event) : rstate := replay_from init_rstate l.

(* ------------------------------------------------------------------------------------------------ *)
(* store query, snapshots, rebuild_workflow_state                                                    *)
(* ------------------------------------------------------------------------------------------------ *)

(* get_events_for_workflow(wf, from): WHERE workflow_id = ? AND sequence > ? ORDER BY sequence.
   `log` is the events table in primary-key order. *)
Definition events_for (wf from : N) (log : list event) : list event :=
  filter (fun e => N.eqb (ewf e) wf && N.ltb from (seq e)) log.

Record snapshot := mkSnap { sn_version : N; sn_seq : N; sn_state : rstate }.

(* INSERT OR REPLACE ... UNIQUE(entity, version);  get_latest_snapshot: ORDER BY version DESC LIMIT 1 *)
Fixpoint latest_snapshot (l : list snapshot) (best : option snapshot) : option snapshot :=
  match l with
  | [] => best
  | s :: r =>
      latest_snapshot r (match best with
                         | None => Some s
                         | Some b => if N.leb (sn_version b) (sn_version s) then Some s else Some b
                         end)
  end.

(* _load_state_from_snapshot: only the fields named in Gen_Events.snapshot_restored_fields come back *)
Definition load_snapshot (sn : snapshot) : rstate :=
  let s := sn_state sn in
  mkR (if snapshot_restores_status then w_status s else None)
      (if snapshot_restores_application then w_app s else None)
      (if snapshot_restores_name then w_name s else None)
      (if snapshot_restores_start_time then w_start s else None)
      (if snapshot_restores_end_time then w_end s else None)
      (if snapshot_restores_context then w_ctx s else [])
      (if snapshot_restores_stages then r_stages s else [])
      (if snapshot_restores_tasks then r_tasks s else []).

Definition use_snapshot (sn : snapshot) (as_of : option N) : bool :=
  match as_of with None => true | Some n => N.leb (sn_seq sn) n end.

Definition rebuild (wf : N) (snap : option snapshot) (as_of : option N) (log : list event) : rstate :=
  let '(st0, start) :=
    match snap with
    | Some sn => if use_snapshot sn as_of then (load_snapshot sn, sn_seq sn) else (init_rstate, 0)
    | None => (init_rstate, 0)
    end in
  let evs := match as_of with
             | Some n => filter (fun e => N.leb (seq e) n) (events_for wf start log)
             | None => events_for wf start log
             end in
  replay_from st0 evs.

(* the events table in primary-key order *)
Definition seq_sorted (log : list event) : Prop := StronglySorted (fun a b => seq a <= seq b) log.

(* equality on what a snapshot restores: everything except the workflow-level start_time / end_time *)
Definition restored_eq (a b : rstate) : Prop :=
  w_status a = w_status b /\ w_app a = w_app b /\ w_name a = w_name b /\ w_ctx a = w_ctx b
  /\ r_stages a = r_stages b /\ r_tasks a = r_tasks b.

(* ------------------------------------------------------------------------------------------------ *)
(* entities, status writes, recording runs                                                           *)
(* ------------------------------------------------------------------------------------------------ *)

Inductive entity := EWf | EStage (i : N) | ETask (i : N).

Definition entity_eqb (a b : entity) : bool :=
  match a, b with
  | EWf, EWf => true
  | EStage i, EStage j => N.eqb i j
  | ETask i, ETask j => N.eqb i j
  | _, _ => false
  end.

Definition event_entity (e : event) : entity :=
  match ety e with ET_WORKFLOW => EWf | ET_STAGE => EStage (eid e) | ET_TASK => ETask (eid e) end.

(* replayed status of an entity *)
Definition rstatus (st : rstate) (x : entity) : option status :=
  match x with
  | EWf => w_status st
  | EStage i => match aget i (r_stages st) with Some s => s_status s | None => None end
  | ETask i => match aget i (r_tasks st) with Some t => k_status t | None => None end
  end.

(* a durable status write; regular = made by the regular start / complete / fail / skip / cancel step of the entity;
   not regular = force-marked (jump reset, bulk task cancel of CancelStage, suspend / resume, ...) *)
Record write := mkW { wr_ent : entity; wr_new : status; wr_regular : bool; wr_tag : N }.

(* the stored state: per entity the last write *)
Definition stored := list (entity * (status * bool)).

Fixpoint sget (x : entity) (m : stored) : option (status * bool) :=
  match m with
  | [] => None
  | (y, v) :: r => if entity_eqb x y then Some v else sget x r
  end.

Fixpoint sset (x : entity) (v : status * bool) (m : stored) : stored :=
  match m with
  | [] => [(x, v)]
  | (y, v') :: r => if entity_eqb x y then (y, v) :: r else (y, v') :: sset x v r
  end.

Definition apply_write (m : stored) (w : write) : stored := sset (wr_ent w) (wr_new w, wr_regular w) m.
Definition apply_writes (m : stored) (ws : list write) : stored := fold_left apply_write ws m.

(* what an event does to its entity's status, independently of the state it is applied to *)
Definition sets_status (e : event) : option status :=
  match status_effect (ety e) (kind e) with
  | SE_none => None
  | SE_const s => Some s
  | SE_data dflt => Some (match d_status e with Some s => s | None => dflt end)
  end.

(* the last status a list of events gives entity x (None: they leave it alone) *)
Definition last_set (evs : list event) (x : entity) : option status :=
  fold_left (fun acc e => if entity_eqb (event_entity e) x
                          then match sets_status e with Some s => Some s | None => acc end
                          else acc) evs None.

Definition last_write (ws : list write) (x : entity) : option write :=
  fold_left (fun acc w => if entity_eqb (wr_ent w) x then Some w else acc) ws None.

(* one step of a recording run: the status writes of one handler invocation and the events it appended *)
Definition rstep := (list write * list event)%type.

Definition entities_of (st : rstep) : list entity :=
  map wr_ent (fst st) ++ map event_entity (snd st).

Definition opt_status_eqb (a b : option status) : bool :=
  match a, b with Some x, Some y => status_eqb x y | None, None => true | _, _ => false end.

(* "every regular lifecycle write is accompanied by its event, and events change no other entity's status" *)
Definition entity_ok (st : rstep) (x : entity) : bool :=
  match last_write (fst st) x with
  | Some w => if wr_regular w then opt_status_eqb (last_set (snd st) x) (Some (wr_new w)) else true
  | None => opt_status_eqb (last_set (snd st) x) None
  end.

Definition step_ok (st : rstep) : bool := forallb (entity_ok st) (entities_of st).

Definition run_store (run : list rstep) : stored := fold_left (fun m st => apply_writes m (fst st)) run [].
Definition run_log (run : list rstep) : list event := concat (map snd run).

(* the comparison C12 makes for entity x: nothing to compare unless its last write was a regular one *)
Definition agrees (m : stored) (st : rstate) (x : entity) : bool :=
  match sget x m with
  | Some (s, true) => opt_status_eqb (rstatus st x) (Some s)
  | _ => true
  end.

(* ------------------------------------------------------------------------------------------------ *)
(* the lifecycle steps of the engine and what they record (recorders + handlers, via Gen_Events)     *)
(* ------------------------------------------------------------------------------------------------ *)

Inductive lstep :=
  | LStartWorkflow
  | LCompleteWorkflow (s : status)
  | LStartStage (i : N)
  | LCompleteStage (i : N) (s : status)
  | LCompleteStageErr (i : N)                    (* CompleteStage's `except Exception` path: stage marked TERMINAL *)
  | LSkipStage (i : N)
  | LCancelStage (i : N) (tasks : list N)        (* tasks bulk-marked CANCELED in the same commit: force-marked *)
  | LStartTask (t : N)
  | LSkipTaskAtStart (t : N)                     (* StartTask: disabled SkippableTask marked SKIPPED *)
  | LCompleteTask (t : N) (s : status)
  | LForce (x : entity) (s : status).            (* jump reset, suspend, resume, stuck-upstream TERMINAL, ... *)

(* the event a record_* method builds: type and entity type from the recorder, "status" carried iff the recorder
   puts <entity>.status.name into the payload *)
Definition mk_recorded (m : rmethod) (id : N) (s : status) (tag : N) : event :=
  mkEvent 0 0 (recorder_kind m) (recorder_etype m) id 0
          (if recorder_has_status m then Some s else None) None None [] tag.

Definition opt_recorded (m : option rmethod) (id : N) (s : status) (tag : N) : list event :=
  match m with Some r => [mk_recorded r id s tag] | None => [] end.

Definition record_of (tag : N) (st : lstep) : rstep :=
  match st with
  | LStartWorkflow => ([mkW EWf RUNNING true tag], map (fun m => mk_recorded m 0 RUNNING tag) start_workflow_events)
  | LCompleteWorkflow s => ([mkW EWf s true tag], opt_recorded (complete_workflow_emit s) 0 s tag)
  | LStartStage i => ([mkW (EStage i) RUNNING true tag], map (fun m => mk_recorded m i RUNNING tag) start_stage_events)
  | LCompleteStage i s =>
      ([mkW (EStage i) s true tag],
       if complete_stage_regular_store_records then opt_recorded (complete_stage_emit s) i s tag else [])
  | LCompleteStageErr i =>
      ([mkW (EStage i) TERMINAL true tag],
       if complete_stage_every_store_records then opt_recorded (complete_stage_emit TERMINAL) i TERMINAL tag else [])
  | LSkipStage i => ([mkW (EStage i) SKIPPED true tag], map (fun m => mk_recorded m i SKIPPED tag) skip_stage_events)
  | LCancelStage i ts =>
      (map (fun t => mkW (ETask t) CANCELED false tag) ts ++ [mkW (EStage i) CANCELED true tag],
       map (fun m => mk_recorded m i CANCELED tag) cancel_stage_events)
  | LStartTask t => ([mkW (ETask t) RUNNING true tag], map (fun m => mk_recorded m t RUNNING tag) start_task_events)
  | LSkipTaskAtStart t => ([mkW (ETask t) SKIPPED true tag], [])
  | LCompleteTask t s =>
      ([mkW (ETask t) s true tag],
       if complete_task_every_store_records then opt_recorded (complete_task_emit s) t s tag else [])
  | LForce x s => ([mkW x s false tag], [])
  end.

Fixpoint records_from (tag : N) (l : list lstep) : list rstep :=
  match l with
  | [] => []
  | st :: r => record_of tag st :: records_from (tag + 1) r
  end.

(* the statuses the engine completes a stage / task / workflow with *)
Definition is_task_skip (st : lstep) : bool :=
  match st with
  | LSkipTaskAtStart _ => true
  | LCompleteTask _ s => status_eqb s SKIPPED
  | _ => false
  end.

Definition is_stage_err (st : lstep) : bool := match st with LCompleteStageErr _ => true | _ => false end.

(* ------------------------------------------------------------------------------------------------ *)
(* the store transaction scope (events/txn_scope.py + recorder/base.py:_record + store.transaction)  *)
(* ------------------------------------------------------------------------------------------------ *)

(* one SQLite database as seen through one connection: committed content vs. the connection's view *)
Record dbs := mkDb {
  db_writes : list write;    (* status writes applied, in order (ghost history of the state tables) *)
  db_log : list event;       (* the events table *)
  db_ctr : N                 (* sqlite_sequence: largest sequence handed out (transactional like any row) *)
}.

Record tstate := mkT {
  durable : dbs;             (* what survives a crash *)
  working : dbs;             (* durable + the uncommitted statements of the thread's connection *)
  depth : nat;               (* TxnScope.depth, 0 = no scope bound *)
  pending : list event;      (* TxnScope.pending *)
  published : list event     (* what the bus handed to subscribers, in order *)
}.

Definition init_db : dbs := mkDb [] [] 0.
Definition init_tstate : tstate := mkT init_db init_db 0%nat [] [].

Inductive op :=
  | OBegin                   (* `with store.transaction()` entered: begin_store_transaction *)
  | OWrite (w : write)       (* txn.store_stage / update_workflow_status ...: DML on the connection, no commit *)
  | OAutoWrite (w : write)   (* repository.store_stage(...) outside a transaction object: DML + conn.commit() *)
  | ORecord (e : event)      (* event_recorder.record_*(...) with connection=None *)
  | OCommit                  (* block left normally: conn.commit(); commit_store_transaction() *)
  | OAbort                   (* exception inside the block: conn.rollback(); abort_store_transaction(); raise *)
  | OCrash.                  (* process dies *)

Definition db_append (e : event) (d : dbs) : dbs * event :=
  let n := db_ctr d + 1 in
  let e' := set_seq n e in
  (mkDb (db_writes d) (db_log d ++ [e']) n, e').

Definition db_write (w : write) (d : dbs) : dbs := mkDb (db_writes d ++ [w]) (db_log d) (db_ctr d).

Section Scope.
(* _store_matches_scope: the event store's connection string equals the store's (same database, hence -- through
   ConnectionManager -- the same thread-local connection) *)
Variable same_db : bool.

Definition tstep (s : tstate) (o : op) : tstate :=
  match o with
  | OBegin =>
      match depth s with
      | O => mkT (durable s) (working s) 1%nat [] (published s)
      | S _ => mkT (durable s) (working s) (S (depth s)) (pending s) (published s)
      end
  | OWrite w => mkT (durable s) (db_write w (working s)) (depth s) (pending s) (published s)
  | OAutoWrite w =>
      let d := db_write w (working s) in mkT d d (depth s) (pending s) (published s)
  | ORecord e =>
      let '(wk, e') := db_append e (working s) in
      match depth s with
      | O =>
          (* no scope: append on the store's own connection and commit; publish at once *)
          if same_db then mkT wk wk O (pending s) (published s ++ [e'])
          else mkT (mkDb (db_writes (durable s)) (db_log (durable s) ++ [e']) (db_ctr wk)) wk O (pending s) (published s ++ [e'])
      | S _ =>
          let pend := if record_defers_publication_in_scope then pending s ++ [e'] else pending s in
          let pub := if record_defers_publication_in_scope then published s else published s ++ [e'] in
          if same_db && record_joins_scope_connection
          then (* joins scope.connection: no commit; publication deferred *)
               mkT (durable s) wk (depth s) pend pub
          else if same_db
          then (* same connection, own commit: commits whatever the open block has written so far *)
               mkT wk wk (depth s) pend pub
          else (* other database: appended and committed there; publication still deferred *)
               mkT (mkDb (db_writes (durable s)) (db_log (durable s) ++ [e']) (db_ctr wk)) wk (depth s) pend pub
      end
  | OCommit =>
      match depth s with
      | O => mkT (working s) (working s) O (pending s) (published s)
      | S O => mkT (working s) (working s) O [] (if scope_commit_publishes_pending then published s ++ pending s else published s)
      | S d => if scope_commit_outermost_only then mkT (working s) (working s) d (pending s) (published s)
               else mkT (working s) (working s) d [] (published s ++ pending s)
      end
  | OAbort =>
      match depth s with
      | O => mkT (durable s) (durable s) O (pending s) (published s)
      | S O => mkT (durable s) (durable s) O [] (if scope_abort_drops_pending then published s else published s ++ pending s)
      | S d => mkT (durable s) (durable s) d (pending s) (published s)
      end
  | OCrash => mkT (durable s) (durable s) O [] (published s)
  end.

Definition trun (s : tstate) (ops : list op) : tstate := fold_left tstep ops s.
End Scope.

(* order-preserving sub-list *)
Inductive subseq {A} : list A -> list A -> Prop :=
  | subseq_nil : subseq [] []
  | subseq_skip : forall a l x, subseq a l -> subseq a (x :: l)
  | subseq_take : forall a l x, subseq a l -> subseq (x :: a) (x :: l).

(* no `with transaction` block is opened while another is open on the thread *)
Fixpoint flat_from (d : nat) (ops : list op) : bool :=
  match ops with
  | [] => true
  | OBegin :: r => match d with O => flat_from 1 r | S _ => false end
  | OCommit :: r | OAbort :: r => flat_from (pred d) r
  | OCrash :: r => flat_from 0 r
  | _ :: r => flat_from d r
  end.

(* a transaction block: statements executed inside `with store.transaction()`, then how it ended *)
Inductive item := IWrite (w : write) | IRecord (e : event).
Inductive fate := FCommit | FAbort | FCrash.
Definition block := (list item * fate)%type.

Definition item_op (i : item) : op := match i with IWrite w => OWrite w | IRecord e => ORecord e end.
Definition fate_op (f : fate) : op := match f with FCommit => OCommit | FAbort => OAbort | FCrash => OCrash end.
Definition block_ops (b : block) : list op := OBegin :: map item_op (fst b) ++ [fate_op (snd b)].
Definition blocks_ops (bs : list block) : list op := concat (map block_ops bs).

Definition item_writes (l : list item) : list write :=
  concat (map (fun i => match i with IWrite w => [w] | IRecord _ => [] end) l).
Definition item_events (l : list item) : list event :=
  concat (map (fun i => match i with IWrite _ => [] | IRecord e => [e] end) l).
Definition committed (b : block) : bool := match snd b with FCommit => true | _ => false end.

(* events compared up to the sequence number the store assigned *)
Definition unseq (e : event) : event := set_seq 0 e.

Definition has_write_tag (t : N) (d : dbs) : bool := existsb (fun w => N.eqb (wr_tag w) t) (db_writes d).
Definition has_event_tag (t : N) (d : dbs) : bool := existsb (fun e => N.eqb (etag e) t) (db_log d).

(* the statements of a handler that writes `ws` and records `evs`, with the record calls at position p *)
Definition handler_ops (p : rpos) (ws : list write) (evs : list event) : list op :=
  match p with
  | InTxn => OBegin :: map OWrite ws ++ map ORecord evs ++ [OCommit]
  | AfterTxn => OBegin :: map OWrite ws ++ [OCommit] ++ map ORecord evs
  | BeforeTxn => map ORecord evs ++ OBegin :: map OWrite ws ++ [OCommit]
  | BetweenTxn | NoTxn => map OAutoWrite ws ++ map ORecord evs
  end.

Definition pos_of_flag (b : bool) : rpos := if b then InTxn else AfterTxn.

Definition lstep_pos (st : lstep) : rpos :=
  match st with
  | LStartWorkflow => start_workflow_event_pos
  | LCompleteWorkflow _ => complete_workflow_event_pos
  | LStartStage _ => start_stage_event_pos
  | LCompleteStage _ _ => pos_of_flag complete_stage_event_in_txn
  | LCompleteStageErr _ => InTxn
  | LSkipStage _ => skip_stage_event_pos
  | LCancelStage _ _ => cancel_stage_event_pos
  | LStartTask _ => start_task_event_pos
  | LSkipTaskAtStart _ => InTxn
  | LCompleteTask _ _ => pos_of_flag complete_task_event_in_txn
  | LForce _ _ => InTxn
  end.

Definition lstep_ops (tag : N) (st : lstep) : list op :=
  let r := record_of tag st in handler_ops (lstep_pos st) (fst r) (snd r).

(* the durable changes of an op list, one entry per op that changed the durable database:
   (status writes made durable, events made durable) -- what the commit observer sees *)
Fixpoint commit_trace (same_db : bool) (s : tstate) (ops : list op) : list (list write * list event) :=
  match ops with
  | [] => []
  | o :: r =>
      let s' := tstep same_db s o in
      let dw := skipn (length (db_writes (durable s))) (db_writes (durable s')) in
      let de := skipn (length (db_log (durable s))) (db_log (durable s')) in
      match dw, de with
      | [], [] => commit_trace same_db s' r
      | _, _ => (dw, de) :: commit_trace same_db s' r
      end
  end.

(* ------------------------------------------------------------------------------------------------ *)
(* boolean equalities used by the correspondence harness                                             *)
(* ------------------------------------------------------------------------------------------------ *)

Definition opt_eqb {A} (f : A -> A -> bool) (a b : option A) : bool :=
  match a, b with Some x, Some y => f x y | None, None => true | _, _ => false end.
Definition pair_eqb (a b : N * N) : bool := N.eqb (fst a) (fst b) && N.eqb (snd a) (snd b).
Definition kv_eqb (a b : list (N * N)) : bool := list_eqb pair_eqb a b.

Definition sstate_eqb (a b : sstate) : bool :=
  opt_eqb N.eqb (s_ref a) (s_ref b) && opt_eqb N.eqb (s_type a) (s_type b) && opt_eqb N.eqb (s_name a) (s_name b)
  && opt_eqb status_eqb (s_status a) (s_status b) && opt_eqb N.eqb (s_start a) (s_start b) && opt_eqb N.eqb (s_end a) (s_end b)
  && opt_eqb kv_eqb (s_outs a) (s_outs b) && opt_eqb N.eqb (s_error a) (s_error b) && opt_eqb N.eqb (s_skip a) (s_skip b).

Definition kstate_eqb (a b : kstate) : bool :=
  opt_eqb N.eqb (k_name a) (k_name b) && opt_eqb N.eqb (k_stage a) (k_stage b)
  && opt_eqb status_eqb (k_status a) (k_status b) && opt_eqb N.eqb (k_start a) (k_start b) && opt_eqb N.eqb (k_end a) (k_end b)
  && opt_eqb kv_eqb (k_outs a) (k_outs b) && opt_eqb N.eqb (k_error a) (k_error b) && opt_eqb N.eqb (k_retry a) (k_retry b).

Definition rstate_eqb (a b : rstate) : bool :=
  opt_eqb status_eqb (w_status a) (w_status b) && opt_eqb N.eqb (w_app a) (w_app b) && opt_eqb N.eqb (w_name a) (w_name b)
  && opt_eqb N.eqb (w_start a) (w_start b) && opt_eqb N.eqb (w_end a) (w_end b) && kv_eqb (w_ctx a) (w_ctx b)
  && list_eqb (fun x y => N.eqb (fst x) (fst y) && sstate_eqb (snd x) (snd y)) (r_stages a) (r_stages b)
  && list_eqb (fun x y => N.eqb (fst x) (fst y) && kstate_eqb (snd x) (snd y)) (r_tasks a) (r_tasks b).

(* an observed event reduced to what the recorders decide: (type, entity type, entity id, data.status) *)
Definition ev_sig (e : event) := (kind e, ety e, eid e, d_status e).
Definition ev_sig_eqb (a b : ekind * etype * N * option status) : bool :=
  match a, b with
  | (k1, t1, i1, s1), (k2, t2, i2, s2) => ekind_eqb k1 k2 && etype_eqb t1 t2 && N.eqb i1 i2 && opt_eqb status_eqb s1 s2
  end.

Definition write_sig (w : write) := (wr_ent w, wr_new w).
Definition write_sig_eqb (a b : entity * status) : bool := entity_eqb (fst a) (fst b) && status_eqb (snd a) (snd b).
