(* Expr: hand model of expressions.py — evaluate_expression / _eval_node — as the *same algorithm*
   the Python runs, with the CPython semantics of the operators it delegates to written out for
   the value domain {None, bool, int, str, list, tuple, dict}.  floats / complex / bytes / Ellipsis
   constants are OUTSIDE this model (the harness runs them against the implementation-side monitor
   only).  Strings are lists of code points.  Tied to the source by the differential in
   harness/props/c20.py.  No proofs here.

   Three things are parameters, not code:
     ident   object identity (`is`) of two non-singleton values (CPython caches small ints, interns
             some strings, ...): an arbitrary function here; None/True/False are singletons;
     other   what evaluating a non-whitelisted node (Call, Lambda, BinOp, comprehension, ...) does.
             The code raises ExpressionError, so the model of the code is `other := Err`; keeping it
             a parameter lets C20_no_effects say that such a node can only ever surface as Err;
     rl      the remaining recursion budget (CPython's recursion limit, abstractly): every
             _eval_node call consumes one; at 0 the call raises RecursionError.
   `cfg` describes which of the repairs of fixes/C20-expr-total.diff the implementation has
   (cur = none = the unchanged tree, fixed = all): TypeError of unary minus, TypeError of an
   unhashable subscript key, and RecursionError / ValueError / MemoryError caught at the top. *)
From Coq Require Import List Bool Arith ZArith Lia.
Import ListNotations.
From Stab.model Require Import Base.

Inductive value :=
| VNone
| VBool (b : bool)
| VInt (z : Z)
| VStr (s : list Z)
| VList (l : list value)
| VTuple (l : list value)
| VDict (kvs : list (value * value)).

Inductive cmpop := CEq | CNotEq | CLt | CLtE | CGt | CGtE | CIs | CIsNot | CIn | CNotIn.
Inductive boolop := BAnd | BOr.
Inductive unop := UNot | UUSub | UOther.     (* UOther = UAdd, Invert *)

Inductive expr :=
| EConst (v : value)                          (* ast.Constant (None / bool / int / str) *)
| EName (id : list Z)
| EAttr (e : expr) (attr : list Z)
| ESub (e : expr) (slice : expr)
| ECompare (left : expr) (rest : list (cmpop * expr))
| EBoolOp (op : boolop) (vals : list expr)
| EUnary (op : unop) (e : expr)
| EIf (t b o : expr)
| EList (es : list expr)
| ETuple (es : list expr)
| EOther.                                     (* every other ast node type *)

Inductive crash :=
| CrTypeUSub            (* TypeError: bad operand type for unary - *)
| CrTypeUnhashable      (* TypeError: unhashable type (dict.get with a list/dict key) *)
| CrRecursion           (* RecursionError *)
| CrValue               (* ValueError from ast.parse (incl. UnicodeEncodeError) *)
| CrMemory              (* MemoryError from ast.parse *)
| CrOther.              (* anything else; also the marker of C20_no_effects *)

(* outcome of a call: a value, ExpressionError, or any other exception *)
Inductive eres (A : Type) := Ok (a : A) | Err | Crash (k : crash).
Arguments Ok {A} a.
Arguments Err {A}.
Arguments Crash {A} k.
Definition result := eres value.

Definition bind {A B} (r : eres A) (f : A -> eres B) : eres B :=
  match r with Ok a => f a | Err => Err | Crash k => Crash k end.

Record cfg := mkCfg { fix_usub : bool; fix_sub : bool; fix_rec : bool; fix_val : bool; fix_mem : bool }.
Definition cur : cfg := mkCfg false false false false false.
Definition fixed : cfg := mkCfg true true true true true.

(* ------------------------------------------------------------------ Python value semantics *)
Definition b2z (b : bool) : Z := if b then 1%Z else 0%Z.
(* bool is an int *)
Definition num (v : value) : option Z :=
  match v with VBool b => Some (b2z b) | VInt z => Some z | _ => None end.

Definition str_eqb (a b : list Z) : bool := list_eqb Z.eqb a b.

(* == *)
Fixpoint veq (a b : value) {struct a} : bool :=
  match a with
  | VNone => match b with VNone => true | _ => false end
  | VBool x => match num b with Some y => Z.eqb (b2z x) y | None => false end
  | VInt x => match num b with Some y => Z.eqb x y | None => false end
  | VStr x => match b with VStr y => str_eqb x y | _ => false end
  | VList x =>
      match b with
      | VList y =>
          (fix go (x y : list value) {struct x} : bool :=
             match x with
             | [] => match y with [] => true | _ => false end
             | a' :: x' => match y with [] => false | b' :: y' => veq a' b' && go x' y' end
             end) x y
      | _ => false
      end
  | VTuple x =>
      match b with
      | VTuple y =>
          (fix go (x y : list value) {struct x} : bool :=
             match x with
             | [] => match y with [] => true | _ => false end
             | a' :: x' => match y with [] => false | b' :: y' => veq a' b' && go x' y' end
             end) x y
      | _ => false
      end
  | VDict x =>
      match b with
      | VDict y =>
          Nat.eqb (length x) (length y) &&
          (fix all (x : list (value * value)) {struct x} : bool :=
             match x with
             | [] => true
             | kv :: x' =>
                 (fix find (y : list (value * value)) {struct y} : bool :=
                    match y with
                    | [] => false
                    | kv' :: y' => if veq (fst kv) (fst kv') then veq (snd kv) (snd kv') else find y'
                    end) y && all x'
             end) x
      | _ => false
      end
  end.

Inductive ordop := OLt | OLe | OGt | OGe.
Definition ord_z (op : ordop) (x y : Z) : bool :=
  match op with OLt => Z.ltb x y | OLe => Z.leb x y | OGt => Z.ltb y x | OGe => Z.leb y x end.

(* str < str: lexicographic by code point, then by length *)
Fixpoint lex_z (op : ordop) (x y : list Z) : bool :=
  match x, y with
  | a :: x', b :: y' => if Z.eqb a b then lex_z op x' y' else ord_z op a b
  | [], [] => ord_z op 0 0
  | [], _ :: _ => ord_z op 0 1
  | _ :: _, [] => ord_z op 1 0
  end.

(* < <= > >= ; None = TypeError.  list/tuple: first pair of items that are not ==, compared with
   the operator itself (which may raise); no such pair: compare the lengths. *)
Fixpoint vord (op : ordop) (a b : value) {struct a} : option bool :=
  match a with
  | VNone => None
  | VBool x => match num b with Some y => Some (ord_z op (b2z x) y) | None => None end
  | VInt x => match num b with Some y => Some (ord_z op x y) | None => None end
  | VStr x => match b with VStr y => Some (lex_z op x y) | _ => None end
  | VList x =>
      match b with
      | VList y =>
          (fix go (x y : list value) {struct x} : option bool :=
             match x with
             | [] => match y with [] => Some (ord_z op 0 0) | _ => Some (ord_z op 0 1) end
             | a' :: x' =>
                 match y with
                 | [] => Some (ord_z op 1 0)
                 | b' :: y' => if veq a' b' then go x' y' else vord op a' b'
                 end
             end) x y
      | _ => None
      end
  | VTuple x =>
      match b with
      | VTuple y =>
          (fix go (x y : list value) {struct x} : option bool :=
             match x with
             | [] => match y with [] => Some (ord_z op 0 0) | _ => Some (ord_z op 0 1) end
             | a' :: x' =>
                 match y with
                 | [] => Some (ord_z op 1 0)
                 | b' :: y' => if veq a' b' then go x' y' else vord op a' b'
                 end
             end) x y
      | _ => None
      end
  | VDict _ => None
  end.

Fixpoint hashable (v : value) : bool :=
  match v with
  | VList _ | VDict _ => false
  | VTuple l => (fix all (l : list value) : bool :=
                   match l with [] => true | x :: l' => hashable x && all l' end) l
  | _ => true
  end.

Fixpoint is_prefix (n h : list Z) : bool :=
  match n, h with
  | [], _ => true
  | a :: n', b :: h' => Z.eqb a b && is_prefix n' h'
  | _ :: _, [] => false
  end.
Fixpoint is_infix (n h : list Z) : bool :=
  is_prefix n h || match h with [] => false | _ :: h' => is_infix n h' end.

Definition dict_get (kvs : list (value * value)) (k : value) : value :=
  match find (fun kv => veq (fst kv) k) kvs with Some kv => snd kv | None => VNone end.

(* a in b ; None = TypeError *)
Definition vin (a b : value) : option bool :=
  match b with
  | VStr h => match a with VStr n => Some (is_infix n h) | _ => None end
  | VList l | VTuple l => Some (existsb (fun x => veq x a) l)
  | VDict kvs => if hashable a then Some (existsb (fun kv => veq (fst kv) a) kvs) else None
  | _ => None
  end.

Definition truthy (v : value) : bool :=
  match v with
  | VNone => false
  | VBool b => b
  | VInt z => negb (Z.eqb z 0)
  | VStr s => negb (is_nil s)
  | VList l | VTuple l => negb (is_nil l)
  | VDict kvs => negb (is_nil kvs)
  end.

(* value[key] for list/tuple with an int key, IndexError -> None *)
Definition index (l : list value) (i : Z) : value :=
  let n := Z.of_nat (length l) in
  if (Z.leb 0 i && Z.ltb i n)%bool then nth (Z.to_nat i) l VNone
  else if (Z.leb (- n) i && Z.ltb i 0)%bool then nth (Z.to_nat (n + i)) l VNone
  else VNone.

(* structural equality, used by the correspondence to compare results (True <> 1 here) *)
Fixpoint value_eqb (a b : value) {struct a} : bool :=
  match a with
  | VNone => match b with VNone => true | _ => false end
  | VBool x => match b with VBool y => Bool.eqb x y | _ => false end
  | VInt x => match b with VInt y => Z.eqb x y | _ => false end
  | VStr x => match b with VStr y => str_eqb x y | _ => false end
  | VList x =>
      match b with
      | VList y =>
          (fix go (x y : list value) {struct x} : bool :=
             match x with
             | [] => match y with [] => true | _ => false end
             | a' :: x' => match y with [] => false | b' :: y' => value_eqb a' b' && go x' y' end
             end) x y
      | _ => false
      end
  | VTuple x =>
      match b with
      | VTuple y =>
          (fix go (x y : list value) {struct x} : bool :=
             match x with
             | [] => match y with [] => true | _ => false end
             | a' :: x' => match y with [] => false | b' :: y' => value_eqb a' b' && go x' y' end
             end) x y
      | _ => false
      end
  | VDict x =>
      match b with
      | VDict y =>
          (fix go (x y : list (value * value)) {struct x} : bool :=
             match x with
             | [] => match y with [] => true | _ => false end
             | kv :: x' =>
                 match y with
                 | [] => false
                 | kv' :: y' => value_eqb (fst kv) (fst kv') && value_eqb (snd kv) (snd kv') && go x' y'
                 end
             end) x y
      | _ => false
      end
  end.

(* ------------------------------------------------------------------ names *)
Definition n_True : list Z := [84; 114; 117; 101]%Z.
Definition n_true : list Z := [116; 114; 117; 101]%Z.
Definition n_False : list Z := [70; 97; 108; 115; 101]%Z.
Definition n_false : list Z := [102; 97; 108; 115; 101]%Z.
Definition n_None : list Z := [78; 111; 110; 101]%Z.
Definition n_none : list Z := [110; 111; 110; 101]%Z.
Definition n_null : list Z := [110; 117; 108; 108]%Z.
Definition n_one : list Z := [49]%Z.
Definition n_zero : list Z := [48]%Z.

Definition context := list (list Z * value).     (* dict[str, Any] *)
Definition ctx_get (ctx : context) (id : list Z) : option value :=
  match find (fun kv => str_eqb (fst kv) id) ctx with Some kv => Some (snd kv) | None => None end.

(* ast.parse(expr, mode="eval") is NOT modelled: its outcome on the stripped text is an input *)
Inductive parse_result := Parsed (e : expr) | PSyntaxError | PCrash (k : crash).

Section Eval.
  Variable ident : value -> value -> bool.
  Variable other : result.
  Variable c : cfg.
  Variable ctx : context.

  Definition lookup_name (id : list Z) : value :=
    if str_eqb id n_True || str_eqb id n_true then VBool true
    else if str_eqb id n_False || str_eqb id n_false then VBool false
    else if str_eqb id n_None || str_eqb id n_none || str_eqb id n_null then VNone
    else match ctx_get ctx id with Some v => v | None => VNone end.

  (* a is b *)
  Definition vis (a b : value) : bool :=
    match a, b with
    | VNone, VNone => true
    | VBool x, VBool y => Bool.eqb x y
    | VNone, _ | VBool _, _ | _, VNone | _, VBool _ => false
    | _, _ => ident a b
    end.

  (* _SAFE_OPERATORS[type(op)](left, right); None = TypeError (-> ExpressionError in Compare) *)
  Definition cmp (op : cmpop) (a b : value) : option bool :=
    match op with
    | CEq => Some (veq a b)
    | CNotEq => Some (negb (veq a b))
    | CLt => vord OLt a b
    | CLtE => vord OLe a b
    | CGt => vord OGt a b
    | CGtE => vord OGe a b
    | CIs => Some (vis a b)
    | CIsNot => Some (negb (vis a b))
    | CIn => vin a b
    | CNotIn => option_map negb (vin a b)
    end.

  Definition subscript (v k : value) : result :=
    match v with
    | VDict kvs =>
        if hashable k then Ok (dict_get kvs k)
        else if fix_sub c then Err else Crash CrTypeUnhashable
    | VList l | VTuple l =>
        match num k with Some i => Ok (index l i) | None => Ok VNone end
    | _ => Ok VNone
    end.

  Definition unary (op : unop) (v : value) : result :=
    match op with
    | UNot => Ok (VBool (negb (truthy v)))
    | UUSub => match num v with
               | Some z => Ok (VInt (- z))
               | None => if fix_usub c then Err else Crash CrTypeUSub
               end
    | UOther => Err
    end.

  (* [f(e) for e in es]: left to right, the first exception ends it *)
  Fixpoint mapM (f : expr -> result) (es : list expr) : eres (list value) :=
    match es with
    | [] => Ok []
    | e :: es' => bind (f e) (fun v => bind (mapM f es') (fun vs => Ok (v :: vs)))
    end.

  (* the `for op, comparator in zip(ops, comparators)` loop *)
  Fixpoint chain (f : expr -> result) (left : value) (rest : list (cmpop * expr)) : result :=
    match rest with
    | [] => Ok (VBool true)
    | (op, ce) :: rest' =>
        bind (f ce) (fun right =>
          match cmp op left right with
          | None => Err
          | Some false => Ok (VBool false)
          | Some true => chain f right rest'
          end)
    end.

  (* one _eval_node call; `rec` is the recursive call (one level deeper) *)
  Definition eval_node (rec : expr -> result) (e : expr) : result :=
    match e with
    | EConst v => Ok v
    | EName id => Ok (lookup_name id)
    | EAttr e' a =>
        bind (rec e') (fun v =>
          Ok (match v with VDict kvs => dict_get kvs (VStr a) | _ => VNone end))
    | ESub e' sl =>
        bind (rec e') (fun v =>
          bind (match sl with EConst k => Ok k | _ => rec sl end) (fun k => subscript v k))
    | ECompare l rest => bind (rec l) (fun lv => chain rec lv rest)
    | EBoolOp op vs =>
        bind (mapM rec vs) (fun l =>
          Ok (VBool (match op with BAnd => forallb truthy l | BOr => existsb truthy l end)))
    | EUnary op e' => bind (rec e') (fun v => unary op v)
    | EIf t b o => bind (rec t) (fun tv => if truthy tv then rec b else rec o)
    | EList es => bind (mapM rec es) (fun l => Ok (VList l))
    | ETuple es => bind (mapM rec es) (fun l => Ok (VTuple l))
    | EOther => other
    end.

  (* _eval_node under a recursion budget: at 0 the call raises RecursionError *)
  Fixpoint eval (rl : nat) (e : expr) : result :=
    match rl with
    | O => Crash CrRecursion
    | S n => eval_node (eval n) e
    end.

  (* ---------------------------------------------------------------- evaluate_expression *)
  (* str.isspace() code points (what str.strip() removes) *)
  Definition is_space (ch : Z) : bool :=
    ((Z.leb 9 ch && Z.leb ch 13) || (Z.leb 28 ch && Z.leb ch 32) || Z.eqb ch 133 || Z.eqb ch 160
     || Z.eqb ch 5760 || (Z.leb 8192 ch && Z.leb ch 8202) || Z.eqb ch 8232 || Z.eqb ch 8233
     || Z.eqb ch 8239 || Z.eqb ch 8287 || Z.eqb ch 12288)%bool.
  Fixpoint lstrip (s : list Z) : list Z :=
    match s with [] => [] | ch :: s' => if is_space ch then lstrip s' else s end.
  Definition strip (s : list Z) : list Z := rev (lstrip (rev (lstrip s))).
  (* str.lower() restricted to what can produce "true"/"false"/"0"/"1": only A-Z map onto a-z *)
  Definition lower_ch (ch : Z) : Z := if (Z.leb 65 ch && Z.leb ch 90)%bool then (ch + 32)%Z else ch.

  (* the repaired evaluate_expression wraps parse + evaluation in
     `except (RecursionError, ValueError, MemoryError)` -> ExpressionError *)
  Definition top_catch (r : result) : result :=
    match r with
    | Crash CrRecursion => if fix_rec c then Err else r
    | Crash CrValue => if fix_val c then Err else r
    | Crash CrMemory => if fix_mem c then Err else r
    | _ => r
    end.

  Definition evaluate (src : list Z) (p : parse_result) (rl : nat) : result :=
    if forallb is_space src then Err                      (* not expression or not expression.strip() *)
    else
      let low := map lower_ch (strip src) in
      if str_eqb low n_true || str_eqb low n_one then Ok (VBool true)
      else if str_eqb low n_false || str_eqb low n_zero then Ok (VBool false)
      else match p with
           | PSyntaxError => Err
           | PCrash k => top_catch (Crash k)
           | Parsed e => top_catch (eval rl e)
           end.
End Eval.

(* the model of the code: a non-whitelisted node raises ExpressionError *)
Definition eval_py ident c ctx rl e := eval ident Err c ctx rl e.
Definition evaluate_py ident c ctx src p rl := evaluate ident Err c ctx src p rl.

Definition result_eqb (a b : result) : bool :=
  match a, b with
  | Ok x, Ok y => value_eqb x y
  | Err, Err => true
  | Crash j, Crash k =>
      match j, k with
      | CrTypeUSub, CrTypeUSub | CrTypeUnhashable, CrTypeUnhashable | CrRecursion, CrRecursion
      | CrValue, CrValue | CrMemory, CrMemory | CrOther, CrOther => true
      | _, _ => false
      end
  | _, _ => false
  end.

(* ------------------------------------------------------------------ the two callers
   handlers/start_stage/conditions.py:_should_skip  and
   handlers/complete_stage/split_logic.py:_apply_split_logic  wrap the call in
   `try: ... except <classes>:`.  What they catch and what they decide comes from the source
   (coq/gen/Gen_ExprCallers.v); this is the shape. *)
Inductive outcome (A : Type) := Decided (a : A) | Raises (k : crash) | RaisesExprErr.
Arguments Decided {A} a.
Arguments Raises {A} k.
Arguments RaisesExprErr {A}.

Definition caller {A} (catches_expr catches_all : bool) (on_value : bool -> A) (on_except : A)
           (r : result) : outcome A :=
  match r with
  | Ok v => Decided (on_value (truthy v))
  | Err => if catches_expr || catches_all then Decided on_except else RaisesExprErr
  | Crash k => if catches_all then Decided on_except else Raises k
  end.

(* nesting depth of an expression = number of nested _eval_node calls its evaluation can need *)
Fixpoint edepth (e : expr) : nat :=
  match e with
  | EConst _ | EName _ | EOther => 1
  | EAttr e' _ => S (edepth e')
  | ESub e' sl => S (Nat.max (edepth e') (edepth sl))
  | ECompare l rest => S (Nat.max (edepth l) (list_max (map (fun oc => edepth (snd oc)) rest)))
  | EBoolOp _ vs => S (list_max (map edepth vs))
  | EUnary _ e' => S (edepth e')
  | EIf t b o => S (Nat.max (edepth t) (Nat.max (edepth b) (edepth o)))
  | EList es | ETuple es => S (list_max (map edepth es))
  end.
