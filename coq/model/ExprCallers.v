(* The two callers of evaluate_expression, with what they catch / decide taken from the source
   (gen/Gen_ExprCallers.v, regenerated on every check) plugged into the try/except shape of
   model/Expr.v.  No proofs here. *)
From Coq Require Import List Bool ZArith.
Import ListNotations.
From Stab.gen Require Import Gen_ExprCallers.
From Stab.model Require Import Base Expr.

(* CompleteStagesSplitMixin._apply_split_logic, one downstream with a condition:
   Activate / SkipBranch, or the exception that escapes the handler *)
Definition apply_split (r : result) : outcome split_decision :=
  caller split_catches_expr split_catches_all split_on_value split_on_except r.

(* StartStageConditionsMixin._should_skip on {"type": "expression", "expression": <str>}:
   true = skip the stage *)
Definition should_skip (r : result) : outcome bool :=
  caller skip_catches_expr skip_catches_all skip_on_value skip_on_except r.
