(* Graph: hand model of dag/topological.py — validate_stage_graph, topological_sort (and
   topological_sort_all_stages, get_execution_layers) — as the *same algorithm* the Python runs:
   Kahn by whole layers, "sortable" computed against the processed-ref set of the start of the round.
   Tied to the source by the differential in harness/props/c20.py.  No proofs here. *)
From Coq Require Import List Bool Arith ZArith Lia.
Import ListNotations.
From Stab.model Require Import Base.

(* a stage as the validator sees it.  s_id is StageExecution.id (the key of unsorted_ids /
   stage_by_id; assumed unique), s_ref is ref_id, s_reqs is requisite_stage_ref_ids (a set in the
   Python; any list here, only membership is used), s_synthetic is `parent_stage_id is not None`. *)
Record stage := mkStage { s_id : Z; s_ref : Z; s_reqs : list Z; s_synthetic : bool }.

Definition memZ (x : Z) (l : list Z) : bool := existsb (Z.eqb x) l.
Definition subsetZ (a b : list Z) : bool := forallb (fun x => memZ x b) a.

Definition top_level (g : list stage) : list stage := filter (fun s => negb (s_synthetic s)) g.
Definition refs (l : list stage) : list Z := map s_ref l.

Inductive sort_result :=
| SortOk (o : list stage)
| SortCycle (rest : list stage)     (* CircularDependencyError(stages=rest) *)
| SortFuel.                         (* the model's fuel ran out (never happens: GraphP.kahn_fuel) *)

(* `while unsorted_ids:` — one iteration = one layer *)
Definition sortable (done : list Z) (s : stage) : bool := subsetZ (s_reqs s) done.

Fixpoint kahn (fuel : nat) (unsorted : list stage) (done : list Z) (acc : list stage) : sort_result :=
  match unsorted with
  | [] => SortOk acc
  | _ :: _ =>
    match fuel with
    | O => SortFuel
    | S f =>
      let ready := filter (sortable done) unsorted in
      match ready with
      | [] => SortCycle unsorted
      | _ :: _ => kahn f (filter (fun s => negb (sortable done s)) unsorted)
                       (done ++ refs ready) (acc ++ ready)
      end
    end
  end.

(* all = true is topological_sort_all_stages (stage_filter = lambda s: True) *)
Definition filtered (all : bool) (g : list stage) : list stage := if all then g else top_level g.
Definition topo_sort (all : bool) (g : list stage) : sort_result :=
  let t := filtered all g in kahn (length t) t [] [].
Definition topological_sort (g : list stage) : sort_result := topo_sort false g.

(* get_execution_layers: same loop, keeps the layers, `break`s silently when stuck *)
Fixpoint kahn_layers (fuel : nat) (unsorted : list stage) (done : list Z) : list (list stage) :=
  match unsorted with
  | [] => []
  | _ :: _ =>
    match fuel with
    | O => []
    | S f =>
      let ready := filter (sortable done) unsorted in
      match ready with
      | [] => []
      | _ :: _ => ready :: kahn_layers f (filter (fun s => negb (sortable done s)) unsorted) (done ++ refs ready)
      end
    end
  end.
Definition execution_layers (g : list stage) : list (list stage) :=
  let t := top_level g in kahn_layers (length t) t [].

(* validate_stage_graph *)
Inductive vresult := VOk | VDup | VSelf | VUnknown | VCycle | VFuel.

Fixpoint has_dup (seen : list Z) (l : list stage) : bool :=
  match l with
  | [] => false
  | s :: l' => if memZ (s_ref s) seen then true else has_dup (s_ref s :: seen) l'
  end.

(* second loop: per stage, self-edge first, then unknown refs *)
Fixpoint struct_err (seen : list Z) (l : list stage) : option vresult :=
  match l with
  | [] => None
  | s :: l' =>
    if memZ (s_ref s) (s_reqs s) then Some VSelf
    else if negb (subsetZ (s_reqs s) seen) then Some VUnknown
    else struct_err seen l'
  end.

Definition validate (g : list stage) : vresult :=
  let t := top_level g in
  if has_dup [] t then VDup
  else match struct_err (refs t) t with
       | Some e => e
       | None => match topological_sort g with
                 | SortOk _ => VOk
                 | SortCycle _ => VCycle
                 | SortFuel => VFuel
                 end
       end.

(* ---- helpers for the correspondence (order compared up to the order inside a layer, because the
   Python iterates a set of ULID strings) ---- *)
Definition ids (l : list stage) : list Z := map s_id l.
Definition same_set (a b : list Z) : bool :=
  Nat.eqb (length a) (length b) && subsetZ a b && subsetZ b a.
Fixpoint split_layers (sizes : list nat) (o : list Z) : list (list Z) :=
  match sizes with
  | [] => match o with [] => [] | _ => [o] end
  | n :: r => firstn n o :: split_layers r (skipn n o)
  end.
Fixpoint layers_match (ls : list (list Z)) (obs : list (list Z)) : bool :=
  match ls, obs with
  | [], [] => true
  | a :: ls', b :: obs' => same_set a b && layers_match ls' obs'
  | _, _ => false
  end.
(* observed flat order (ids) agrees with the model's layers *)
Definition order_matches (layers : list (list stage)) (obs : list Z) : bool :=
  layers_match (map ids layers) (split_layers (map (@length stage) layers) obs).
(* layers of a successful sort, recomputed the way kahn does *)
Definition sort_layers (all : bool) (g : list stage) : list (list stage) :=
  let t := filtered all g in kahn_layers (length t) t [].

(* ---- specification predicates used by the C20 theorems (independent of the algorithm) ---- *)
Definition known (t : list stage) : Prop := forall s, In s t -> incl (s_reqs s) (refs t).
Definition no_self (t : list stage) : Prop := forall s, In s t -> ~ In (s_ref s) (s_reqs s).
(* acyclic: the refs can be numbered so that every requisite has a smaller number than its stage *)
Definition acyclic (t : list stage) : Prop :=
  exists rank : Z -> nat, forall s, In s t -> forall r, In r (s_reqs s) -> rank r < rank (s_ref s).
(* edge a b: a is a requisite of (some stage called) b; path = non-empty chain of edges *)
Definition edge (t : list stage) (a b : Z) : Prop := exists s, In s t /\ s_ref s = b /\ In a (s_reqs s).
Inductive path (t : list stage) : Z -> Z -> Prop :=
| path_one a b : edge t a b -> path t a b
| path_step a b c : edge t a b -> path t b c -> path t a c.
Definition no_cycle (t : list stage) : Prop := forall a, ~ path t a a.
(* every stage is listed after all of its requisites *)
Definition after_reqs (o : list stage) : Prop :=
  forall l1 s l2, o = l1 ++ s :: l2 -> incl (s_reqs s) (refs l1).
