(* JumpM: names for the pieces of Engine.handle_jump (C15), and the loop budget as a counter machine.

   Nothing here decides anything new: every definition is a sub-expression of model/Engine.v:handle_jump given a name so
   that theorems (proofs/JumpP.v) and the traversal differential (harness/props/c15.py) can talk about it.
   Sources: handlers/jump_to_stage/{handler,traversal,reset}.py. *)
From Coq Require Import List Bool Arith ZArith.
Import ListNotations.
From Stab.model Require Import Base StatusM Readiness StageStat Engine.
From Stab.gen Require Import Gen_Config Gen_Guards.

(* get_resettable_downstream_stages(target) minus source and target: the stages re-armed besides source/target *)
Definition jump_resets (s : state) (i tg : nat) : list nat :=
  filter (fun j => negb (j =? i) && negb (j =? tg)) (closed_downstream s tg).

(* is_backward_jump = is_self_loop or source in get_downstream_stages(target) *)
Definition jump_backward (s : state) (i tg : nat) : bool := (i =? tg) || mem_nat i (all_dependents s tg).

(* get_skipped_stages(source, target), in execution.stages order: skippable(source) minus ({target} + downstream*(target)) *)
Definition skip_candidates (s : state) (i tg : nat) : list nat :=
  filter (fun j => negb (mem_nat j (tg :: all_dependents s tg)))
         (filter (fun j => mem_nat j (closed_downstream s i)) (seqn (length (w_stages s)))).

Definition not_started_at (s : state) (j : nat) : bool :=
  match get_stage s j with Some u => status_eqb (s_status u) NOT_STARTED | None => false end.

(* the members of get_skipped_stages the handler actually marks: `if skipped.status == NOT_STARTED` *)
Definition jump_skipped (s : state) (i tg : nat) : list nat :=
  if jump_backward s i tg then [] else filter (not_started_at s) (skip_candidates s i tg).

(* the three stage mutations of an accepted jump *)
Definition jump_set_jc (nj : Z) (st : stage) : stage := st_ctl st (s_bypass st) nj (s_buffered st) (s_signal st).

Definition jump_src_fn (backward : bool) (nj : Z) : stage -> stage :=
  if backward then (fun st => jump_set_jc nj (reset_for_retry st)) else (fun st => jump_set_jc nj (to_succeeded st)).

Definition jump_tgt_fn (nj : Z) (jctx : kv) : stage -> stage :=
  fun st => let r := reset_for_retry st in
            st_ctl (with_ctx r (kv_update (s_ctx r) jctx)) true nj (s_buffered r) (s_signal r).

(* ---- synthetic children (JumpToStageHandler._synthetic_reset_mutations): every re-armed stage is followed by one
   reset_stage_for_retry per synthetic child (get_synthetic_stages = children, row order) ---- *)
Definition reset_with_kids (s : state) (j : nat) : list nat := j :: children s j.

(* everything the FIRST segment of the commit resets, in order: each re-armed downstream stage, then its children *)
Definition jump_reset_list (s : state) (i tg : nat) : list nat := flat_map (reset_with_kids s) (jump_resets s i tg).

(* the re-armed stages whose children are re-armed with them, in commit order *)
Definition rearm_parents (s : state) (i tg : nat) : list nat :=
  jump_resets s i tg ++ (if negb (i =? tg) && jump_backward s i tg then [i] else []) ++ [tg].
Definition rearm_kids (s : state) (i tg : nat) : list nat := flat_map (children s) (rearm_parents s i tg).

Definition count_nat (k : nat) (l : list nat) : nat := length (filter (Nat.eqb k) l).
Definition iter_reset (n : nat) (st : stage) : stage := Nat.iter n reset_for_retry st.

(* what an accepted jump does to a stage that is NOT a synthetic child of a re-armed stage (st = its row before) *)
Definition jump_effect_top (s : state) (src : stage) (i tg : nat) (jctx : kv) (k : nat) (st : stage) : stage :=
  let nj := (s_jump_count src + 1)%Z in
  if k =? tg then jump_tgt_fn nj jctx st
  else if k =? i then jump_src_fn (jump_backward s i tg) nj st
  else if mem_nat k (closed_downstream s tg) then reset_for_retry st
  else if mem_nat k (jump_skipped s i tg) then to_skipped st
  else st.

(* what an accepted jump source i -> target tg does to ANY stage k, exactly, in the order of the commit's four segments:
   (1) re-armed downstream stages with their children (a stage met n times is reset n times), (2) skipped stages,
   (3) the source (+ its children when the jump is backward), (4) the target + its children *)
Definition jump_effect (s : state) (src : stage) (i tg : nat) (jctx : kv) (k : nat) (st : stage) : stage :=
  let nj := (s_jump_count src + 1)%Z in
  let backward := jump_backward s i tg in
  let x1 := iter_reset (count_nat k (jump_reset_list s i tg)) st in
  let x2 := if mem_nat k (jump_skipped s i tg) then to_skipped x1 else x1 in
  let x3 := if i =? tg then x2
            else let y := if k =? i then jump_src_fn backward nj x2 else x2 in
                 if backward && mem_nat k (children s i) then reset_for_retry y else y in
  let x4 := if k =? tg then jump_tgt_fn nj jctx x3 else x3 in
  if mem_nat k (children s tg) then reset_for_retry x4 else x4.

(* ---- the loop budget as a counter machine: one request = one JumpToStage handled for a source whose carried
   _jump_count is c under the effective maximum m ---- *)
Definition budget_step (m c : Z) : Z * bool :=
  if jump_exhausted c m then (c, false) else ((c + 1)%Z, true).

(* n requests in a row: (number accepted, final count) *)
Fixpoint budget_run (m c : Z) (n : nat) : nat * Z :=
  match n with
  | O => (O, c)
  | S k => let (c', ok) := budget_step m c in
           let (a, cf) := budget_run m c' k in
           ((if ok then S a else a), cf)
  end.
