(* MsgCodec: executable model of the queue message codec of stabilize
   (queue/sqlite/serialization.py: serialize_message / deserialize_message, the inline copy of the
   serialiser in persistence/sqlite/transaction.py: AtomicTransaction.push_message, queue/messages.py:
   get_message_type_name / create_message_from_dict).

   The branch lists of the two serialisers, the enum keys restored, the metadata keys popped, the message
   classes with their field lists and the registry are the generated lists of gen/Gen_Messages.v; this file
   gives their meaning.  JSON text is abstract (enc / dec); datetime.isoformat is the arbitrary function
   [iso].  No proofs in this file. *)
From Coq Require Import List ZArith String Bool.
Import ListNotations.
From Stab.model Require Import CodecT Codec.
Open Scope string_scope.

Record msg : Type := mkMsg { m_cls : string; m_fields : list (string * pyval) }.

Fixpoint kset (k : pkey) (v : pyval) (l : list (pkey * pyval)) : list (pkey * pyval) :=
  match l with
  | [] => [(k, v)]
  | (k', v') :: r => if pkey_eqb k k' then (k, v) :: r else (k', v') :: kset k v r
  end.

Definition is_private (k : string) : bool := prefix "_" k.

Definition is_identity (b : ser_branch) : bool := match b with SBIdentity => true | _ => false end.
Definition is_skip (b : ser_branch) : bool := match b with SBSkipPrivate => true | _ => false end.

Section Msg.
Variable jtext : Type.
Variable enc : pyval -> jtext.
Variable dec : jtext -> option pyval.
Variable iso : Z -> string.                                   (* datetime.isoformat *)
Variable ET : list (string * list (string * string)).
Variable CL : list (string * list (string * mtype)).          (* message class -> fields in dataclass order *)
Variable REG : list (string * string).                        (* MESSAGE_TYPES: name -> class *)
Variable RS : list restore.
Variable POP : list string.

(* the if / elif / else chain applied to one attribute value; None = no branch assigns the key *)
Fixpoint ser_value (B : list ser_branch) (v : pyval) : option pyval :=
  match B with
  | [] => None
  | SBSkipPrivate :: B' => ser_value B' v
  | SBDatetimeIso :: B' => match v with VDatetime d => Some (VStr (iso d)) | _ => ser_value B' v end
  | SBEnumName :: B' => match v with VEnum _ m => Some (VStr m) | _ => ser_value B' v end
  | SBEnumValue :: B' => match v with
                         | VEnum c m => match enum_value ET c m with Some s => Some (VStr s) | None => None end
                         | _ => ser_value B' v
                         end
  | SBIdentity :: _ => Some v
  end.

Definition ser_entry (B : list ser_branch) (kv : string * pyval) : list (pkey * pyval) :=
  if existsb is_skip B && is_private (fst kv) then []
  else match ser_value B (snd kv) with Some v' => [(KStr (fst kv), v')] | None => [] end.

(* payload = json.dumps({key: conv(value) for key, value in message.__dict__.items()}) *)
Definition ser_dict (B : list ser_branch) (m : msg) : pyval := VDict (flat_map (ser_entry B) (m_fields m)).
Definition serialize (B : list ser_branch) (m : msg) : jtext := enc (ser_dict B m).
Definition type_name (m : msg) : string := m_cls m.            (* get_message_type_name *)

Definition guard_fires (g : guard) (v : pyval) : bool :=
  match g with GIsStr => is_vstr v | GTruthy => py_truthy v end.

(* if key in data and <guard>: data[key] = Cls[data[key]]      None = KeyError *)
Definition restore_one (rs : restore) (kvs : list (pkey * pyval)) : option (list (pkey * pyval)) :=
  match kget (KStr (rs_key rs)) kvs with
  | Some v =>
      if guard_fires (rs_guard rs) v then
        match v with
        | VStr s => match enum_by_name ET (rs_cls rs) s with
                    | Some m => Some (kset (KStr (rs_key rs)) (VEnum (rs_cls rs) m) kvs)
                    | None => None
                    end
        | _ => None
        end
      else Some kvs
  | None => Some kvs
  end.

Fixpoint restore_all (l : list restore) (kvs : list (pkey * pyval)) : option (list (pkey * pyval)) :=
  match l with
  | [] => Some kvs
  | rs :: r => match restore_one rs kvs with Some kvs' => restore_all r kvs' | None => None end
  end.

Definition key_popped (k : pkey) : bool := match k with KStr s => smem s POP | KInt _ => false end.
Definition pop_keys (kvs : list (pkey * pyval)) : list (pkey * pyval) :=
  filter (fun kv => negb (key_popped (fst kv))) kvs.

(* the class is called with data as keywords: unknown keyword = TypeError (None); a field without keyword gets its default *)
Definition construct (cls : string) (kvs : list (pkey * pyval)) : option msg :=
  match sget cls CL with
  | Some fts =>
      if forallb (fun kv => match fst kv with KStr k => smem k (map fst fts) | KInt _ => false end) kvs
      then Some (mkMsg cls (map (fun ft => (fst ft, match kget (KStr (fst ft)) kvs with Some v => v | None => VDefault end)) fts))
      else None
  | None => None
  end.

Definition deserialize (tn : string) (t : jtext) : option msg :=
  match dec t with
  | Some (VDict kvs) =>
      match restore_all RS kvs with
      | Some kvs1 => match sget tn REG with
                     | Some cls => construct cls (pop_keys kvs1)
                     | None => None
                     end
      | None => None
      end
  | _ => None
  end.

(* ---------- static checks on the generated lists ---------- *)
Fixpoint find_restore (k : string) (l : list restore) : option restore :=
  match l with
  | [] => None
  | rs :: r => if String.eqb k (rs_key rs) then Some rs else find_restore k r
  end.

Definition enum_ser_ok (B : list ser_branch) (cls : string) : bool :=
  forallb (fun nv => negb (String.eqb (fst nv) "")
                     && match ser_value B (VEnum cls (fst nv)) with Some (VStr s) => String.eqb s (fst nv) | _ => false end)
          (enum_members ET cls).

Definition datetime_ser_ok (B : list ser_branch) : bool :=
  match ser_value B (VDatetime 0) with Some (VStr _) => true | _ => false end.

Definition field_ok (B : list ser_branch) (f : string) (t : mtype) : bool :=
  let popped := smem f POP in
  match t with
  | MEnum cls | MOptEnum cls =>
      enum_ser_ok B cls
      && match find_restore f RS with
         | Some rs => String.eqb (rs_cls rs) cls
         | None => popped
         end
  | MDatetime => datetime_ser_ok B && popped && match find_restore f RS with None => true | Some _ => false end
  | _ => match find_restore f RS with None => true | Some _ => false end
  end
  && (popped || negb (existsb is_skip B && is_private f)).

Definition class_ok (B : list ser_branch) (fts : list (string * mtype)) : bool :=
  snodup (map fst fts) && forallb (fun ft => field_ok B (fst ft) (snd ft)) fts.

Definition msg_codec_ok (B : list ser_branch) : bool :=
  existsb is_identity B
  && snodup (map rs_key RS)
  && snodup (map fst REG)
  && forallb (fun kc => String.eqb (fst kc) (snd kc)
                        && match sget (snd kc) CL with Some fts => class_ok B fts | None => false end) REG.

(* registry: name <-> class is a bijection onto the registered classes, and every class that is not the
   base of another one is registered *)
Definition registry_ok (bases : list (string * string)) : bool :=
  snodup (map fst REG) && snodup (map snd REG)
  && forallb (fun kc => String.eqb (fst kc) (snd kc) && smem (snd kc) (map fst CL)) REG
  && forallb (fun c => smem c (map snd REG) || smem c (map snd bases)) (map fst CL).

(* ---------- the wf predicate of a message: an instance of a registered class, fields as declared ---------- *)
Definition wf_mvalue (t : mtype) (v : pyval) : bool :=
  match t, v with
  | MStr, VStr _ | MInt, VInt _ | MBool, VBool _ => true
  | MJson, VDict _ | MJson, VList _ => jrep v
  | MDatetime, VDatetime _ => true
  | MOptStr, VNone | MOptStr, VStr _ => true
  | MEnum cls, VEnum c m => String.eqb c cls && enum_has ET cls m
  | MOptEnum cls, VNone => true
  | MOptEnum cls, VEnum c m => String.eqb c cls && enum_has ET cls m
  | _, _ => false
  end.

Fixpoint wf_mfields (fts : list (string * mtype)) (fs : list (string * pyval)) : bool :=
  match fts, fs with
  | [], [] => true
  | (f, t) :: r, (f', v) :: r' => String.eqb f f' && wf_mvalue t v && wf_mfields r r'
  | _, _ => false
  end.

Definition wf_msg (m : msg) : bool :=
  match sget (m_cls m) REG with
  | Some cls => String.eqb cls (m_cls m)
                && match sget cls CL with Some fts => wf_mfields fts (m_fields m) | None => false end
  | None => false
  end.

End Msg.
