(* Occ: optimistic concurrency control of stage rows and task rows, as the SQLite store does it.

   Sources modelled (the algorithm the code runs, statement by statement):
     persistence/sqlite/store/stage_ops.py  store_stage / retrieve_stage      (variant Plain)
     persistence/sqlite/transaction.py      AtomicTransaction.store_stage     (variant Txn)
     persistence/sqlite/store/store.py      transaction() : commit / rollback
     persistence/sqlite/helpers.py          upsert_task
     handlers/base.py retry_on_concurrency_error, handlers/complete_stage/split_logic.py
                                            _update_join_tracking            (bounded re-read/retry loop)

   The WHERE / SET shape of every UPDATE, the rowcount test, the IntegrityError conversion and the
   commit / rollback placement are NOT restated here: they are booleans regenerated from the source
   (coq/gen/Gen_Occ.v) and the semantics below is parameterised by them ([shapes]).

   Concurrency (the Conc-style semantics used by C07): n workers; a worker's attempt is the event
   sequence  S (SELECT the stage row)  T (SELECT its task rows)  U (first DML: UPDATE stage + task
   upserts, inside an implicit transaction)  C (COMMIT);  after its last attempt  E (the next
   committing operation on the same thread-local connection: ack / reschedule / mark-processed).
   A schedule is any list of (worker, event kind).  SQLite's single-writer lock (trusted): while one
   worker's write transaction is open no other worker can execute DML ([g_lock]); readers see the
   committed database.  No proofs in this file. *)
From Coq Require Import List Bool ZArith Lia.
Import ListNotations.
From Stab.gen Require Gen_Occ Gen_Config.
Local Open Scope Z_scope.

(* ---------------------------------------------------------------- tables *)
Record srow := mk_srow { s_id : Z; s_ver : Z; s_status : Z; s_pay : list Z }.
Record trow := mk_trow { t_id : Z; t_stage : Z; t_ver : Z; t_status : Z }.
Record db := mk_db { d_stages : list srow; d_tasks : list trow }.

(* in-memory StageExecution with its TaskExecutions, as loaded by retrieve_stage *)
Record tsnap := mk_tsnap { ts_id : Z; ts_ver : Z; ts_status : Z }.
Record snap := mk_snap { n_id : Z; n_ver : Z; n_status : Z; n_pay : list Z; n_tasks : list tsnap }.

Inductive res := Ok | ConcErr | OtherErr.
Definition res_eqb (a b : res) : bool :=
  match a, b with Ok, Ok | ConcErr, ConcErr | OtherErr, OtherErr => true | _, _ => false end.

(* ---------------------------------------------------------------- statement shapes (from Gen_Occ) *)
Record upd_shape := mk_upd { w_id : bool; w_version : bool; w_status : bool; u_bump : bool; u_payload : bool }.
Record store_shape := mk_store { sh_nophase : upd_shape; sh_phase : upd_shape; sh_rowcount : bool;
                                 sh_local_bump : bool; sh_upserts : bool }.
Record task_shape := mk_task { k_id : bool; k_version : bool; k_bump : bool; k_insert : bool;
                               k_integrity : bool; k_local_bump : bool }.
Record shapes := mk_shapes { x_plain : store_shape; x_txn : store_shape; x_task : task_shape;
                             x_plain_commits : bool; x_plain_rollback : bool;
                             x_txn_commits : bool; x_txn_rollback : bool }.

Definition gen_shapes : shapes :=
  mk_shapes
    (mk_store (mk_upd Gen_Occ.plain_nophase_where_id Gen_Occ.plain_nophase_where_version Gen_Occ.plain_nophase_where_status
                      Gen_Occ.plain_nophase_bumps_version Gen_Occ.plain_nophase_sets_payload)
              (mk_upd Gen_Occ.plain_phase_where_id Gen_Occ.plain_phase_where_version Gen_Occ.plain_phase_where_status
                      Gen_Occ.plain_phase_bumps_version Gen_Occ.plain_phase_sets_payload)
              Gen_Occ.plain_rowcount_check Gen_Occ.plain_local_version_bump Gen_Occ.plain_upserts_tasks)
    (mk_store (mk_upd Gen_Occ.txn_nophase_where_id Gen_Occ.txn_nophase_where_version Gen_Occ.txn_nophase_where_status
                      Gen_Occ.txn_nophase_bumps_version Gen_Occ.txn_nophase_sets_payload)
              (mk_upd Gen_Occ.txn_phase_where_id Gen_Occ.txn_phase_where_version Gen_Occ.txn_phase_where_status
                      Gen_Occ.txn_phase_bumps_version Gen_Occ.txn_phase_sets_payload)
              Gen_Occ.txn_rowcount_check Gen_Occ.txn_local_version_bump Gen_Occ.txn_upserts_tasks)
    (mk_task Gen_Occ.task_where_id Gen_Occ.task_where_version Gen_Occ.task_bumps_version
             Gen_Occ.task_insert_when_nomatch Gen_Occ.task_integrity_to_concurrency Gen_Occ.task_local_version_bump)
    Gen_Occ.plain_commits Gen_Occ.plain_rollback_on_error Gen_Occ.txn_ctx_commits Gen_Occ.txn_ctx_rollback.

(* the flags the C07 theorems need *)
Definition good_upd (phase : bool) (u : upd_shape) : bool :=
  w_id u && w_version u && u_bump u && u_payload u && Bool.eqb (w_status u) phase.
Definition good_store (s : store_shape) : bool :=
  good_upd false (sh_nophase s) && good_upd true (sh_phase s) && sh_rowcount s && sh_upserts s.
Definition good_task (k : task_shape) : bool := k_id k && k_version k && k_bump k && k_insert k && k_integrity k.
Definition good (x : shapes) : bool :=
  good_store (x_plain x) && good_store (x_txn x) && good_task (x_task x)
  && x_plain_commits x && x_txn_commits x && x_txn_rollback x.

(* ---------------------------------------------------------------- UPDATE stage_executions … WHERE … *)
Definition stage_matches (u : upd_shape) (n : snap) (phase : option Z) (r : srow) : bool :=
  (negb (w_id u) || (s_id r =? n_id n))
  && (negb (w_version u) || (s_ver r =? n_ver n))
  && (negb (w_status u) || match phase with Some p => s_status r =? p | None => true end).

Definition stage_set (u : upd_shape) (n : snap) (r : srow) : srow :=
  mk_srow (s_id r) (if u_bump u then s_ver r + 1 else s_ver r)
          (if u_payload u then n_status n else s_status r) (if u_payload u then n_pay n else s_pay r).

Definition update_stages (u : upd_shape) (n : snap) (phase : option Z) (l : list srow) : list srow :=
  map (fun r => if stage_matches u n phase r then stage_set u n r else r) l.

Definition find_stage (sid : Z) (l : list srow) : option srow := find (fun r => s_id r =? sid) l.

(* ---------------------------------------------------------------- upsert_task *)
Definition task_matches (k : task_shape) (t : tsnap) (r : trow) : bool :=
  (negb (k_id k) || (t_id r =? ts_id t)) && (negb (k_version k) || (t_ver r =? ts_ver t)).

Definition task_set (k : task_shape) (t : tsnap) (r : trow) : trow :=
  mk_trow (t_id r) (t_stage r) (if k_bump k then t_ver r + 1 else t_ver r) (ts_status t).

Definition upsert_task (k : task_shape) (sid : Z) (l : list trow) (t : tsnap) : list trow * tsnap * res :=
  if existsb (task_matches k t) l then
    (map (fun r => if task_matches k t r then task_set k t r else r) l,
     mk_tsnap (ts_id t) (if k_local_bump k then ts_ver t + 1 else ts_ver t) (ts_status t), Ok)
  else if k_insert k then
    if existsb (fun r => t_id r =? ts_id t) l
    then (l, t, if k_integrity k then ConcErr else OtherErr)           (* PRIMARY KEY -> IntegrityError *)
    else (l ++ [mk_trow (ts_id t) sid 0 (ts_status t)], t, Ok)
  else (l, t, Ok).

Fixpoint upsert_all (k : task_shape) (sid : Z) (l : list trow) (ts : list tsnap) : list trow * list tsnap * res :=
  match ts with
  | [] => (l, [], Ok)
  | t :: rest =>
      match upsert_task k sid l t with
      | (l1, t1, Ok) => match upsert_all k sid l1 rest with (l2, rest2, r) => (l2, t1 :: rest2, r) end
      | (l1, t1, e) => (l1, t1 :: rest, e)
      end
  end.

(* ---------------------------------------------------------------- store_stage: the statements before COMMIT *)
Definition store_stmts (s : store_shape) (k : task_shape) (d : db) (n : snap) (phase : option Z) : db * snap * res :=
  if existsb (fun r => s_id r =? n_id n) (d_stages d) then
    let u := match phase with Some _ => sh_phase s | None => sh_nophase s end in
    let rowcount0 := negb (existsb (stage_matches u n phase) (d_stages d)) in
    let d1 := mk_db (update_stages u n phase (d_stages d)) (d_tasks d) in
    if rowcount0 && sh_rowcount s then (d1, n, ConcErr)
    else
      let n1 := mk_snap (n_id n) (if sh_local_bump s then n_ver n + 1 else n_ver n) (n_status n) (n_pay n) (n_tasks n) in
      if sh_upserts s then
        match upsert_all k (n_id n) (d_tasks d1) (n_tasks n) with
        | (tl, ts', r) => (mk_db (d_stages d1) tl, mk_snap (n_id n1) (n_ver n1) (n_status n1) (n_pay n1) ts', r)
        end
      else (d1, n1, Ok)
  else (* insert_stage *)
    match upsert_all k (n_id n) (d_tasks d) (n_tasks n) with
    | (tl, ts', r) =>
        (mk_db (d_stages d ++ [mk_srow (n_id n) (n_ver n) (n_status n) (n_pay n)]) tl,
         mk_snap (n_id n) (n_ver n) (n_status n) (n_pay n) ts', r)
    end.

(* ---------------------------------------------------------------- retrieve_stage: two separate SELECTs *)
Definition read_tasks (sid : Z) (d : db) : list tsnap :=
  map (fun r => mk_tsnap (t_id r) (t_ver r) (t_status r)) (filter (fun r => t_stage r =? sid) (d_tasks d)).

Definition snap_of (r : srow) (ts : list tsnap) : snap := mk_snap (s_id r) (s_ver r) (s_status r) (s_pay r) ts.

(* ---------------------------------------------------------------- the modification a worker applies in memory *)
Record modn := mk_mod { m_status : option Z; m_tag : option Z; m_set : list (Z * Z); m_new : list (Z * Z) }.

Fixpoint assocZ (x : Z) (l : list (Z * Z)) : option Z :=
  match l with [] => None | (a, b) :: r => if a =? x then Some b else assocZ x r end.

Definition set_tasks (m : modn) (ts : list tsnap) : list tsnap :=
  map (fun t => match assocZ (ts_id t) (m_set m) with Some s => mk_tsnap (ts_id t) (ts_ver t) s | None => t end) ts.

Fixpoint add_tasks (news : list (Z * Z)) (ts : list tsnap) : list tsnap :=
  match news with
  | [] => ts
  | (i, s) :: r => add_tasks r (if existsb (fun t => ts_id t =? i) ts then ts else ts ++ [mk_tsnap i 0 s])
  end.

Definition apply_mod (m : modn) (n : snap) : snap :=
  mk_snap (n_id n) (n_ver n) (match m_status m with Some s => s | None => n_status n end)
          (n_pay n ++ match m_tag m with Some t => [t] | None => [] end) (add_tasks (m_new m) (set_tasks m (n_tasks n))).

(* version-free view of a stage: what "no committed change is lost" is about *)
Record view := mk_view { v_status : Z; v_pay : list Z; v_tasks : list (Z * Z) }.
Definition view_of_snap (n : snap) : view := mk_view (n_status n) (n_pay n) (map (fun t => (ts_id t, ts_status t)) (n_tasks n)).
Definition view_of_db (sid : Z) (d : db) : option view :=
  match find_stage sid (d_stages d) with
  | Some r => Some (view_of_snap (snap_of r (read_tasks sid d)))
  | None => None
  end.
Definition apply_view (m : modn) (v : view) : view :=
  view_of_snap (apply_mod m (mk_snap 0 0 (v_status v) (v_pay v) (map (fun p => mk_tsnap (fst p) 0 (snd p)) (v_tasks v)))).

Definition ver_of_db (sid : Z) (d : db) : option Z := option_map s_ver (find_stage sid (d_stages d)).

(* ---------------------------------------------------------------- workers *)
Inductive variant := Plain | Txn.
Inductive phase_mode := NoPhase | PhaseSnap | PhaseFixed (p : Z).
(* p_tries = total number of attempts (retry_on_concurrency_error: max_retries + 1; _update_join_tracking: 5) *)
(* p_poison: the in-memory version of the first task is corrupted before the save (a snapshot that did not come from
   retrieve_stage: current stage version, stale task version).  Only used to exhibit what is NOT guaranteed. *)
Record prog := mk_prog { p_variant : variant; p_phase : phase_mode; p_mod : modn; p_tries : nat; p_poison : bool }.

Definition corrupt (n : snap) : snap :=
  match n_tasks n with
  | t :: r => mk_snap (n_id n) (n_ver n) (n_status n) (n_pay n) (mk_tsnap (ts_id t) (ts_ver t + 5) (ts_status t) :: r)
  | [] => n
  end.

Inductive pc := AtS | AtT | AtU | AtC | AtE | Done.
Definition pc_eqb (a b : pc) : bool :=
  match a, b with AtS, AtS | AtT, AtT | AtU, AtU | AtC, AtC | AtE, AtE | Done, Done => true | _, _ => false end.

Record wstate := mk_w { w_pc : pc; w_used : nat; w_hdr : option srow; w_snap : option snap;
                        w_results : list res;        (* one per finished attempt, oldest first *)
                        w_bases : list Z }.          (* snapshot version each finished attempt was based on *)
Definition w_init : wstate := mk_w AtS 1 None None [] [].

Record gstate := mk_g { g_db : db;                       (* committed database *)
                        g_lock : option (nat * db);      (* open write transaction: holder, its uncommitted view *)
                        g_ws : list wstate;
                        g_log : list (nat * Z);          (* ghost: (worker, base version) of every commit, in commit order *)
                        g_bad : bool }.                  (* the schedule asked for a step that is not enabled / of another kind *)

Definition g_init (d : db) (n : nat) : gstate := mk_g d None (repeat w_init n) [] false.

Fixpoint set_nth {A} (i : nat) (x : A) (l : list A) : list A :=
  match l, i with
  | [], _ => []
  | _ :: r, O => x :: r
  | a :: r, S j => a :: set_nth j x r
  end.

Definition my_db (g : gstate) (i : nat) : db :=
  match g_lock g with Some (j, d) => if Nat.eqb j i then d else g_db g | None => g_db g end.
Definition lock_free_for (g : gstate) (i : nat) : bool :=
  match g_lock g with Some (j, _) => Nat.eqb j i | None => true end.

Definition store_shape_of (x : shapes) (v : variant) : store_shape := match v with Plain => x_plain x | Txn => x_txn x end.
Definition commits_of (x : shapes) (v : variant) : bool := match v with Plain => x_plain_commits x | Txn => x_txn_commits x end.
Definition rollback_of (x : shapes) (v : variant) : bool := match v with Plain => x_plain_rollback x | Txn => x_txn_rollback x end.

Definition phase_of (pm : phase_mode) (read_status : Z) : option Z :=
  match pm with NoPhase => None | PhaseSnap => Some read_status | PhaseFixed p => Some p end.

Definition bad (g : gstate) : gstate := mk_g (g_db g) (g_lock g) (g_ws g) (g_log g) true.
Definition put (g : gstate) (i : nat) (w : wstate) : gstate := mk_g (g_db g) (g_lock g) (set_nth i w (g_ws g)) (g_log g) (g_bad g).

(* after a failed attempt: retry from a fresh read, or give up (raise to the caller) *)
Definition after_failure (p : prog) (w : wstate) (r : res) (base : Z) : wstate :=
  if res_eqb r ConcErr && Nat.ltb (w_used w) (p_tries p)
  then mk_w AtS (S (w_used w)) None None (w_results w ++ [r]) (w_bases w ++ [base])
  else mk_w AtE (w_used w) None None (w_results w ++ [r]) (w_bases w ++ [base]).

Definition step_S (sid : Z) (g : gstate) (i : nat) (w : wstate) : gstate :=
  match find_stage sid (d_stages (my_db g i)) with
  | Some r => put g i (mk_w AtT (w_used w) (Some r) None (w_results w) (w_bases w))
  | None => put g i (mk_w AtE (w_used w) None None (w_results w ++ [OtherErr]) (w_bases w ++ [0]))  (* ValueError: not found *)
  end.

Definition step_T (sid : Z) (g : gstate) (i : nat) (w : wstate) : gstate :=
  match w_hdr w with
  | Some r => put g i (mk_w AtU (w_used w) (w_hdr w) (Some (snap_of r (read_tasks sid (my_db g i)))) (w_results w) (w_bases w))
  | None => bad g
  end.

Definition step_U (x : shapes) (g : gstate) (i : nat) (p : prog) (w : wstate) : gstate :=
  match w_snap w with
  | None => bad g
  | Some n =>
      if negb (lock_free_for g i) then bad g else
      let n' := if p_poison p then corrupt (apply_mod (p_mod p) n) else apply_mod (p_mod p) n in
      match store_stmts (store_shape_of x (p_variant p)) (x_task x) (my_db g i) n' (phase_of (p_phase p) (n_status n)) with
      | (d', _, Ok) =>
          if commits_of x (p_variant p)
          then mk_g (g_db g) (Some (i, d')) (set_nth i (mk_w AtC (w_used w) (w_hdr w) (w_snap w) (w_results w) (w_bases w)) (g_ws g)) (g_log g) (g_bad g)
          else mk_g (g_db g) (Some (i, d')) (set_nth i (mk_w AtE (w_used w) None None (w_results w ++ [Ok]) (w_bases w ++ [n_ver n])) (g_ws g)) (g_log g) (g_bad g)
      | (d', _, r) =>
          let lock' := if rollback_of x (p_variant p) then None else Some (i, d') in
          mk_g (g_db g) lock' (set_nth i (after_failure p w r (n_ver n)) (g_ws g)) (g_log g) (g_bad g)
      end
  end.

Definition step_C (g : gstate) (i : nat) (w : wstate) : gstate :=
  match g_lock g, w_snap w with
  | Some (j, d), Some n =>
      if Nat.eqb j i
      then mk_g d None (set_nth i (mk_w AtE (w_used w) None None (w_results w ++ [Ok]) (w_bases w ++ [n_ver n])) (g_ws g))
                (g_log g ++ [(i, n_ver n)]) (g_bad g)
      else bad g
  | _, _ => bad g
  end.

(* the thread's next committing operation (ack / reschedule / mark_message_processed): DML + COMMIT on the
   same connection — it publishes whatever an earlier failed plain store_stage left open *)
Definition step_E (g : gstate) (i : nat) (w : wstate) : gstate :=
  if negb (lock_free_for g i) then bad g else
  mk_g (my_db g i) None (set_nth i (mk_w Done (w_used w) None None (w_results w) (w_bases w)) (g_ws g)) (g_log g) (g_bad g).

Definition step (x : shapes) (sid : Z) (progs : list prog) (g : gstate) (e : nat * pc) : gstate :=
  let (i, k) := e in
  match nth_error (g_ws g) i, nth_error progs i with
  | Some w, Some p =>
      if negb (pc_eqb (w_pc w) k) then bad g else
      match w_pc w with
      | AtS => step_S sid g i w
      | AtT => step_T sid g i w
      | AtU => step_U x g i p w
      | AtC => step_C g i w
      | AtE => step_E g i w
      | Done => bad g
      end
  | _, _ => bad g
  end.

Definition run (x : shapes) (sid : Z) (progs : list prog) (g : gstate) (sched : list (nat * pc)) : gstate :=
  fold_left (step x sid progs) sched g.

(* composition of the committed modifications, in commit order *)
Definition replay_log (progs : list prog) (log : list (nat * Z)) (v : view) : view :=
  fold_left (fun v e => match nth_error progs (fst e) with Some p => apply_view (p_mod p) v | None => v end) log v.

(* ---------------------------------------------------------------- retry counts used by the engine *)
Definition handler_tries : nat := Z.to_nat (Gen_Config.concurrency_max_retries + 1).   (* RetryWithBackoffPolicy: max_retries + 1 calls *)
Definition join_tracking_tries : nat := Z.to_nat Gen_Occ.join_tracking_max_tries.

(* ---------------------------------------------------------------- observation used by the correspondence check *)
Definition tsnap_eqb (a b : tsnap) : bool := (ts_id a =? ts_id b) && (ts_ver a =? ts_ver b) && (ts_status a =? ts_status b).
Fixpoint list_eqb' {A} (eqb : A -> A -> bool) (a b : list A) : bool :=
  match a, b with [] , [] => true | x :: a', y :: b' => eqb x y && list_eqb' eqb a' b' | _, _ => false end.
Definition same_set (a b : list tsnap) : bool :=
  Nat.eqb (length a) (length b) && forallb (fun t => existsb (tsnap_eqb t) b) a && forallb (fun t => existsb (tsnap_eqb t) a) b.

(* observed: per worker its attempt results, and the final stage row (version, status, payload) with its tasks *)
Record observed := mk_obs { o_results : list (list res); o_ver : Z; o_status : Z; o_pay : list Z; o_tasks : list tsnap;
                            o_commit_order : list nat }.

Definition agrees (sid : Z) (g : gstate) (o : observed) : bool :=
  negb (g_bad g)
  && list_eqb' (list_eqb' res_eqb) (map w_results (g_ws g)) (o_results o)
  && match find_stage sid (d_stages (g_db g)) with
     | Some r => (s_ver r =? o_ver o) && (s_status r =? o_status o) && list_eqb' Z.eqb (s_pay r) (o_pay o)
     | None => false
     end
  && same_set (read_tasks sid (g_db g)) (o_tasks o)
  && list_eqb' Nat.eqb (map fst (g_log g)) (o_commit_order o)
  && match g_lock g with None => true | Some _ => false end
  && forallb (fun w => pc_eqb (w_pc w) Done) (g_ws g).

Record case := mk_case { c_sid : Z; c_db : db; c_progs : list prog; c_sched : list (nat * pc); c_obs : observed }.
Definition check_case (c : case) : bool :=
  agrees (c_sid c) (run gen_shapes (c_sid c) (c_progs c) (g_init (c_db c) (length (c_progs c))) (c_sched c)) (c_obs c).
