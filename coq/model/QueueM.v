(* QueueM: hand model of the SQLite queue (queue/sqlite/queue.py, queue/sqlite/dlq.py) and of the part of
   queue/processor/processor.py that acks / reschedules, written as the algorithm the Python runs.
   Time is an explicit clock [now] in milliseconds; SQLite's datetime() truncates to whole seconds, so the
   visibility tests compare [sec x = x / 1000].  poll_one is split into its SELECT ([Select p]), its claiming
   UPDATE+commit ([Claim p]) and, for an undecodable payload, the following move_to_dlq ([MoveCorrupt p]) so
   that any number of pollers can interleave; check_and_move_expired likewise ([SweepSelect p], [SweepMove p]).
   The comparison operators, increments, the CAS shape, the sweep predicate and the statement programs of
   move_to_dlq / replay_dlq come from Gen_Queue (regenerated from the source on every run).
   Ghost parts (never read by an operation): r_mid / d_mid (identity of the pushed message), acked, purged,
   claims.  Tied to the code by the model-based test in harness/props/c08.py. *)
From Coq Require Import List Bool ZArith Lia.
Import ListNotations.
From Stab.gen Require Import Gen_Queue.
Open Scope Z_scope.

(* what deserialize_message does with the stored (type, payload): a message / None (json.loads fails:
   poll_one moves the row to the DLQ) / an exception after the claim committed (valid JSON, unusable) *)
Inductive pkind : Type := Good | BadJson | BadType.

Record row := mkRow {
  r_id : Z;             (* AUTOINCREMENT primary key *)
  r_mid : Z;            (* ghost: which pushed message this is = its (message_type, payload) *)
  r_kind : pkind;
  r_deliver : Z;        (* deliver_at, ms *)
  r_sqlfmt : bool;      (* deliver_at text is 'YYYY-MM-DD HH:MM:SS' (written by SQL: replay) rather than isoformat() *)
  r_lock : option Z;    (* locked_until, ms *)
  r_att : Z;
  r_max : Z;            (* the row's max_attempts column *)
  r_ver : Z;
}.

Record drow := mkD { d_id : Z; d_orig : Z; d_mid : Z; d_kind : pkind; d_att : Z }.

(* a queue object's configuration + the process environment *)
Record cfg := mkCfg {
  qmax : Z;             (* SqliteQueue.max_attempts *)
  lock_ms : Z;          (* SqliteQueue.lock_duration *)
  skew_ms : Z;          (* what SQLite's 'utc' modifier adds to a UTC time: minus the process's UTC offset; 0 iff TZ is UTC *)
  retry_ms : Z;         (* QueueProcessorConfig.retry_delay *)
}.

(* where a poller / sweeper is inside poll_one / check_and_move_expired *)
Inductive pc : Type :=
  | Idle
  | Selected (id ver att : Z) (k : pkind) (lockv : Z)   (* the SELECTed candidate and the locked_until computed on entry *)
  | MustMove (id : Z)                                   (* claimed a row whose payload does not decode *)
  | Sweeping (ids : list Z).

Record st := mkSt {
  rows : list row;            (* queue_messages in id order *)
  dlq : list drow;            (* queue_messages_dlq in id order *)
  next_id : Z; next_did : Z;
  next_mid : Z;               (* ghost: number of messages pushed so far; they are 0 .. next_mid-1 *)
  now : Z;
  acked : list Z;             (* ghost: acknowledged messages *)
  purged : list Z;            (* ghost: messages removed by the explicit clear() / clear_dlq() *)
  pcs : list (nat * pc);
  claims : list (Z * Z);      (* ghost: (id, version before) of every claim that won *)
}.

Definition init (t0 : Z) : st := mkSt [] [] 1 1 0 t0 [] [] [] [].

Inductive res : Type :=
  | RUnit | RNone | RMsg (id att : Z) | RRaise | RBool (b : bool) | RInt (n : Z)
  | RSel (o : option Z) | RLost | RCorrupt.

Inductive op : Type :=
  | Push (delay : Z)                               (* queue.push(m, delay): max_attempts := the queue's *)
  | PushTx (delay mmax : Z)                        (* txn.push_message inside store.transaction(), committed *)
  | Inject (k : pkind) (delay mmax : Z)            (* a raw INSERT (harness): any payload kind *)
  | Select (p : nat) | Claim (p : nat) | MoveCorrupt (p : nat)
  | PollOne (p : nat)                              (* = Select; Claim; MoveCorrupt without interleaving *)
  | Ack (id : Z) | Resched (id delay : Z) | Extend (id dur : Z)   (* dur = 0 stands for "duration or lock_duration" *)
  | Tick (d : Z)
  | SweepSelect (p : nat) | SweepMove (p : nat) | Sweep (p : nat)
  | MoveDlq (id : Z) | CutMove (id : Z) (k : nat)  (* move_to_dlq; the same, process killed after k statements *)
  | Replay (did : Z) | CutReplay (did : Z) (k : nat)
  | ClearQ | ClearDlq
  | Crash (p : nat)                                (* the poller/sweeper dies between two of its steps *)
  | ProcOne (p : nat) (ok : bool)                  (* processor.process_one with a handler that returns / raises *)
  | Nop.                                           (* e.g. a transaction with a push that rolled back *)

(* ---- small accessors -------------------------------------------------------------------- *)
Definition sec (x : Z) : Z := x / 1000.
Definition day (x : Z) : Z := x / 86400000.

Definition set_rows (s : st) (l : list row) : st :=
  mkSt l (dlq s) (next_id s) (next_did s) (next_mid s) (now s) (acked s) (purged s) (pcs s) (claims s).
Definition set_pcs (s : st) (l : list (nat * pc)) : st :=
  mkSt (rows s) (dlq s) (next_id s) (next_did s) (next_mid s) (now s) (acked s) (purged s) l (claims s).

Definition get_pc (p : nat) (s : st) : pc :=
  match find (fun x => Nat.eqb (fst x) p) (pcs s) with Some x => snd x | None => Idle end.
Definition put_pc (p : nat) (v : pc) (s : st) : st :=
  set_pcs s ((p, v) :: filter (fun x => negb (Nat.eqb (fst x) p)) (pcs s)).

Fixpoint take {A} (key : A -> Z) (id : Z) (l : list A) : option (A * list A) :=
  match l with
  | [] => None
  | r :: t => if key r =? id then Some (r, t)
              else match take key id t with Some (x, t') => Some (x, r :: t') | None => None end
  end.
Definition take_row := take r_id.
Definition take_d := take d_id.
Definition upd_row (id : Z) (f : row -> row) (l : list row) : list row :=
  map (fun r => if r_id r =? id then f r else r) l.
Definition has_row (id : Z) (l : list row) : bool := existsb (fun r => r_id r =? id) l.

Definition with_lock (r : row) (l : option Z) : row :=
  mkRow (r_id r) (r_mid r) (r_kind r) (r_deliver r) (r_sqlfmt r) l (r_att r) (r_max r) (r_ver r).
Definition claimed (lockv : Z) (r : row) : row :=
  mkRow (r_id r) (r_mid r) (r_kind r) (r_deliver r) (r_sqlfmt r) (Some lockv)
        (r_att r + claim_att_inc) (r_max r) (r_ver r + claim_ver_inc).
Definition rescheduled (at_ : Z) (r : row) : row :=
  mkRow (r_id r) (r_mid r) (r_kind r) at_ false None (r_att r) (r_max r) (r_ver r).

(* ---- the clock as SQL sees it ------------------------------------------------------------- *)
Definition sql_now (c : cfg) (s : st) : Z := now s + (if now_utc_modifier then skew_ms c else 0).
Definition sql_now_replay (c : cfg) (s : st) : Z := now s + (if replay_now_utc_modifier then skew_ms c else 0).

(* ---- poll_one's SELECT -------------------------------------------------------------------- *)
Definition poll_limit (c : cfg) (r : row) : Z := if poll_limit_is_queue then qmax c else r_max r.
Definition eligible (c : cfg) (s : st) (r : row) : bool :=
  poll_deliver_cmp (sec (r_deliver r)) (sec (sql_now c s))
  && match r_lock r with None => true | Some l => poll_lock_cmp (sec l) (sec (sql_now c s)) end
  && poll_att_cmp (r_att r) (poll_limit c r).

(* ORDER BY deliver_at compares the stored TEXT: date first, then 'YYYY-MM-DD HH..' (space) sorts before
   'YYYY-MM-DDTHH..', then the time of day; equal strings come out in rowid order (index scan) *)
Definition fmt_rank (r : row) : Z := if r_sqlfmt r then 0 else 1.
Definition lex4 (a1 a2 a3 a4 b1 b2 b3 b4 : Z) : bool :=
  (a1 <? b1) || ((a1 =? b1) && ((a2 <? b2) || ((a2 =? b2) && ((a3 <? b3) || ((a3 =? b3) && (a4 <? b4)))))).
Definition row_before (a b : row) : bool :=
  lex4 (day (r_deliver a)) (fmt_rank a) (r_deliver a) (r_id a) (day (r_deliver b)) (fmt_rank b) (r_deliver b) (r_id b).

Definition better (c : cfg) (s : st) (best : option row) (r : row) : option row :=
  if eligible c s r then
    match best with None => Some r | Some b => if row_before r b then Some r else Some b end
  else best.
Definition pick (c : cfg) (s : st) : option row := fold_left (better c s) (rows s) None.

(* ---- DLQ programs (statements from Gen_Queue) ------------------------------------------------ *)
Record txs := mkTx { durable : st; work : st; reg_r : option row; reg_d : option drow; live : bool }.

Definition new_dlq_row (s : st) (r : row) : drow := mkD (next_did s) (r_id r) (r_mid r) (r_kind r) (r_att r).
Definition replayed_row (c : cfg) (s : st) (d : drow) : row :=
  mkRow (next_id s) (d_mid d) (d_kind d) (sec (sql_now_replay c s) * 1000) true None
        replay_attempts schema_default_max_attempts schema_default_version.

Definition exec_stmt (c : cfg) (arg : Z) (q : qstmt) (t : txs) : txs :=
  if negb (live t) then t else
  let w := work t in
  match q with
  | QDelRet =>
      match take_row arg (rows w) with
      | Some (r, rest) => mkTx (durable t) (set_rows w rest) (Some r) (reg_d t) true
      | None => mkTx (durable t) w None (reg_d t) false        (* "not found": return without commit *)
      end
  | QInsDlq =>
      match reg_r t with
      | Some r => mkTx (durable t)
                    (mkSt (rows w) (dlq w ++ [new_dlq_row w r]) (next_id w) (next_did w + 1) (next_mid w) (now w)
                          (acked w) (purged w) (pcs w) (claims w)) (reg_r t) (reg_d t) true
      | None => t
      end
  | QDelDlqRet =>
      match take_d arg (dlq w) with
      | Some (d, rest) => mkTx (durable t)
                    (mkSt (rows w) rest (next_id w) (next_did w) (next_mid w) (now w) (acked w) (purged w) (pcs w) (claims w))
                    (reg_r t) (Some d) true
      | None => mkTx (durable t) w (reg_r t) None false
      end
  | QInsQueue =>
      match reg_d t with
      | Some d => mkTx (durable t)
                    (mkSt (rows w ++ [replayed_row c w d]) (dlq w) (next_id w + 1) (next_did w) (next_mid w) (now w)
                          (acked w) (purged w) (pcs w) (claims w)) (reg_r t) (reg_d t) true
      | None => t
      end
  | QCommit => mkTx w w (reg_r t) (reg_d t) true
  end.

(* run a statement program; [cut = Some k]: the process is killed after k statements, what is not
   committed is rolled back.  [None]: it runs to the end (the connection's pending work, if any, is what
   the same connection goes on with). *)
Fixpoint exec_prog (c : cfg) (arg : Z) (prog : list qstmt) (cut : option nat) (t : txs) : txs :=
  match prog with
  | [] => t
  | q :: rest =>
      match cut with
      | Some O => t
      | Some (S k) => exec_prog c arg rest (Some k) (exec_stmt c arg q t)
      | None => exec_prog c arg rest None (exec_stmt c arg q t)
      end
  end.
Definition run_prog (c : cfg) (arg : Z) (prog : list qstmt) (cut : option nat) (s : st) : st * bool :=
  let t := exec_prog c arg prog cut (mkTx s s None None true) in
  match cut with
  | None => (work t, live t)
  | Some k => if (length prog <=? k)%nat then (work t, live t) else (durable t, live t)
  end.

Definition move_to_dlq (c : cfg) (id : Z) (s : st) : st := fst (run_prog c id move_to_dlq_prog None s).
Definition replay_dlq (c : cfg) (did : Z) (s : st) : st * bool := run_prog c did replay_dlq_prog None s.

(* ---- operations ----------------------------------------------------------------------------- *)
Definition insert (s : st) (k : pkind) (deliver att mx ver : Z) : st :=
  mkSt (rows s ++ [mkRow (next_id s) (next_mid s) k deliver false None att mx ver])
       (dlq s) (next_id s + 1) (next_did s) (next_mid s + 1) (now s) (acked s) (purged s) (pcs s) (claims s).

Definition do_select (c : cfg) (p : nat) (s : st) : st * res :=
  let lockv := now s + lock_ms c in
  match pick c s with
  | None => (put_pc p Idle s, RSel None)
  | Some r => (put_pc p (Selected (r_id r) (r_ver r) (r_att r) (r_kind r) lockv) s, RSel (Some (r_id r)))
  end.

Definition claim_hit (id ver : Z) (r : row) : bool :=
  (r_id r =? id) && (if claim_checks_version then r_ver r =? ver else true).

Definition do_claim (c : cfg) (p : nat) (s : st) : st * res :=
  match get_pc p s with
  | Selected id ver att k lockv =>
      match find (claim_hit id ver) (rows s) with
      | Some r0 =>
          let s1 := mkSt (map (fun r => if claim_hit id ver r then claimed lockv r else r) (rows s))
                         (dlq s) (next_id s) (next_did s) (next_mid s) (now s) (acked s) (purged s) (pcs s)
                         ((id, r_ver r0) :: claims s) in
          match k with
          | Good => (put_pc p Idle s1, RMsg id (att + 1))
          | BadJson => (put_pc p (MustMove id) s1, RCorrupt)
          | BadType => (put_pc p Idle s1, RRaise)
          end
      | None => (put_pc p Idle s, RLost)
      end
  | _ => (s, RUnit)
  end.

Definition do_move_corrupt (c : cfg) (p : nat) (s : st) : st * res :=
  match get_pc p s with
  | MustMove id => (put_pc p Idle (move_to_dlq c id s), RNone)
  | _ => (s, RUnit)
  end.

Definition do_poll (c : cfg) (p : nat) (s : st) : st * res :=
  let (s1, r1) := do_select c p s in
  match r1 with
  | RSel None => (s1, RNone)
  | _ =>
      let (s2, r2) := do_claim c p s1 in
      match r2 with
      | RMsg id a => (s2, RMsg id a)
      | RCorrupt => do_move_corrupt c p s2
      | RRaise => (s2, RRaise)
      | _ => (s2, RNone)
      end
  end.

Definition do_ack (id : Z) (s : st) : st :=
  match take_row id (rows s) with
  | Some (r, rest) => mkSt rest (dlq s) (next_id s) (next_did s) (next_mid s) (now s) (r_mid r :: acked s)
                           (purged s) (pcs s) (claims s)
  | None => s
  end.
Definition do_resched (id delay : Z) (s : st) : st :=
  set_rows s (upd_row id (rescheduled (now s + delay)) (rows s)).
Definition do_extend (c : cfg) (id dur : Z) (s : st) : st * res :=
  let d := if dur =? 0 then lock_ms c else dur in
  (set_rows s (upd_row id (fun r => with_lock r (Some (now s + d))) (rows s)), RBool (has_row id (rows s))).

Definition sweep_ids (c : cfg) (s : st) : list Z :=
  map r_id (filter (fun r => sweep_pred (r_att r) (r_max r) (qmax c)) (rows s)).

Definition do_sweep_move (c : cfg) (p : nat) (s : st) : st * res :=
  match get_pc p s with
  | Sweeping (id :: rest) =>
      (put_pc p (match rest with [] => Idle | _ => Sweeping rest end) (move_to_dlq c id s), RUnit)
  | Sweeping [] => (put_pc p Idle s, RUnit)
  | _ => (s, RUnit)
  end.

Definition tick (d : Z) (s : st) : st :=
  mkSt (rows s) (dlq s) (next_id s) (next_did s) (next_mid s) (now s + Z.max 0 d) (acked s) (purged s) (pcs s) (claims s).

Definition step (c : cfg) (o : op) (s : st) : st * res :=
  match o with
  | Push delay => (insert s Good (now s + delay) push_attempts (qmax c) schema_default_version, RUnit)
  | PushTx delay mmax => (insert s Good (now s + (if 0 <? delay then delay else 0)) txpush_attempts mmax txpush_version, RUnit)
  | Inject k delay mmax => (insert s k (now s + delay) schema_default_attempts mmax schema_default_version, RUnit)
  | Select p => do_select c p s
  | Claim p => do_claim c p s
  | MoveCorrupt p => do_move_corrupt c p s
  | PollOne p => do_poll c p s
  | Ack id => (do_ack id s, RUnit)
  | Resched id delay => (do_resched id delay s, RUnit)
  | Extend id dur => do_extend c id dur s
  | Tick d => (tick d s, RUnit)
  | SweepSelect p => let ids := sweep_ids c s in
                     (put_pc p (match ids with [] => Idle | _ => Sweeping ids end) s, RInt (Z.of_nat (length ids)))
  | SweepMove p => do_sweep_move c p s
  | Sweep p => let ids := sweep_ids c s in
               (fold_left (fun s' id => move_to_dlq c id s') ids s, RInt (Z.of_nat (length ids)))
  | MoveDlq id => (move_to_dlq c id s, RUnit)
  | CutMove id k => (fst (run_prog c id move_to_dlq_prog (Some k) s), RUnit)
  | Replay did => let (s', b) := replay_dlq c did s in (s', RBool b)
  | CutReplay did k => (fst (run_prog c did replay_dlq_prog (Some k) s), RUnit)
  | ClearQ => (mkSt [] (dlq s) (next_id s) (next_did s) (next_mid s) (now s) (acked s)
                    (map r_mid (rows s) ++ purged s) (pcs s) (claims s), RUnit)
  | ClearDlq => (mkSt (rows s) [] (next_id s) (next_did s) (next_mid s) (now s) (acked s)
                      (map d_mid (dlq s) ++ purged s) (pcs s) (claims s), RInt (Z.of_nat (length (dlq s))))
  | Crash p => (put_pc p Idle s, RUnit)
  | ProcOne p ok =>
      let (s1, r) := do_poll c p s in
      match r with
      | RMsg id a => (if ok then do_ack id s1 else do_resched id (retry_ms c) s1, RMsg id a)
      | _ => (s1, r)
      end
  | Nop => (s, RUnit)
  end.

Fixpoint run (c : cfg) (ops : list op) (s : st) : st :=
  match ops with [] => s | o :: r => run c r (fst (step c o s)) end.

(* the trace of (state, result) after every operation, for the correspondence check *)
Fixpoint trace (c : cfg) (ops : list op) (s : st) : list (st * res) :=
  match ops with [] => [] | o :: r => let x := step c o s in x :: trace c r (fst x) end.

(* ghost ledger: every place a pushed message can be *)
Definition all_mids (s : st) : list Z := map r_mid (rows s) ++ map d_mid (dlq s) ++ acked s ++ purged s.

(* a row that poll_one will never select again (its attempts reached the limit poll_one uses) and that the
   sweep does not move either *)
Definition stalled (c : cfg) (r : row) : bool :=
  negb (poll_att_cmp (r_att r) (poll_limit c r)) && negb (sweep_pred (r_att r) (r_max r) (qmax c)).

(* ---- observation used by the correspondence check -------------------------------------------- *)
Definition pkind_eqb (a b : pkind) : bool :=
  match a, b with Good, Good | BadJson, BadJson | BadType, BadType => true | _, _ => false end.
Definition optZ_eqb (a b : option Z) : bool :=
  match a, b with None, None => true | Some x, Some y => x =? y | _, _ => false end.
Definition row_eqb (a b : row) : bool :=
  (r_id a =? r_id b) && (r_mid a =? r_mid b) && pkind_eqb (r_kind a) (r_kind b) && (r_deliver a =? r_deliver b)
  && Bool.eqb (r_sqlfmt a) (r_sqlfmt b) && optZ_eqb (r_lock a) (r_lock b) && (r_att a =? r_att b)
  && (r_max a =? r_max b) && (r_ver a =? r_ver b).
Definition drow_eqb (a b : drow) : bool :=
  (d_id a =? d_id b) && (d_orig a =? d_orig b) && (d_mid a =? d_mid b) && pkind_eqb (d_kind a) (d_kind b) && (d_att a =? d_att b).
Definition res_eqb (a b : res) : bool :=
  match a, b with
  | RUnit, RUnit | RNone, RNone | RRaise, RRaise | RLost, RLost | RCorrupt, RCorrupt => true
  | RMsg i x, RMsg j y => (i =? j) && (x =? y)
  | RBool x, RBool y => Bool.eqb x y
  | RInt x, RInt y => x =? y
  | RSel x, RSel y => optZ_eqb x y
  | _, _ => false
  end.
Fixpoint leqb {A} (e : A -> A -> bool) (a b : list A) : bool :=
  match a, b with [] , [] => true | x :: a', y :: b' => e x y && leqb e a' b' | _, _ => false end.

(* what the harness reads from the database after an operation *)
(* o_state = false: the database could not be read at this point (another step of the same thread followed
   without a scheduling point); o_res = None: the return value is not observable at this step *)
Record obs := mkObs { o_state : bool; o_rows : list row; o_dlq : list drow; o_res : option res }.
Definition obs_ok (x : st * res) (o : obs) : bool :=
  (if o_state o then leqb row_eqb (rows (fst x)) (o_rows o) && leqb drow_eqb (dlq (fst x)) (o_dlq o) else true)
  && match o_res o with Some r => res_eqb (snd x) r | None => true end.

(* index of the first operation after which model and database differ, or the number of operations *)
Fixpoint first_diff (tr : list (st * res)) (os : list obs) (i : nat) : nat :=
  match tr, os with
  | x :: tr', o :: os' => if obs_ok x o then first_diff tr' os' (S i) else i
  | _, _ => i
  end.
Definition case_ok (c : cfg) (t0 : Z) (ops : list op) (os : list obs) : bool :=
  Nat.eqb (length ops) (length os) && Nat.eqb (first_diff (trace c ops (init t0)) os 0) (length ops).
