(* Readiness: hand model of dag/readiness.py (evaluate_readiness and its five evaluators) and of
   recovery.py:_can_start, as the *same algorithm* the Python runs.  Tied to the source by the
   exhaustive differential in harness/props/c03.py; the status sets come from Gen_Status. *)
From Coq Require Import List Bool Arith ZArith Lia.
Import ListNotations.
From Stab.model Require Import Base StatusM.

(* an upstream stage as the evaluator sees it: (ref id, durable status) *)
Definition up := (nat * status)%type.

Record rstage := {
  r_join : join_type;
  r_threshold : Z;                      (* stage.join_threshold *)
  r_fired : bool;                       (* stage.context.get("_join_fired", False) *)
  r_activated : option (list nat);      (* stage.context.get("_activated_branches") *)
}.

Record rresult := {
  rr_phase : phase;
  rr_failed : list nat;                 (* failed_upstream_ids *)
  rr_active : list nat;                 (* active_upstream_ids *)
}.

Definition res (p : phase) (f a : list nat) := {| rr_phase := p; rr_failed := f; rr_active := a |}.
Definition refs (l : list up) : list nat := map fst l.

Definition halted (u : up) := in_halt (snd u).
Definition continuable (u : up) := in_continuable (snd u).
Definition not_continuable (u : up) := negb (in_continuable (snd u)).
Definition nc_active (u : up) := negb (in_continuable (snd u)) && in_active (snd u).

Definition eval_and (ups : list up) : rresult :=
  let failed := filter halted ups in
  if negb (is_nil failed) then res P_SKIP (refs failed) []
  else
    let notc := filter not_continuable ups in
    let act := filter nc_active ups in
    if is_nil notc then res P_READY [] []
    else if negb (is_nil act) then res P_NOT_READY [] (refs act)
    else res P_NOT_READY [] (refs notc).

Definition eval_or (st : rstage) (ups : list up) : rresult :=
  match r_activated st with
  | None => eval_and ups
  | Some act =>
      let rel := filter (fun u => mem_nat (fst u) act) ups in
      if is_nil rel then res P_READY [] [] else eval_and rel
  end.

Definition eval_multi_merge (ups : list up) : rresult :=
  if existsb continuable ups then res P_READY [] []
  else if forallb halted ups then res P_SKIP (refs ups) []
  else res P_NOT_READY [] (refs ups).

Definition eval_discriminator (st : rstage) (ups : list up) : rresult :=
  if r_fired st then res P_NOT_READY [] []
  else if existsb continuable ups then res P_READY [] []
  else if forallb halted ups then res P_SKIP (refs ups) []
  else res P_NOT_READY [] (refs ups).

Definition other (u : up) := negb (in_continuable (snd u)) && negb (in_halt (snd u)).
Definition halted_nc (u : up) := negb (in_continuable (snd u)) && in_halt (snd u).

Definition eval_n_of_m (st : rstage) (ups : list up) : rresult :=
  if (r_threshold st <=? 0)%Z then eval_and ups
  else if r_fired st then res P_NOT_READY [] []
  else
    let completed := filter continuable ups in
    let failed := filter halted_nc ups in
    let active := filter other ups in
    if (r_threshold st <=? Z.of_nat (length completed))%Z then res P_READY [] []
    else if (Z.of_nat (length completed) + Z.of_nat (length active) <? r_threshold st)%Z
         then res P_SKIP (refs failed) []
    else if negb (is_nil active) then res P_NOT_READY [] (refs active)
    else res P_NOT_READY [] [].

Definition evaluate_readiness (st : rstage) (ups : list up) (jump_bypass : bool) : rresult :=
  if jump_bypass then res P_READY [] []
  else if is_nil ups then res P_READY [] []
  else match r_join st with
       | J_OR => eval_or st ups
       | J_MULTI_MERGE => eval_multi_merge ups
       | J_DISCRIMINATOR => eval_discriminator st ups
       | J_N_OF_M => eval_n_of_m st ups
       | J_AND => eval_and ups
       end.

(* StartStageHandler.handle: after NOT_READY, "any upstream in ACTIVE_STATUSES" decides whether to
   stop polling (true) or to fall into the retry / wait-exhausted path (false). *)
Definition start_stage_waits (r : rresult) (ups : list up) : bool :=
  negb (is_nil (rr_active r)) && existsb (fun u => in_active (snd u)) ups.

(* recovery.py:_can_start — [has_reqs] = bool(stage.requisite_stage_ref_ids); upstream lookup by
   ref id is done by the caller ([ups] lists the requisites found; [missing] = some ref unknown) *)
Definition can_start (st : rstage) (has_reqs missing : bool) (ups : list up) : bool :=
  if negb has_reqs then true
  else if (match r_join st with J_DISCRIMINATOR | J_N_OF_M => r_fired st | _ => false end) then false
  else if missing then false
  else match r_join st with
       | J_N_OF_M =>
           if (Z.of_nat (length ups) <? r_threshold st)%Z then false
           else (r_threshold st <=? Z.of_nat (length (filter continuable ups)))%Z
       | _ => forallb continuable ups
       end.

(* ---- the join condition, as the property states it (C03) ---- *)
Definition join_condition (st : rstage) (ups : list up) : Prop :=
  match r_join st with
  | J_AND => forall u, In u ups -> in_continuable (snd u) = true
  | J_OR =>
      match r_activated st with
      | None => forall u, In u ups -> in_continuable (snd u) = true
      | Some act => forall u, In u ups -> mem_nat (fst u) act = true -> in_continuable (snd u) = true
      end
  | J_MULTI_MERGE => ups = [] \/ exists u, In u ups /\ in_continuable (snd u) = true
  | J_DISCRIMINATOR => ups = [] \/ (r_fired st = false /\ exists u, In u ups /\ in_continuable (snd u) = true)
  | J_N_OF_M =>
      if (r_threshold st <=? 0)%Z then forall u, In u ups -> in_continuable (snd u) = true
      else ups = [] \/ (r_fired st = false /\ (r_threshold st <= count_if continuable ups)%Z)
  end.
