(* Reducers: executable model of src/stabilize/reducers.py (built-in fan-in reducers and
   apply_output_reducers), over the symbolic JSON values used by the data-flow model (C16).

   Values.  A JSON value is either a list (`isinstance(v, list)`) or not.  Non-list values are `atom`s:
   None, an integer, or a dict of integers (a finite map, represented CANONICALLY as an association list
   sorted by key without duplicate keys, so that Python's `==` on the modelled values is Leibniz
   equality).  Lists hold atoms (one nesting level).  Floats (non-associative sum), strings, bools and
   nested lists are modelled-not-verified: the generator never produces them.

   Every reducer is the algorithm the Python runs, including what it does on None, on missing keys and
   on mixed types (TypeError / ValueError are explicit results). No proofs here. *)
From Coq Require Import List Bool Arith ZArith String.
Import ListNotations.
From Stab.model Require Import Base.
Local Open Scope Z_scope.

Inductive atom : Type := ANone | AInt (z : Z) | ADict (d : list (nat * Z)).
Inductive value : Type := VAtom (a : atom) | VList (l : list atom).

Definition pair_eqb (p q : nat * Z) : bool := Nat.eqb (fst p) (fst q) && Z.eqb (snd p) (snd q).

(* Python `a == b` on the modelled atoms (dicts canonical) *)
Definition atom_eqb (a b : atom) : bool :=
  match a, b with
  | ANone, ANone => true
  | AInt x, AInt y => Z.eqb x y
  | ADict d, ADict e => list_eqb pair_eqb d e
  | _, _ => false
  end.

Definition value_eqb (v w : value) : bool :=
  match v, w with
  | VAtom a, VAtom b => atom_eqb a b
  | VList a, VList b => list_eqb atom_eqb a b
  | _, _ => false
  end.

(* ---- Python dict as an association list: first match wins on read, write replaces in place or
   appends (insertion order is kept; it is not observable through == but costs nothing) ---- *)
Definition ctx : Type := list (nat * value).

Fixpoint cget (k : nat) (c : ctx) : option value :=
  match c with
  | [] => None
  | (k', v) :: r => if Nat.eqb k k' then Some v else cget k r
  end.

Fixpoint cset (k : nat) (v : value) (c : ctx) : ctx :=
  match c with
  | [] => [(k, v)]
  | (k', v') :: r => if Nat.eqb k k' then (k, v) :: r else (k', v') :: cset k v r
  end.

Definition cmem (k : nat) (c : ctx) : bool := match cget k c with Some _ => true | None => false end.

(* dict.update(other) *)
Definition cupdate (c other : ctx) : ctx := fold_left (fun acc kv => cset (fst kv) (snd kv) acc) other c.

(* ---- results ---- *)
Inductive rerr : Type := TypeErr | ValueErr | UnknownReducer.
Inductive rres (A : Type) : Type := ROk (a : A) | RErr (e : rerr).
Arguments ROk {A} a.
Arguments RErr {A} e.

(* the registry _BUILTIN_REDUCERS; RUnknown stands for any name get_reducer() does not know *)
Inductive rname : Type :=
  RCollect | RAppend | RExtend | RSum | RMax | RMin | RMerge | RFirst | RLast | RUnknown.

(* get_reducer(name): the built-in registry (no custom reducer is registered in the modelled system) *)
Definition rname_of_string (s : string) : rname :=
  if String.eqb s "collect" then RCollect else if String.eqb s "append" then RAppend
  else if String.eqb s "extend" then RExtend else if String.eqb s "sum" then RSum
  else if String.eqb s "max" then RMax else if String.eqb s "min" then RMin
  else if String.eqb s "merge" then RMerge else if String.eqb s "first" then RFirst
  else if String.eqb s "last" then RLast else RUnknown.

(* _collect: a list value is extended, anything else (None included) is appended *)
Definition red_collect (vs : list value) : list atom :=
  flat_map (fun v => match v with VList l => l | VAtom a => [a] end) vs.

(* _extend: a list value is extended, None is dropped, any other value is appended *)
Definition red_extend (vs : list value) : list atom :=
  flat_map (fun v => match v with VList l => l | VAtom ANone => [] | VAtom a => [a] end) vs.

(* _sum: total = 0; for v: if v is not None: total = total + v   (int + list / int + dict: TypeError) *)
Fixpoint red_sum_from (total : Z) (vs : list value) : rres Z :=
  match vs with
  | [] => ROk total
  | VAtom ANone :: r => red_sum_from total r
  | VAtom (AInt z) :: r => red_sum_from (total + z) r
  | _ :: _ => RErr TypeErr
  end.
Definition red_sum (vs : list value) : rres Z := red_sum_from 0 vs.

(* Python ordering `a > b` (gt = true) or `a < b` (gt = false); None = TypeError *)
Definition atom_cmp (gt : bool) (a b : atom) : option bool :=
  match a, b with
  | AInt x, AInt y => Some (if gt then Z.gtb x y else Z.ltb x y)
  | _, _ => None
  end.

(* list ordering: first index where the items are not ==, ordered there; else by length *)
Fixpoint list_cmp (gt : bool) (a b : list atom) : option bool :=
  match a, b with
  | [], [] => Some false
  | [], _ :: _ => Some (negb gt)
  | _ :: _, [] => Some gt
  | x :: a', y :: b' => if atom_eqb x y then list_cmp gt a' b' else atom_cmp gt x y
  end.

Definition value_cmp (gt : bool) (v w : value) : option bool :=
  match v, w with
  | VAtom a, VAtom b => atom_cmp gt a b
  | VList a, VList b => list_cmp gt a b
  | _, _ => None
  end.

(* builtin max()/min() over an iterator: keep the first item, replace it when `item > cur` (`<`) *)
Fixpoint extremum_from (gt : bool) (cur : value) (vs : list value) : rres value :=
  match vs with
  | [] => ROk cur
  | v :: r => match value_cmp gt v cur with
              | None => RErr TypeErr
              | Some true => extremum_from gt v r
              | Some false => extremum_from gt cur r
              end
  end.

Definition not_none (v : value) : bool := match v with VAtom ANone => false | _ => true end.

(* max(v for v in values if v is not None): ValueError on an empty sequence *)
Definition red_extremum (gt : bool) (vs : list value) : rres value :=
  match filter not_none vs with
  | [] => RErr ValueErr
  | v :: r => extremum_from gt v r
  end.

(* canonical finite map: sorted insert-or-replace *)
Fixpoint dict_set (k : nat) (v : Z) (d : list (nat * Z)) : list (nat * Z) :=
  match d with
  | [] => [(k, v)]
  | (k', v') :: r => if Nat.ltb k k' then (k, v) :: (k', v') :: r
                     else if Nat.eqb k k' then (k, v) :: r
                     else (k', v') :: dict_set k v r
  end.
Fixpoint dict_get (k : nat) (d : list (nat * Z)) : option Z :=
  match d with
  | [] => None
  | (k', v) :: r => if Nat.eqb k k' then Some v else dict_get k r
  end.
Definition dict_update (d e : list (nat * Z)) : list (nat * Z) :=
  fold_left (fun acc kv => dict_set (fst kv) (snd kv) acc) e d.

(* _merge: out = {}; for v: if isinstance(v, dict): out.update(v) *)
Definition red_merge (vs : list value) : list (nat * Z) :=
  fold_left (fun out v => match v with VAtom (ADict d) => dict_update out d | _ => out end) vs [].

Definition red_first (vs : list value) : value := match vs with [] => VAtom ANone | v :: _ => v end.
Definition red_last (vs : list value) : value := last vs (VAtom ANone).

Definition apply_reducer (r : rname) (vs : list value) : rres value :=
  match r with
  | RCollect | RAppend => ROk (VList (red_collect vs))
  | RExtend => ROk (VList (red_extend vs))
  | RSum => match red_sum vs with ROk z => ROk (VAtom (AInt z)) | RErr e => RErr e end
  | RMax => red_extremum true vs
  | RMin => red_extremum false vs
  | RMerge => ROk (VAtom (ADict (red_merge vs)))
  | RFirst => ROk (red_first vs)
  | RLast => ROk (red_last vs)
  | RUnknown => RErr UnknownReducer
  end.

(* values = [outputs[key] for outputs in branch_outputs if key in outputs] *)
Definition branch_values (key : nat) (branches : list ctx) : list value :=
  flat_map (fun o => match cget key o with Some v => [v] | None => [] end) branches.

(* apply_output_reducers(reducers, branch_outputs): for key, name in reducers.items(): unknown name ->
   ValueError (even when no branch has the key); values non-empty -> result[key] = reducer(values);
   the first exception aborts *)
Fixpoint apply_output_reducers_from (result : ctx) (reducers : list (nat * rname)) (branches : list ctx) : rres ctx :=
  match reducers with
  | [] => ROk result
  | (key, rn) :: rest =>
      match rn with
      | RUnknown => RErr UnknownReducer
      | _ => match branch_values key branches with
             | [] => apply_output_reducers_from result rest branches
             | vs => match apply_reducer rn vs with
                     | ROk v => apply_output_reducers_from (cset key v result) rest branches
                     | RErr e => RErr e
                     end
             end
      end
  end.
Definition apply_output_reducers (reducers : list (nat * rname)) (branches : list ctx) : rres ctx :=
  apply_output_reducers_from [] reducers branches.
