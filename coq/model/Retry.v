(* Retry: the queue round trip of a RunTask retry message and the retry chain it produces (C14).

   What the Python does (no opinion about what it should do):
     handlers/run_task/error.py   handle_exception: `current_attempts = message.attempts or 0`,
                                  `if current_attempts + 1 < max_attempts:` retry else terminal   (Gen_Guards.retry_guard);
                                  _handle_transient_retry: retry_message = message.copy_with_attempts(current_attempts + 1),
                                  pushed through txn.push_message (a NEW row)                      (Gen_Retry.retry_next_attempt)
     persistence/sqlite/transaction.py:push_message   INSERT ... attempts = 0                     (Gen_Queue.txpush_attempts)
     queue/sqlite/queue.py:push                       INSERT ... attempts = 0                     (Gen_Queue.push_attempts)
     queue/sqlite/queue.py:poll_one    WHERE attempts < :max_attempts; UPDATE attempts = attempts + 1;
                                       message = deserialize_message(payload); message.attempts = attempts + 1
                                                                   (Gen_Queue.poll_att_cmp / claim_att_inc, Gen_Retry.poll_seen_attempts)
     queue/sqlite/serialization.py     deserialize_message pops "attempts" from the payload       (Gen_Messages.deser_popped)

   Everything that decides the outcome is a generated definition; this file only composes them. *)
From Coq Require Import List Bool ZArith String.
Import ListNotations.
From Stab.gen Require Import Gen_Guards Gen_Config Gen_Queue Gen_Messages Gen_Retry.
Local Open Scope Z_scope.

(* the in-memory message: only the retry budget field matters here *)
Record rt_msg := { m_attempts : Z }.

(* a queue row: the "attempts" entry of the JSON payload (written by the serializer from message.__dict__)
   and the attempts COLUMN *)
Record rt_row := { r_carried : Z; r_attempts : Z }.

Definition field_popped (f : string) : bool := existsb (String.eqb f) deser_popped.
Definition field_overwritten (f : string) : bool := existsb (String.eqb f) poll_overwrites.

Definition copy_with_attempts (m : rt_msg) (a : Z) : rt_msg := {| m_attempts := a |}.

(* serialisation keeps an int as it is; the INSERT writes the literal attempts value *)
Definition push_row (via_txn : bool) (m : rt_msg) : rt_row :=
  {| r_carried := m_attempts m; r_attempts := if via_txn then txpush_attempts else push_attempts |}.

(* deserialize_message: a popped field is rebuilt from the dataclass default *)
Definition deserialize (r : rt_row) : rt_msg :=
  {| m_attempts := if field_popped "attempts" then message_default_attempts else r_carried r |}.

(* poll_one on a visible row: None when the attempts filter hides it; otherwise the claimed row and the message handed
   to the handler *)
Definition poll (r : rt_row) : option (rt_row * rt_msg) :=
  if poll_att_cmp (r_attempts r) queue_max_attempts then
    let m := deserialize r in
    Some ({| r_carried := r_carried r; r_attempts := r_attempts r + claim_att_inc |},
          if field_overwritten "attempts" then {| m_attempts := poll_seen_attempts (r_attempts r) (m_attempts m) |} else m)
  else None.

(* handle_exception's decision for a TransientError seen by a delivery whose message.attempts is `seen` *)
Inductive decision := Retry (next : rt_msg) | GiveUp.

Definition decide (seen : Z) : decision :=
  if retry_guard seen default_max_attempts
  then Retry (copy_with_attempts {| m_attempts := seen |} (retry_next_attempt seen))
  else GiveUp.

(* the attempt count seen by the FIRST delivery of the retry message, as a function of the one seen now
   (None: never retried, or the row is not deliverable) *)
Definition round_trip (seen : Z) : option Z :=
  match decide seen with
  | GiveUp => None
  | Retry m => match poll (push_row true m) with
               | Some (_, m') => Some (m_attempts m')
               | None => None
               end
  end.

(* the attempt count a fresh (never delivered) RunTask row shows to its first delivery: StartTask pushes RunTask with
   the default attempts *)
Definition first_seen : option Z :=
  match poll (push_row true {| m_attempts := message_default_attempts |}) with
  | Some (_, m) => Some (m_attempts m)
  | None => None
  end.

(* k-th redelivery of the SAME row (no ack / lock expiry): attempts seen, or None once the filter hides the row *)
Fixpoint redeliver (k : nat) (r : rt_row) : option Z :=
  match poll r with
  | None => None
  | Some (r', m) => match k with O => Some (m_attempts m) | S k' => redeliver k' r' end
  end.

(* A retry chain for a task that raises TransientError on every execution.  `deliver seen` is the attempt count the next
   delivery of the retry message sees (round_trip for the code as it is).  `budget` is max_attempts.  Result: number of
   executions within `fuel` deliveries and how the chain stands. *)
Inductive outcome := Terminal | StillRetrying | Undeliverable.

Fixpoint chain (deliver : Z -> option Z) (budget : Z) (fuel : nat) (seen : Z) : nat * outcome :=
  match fuel with
  | O => (O, StillRetrying)
  | S f =>
      if retry_guard seen budget then
        match deliver seen with
        | Some seen' => let r := chain deliver budget f seen' in (S (fst r), snd r)
        | None => (1%nat, Undeliverable)
        end
      else (1%nat, Terminal)
  end.

(* the repaired round trip (hypothetical): the carried count survives, so the next delivery sees one more *)
Definition carried_delivery (seen : Z) : option Z := Some (seen + 1).
