(* StageStat: hand model of StageExecution.determine_status / failure_status (models/stage/stage.py)
   and CompleteWorkflowHandler._determine_final_status (handlers/complete_workflow.py).
   Tied to the source by the differential in harness/props/c05.py. *)
From Coq Require Import List Bool Arith ZArith Lia.
Import ListNotations.
From Stab.model Require Import Base StatusM.
From Stab.gen Require Import Gen_Config.

Definition has (s : status) (l : list status) : bool := existsb (status_eqb s) l.

(* failure_status(default): continuePipelineOnFailure -> FAILED_CONTINUE; failPipeline -> default; else STOPPED *)
Definition failure_status (continue_on_failure fail_pipeline : bool) (default : status) : status :=
  if continue_on_failure then FAILED_CONTINUE else if fail_pipeline then default else STOPPED.

Definition incomplete (s : status) : bool := status_eqb s NOT_STARTED || status_eqb s RUNNING.
Definition core_done (s : status) : bool :=
  status_eqb s SUCCEEDED || status_eqb s SKIPPED || status_eqb s FAILED_CONTINUE.

Definition determine_status (self : status) (cof fp : bool) (before tasks after : list status) : status :=
  let core := before ++ tasks in
  if is_nil core then
    if status_eqb self RUNNING then
      if negb (is_nil after) && existsb incomplete after then RUNNING
      else if negb (is_nil after) && has TERMINAL after then TERMINAL
      else SUCCEEDED
    else NOT_STARTED
  else if has TERMINAL core then failure_status cof fp TERMINAL
  else if has STOPPED core then STOPPED
  else if has CANCELED core then CANCELED
  else if has PAUSED core then PAUSED
  else if has BUFFERED core then BUFFERED
  else if has SUSPENDED core then SUSPENDED
  else if existsb incomplete core then RUNNING
  else if negb (forallb core_done core) then RUNNING
  else if negb (is_nil after) && has TERMINAL after then TERMINAL
  else if negb (is_nil after) && has STOPPED after then STOPPED
  else if negb (is_nil after) && has CANCELED after then CANCELED
  else if negb (is_nil after) && existsb incomplete after then RUNNING
  else if has FAILED_CONTINUE core then FAILED_CONTINUE
  else SUCCEEDED.

(* ---- CompleteWorkflow ---- *)
(* a top-level stage as _determine_final_status sees it:
   (status, _can_still_start(): evaluate_readiness(stage, upstreams).phase == READY) ; [override] = some stage of the execution is STOPPED with
   context.completeOtherBranchesThenFail *)
Definition tl_stage := (status * bool)%type.

Definition other_branches_incomplete (stages : list tl_stage) : bool :=
  existsb (fun s => status_eqb (fst s) RUNNING || (status_eqb (fst s) NOT_STARTED && snd s)) stages.

Inductive final_decision := Final (s : status) | Requeue.

Definition determine_final_status (stages : list tl_stage) (override : bool)
           (retry_count max_retries : Z) : final_decision :=
  let sts := map fst stages in
  if forallb in_continuable sts then Final SUCCEEDED
  else if has TERMINAL sts then Final TERMINAL
  else if has CANCELED sts then Final CANCELED
  else if has STOPPED sts && negb (other_branches_incomplete stages) then
         (if override then Final TERMINAL else Final SUCCEEDED)
  else if (max_retries <=? retry_count)%Z then Final TERMINAL
  else Requeue.
