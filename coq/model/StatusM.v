(* StatusM: re-exports the generated status tables and proves the derived facts used everywhere.
   Every lemma here is about coq/gen/Gen_Status.v, i.e. about what models/status.py says now. *)
From Coq Require Import List Bool.
Import ListNotations.
From Stab.gen Require Export Gen_Status Gen_Enums.

Lemma status_eqb_eq a b : status_eqb a b = true <-> a = b.
Proof. destruct a, b; simpl; split; (congruence || reflexivity || discriminate). Qed.

Lemma status_eqb_refl a : status_eqb a a = true.
Proof. destruct a; reflexivity. Qed.

Lemma all_statuses_complete : forall s, In s all_statuses.
Proof. destruct s; simpl; tauto. Qed.

(* lift a decidable fact checked on the finite enumeration to all statuses *)
Lemma forall_status (P : status -> bool) :
  forallb P all_statuses = true -> forall s, P s = true.
Proof. intros H s. rewrite forallb_forall in H. apply H, all_statuses_complete. Qed.

Lemma forall_status2 (P : status -> status -> bool) :
  forallb (fun a => forallb (P a) all_statuses) all_statuses = true -> forall a b, P a b = true.
Proof.
  intros H a b. rewrite forallb_forall in H. specialize (H a (all_statuses_complete a)).
  rewrite forallb_forall in H. apply H, all_statuses_complete.
Qed.

Definition status_dec (a b : status) : {a = b} + {a <> b}.
Proof. decide equality. Defined.
