(* Lemmas about model/Bloom.v.  Everything here holds for ANY hash functions h1 h2 (Section variables);
   the bit-level facts depend on the index / set / get expressions regenerated into Gen_Dedup. *)
From Coq Require Import List Bool Arith NArith Lia.
Import ListNotations.
From Stab.gen Require Import Gen_Dedup.
From Stab.model Require Import Bloom.
Local Open Scope N_scope.

(* ---------- bytes ---------- *)
Lemma land_pow2_testbit (a i : N) : negb (N.land a (N.shiftl 1 i) =? 0) = N.testbit a i.
Proof.
  rewrite N.shiftl_1_l. destruct (N.testbit a i) eqn:E.
  - destruct (N.eqb_spec (N.land a (2 ^ i)) 0) as [H|H]; [|reflexivity]. exfalso.
    assert (T : N.testbit (N.land a (2 ^ i)) i = true)
      by (rewrite N.land_spec, E, N.pow2_bits_true; reflexivity).
    rewrite H, N.bits_0 in T. discriminate.
  - assert (Z : N.land a (2 ^ i) = 0).
    { apply N.bits_inj_0. intros m. rewrite N.land_spec, N.pow2_bits_eqb.
      destruct (N.eqb_spec i m) as [<-|_]; [rewrite E; reflexivity | apply andb_false_r]. }
    rewrite Z. reflexivity.
Qed.

Lemma get_bit_spec bs pos :
  get_bit bs pos = N.testbit (nth (N.to_nat (pos / 8)) bs 0) (pos mod 8).
Proof. unfold get_bit, get_bit_expr, byte_idx, bit_idx. apply land_pow2_testbit. Qed.

Lemma set_byte_same b i : N.testbit (set_bit_expr b i) i = true.
Proof. unfold set_bit_expr. rewrite N.lor_spec, N.shiftl_1_l, N.pow2_bits_true. apply orb_true_r. Qed.

Lemma set_byte_mono b i j : N.testbit b j = true -> N.testbit (set_bit_expr b i) j = true.
Proof. unfold set_bit_expr. intros H. rewrite N.lor_spec, H. reflexivity. Qed.

(* ---------- upd_nth ---------- *)
Lemma upd_nth_length {A} (f : A -> A) l n : length (upd_nth n f l) = length l.
Proof. revert n. induction l as [|x l IH]; intros [|n]; simpl; auto. Qed.

Lemma upd_nth_same {A} (f : A -> A) d l n : (n < length l)%nat -> nth n (upd_nth n f l) d = f (nth n l d).
Proof.
  revert n. induction l as [|x l IH]; intros [|n]; simpl; intros H; try lia; auto.
  apply IH. lia.
Qed.

Lemma upd_nth_other {A} (f : A -> A) d l n n' : n <> n' -> nth n' (upd_nth n f l) d = nth n' l d.
Proof.
  revert n n'. induction l as [|x l IH]; intros [|n] [|n'] H; simpl; auto; try congruence.
Qed.

Lemma upd_nth_ge {A} (f : A -> A) l n : (length l <= n)%nat -> upd_nth n f l = l.
Proof.
  revert n. induction l as [|x l IH]; intros [|n]; simpl; intros H; auto; try lia.
  f_equal. apply IH. lia.
Qed.

(* ---------- set_bit / get_bit ---------- *)
Lemma set_bit_length bs p : length (set_bit bs p) = length bs.
Proof. apply upd_nth_length. Qed.

Lemma get_set_same bs p : (N.to_nat (p / 8) < length bs)%nat -> get_bit (set_bit bs p) p = true.
Proof.
  intros H. rewrite get_bit_spec. unfold set_bit, byte_idx.
  rewrite upd_nth_same by exact H. apply set_byte_same.
Qed.

Lemma get_set_mono bs p q : get_bit bs q = true -> get_bit (set_bit bs p) q = true.
Proof.
  rewrite !get_bit_spec. unfold set_bit, byte_idx. intros H.
  destruct (Nat.eq_dec (N.to_nat (p / 8)) (N.to_nat (q / 8))) as [E|E].
  - destruct (lt_dec (N.to_nat (p / 8)) (length bs)) as [L|L].
    + rewrite <- E, upd_nth_same by exact L. apply set_byte_mono. rewrite E. exact H.
    + rewrite upd_nth_ge by lia. exact H.
  - rewrite upd_nth_other by exact E. exact H.
Qed.

Lemma set_all_length ps : forall bs, length (set_all bs ps) = length bs.
Proof.
  induction ps as [|p ps IH]; intros bs; simpl; auto.
  unfold set_all in *. simpl. rewrite IH. apply set_bit_length.
Qed.

Lemma set_all_mono ps : forall bs q, get_bit bs q = true -> get_bit (set_all bs ps) q = true.
Proof.
  induction ps as [|p ps IH]; intros bs q H; simpl; auto.
  unfold set_all in *. simpl. apply IH. apply get_set_mono. exact H.
Qed.

Lemma set_all_sets ps : forall bs,
  (forall p, In p ps -> (N.to_nat (p / 8) < length bs)%nat) ->
  forall p, In p ps -> get_bit (set_all bs ps) p = true.
Proof.
  induction ps as [|a ps IH]; intros bs R p Hin; [destruct Hin|]. destruct Hin as [<-|Hp].
  - unfold set_all. simpl. apply (set_all_mono ps). apply get_set_same. apply R. left; reflexivity.
  - unfold set_all in *. simpl. apply IH; [|exact Hp].
    intros p' Hp'. rewrite set_bit_length. apply R. right; exact Hp'.
Qed.

(* ---------- well-formed filters ---------- *)
Definition bwf (f : bloom) : Prop :=
  0 < b_size f /\ length (b_bits f) = N.to_nat (bit_array_len (b_size f)).

Lemma byte_in_range m p : p < m -> (N.to_nat (p / 8) < N.to_nat (bit_array_len m))%nat.
Proof.
  intros H. unfold bit_array_len.
  assert (p / 8 < (m + 7) / 8); [|lia].
  apply N.div_lt_upper_bound; [lia|].
  pose proof (N.mul_succ_div_gt (m + 7) 8 ltac:(lia)). lia.
Qed.

Lemma zero_bits_length m : length (zero_bits m) = N.to_nat (bit_array_len m).
Proof. unfold zero_bits. apply repeat_length. Qed.

Lemma bwf_new m k cap : 0 < m -> bwf (bloom_new m k cap).
Proof. intros H. split; simpl; [exact H | apply zero_bits_length]. Qed.

Section Hash.
Variables h1 h2 : N -> N.
Notation positions := (positions h1 h2).
Notation maybe_seen := (maybe_seen h1 h2).
Notation mark_seen := (mark_seen h1 h2).
Notation hydrate := (hydrate h1 h2).
Notation bstep := (bstep h1 h2).
Notation brun := (brun h1 h2).

Lemma positions_in_range f id p : bwf f -> In p (positions f id) -> (N.to_nat (p / 8) < length (b_bits f))%nat.
Proof.
  intros [Hm Hl] Hp. unfold Bloom.positions in Hp. apply in_map_iff in Hp. destruct Hp as [i [<- _]].
  rewrite Hl. apply byte_in_range. unfold bloom_pos. apply N.mod_lt. lia.
Qed.

(* same parameters => same positions *)
Definition same_params (f g : bloom) : Prop := b_size f = b_size g /\ b_k f = b_k g /\ b_cap f = b_cap g.

Lemma positions_params f g id : same_params f g -> positions g id = positions f id.
Proof. intros [Hs [Hk _]]. unfold Bloom.positions. rewrite Hs, Hk. reflexivity. Qed.

(* g has every bit of f *)
Definition bits_le (f g : bloom) : Prop :=
  same_params f g /\ forall p, get_bit (b_bits f) p = true -> get_bit (b_bits g) p = true.

Lemma bits_le_refl f : bits_le f f.
Proof. repeat split; auto. Qed.

Lemma bits_le_trans f g h : bits_le f g -> bits_le g h -> bits_le f h.
Proof.
  intros [[A1 [A2 A3]] A] [[B1 [B2 B3]] B]. repeat split; try congruence. intros p H. apply B, A, H.
Qed.

Lemma seen_mono f g id : bits_le f g -> maybe_seen f id = true -> maybe_seen g id = true.
Proof.
  intros [P M] H. unfold Bloom.maybe_seen in *. rewrite (positions_params f g id P).
  rewrite forallb_forall in *. intros p Hp. apply M, H, Hp.
Qed.

Lemma mark_bits_le f id : bits_le f (mark_seen f id).
Proof. repeat split; simpl; auto. intros p H. apply set_all_mono. exact H. Qed.

Lemma mark_bwf f id : bwf f -> bwf (mark_seen f id).
Proof. intros [Hm Hl]. split; simpl; [exact Hm|]. rewrite set_all_length. exact Hl. Qed.

Lemma mark_auth f id : b_auth (mark_seen f id) = b_auth f.
Proof. reflexivity. Qed.

(* all k bits are set by mark_seen: the id is reported as seen *)
Lemma mark_seen_seen f id : bwf f -> maybe_seen (mark_seen f id) id = true.
Proof.
  intros W. unfold Bloom.maybe_seen.
  rewrite (positions_params f (mark_seen f id) id) by (repeat split; reflexivity).
  apply forallb_forall. intros p Hp. simpl. apply set_all_sets; [|exact Hp].
  intros p' Hp'. apply (positions_in_range f id); assumption.
Qed.

Lemma reset_bwf f : bwf f -> bwf (reset f).
Proof. intros [Hm _]. split; simpl; [exact Hm | apply zero_bits_length]. Qed.

Lemma reset_auth f : b_auth (reset f) = false.
Proof. reflexivity. Qed.

Lemma reset_params f : same_params f (reset f).
Proof. repeat split; reflexivity. Qed.

Lemma fold_mark_bwf ids : forall f, bwf f -> bwf (fold_left mark_seen ids f).
Proof. induction ids as [|a ids IH]; intros f W; simpl; auto. apply IH, mark_bwf, W. Qed.

Lemma fold_mark_bits_le ids : forall f, bits_le f (fold_left mark_seen ids f).
Proof.
  induction ids as [|a ids IH]; intros f; simpl; [apply bits_le_refl|].
  eapply bits_le_trans; [apply mark_bits_le | apply IH].
Qed.

Lemma fold_mark_auth ids : forall f, b_auth (fold_left mark_seen ids f) = b_auth f.
Proof. induction ids as [|a ids IH]; intros f; simpl; auto. rewrite IH. reflexivity. Qed.

Lemma fold_mark_seen ids : forall f id, bwf f -> In id ids -> maybe_seen (fold_left mark_seen ids f) id = true.
Proof.
  induction ids as [|a ids IH]; intros f id W Hin; [destruct Hin|]. destruct Hin as [<-|H]; simpl.
  - apply (seen_mono (mark_seen f a)); [apply fold_mark_bits_le | apply mark_seen_seen, W].
  - apply IH; [apply mark_bwf, W | exact H].
Qed.

Lemma hydrate_bits_le f ids : bits_le f (hydrate f ids).
Proof.
  destruct (fold_mark_bits_le ids f) as [[A [B C]] M]. repeat split; simpl; auto.
Qed.

Lemma hydrate_bwf f ids : bwf f -> bwf (hydrate f ids).
Proof. intros W. destruct (fold_mark_bwf ids f W) as [A B]. split; simpl; assumption. Qed.

Lemma hydrate_auth f ids : b_auth (hydrate f ids) = true.
Proof. reflexivity. Qed.

Lemma hydrate_seen f ids id : bwf f -> In id ids -> maybe_seen (hydrate f ids) id = true.
Proof.
  intros W H. pose proof (fold_mark_seen ids f id W H) as S.
  unfold Bloom.maybe_seen, Bloom.positions in *. simpl. exact S.
Qed.

(* ---------- the state machine ---------- *)
Lemma bstep_bwf f op : bwf f -> bwf (bstep f op).
Proof. destruct op; simpl; auto using mark_bwf, hydrate_bwf, reset_bwf. Qed.

Lemma brun_bwf ops : forall f, bwf f -> bwf (brun f ops).
Proof. induction ops as [|op ops IH]; intros f W; simpl; auto. apply IH, bstep_bwf, W. Qed.

Lemma brun_app f a b : brun f (a ++ b) = brun (brun f a) b.
Proof. unfold Bloom.brun. apply fold_left_app. Qed.

Lemma bstep_bits_le f op : is_reset op = false -> bits_le f (bstep f op).
Proof.
  destruct op; simpl; intros H; try discriminate.
  - apply mark_bits_le.
  - apply hydrate_bits_le.
  - apply bits_le_refl.
Qed.

Lemma brun_bits_le ops : forall f, no_reset ops = true -> bits_le f (brun f ops).
Proof.
  induction ops as [|op ops IH]; intros f H; simpl; [apply bits_le_refl|].
  simpl in H. apply andb_true_iff in H. destruct H as [H1 H2]. apply negb_true_iff in H1.
  eapply bits_le_trans; [apply bstep_bits_le, H1 | apply IH, H2].
Qed.

Lemma bstep_told f op id : bwf f -> told_by op id = true -> maybe_seen (bstep f op) id = true.
Proof.
  intros W. destruct op; simpl; intros H; try discriminate.
  - apply N.eqb_eq in H. subst. apply mark_seen_seen, W.
  - apply hydrate_seen; [exact W|]. apply existsb_exists in H. destruct H as [x [Hx E]].
    apply N.eqb_eq in E. subst. exact Hx.
Qed.

Lemma nfn_aux ops : forall f id, bwf f -> no_reset ops = true ->
  (told ops id = true \/ maybe_seen f id = true) -> maybe_seen (brun f ops) id = true.
Proof.
  induction ops as [|op ops IH]; intros f id W NR H; simpl.
  - destruct H as [H|H]; [discriminate|exact H].
  - simpl in NR. apply andb_true_iff in NR. destruct NR as [N1 N2]. apply negb_true_iff in N1.
    apply IH; [apply bstep_bwf, W | exact N2 |].
    destruct H as [H|H].
    + simpl in H. apply orb_true_iff in H. destruct H as [H|H]; [right|left; exact H].
      apply bstep_told; assumption.
    + right. apply (seen_mono f); [apply bstep_bits_le, N1 | exact H].
Qed.

(* after ANY prefix (resets included), every id marked or hydrated since the last reset is reported seen *)
Lemma no_false_negative : forall f pre post id,
  bwf f -> no_reset post = true -> told post id = true -> maybe_seen (brun f (pre ++ post)) id = true.
Proof.
  intros f pre post id W NR T. rewrite brun_app. apply nfn_aux; [apply brun_bwf, W | exact NR | left; exact T].
Qed.

(* bits are only ever cleared by reset *)
Lemma bits_monotone : forall f ops p,
  no_reset ops = true -> get_bit (b_bits f) p = true -> get_bit (b_bits (brun f ops)) p = true.
Proof. intros f ops p NR H. destruct (brun_bits_le ops f NR) as [_ M]. apply M, H. Qed.

Lemma brun_params ops : forall f, same_params f (brun f ops).
Proof.
  induction ops as [|op ops IH]; intros f; simpl; [repeat split; reflexivity|].
  destruct (IH (bstep f op)) as [A [B C]].
  assert (P : same_params f (bstep f op)).
  { destruct op; simpl; repeat split; try reflexivity.
    all: destruct (fold_mark_bits_le ids f) as [[X [Y Z]] _]; simpl; assumption. }
  destruct P as [X [Y Z]]. repeat split; congruence.
Qed.

(* authority: only a hydrate after the last reset grants it *)
Lemma authority_origin : forall ops f,
  b_auth f = false -> b_auth (brun f ops) = true ->
  exists pre ids post, ops = pre ++ BHydrate ids :: post /\ no_reset post = true.
Proof.
  intros ops. induction ops as [|op ops IH] using rev_ind; intros f F A.
  - simpl in A. congruence.
  - rewrite brun_app in A. simpl in A. destruct op; simpl in A.
    + try rewrite mark_auth in A. destruct (IH f F A) as [pre [ids [post [E NR]]]].
      exists pre, ids, (post ++ [BMark id]). split.
      * rewrite E, <- app_assoc. reflexivity.
      * unfold no_reset in *. rewrite forallb_app, NR. reflexivity.
    + exists ops, ids, []. split; reflexivity.
    + discriminate.
    + destruct (IH f F A) as [pre [ids' [post [E NR]]]].
      exists pre, ids', (post ++ [BQuery id]). split.
      * rewrite E, <- app_assoc. reflexivity.
      * unfold no_reset in *. rewrite forallb_app, NR. reflexivity.
Qed.

(* a hydrate given the complete processed set makes every negative conclusive, until the next reset *)
Lemma authority_sound : forall f pre ids post processed id,
  bwf f -> no_reset post = true -> incl processed ids ->
  maybe_seen (brun f (pre ++ BHydrate ids :: post)) id = false -> ~ In id processed.
Proof.
  intros f pre ids post processed id W NR I Neg Hin.
  assert (S : maybe_seen (brun f (pre ++ BHydrate ids :: post)) id = true).
  { apply no_false_negative; [exact W | simpl; exact NR |].
    simpl. apply orb_true_iff. left. apply existsb_exists. exists id. split; [apply I, Hin | apply N.eqb_refl]. }
  congruence.
Qed.

Lemma reset_clears f id : (0 < b_k f)%nat -> maybe_seen (reset f) id = false.
Proof.
  intros K. unfold Bloom.maybe_seen, Bloom.positions. simpl.
  destruct (b_k f) as [|k]; [lia|]. simpl.
  replace (get_bit (zero_bits (b_size f)) _) with false; [reflexivity|].
  symmetry. rewrite get_bit_spec. unfold zero_bits.
  set (n := N.to_nat (bit_array_len (b_size f))). set (i := N.to_nat _).
  assert (E : nth i (repeat 0 n) 0 = 0).
  { clearbody n i. revert i. induction n as [|n IH]; intros [|i]; simpl; auto. }
  rewrite E. apply N.bits_0.
Qed.
End Hash.
