(* A re-arm never empties a stage's signal mailbox: every stage write of a JumpToStage or RestartStage handling leaves
   `_buffered_signals` (s_buffered) of the written stage exactly as it was.  So a persistent signal that arrived before its
   stage suspended survives any number of loop iterations until the stage consumes it (C18). *)
From Coq Require Import List Bool Arith ZArith Lia.
Import ListNotations.
From Stab.model Require Import Base StatusM Readiness StageStat Engine.
From Stab.gen Require Import Gen_Config Gen_Guards.

Definition op_keeps_buffered (s : state) (o : op) : Prop :=
  match o with
  | OMut _ f => forall st, s_buffered (f st) = s_buffered st
  | OPut i st' => forall st, get_stage s i = Some st -> s_buffered st' = s_buffered st
  | OAdd _ => False          (* a re-arm creates no stage *)
  | _ => True
  end.
Definition KB (s : state) (h : hres) : Prop := Forall (Forall (op_keeps_buffered s)) (h_commits h).

Lemma kb_reset st : s_buffered (reset_for_retry st) = s_buffered st.
Proof. reflexivity. Qed.

Lemma kb_muts s (l : list nat) f : (forall st, s_buffered (f st) = s_buffered st) ->
  Forall (Forall (op_keeps_buffered s)) (map (fun j => c_mutate j f) l).
Proof. intros Hf. induction l; simpl; constructor; [constructor; [exact Hf|constructor]|assumption]. Qed.

Lemma Forall_concat_kb {A} (P : A -> Prop) ls : Forall (Forall P) ls -> Forall P (concat ls).
Proof. induction 1 as [|l ls Hl _ IH]; simpl; [constructor|]. apply Forall_app. split; assumption. Qed.

Theorem jump_keeps_buffered s id i tg c : KB s (handle_jump s id i tg c).
Proof.
  unfold KB, handle_jump. destruct (get_stage s i) as [src|]; [|constructor].
  destruct (w_canceled s); [repeat constructor|].
  destruct (get_stage s tg) as [tgt|].
  2:{ unfold ok; cbn [h_commits txn concat app c_mutate c_mark c_push]. repeat constructor. }
  destruct (jump_exhausted _ _).
  { unfold ok; cbn [h_commits txn concat app c_mutate c_mark c_push]. repeat constructor. }
  cbn [h_commits ok]. constructor; [|constructor].
  unfold txn. apply Forall_concat_kb.
  assert (forall l : list nat, Forall (Forall (op_keeps_buffered s)) (map (fun j => c_mutate j reset_for_retry) l)) as Hr
    by (intros l; apply kb_muts; intros st; reflexivity).
  repeat (apply Forall_app; split).
  - match goal with |- Forall _ (flat_map _ ?l) => generalize l end. intros l0.
    induction l0 as [|j l0 IH]; simpl; [constructor|].
    constructor; [constructor; [cbn [op_keeps_buffered]; intros st; reflexivity|constructor]|]. apply Forall_app. split; [apply Hr|exact IH].
  - apply kb_muts. intros st. reflexivity.
  - match goal with |- context [if ?a then [] else _] => destruct a end; [constructor|].
    match goal with |- context [if ?a then _ else _] => destruct a end.
    + constructor; [|apply Hr]. constructor; [|constructor]. cbn [op_keeps_buffered]. intros st. reflexivity.
    + constructor; [|constructor]. constructor; [|constructor]. cbn [op_keeps_buffered]. intros st. reflexivity.
  - constructor.
    + constructor; [|constructor]. cbn [op_keeps_buffered]. intros st. reflexivity.
    + apply Forall_app. split; [apply Hr|]. repeat constructor.
Qed.

Theorem restart_keeps_buffered s id i : KB s (handle_restart_stage s id i).
Proof.
  unfold KB, handle_restart_stage. destruct (get_stage s i) as [st|] eqn:Hs; [|constructor].
  destruct (w_canceled s); [repeat constructor|]. destruct (negb _); [repeat constructor|].
  unfold ok; cbn [h_commits txn concat app c_put c_mark c_push].
  constructor; [|constructor]. constructor.
  - cbn [op_keeps_buffered]. intros st0 H0. rewrite Hs in H0. inversion H0; subst. reflexivity.
  - destruct (is_complete (w_status s)); repeat constructor.
Qed.
