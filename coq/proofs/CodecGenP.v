(* CodecGenP: the static checks of model/Codec.v and model/MsgCodec.v evaluated on the lists REGENERATED
   from the source (gen/Gen_Codec.v, gen/Gen_Messages.v), and the C19 theorems obtained by instantiating the
   generic soundness theorems of CodecP / MsgCodecP with them.  Every [vm_compute] below is re-run against
   what the code says now: dropping a column from an INSERT, a keyword from row_to_*, changing an encoding
   on one side only, adding a column to one copy of the UPDATE, … makes this file fail to compile. *)
From Coq Require Import List ZArith String Bool Permutation.
Import ListNotations.
From Stab.model Require Import CodecT Codec MsgCodec CodecSpec.
From Stab.gen Require Import Gen_Codec Gen_Messages.
From Stab.proofs Require Import CodecP MsgCodecP.
Open Scope string_scope.

(* ---------- computed facts ---------- *)
Lemma stage_codec_ok : codec_ok enum_table obj_specs stage_fields stage_columns stage_insert stage_read stage_listed = true.
Proof. vm_compute. reflexivity. Qed.
Lemma task_codec_ok : codec_ok enum_table obj_specs task_fields task_columns task_insert task_read task_listed = true.
Proof. vm_compute. reflexivity. Qed.
Lemma workflow_codec_ok : codec_ok enum_table obj_specs workflow_fields workflow_columns workflow_insert workflow_read workflow_listed = true.
Proof. vm_compute. reflexivity. Qed.
Lemma task_id_entry_ok : id_entry_ok task_fields task_columns task_insert = true.
Proof. vm_compute. reflexivity. Qed.
Lemma stage_upd_ok : upd_ok enum_table obj_specs stage_fields stage_columns stage_update_store stage_read stage_updated = true.
Proof. vm_compute. reflexivity. Qed.
Lemma task_upd_ok : upd_ok enum_table obj_specs task_fields task_columns task_update task_read task_updated = true.
Proof. vm_compute. reflexivity. Qed.
Lemma stage_frame_ok :
  forallb (fun f => match find_r f stage_read with Some e => negb (smem (r_col e) (map w_col stage_update_store)) | None => false end)
          stage_frame = true.
Proof. vm_compute. reflexivity. Qed.

(* the four UPDATE statements of store_stage (store / transaction, with / without expected_phase) *)
Lemma update_copies_equal :
  stage_update_txn = stage_update_store /\ stage_update_store_phase = stage_update_store
  /\ stage_update_txn_phase = stage_update_store
  /\ stage_where_txn = stage_where_store /\ stage_where_txn_phase = stage_where_store_phase
  /\ stage_where_store_phase = (stage_where_store ++ [mkW "status" "expected_phase" WParam])%list
  /\ store_stage_flow_store = (store_stage_flow_txn ++ [FCommit])%list
  /\ map w_col stage_update_store = stage_update_cols
  /\ map w_col stage_where_store = ["id"; "version"].
Proof. repeat split; reflexivity. Qed.

(* the frame list and the updated list together are exactly the listed fields minus version *)
Lemma frame_covers : Permutation (stage_frame ++ stage_updated ++ ["version"])%list stage_listed.
Proof.
  apply NoDup_Permutation.
  - apply snodup_NoDup. vm_compute. reflexivity.
  - apply snodup_NoDup. vm_compute. reflexivity.
  - intros x. rewrite <- !smem_In.
    assert (H : forallb (fun y => smem y stage_listed) (stage_frame ++ stage_updated ++ ["version"])%list = true) by (vm_compute; reflexivity).
    assert (H' : forallb (fun y => smem y (stage_frame ++ stage_updated ++ ["version"])%list) stage_listed = true) by (vm_compute; reflexivity).
    rewrite forallb_forall in H, H'. split; intros Hx; apply smem_In in Hx; [apply H|apply H']; exact Hx.
Qed.

Lemma tasks_order_generated : tasks_order_retrieve = [("id", true)] /\ tasks_order_retrieve_stage = [("id", true)].
Proof. split; reflexivity. Qed.

Lemma msg_queue_ok iso : msg_codec_ok iso enum_table msg_classes message_types deser_restores deser_popped ser_queue = true.
Proof. vm_compute. reflexivity. Qed.
Lemma msg_txn_ok iso : msg_codec_ok iso enum_table msg_classes message_types deser_restores deser_popped ser_txn = true.
Proof. vm_compute. reflexivity. Qed.
Lemma serialisers_equal : ser_txn = ser_queue.
Proof. reflexivity. Qed.
Lemma registry_generated_ok : registry_ok msg_classes message_types msg_bases = true.
Proof. vm_compute. reflexivity. Qed.
Lemma every_class_has_wf_instance : forallb (fun kc => wf_message (default_msg (snd kc))) message_types = true.
Proof. vm_compute. reflexivity. Qed.
Lemma popped_are_metadata : forall f, In f deser_popped -> In f msg_metadata.
Proof.
  assert (H : forallb (fun f => smem f msg_metadata) deser_popped = true) by (vm_compute; reflexivity).
  intros f Hf. rewrite forallb_forall in H. apply smem_In. apply H. exact Hf.
Qed.
Lemma poll_overwrites_popped : forallb (fun f => smem f deser_popped) poll_overwrites = true.
Proof. vm_compute. reflexivity. Qed.

(* ---------- instantiated theorems ---------- *)
Section Inst.
Variable jtext : Type.
Variable enc : pyval -> jtext.
Variable dec : jtext -> option pyval.
Variable jempty : jtext -> bool.
Variable order : list pyval -> list pyval.
Hypothesis J : json_ok enc dec jempty order.

Let dec_enc := proj1 J.
Let enc_nonempty := proj1 (proj2 J).
Let order_perm := proj2 (proj2 J).

Notation TO_ROW := (to_row jtext enc order enum_table obj_specs).
Notation READ := (read_field jtext dec jempty enum_table obj_specs).
Notation UPDATE := (apply_update jtext enc order enum_table obj_specs).

Notation reads_back := (reads_back jtext dec jempty).

Lemma stage_roundtrip s : wf_stage s = true ->
  exists rw, TO_ROW stage_columns stage_insert s = Some rw /\ reads_back stage_read stage_listed s rw.
Proof.
  intros H. exact (roundtrip_sound jtext enc dec jempty order enum_table obj_specs dec_enc enc_nonempty order_perm
                     stage_fields stage_columns stage_insert stage_read stage_listed s stage_codec_ok H).
Qed.

Lemma task_roundtrip t : wf_task t = true ->
  exists rw, TO_ROW task_columns task_insert t = Some rw /\ reads_back task_read task_listed t rw.
Proof.
  intros H. exact (roundtrip_sound jtext enc dec jempty order enum_table obj_specs dec_enc enc_nonempty order_perm
                     task_fields task_columns task_insert task_read task_listed t task_codec_ok H).
Qed.

Lemma workflow_roundtrip w : wf_workflow w = true ->
  exists rw, TO_ROW workflow_columns workflow_insert w = Some rw /\ reads_back workflow_read workflow_listed w rw.
Proof.
  intros H. exact (roundtrip_sound jtext enc dec jempty order enum_table obj_specs dec_enc enc_nonempty order_perm
                     workflow_fields workflow_columns workflow_insert workflow_read workflow_listed w workflow_codec_ok H).
Qed.

Lemma tasks_in_order ts : wf_tasks ts = true ->
  exists rows, map_opt (TO_ROW task_columns task_insert) ts = Some rows
    /\ select_tasks jtext tasks_order_retrieve rows = Some rows
    /\ select_tasks jtext tasks_order_retrieve_stage rows = Some rows
    /\ Forall2 (reads_back task_read task_listed) ts rows.
Proof.
  unfold wf_tasks. intros H. apply andb_true_iff in H. destruct H as [H1 H2].
  destruct (tasks_sound jtext enc dec jempty order enum_table obj_specs dec_enc enc_nonempty order_perm
              task_fields task_columns task_insert task_read task_listed ts task_codec_ok task_id_entry_ok H1 H2)
    as [rows [Hr [Hs Hf]]].
  exists rows. destruct tasks_order_generated as [-> ->]. auto.
Qed.

Lemma stage_update_sound s rw : wf_stage_update s rw = true ->
  exists rw', UPDATE stage_columns stage_update_store s rw = Some rw'
    /\ reads_back stage_read stage_updated s rw'
    /\ (forall z, sget "version" rw = Some (CInt z) -> sget "version" rw' = Some (CInt (z + 1)))
    /\ (forall c, ~ In c stage_update_cols -> sget c rw' = sget c rw)
    /\ (forall f, In f stage_frame -> READ stage_read rw' f = READ stage_read rw f).
Proof.
  intros H.
  destruct (update_sound jtext enc dec jempty order enum_table obj_specs dec_enc enc_nonempty order_perm
              stage_fields stage_columns stage_update_store stage_read stage_updated s rw stage_upd_ok H)
    as [rw' [Hap [Hrb [Hbump Hfr]]]].
  exists rw'. split; [exact Hap|]. split; [exact Hrb|]. split; [|split].
  - intros z Hz. apply (Hbump (mkW "version" "version" WVersionBump) z); [simpl; tauto|reflexivity|exact Hz].
  - exact Hfr.
  - intros f Hf. exact (update_frame_listed jtext enc dec jempty order enum_table obj_specs
                          stage_columns stage_update_store stage_read s rw rw' stage_frame stage_frame_ok Hap f Hf).
Qed.

(* the frame needs no wf premise at all *)
Lemma stage_update_frame s rw rw' : UPDATE stage_columns stage_update_store s rw = Some rw' ->
  (forall c, ~ In c stage_update_cols -> sget c rw' = sget c rw)
  /\ (forall f, In f stage_frame -> READ stage_read rw' f = READ stage_read rw f).
Proof.
  intros Hap. split.
  - intros c Hc. exact (update_frame jtext enc order enum_table obj_specs stage_columns stage_update_store s rw rw' c Hap Hc).
  - intros f Hf. exact (update_frame_listed jtext enc dec jempty order enum_table obj_specs
                          stage_columns stage_update_store stage_read s rw rw' stage_frame stage_frame_ok Hap f Hf).
Qed.

Lemma stage_update_other_rows s tbl tbl' :
  update_table jtext enc order enum_table obj_specs stage_columns stage_update_store stage_where_store s tbl = Some tbl' ->
  Forall2 (fun rw rw' => if row_matches jtext enc order enum_table obj_specs stage_where_store s rw
                         then UPDATE stage_columns stage_update_store s rw = Some rw' else rw' = rw) tbl tbl'.
Proof. apply update_table_frame. Qed.

Lemma task_update_sound t rw : wf_task_update t rw = true ->
  exists rw', UPDATE task_columns task_update t rw = Some rw'
    /\ reads_back task_read task_updated t rw'
    /\ (forall z, sget "version" rw = Some (CInt z) -> sget "version" rw' = Some (CInt (z + 1)))
    /\ sget "id" rw' = sget "id" rw /\ sget "stage_id" rw' = sget "stage_id" rw.
Proof.
  intros H.
  destruct (update_sound jtext enc dec jempty order enum_table obj_specs dec_enc enc_nonempty order_perm
              task_fields task_columns task_update task_read task_updated t rw task_upd_ok H)
    as [rw' [Hap [Hrb [Hbump Hfr]]]].
  exists rw'. split; [exact Hap|]. split; [exact Hrb|]. split; [|split].
  - intros z Hz. apply (Hbump (mkW "version" "version" WVersionBump) z); [simpl; tauto|reflexivity|exact Hz].
  - apply Hfr. vm_compute. intuition discriminate.
  - apply Hfr. vm_compute. intuition discriminate.
Qed.

Variable iso : Z -> string.

Notation msg_back := (msg_back jtext enc dec iso).

Lemma message_roundtrip m : wf_message m = true -> msg_back ser_queue m /\ msg_back ser_txn m.
Proof.
  intros H. split.
  - destruct (msg_roundtrip_sound jtext enc dec iso enum_table msg_classes message_types deser_restores deser_popped
                dec_enc ser_queue m (msg_queue_ok iso) H) as [m' [H1 [H2 [H3 H4]]]].
    exists m'. repeat split; auto. intros f Hf. apply H4. apply smem_false. exact Hf.
  - destruct (msg_roundtrip_sound jtext enc dec iso enum_table msg_classes message_types deser_restores deser_popped
                dec_enc ser_txn m (msg_txn_ok iso) H) as [m' [H1 [H2 [H3 H4]]]].
    exists m'. repeat split; auto. intros f Hf. apply H4. apply smem_false. exact Hf.
Qed.

Lemma serialisers_agree m : serialize jtext enc iso enum_table ser_txn m = serialize jtext enc iso enum_table ser_queue m
                            /\ type_name m = m_cls m.
Proof. rewrite serialisers_equal. split; reflexivity. Qed.

End Inst.

Lemma json_ideal_ok : json_ok ideal_enc ideal_dec ideal_empty ideal_order.
Proof. repeat split; auto. Qed.

Lemma registry_bijection :
  NoDup (map fst message_types) /\ NoDup (map snd message_types)
  /\ (forall k c, In (k, c) message_types -> k = c /\ In c (map fst msg_classes))
  /\ (forall c, In c (map fst msg_classes) -> In c (map snd message_types) \/ In c (map snd msg_bases)).
Proof. exact (registry_sound msg_classes message_types msg_bases registry_generated_ok). Qed.
