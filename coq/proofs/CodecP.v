(* CodecP: soundness of the computed checks of model/Codec.v.

   roundtrip_sound   codec_ok (static, on the generated lists) + record_ok (the wf predicate of a record)
                     imply: the INSERT succeeds and every listed field is read back equal (sets: up to
                     the order of elements)
   update_*          frame and read-back of UPDATE … SET
   sort_sorted       ORDER BY id returns tasks in insertion order when their ids ascend
   Hypotheses (Section variables, explicit premises of every exported theorem):
     dec_enc       json.loads (json.dumps v) = v for JSON-representable v
     enc_nonempty  json.dumps never returns the empty string
     order_perm    list(s) enumerates exactly the elements of the set s                                  *)
From Coq Require Import List ZArith String Bool Permutation Lia.
Import ListNotations.
From Stab.model Require Import CodecT Codec.
Open Scope string_scope.

(* ---------- strings, association lists ---------- *)
Lemma seqb_refl s : String.eqb s s = true.
Proof. apply String.eqb_refl. Qed.

Lemma smem_In k l : smem k l = true <-> In k l.
Proof.
  unfold smem. rewrite existsb_exists. split.
  - intros [x [Hx He]]. apply String.eqb_eq in He. subst. exact Hx.
  - intros H. exists k. split; [exact H|apply seqb_refl].
Qed.

Lemma smem_false k l : smem k l = false <-> ~ In k l.
Proof.
  split.
  - intros H Hin. apply smem_In in Hin. congruence.
  - intros H. destruct (smem k l) eqn:E; [|reflexivity]. apply smem_In in E. contradiction.
Qed.

Lemma snodup_NoDup l : snodup l = true -> NoDup l.
Proof.
  induction l as [|x r IH]; simpl; intros H.
  - constructor.
  - apply andb_true_iff in H. destruct H as [H1 H2]. constructor.
    + apply negb_true_iff in H1. apply smem_false in H1. exact H1.
    + apply IH. exact H2.
Qed.

Lemma sget_In {A} k (l : list (string * A)) v : sget k l = Some v -> In (k, v) l.
Proof.
  induction l as [|[k' v'] r IH]; simpl; [discriminate|].
  destruct (String.eqb k k') eqn:E.
  - intros H. inversion H. subst. apply String.eqb_eq in E. subst. now left.
  - intros H. right. apply IH. exact H.
Qed.

Lemma sget_some_of_mem {A} k (l : list (string * A)) : smem k (map fst l) = true -> exists v, sget k l = Some v.
Proof.
  induction l as [|[k' v'] r IH]; simpl; [discriminate|].
  unfold smem in *. simpl. destruct (String.eqb k k') eqn:E; simpl.
  - intros _. eexists. reflexivity.
  - exact IH.
Qed.

Lemma sget_mem {A} k (l : list (string * A)) v : sget k l = Some v -> smem k (map fst l) = true.
Proof.
  intros H. apply smem_In. apply sget_In in H. change k with (fst (k, v)). apply in_map. exact H.
Qed.

Lemma sget_sset_same {A} k (v : A) l : sget k (sset k v l) = Some v.
Proof.
  induction l as [|[k' v'] r IH]; simpl.
  - rewrite seqb_refl. reflexivity.
  - destruct (String.eqb k k') eqn:E; simpl.
    + rewrite seqb_refl. reflexivity.
    + rewrite E. exact IH.
Qed.

Lemma sget_sset_other {A} k k' (v : A) l : k <> k' -> sget k (sset k' v l) = sget k l.
Proof.
  intros Hne. induction l as [|[k2 v2] r IH]; simpl.
  - destruct (String.eqb k k') eqn:E; [apply String.eqb_eq in E; contradiction|reflexivity].
  - destruct (String.eqb k' k2) eqn:E2; simpl.
    + apply String.eqb_eq in E2. subst k2.
      destruct (String.eqb k k') eqn:E; [apply String.eqb_eq in E; contradiction|reflexivity].
    + destruct (String.eqb k k2); [reflexivity|exact IH].
Qed.

(* ---------- map_opt ---------- *)
Lemma map_opt_all {A B} (f : A -> option B) l :
  (forall x, In x l -> exists y, f x = Some y) -> exists ys, map_opt f l = Some ys.
Proof.
  induction l as [|x r IH]; simpl; intros H.
  - eexists. reflexivity.
  - destruct (H x (or_introl eq_refl)) as [y Hy]. rewrite Hy.
    destruct IH as [ys Hys]. { intros z Hz. apply H. now right. }
    rewrite Hys. eexists. reflexivity.
Qed.

Lemma map_opt_cons {A B} (f : A -> option B) x r ys :
  map_opt f (x :: r) = Some ys -> exists y ys', f x = Some y /\ map_opt f r = Some ys' /\ ys = y :: ys'.
Proof.
  simpl. destruct (f x) as [y|]; [|discriminate]. destruct (map_opt f r) as [ys'|]; [|discriminate].
  intros H. inversion H. eauto.
Qed.

Lemma map_opt_length {A B} (f : A -> option B) l ys : map_opt f l = Some ys -> List.length ys = List.length l.
Proof.
  revert ys. induction l as [|x r IH]; simpl; intros ys H.
  - inversion H. reflexivity.
  - apply (map_opt_cons f x r ys) in H. destruct H as [y [ys' [_ [H2 ->]]]]. simpl. f_equal. apply IH. exact H2.
Qed.

Lemma map_opt_nonempty {A B} (f : A -> option B) l ys : map_opt f l = Some ys -> l <> nil -> ys <> nil.
Proof.
  intros H Hne. destruct l; [contradiction|]. apply map_opt_cons in H. destruct H as [y [ys' [_ [_ ->]]]]. discriminate.
Qed.

(* ---------- enum tables ---------- *)
Lemma find_by_value_sget ms m v :
  snodup (map snd ms) = true -> sget m ms = Some v -> find_by_value v ms = Some m.
Proof.
  induction ms as [|[n v'] r IH]; simpl; [discriminate|].
  intros Hnd Hg. apply andb_true_iff in Hnd. destruct Hnd as [Hn Hnd].
  destruct (String.eqb m n) eqn:E.
  - inversion Hg. subst v'. apply String.eqb_eq in E. subst n. rewrite seqb_refl. reflexivity.
  - destruct (String.eqb v v') eqn:Ev.
    + apply String.eqb_eq in Ev. subst v'. apply negb_true_iff in Hn. apply smem_false in Hn.
      exfalso. apply Hn. apply sget_In in Hg. change v with (snd (m, v)). apply in_map. exact Hg.
    + apply IH; assumption.
Qed.

Section EnumFacts.
Variable ET : list (string * list (string * string)).

Lemma enum_has_value cls m : enum_has ET cls m = true -> exists v, enum_value ET cls m = Some v.
Proof. unfold enum_has, enum_value. apply sget_some_of_mem. Qed.

Lemma enum_by_name_has cls m : enum_has ET cls m = true -> enum_by_name ET cls m = Some m.
Proof. unfold enum_by_name. intros ->. reflexivity. Qed.
End EnumFacts.

(* ---------- sorting by id ---------- *)
Section Sorting.
Variable jtext : Type.

Lemma sort_sorted (l : list (row jtext)) : strs_ascending (map (row_id jtext) l) = true -> sort_by_id jtext l = l.
Proof.
  induction l as [|x r IH]; [reflexivity|].
  intros H. simpl in H. unfold sort_by_id in *. simpl. destruct r as [|y r'].
  - reflexivity.
  - simpl in H. apply andb_true_iff in H. destruct H as [Hlt Hr]. rewrite (IH Hr). simpl. rewrite Hlt. reflexivity.
Qed.

Lemma select_tasks_sorted ord (l : list (row jtext)) :
  ord = [("id", true)] -> strs_ascending (map (row_id jtext) l) = true -> select_tasks jtext ord l = Some l.
Proof. intros -> H. simpl. rewrite (sort_sorted l H). reflexivity. Qed.
End Sorting.

(* ================================================================================================ *)
Lemma veq_refl v : veq v v.
Proof. destruct v; simpl; auto. Qed.

Lemma veq_of_eq a b : a = b -> veq a b.
Proof. intros ->. apply veq_refl. Qed.

Section Proofs.
Variable jtext : Type.
Variable enc : pyval -> jtext.
Variable dec : jtext -> option pyval.
Variable jempty : jtext -> bool.
Variable order : list pyval -> list pyval.
Variable ET : list (string * list (string * string)).
Variable OS : list objspec.

Hypothesis dec_enc : forall v, jrep v = true -> dec (enc v) = Some v.
Hypothesis enc_nonempty : forall v, jempty (enc v) = false.
Hypothesis order_perm : forall l, Permutation (order l) l.

Notation colval := (colval jtext).
Notation row := (row jtext).
Notation encode := (encode jtext enc order ET OS).
Notation decode := (decode jtext dec jempty ET OS).
Notation sql_store := (sql_store jtext).
Notation col_truthy := (col_truthy jtext jempty).
Notation write_col := (write_col jtext enc order ET OS).
Notation to_row := (to_row jtext enc order ET OS).
Notation read_field := (read_field jtext dec jempty ET OS).
Notation update_col := (update_col jtext enc order ET OS).
Notation apply_update := (apply_update jtext enc order ET OS).
Notation w_ok := (w_ok ET OS).
Notation wf_value := (wf_value ET OS).
Notation wf_obj := (wf_obj OS).
Notation codec_ok := (codec_ok ET OS).
Notation record_ok := (record_ok ET OS).
Notation value_ok := (value_ok ET OS).

Lemma truthy_json v : col_truthy (CJson (enc v)) = true.
Proof. simpl. rewrite enc_nonempty. reflexivity. Qed.

(* ---------- nested objects ---------- *)
Lemma wf_flat_jrep t v : wf_flat t v = true -> jrep v = true.
Proof.
  destruct t; try destruct t; destruct v; simpl; try discriminate; auto.
Qed.

Lemma wf_fields_names fts fs : wf_fields fts fs = true -> map fst fs = map fst fts.
Proof.
  revert fs. induction fts as [|[f t] r IH]; destruct fs as [|[f' v] r']; simpl; try discriminate; auto.
  intros H. apply andb_true_iff in H. destruct H as [H H3]. apply andb_true_iff in H. destruct H as [H1 H2].
  apply String.eqb_eq in H1. subst. f_equal. apply IH. exact H3.
Qed.

Lemma wf_fields_get fts fs f v : wf_fields fts fs = true -> sget f fs = Some v -> jrep v = true.
Proof.
  revert fs. induction fts as [|[f0 t] r IH]; destruct fs as [|[f' v'] r']; simpl; try discriminate.
  intros H. apply andb_true_iff in H. destruct H as [H H3]. apply andb_true_iff in H. destruct H as [H1 H2].
  destruct (String.eqb f f').
  - intros Hg. inversion Hg. subst. eapply wf_flat_jrep. exact H2.
  - apply IH. exact H3.
Qed.

Lemma fields_rebuild fts fs :
  wf_fields fts fs = true -> snodup (map fst fts) = true ->
  map (fun ft : string * ftype => (fst ft, match sget (fst ft) fs with Some v => v | None => VDefault end)) fts = fs.
Proof.
  revert fs. induction fts as [|[f t] r IH]; destruct fs as [|[f' v] r']; simpl; try discriminate; auto.
  intros H Hnd. apply andb_true_iff in H. destruct H as [H H3]. apply andb_true_iff in H. destruct H as [H1 H2].
  apply String.eqb_eq in H1. subst f'. apply andb_true_iff in Hnd. destruct Hnd as [Hn Hnd].
  rewrite seqb_refl. f_equal.
  etransitivity; [|exact (IH r' H3 Hnd)]. apply map_ext_in. intros [f2 t2] Hin. simpl.
  destruct (String.eqb f2 f) eqn:E; [|reflexivity].
  apply String.eqb_eq in E. subst f2. apply negb_true_iff in Hn. apply smem_false in Hn.
  exfalso. apply Hn. change f with (fst (f, t2)). apply in_map. exact Hin.
Qed.

(* the dict produced by to-dict: looking up key k gives the value of the field that to-dict binds to k *)
Lemma to_dict_get (to : list (string * string)) fs kvs k f :
  map_opt (fun kf : string * string => option_map (fun v => (KStr (fst kf), v)) (sget (snd kf) fs)) to = Some kvs ->
  sget k to = Some f -> kget (KStr k) kvs = sget f fs.
Proof.
  revert kvs. induction to as [|[k0 f0] r IH]; simpl; intros kvs H Hg; [discriminate|].
  destruct (sget f0 fs) as [v0|] eqn:E0; simpl in H; [|discriminate].
  destruct (map_opt _ r) as [kvs'|] eqn:Er; [|discriminate]. inversion H. subst kvs. simpl.
  destruct (String.eqb k k0) eqn:E.
  - inversion Hg. subst f0. symmetry. exact E0.
  - apply IH; [reflexivity|exact Hg].
Qed.

Lemma to_dict_jrep (to : list (string * string)) fts fs kvs :
  wf_fields fts fs = true ->
  map_opt (fun kf : string * string => option_map (fun v => (KStr (fst kf), v)) (sget (snd kf) fs)) to = Some kvs ->
  jrep (VDict kvs) = true.
Proof.
  intros Hwf. revert kvs. induction to as [|[k0 f0] r IH]; simpl; intros kvs H.
  - inversion H. reflexivity.
  - destruct (sget f0 fs) as [v0|] eqn:E0; simpl in H; [|discriminate].
    destruct (map_opt _ r) as [kvs'|] eqn:Er; [|discriminate]. inversion H. subst kvs. simpl.
    rewrite (wf_fields_get fts fs f0 v0 Hwf E0). simpl. apply (IH kvs' eq_refl).
Qed.

Lemma to_dict_total (to : list (string * string)) fts fs :
  wf_fields fts fs = true -> forallb (fun kf => smem (snd kf) (map fst fts)) to = true ->
  exists kvs, map_opt (fun kf : string * string => option_map (fun v => (KStr (fst kf), v)) (sget (snd kf) fs)) to = Some kvs.
Proof.
  intros Hwf Hall. apply map_opt_all. intros [k f] Hin. rewrite forallb_forall in Hall.
  specialize (Hall _ Hin). simpl in Hall. rewrite <- (wf_fields_names _ _ Hwf) in Hall.
  destruct (sget_some_of_mem f fs Hall) as [v Hv]. simpl. rewrite Hv. simpl. eexists. reflexivity.
Qed.

Lemma obj_roundtrip sp cls fs :
  spec_ok sp = true -> o_cls sp = cls -> wf_fields (o_fields sp) fs = true ->
  exists d, obj_to_dict sp fs = Some d /\ jrep d = true /\ py_truthy d = true /\ obj_of_dict sp d = Some (VObj cls fs).
Proof.
  intros Hok Hcls Hwf. unfold spec_ok in Hok.
  repeat (apply andb_true_iff in Hok; let H := fresh "Hs" in destruct Hok as [Hok H]).
  rename Hok into Hnd_names. rename Hs2 into Hnd_keys. rename Hs1 into Hne. rename Hs0 into Hfrom. rename Hs into Hto.
  destruct (to_dict_total (o_to sp) (o_fields sp) fs Hwf Hto) as [kvs Hkvs].
  exists (VDict kvs). unfold obj_to_dict. rewrite Hkvs. simpl. split; [reflexivity|]. split.
  - eapply to_dict_jrep; eassumption.
  - split.
    + destruct kvs; [|reflexivity]. exfalso. eapply (map_opt_nonempty _ _ _ Hkvs); [|reflexivity].
      destruct (o_to sp); [discriminate|discriminate].
    + rewrite Hcls. f_equal. f_equal.
      etransitivity; [|exact (fields_rebuild (o_fields sp) fs Hwf Hnd_names)].
      apply map_ext_in. intros [f t] Hin. simpl. f_equal.
      rewrite forallb_forall in Hfrom. specialize (Hfrom f). unfold spec_names in Hfrom.
      assert (Hf : In f (map fst (o_fields sp))). { change f with (fst (f, t)). apply in_map. exact Hin. }
      specialize (Hfrom Hf). destruct (find_from f (o_from sp)) as [[k dflt]|]; [|discriminate].
      destruct (sget k (o_to sp)) as [f'|] eqn:Ek; [|discriminate]. apply String.eqb_eq in Hfrom. subst f'.
      rewrite (to_dict_get (o_to sp) fs kvs k f Hkvs Ek).
      rewrite <- (wf_fields_names _ _ Hwf) in Hf. apply smem_In in Hf.
      destruct (sget_some_of_mem f fs Hf) as [v Hv]. rewrite Hv. reflexivity.
Qed.

Lemma find_spec_cls cls sp : find_spec cls OS = Some sp -> o_cls sp = cls.
Proof.
  induction OS as [|x r IH]; simpl; [discriminate|].
  destruct (String.eqb cls (o_cls x)) eqn:E.
  - intros H. inversion H. subst. apply String.eqb_eq in E. auto.
  - exact IH.
Qed.

(* ---------- one field: encode, store, decode ---------- *)
Lemma enum_value_roundtrip cls m :
  enum_values_ok ET cls = true -> enum_has ET cls m = true ->
  exists val, enum_value ET cls m = Some val /\ enum_by_value ET cls val = Some m /\ String.eqb val "" = false.
Proof.
  intros Hok Hhas. unfold enum_values_ok in Hok.
  apply andb_true_iff in Hok. destruct Hok as [Hok Hne]. apply andb_true_iff in Hok. destruct Hok as [Hv Hn].
  destruct (enum_has_value ET cls m Hhas) as [val Hval]. exists val. split; [exact Hval|]. split.
  - unfold enum_by_value. apply find_by_value_sget; assumption.
  - rewrite forallb_forall in Hne. unfold enum_value in Hval. apply sget_In in Hval.
    specialize (Hne _ Hval). simpl in Hne. apply negb_true_iff in Hne. exact Hne.
Qed.

Lemma wf_obj_inv cls v :
  wf_obj cls v = true -> exists fs sp, v = VObj cls fs /\ find_spec cls OS = Some sp /\ wf_fields (o_fields sp) fs = true.
Proof.
  unfold Codec.wf_obj. destruct v; try discriminate. destruct (find_spec cls OS) as [sp|] eqn:E; [|discriminate].
  intros H. apply andb_true_iff in H. destruct H as [H1 H2]. apply String.eqb_eq in H1. subst. eauto.
Qed.

Lemma obj_field_roundtrip cls v sp :
  find_spec cls OS = Some sp -> spec_ok sp = true -> wf_obj cls v = true ->
  exists d, enc_obj jtext enc OS cls v = Some (CJson (enc d)) /\ jrep d = true /\ py_truthy d = true
            /\ dec_obj OS cls d = Some v.
Proof.
  intros Hsp Hok Hwf. destruct (wf_obj_inv cls v Hwf) as [fs [sp' [-> [Hsp' Hfs]]]].
  rewrite Hsp in Hsp'. inversion Hsp'. subst sp'.
  destruct (obj_roundtrip sp cls fs Hok (find_spec_cls cls sp Hsp) Hfs) as [d [Hd [Hj [Ht Hof]]]].
  exists d. unfold enc_obj, dec_obj. rewrite Hsp, seqb_refl, Hd. simpl. auto.
Qed.

Definition stored_ok (c : column) (s : colval) : Prop := (c_notnull c && is_null jtext s) = false.

Lemma int64_to_col z : int64 z = true -> to_col jtext (VInt z) = Some (CInt z).
Proof. intros H. simpl. rewrite H. reflexivity. Qed.

(* the statement does not raise and NOT NULL is respected *)
Lemma encode_total t c wk v :
  w_ok t (c_aff c) wk = true -> value_ok t c wk v = true ->
  exists cv, encode wk v = Some cv /\ stored_ok c (sql_store (c_aff c) cv).
Proof.
  unfold Codec.value_ok, stored_ok. intros Hw Hv.
  repeat (apply andb_true_iff in Hv; let H := fresh "Hv" in destruct Hv as [Hv H]).
  rename Hv into Hwf. rename Hv2 into Hconst. rename Hv1 into Hrange. rename Hv0 into Hnn.
  unfold Codec.notnull_ok in Hnn.
  destruct wk; simpl in Hw.
  - (* WRaw *)
    destruct t as [| | | | | | | | |t'|]; try discriminate; try destruct t'; destruct (c_aff c) eqn:Ea; try discriminate;
      destruct v; simpl in Hwf; try discriminate; simpl in Hrange; simpl; try rewrite Hrange;
      eexists; (split; [reflexivity|]); simpl; try rewrite andb_false_r; auto;
      destruct (c_notnull c); simpl in *; auto.
  - (* WParam *)
    destruct t; try discriminate. destruct (c_aff c) eqn:Ea; try discriminate.
    destruct v; simpl in Hwf; try discriminate. simpl. eexists. split; [reflexivity|]. simpl. apply andb_false_r.
  - (* WConst *)
    simpl. eexists. split; [reflexivity|]. destruct t; try discriminate. destruct (c_aff c); try discriminate.
    simpl. apply andb_false_r.
  - discriminate.
  - (* WEnumName *)
    destruct t; try discriminate. destruct (c_aff c); try discriminate.
    destruct v; simpl in Hwf; try discriminate. simpl. eexists. split; [reflexivity|]. simpl. apply andb_false_r.
  - (* WEnumValue *)
    destruct t; try discriminate. destruct (c_aff c); try discriminate.
    destruct v; simpl in Hwf; try discriminate. apply andb_true_iff in Hwf. destruct Hwf as [Hc Hhas].
    apply String.eqb_eq in Hc. subst cls0.
    destruct (enum_value_roundtrip cls member Hw Hhas) as [val [Hval _]].
    simpl. rewrite Hval. simpl. eexists. split; [reflexivity|]. simpl. apply andb_false_r.
  - (* WOptEnumValue *)
    destruct t as [| | | | | | | | |t'|]; try discriminate. destruct t'; try discriminate.
    destruct (c_aff c); try discriminate.
    destruct v; simpl in Hwf; try discriminate.
    + simpl. eexists. split; [reflexivity|]. simpl. destruct (c_notnull c); simpl in *; auto.
    + apply andb_true_iff in Hwf. destruct Hwf as [Hc Hhas]. apply String.eqb_eq in Hc. subst cls0.
      destruct (enum_value_roundtrip cls member Hw Hhas) as [val [Hval _]].
      simpl. rewrite Hval. simpl. eexists. split; [reflexivity|]. simpl. apply andb_false_r.
  - (* WJson *)
    simpl. eexists. split; [reflexivity|].
    destruct t; try discriminate; destruct (c_aff c); try discriminate; simpl; apply andb_false_r.
  - (* WJsonList *)
    destruct t; try discriminate. destruct (c_aff c); try discriminate.
    destruct v; simpl in Hwf; try discriminate. simpl. eexists. split; [reflexivity|]. simpl. apply andb_false_r.
  - (* WJsonObj *)
    destruct t; try discriminate. destruct (c_aff c); try discriminate.
    apply andb_true_iff in Hw. destruct Hw as [Hc Hsp]. apply String.eqb_eq in Hc. subst cls0.
    destruct (find_spec cls OS) as [sp|] eqn:Esp; [|discriminate].
    apply andb_true_iff in Hsp. destruct Hsp as [Hsp _].
    simpl in Hwf. destruct (obj_field_roundtrip cls v sp Esp Hsp Hwf) as [d [Hd _]].
    simpl. rewrite Hd. eexists. split; [reflexivity|]. simpl. apply andb_false_r.
  - (* WOptJsonObj *)
    destruct t as [| | | | | | | | |t'|]; try discriminate. destruct t'; try discriminate.
    destruct (c_aff c); try discriminate.
    apply andb_true_iff in Hw. destruct Hw as [Hc Hsp]. apply String.eqb_eq in Hc. subst cls0.
    destruct (find_spec cls OS) as [sp|] eqn:Esp; [|discriminate].
    apply andb_true_iff in Hsp. destruct Hsp as [Hsp _].
    simpl in Hwf. destruct v; try (exfalso; apply wf_obj_inv in Hwf; destruct Hwf as [? [? [? _]]]; discriminate).
    + simpl. eexists. split; [reflexivity|]. simpl. destruct (c_notnull c); simpl in *; auto.
    + destruct (obj_field_roundtrip cls _ sp Esp Hsp Hwf) as [d [Hd _]].
      simpl. simpl in Hd. rewrite Hd. eexists. split; [reflexivity|]. simpl. apply andb_false_r.
  - (* WBool01 *)
    simpl. eexists. split; [reflexivity|]. destruct t; try discriminate. destruct (c_aff c); try discriminate.
    simpl. apply andb_false_r.
Qed.

Lemma forallb_perm {A} (f : A -> bool) l l' : Permutation l l' -> forallb f l' = true -> forallb f l = true.
Proof.
  intros Hp H. rewrite forallb_forall in *. intros x Hx. apply H. eapply Permutation_in; eassumption.
Qed.

Lemma vstr_jrep l : forallb is_vstr l = true -> forallb jrep l = true.
Proof.
  intros H. rewrite forallb_forall in *. intros x Hx. specialize (H x Hx). destruct x; try discriminate. reflexivity.
Qed.

Lemma raw_cases t a v :
  raw_type_ok t a = true -> wf_value t v = true -> range_ok v = true ->
  v = VNone \/ (exists s, v = VStr s /\ a = AText) \/ (exists z, v = VInt z /\ a = AInteger /\ int64 z = true).
Proof.
  intros Hw Hwf Hrange.
  destruct t as [| | | | | | | | |t'|]; try discriminate; try destruct t'; destruct a; try discriminate;
    destruct v; simpl in Hwf; try discriminate; simpl in Hrange; eauto 8.
Qed.

(* what is read back from the stored value is the value written *)
Lemma field_roundtrip t a wk rk v cv :
  w_ok t a wk = true -> inv_ok t wk rk = true ->
  wf_value t v = true -> const_ok wk v = true -> range_ok v = true -> or_ok rk v = true ->
  encode wk v = Some cv ->
  exists v', decode rk (sql_store a cv) = Some v' /\ veq v' v.
Proof.
  intros Hw Hi Hwf Hconst Hrange Hor Henc.
  destruct wk; destruct rk; simpl in Hi; try discriminate.
  - (* WRaw, RRaw *)
    simpl in Hw. destruct (raw_cases t a v Hw Hwf Hrange) as [-> | [[s [-> ->]] | [z [-> [-> Hz]]]]];
      simpl in Henc; try rewrite Hz in Henc; inversion Henc; subst cv; try (destruct a); simpl;
      eexists; (split; [reflexivity|apply veq_refl]).
  - (* WRaw, ROr *)
    simpl in Hw. destruct (raw_cases t a v Hw Hwf Hrange) as [-> | [[s [-> ->]] | [z [-> [-> Hz]]]]];
      simpl in Henc; try rewrite Hz in Henc; inversion Henc; subst cv; simpl in Hor; simpl.
    + discriminate.
    + destruct (String.eqb s "") eqn:E; simpl in *.
      * destruct d; try discriminate. apply String.eqb_eq in Hor. apply String.eqb_eq in E. subst.
        eexists. split; [reflexivity|apply veq_refl].
      * eexists. split; [reflexivity|apply veq_refl].
    + destruct (Z.eqb z 0) eqn:E; simpl in *.
      * destruct d; try discriminate. apply Z.eqb_eq in Hor. apply Z.eqb_eq in E. subst.
        eexists. split; [reflexivity|apply veq_refl].
      * eexists. split; [reflexivity|apply veq_refl].
  - (* WConst, RRaw *)
    simpl in Hw. destruct t; try discriminate. destruct a; try discriminate.
    destruct v; simpl in Hconst; try discriminate. apply Z.eqb_eq in Hconst. subst z0.
    simpl in Henc. inversion Henc. subst cv. simpl. eexists. split; [reflexivity|apply veq_refl].
  - (* WConst, ROr *)
    simpl in Hw. destruct t; try discriminate. destruct a; try discriminate.
    destruct v; simpl in Hconst; try discriminate. apply Z.eqb_eq in Hconst. subst z0.
    simpl in Henc. inversion Henc. subst cv. destruct d; simpl in Hi; try discriminate. simpl in Hor. simpl.
    destruct (Z.eqb z 0) eqn:E; simpl in *.
    + apply Z.eqb_eq in Hor. apply Z.eqb_eq in E. subst. eexists. split; [reflexivity|apply veq_refl].
    + eexists. split; [reflexivity|apply veq_refl].
  - (* WEnumName, REnumByName *)
    simpl in Hw. destruct t; try discriminate. destruct a; try discriminate.
    apply String.eqb_eq in Hi. subst cls0.
    destruct v; simpl in Hwf; try discriminate. apply andb_true_iff in Hwf. destruct Hwf as [Hc Hhas].
    apply String.eqb_eq in Hc. subst cls0. simpl in Henc. inversion Henc. subst cv. simpl.
    rewrite (enum_by_name_has ET cls member Hhas). simpl. eexists. split; [reflexivity|apply veq_refl].
  - (* WEnumValue, REnumByValue *)
    simpl in Hw. destruct t; try discriminate. destruct a; try discriminate.
    apply String.eqb_eq in Hi. subst cls0.
    destruct v; simpl in Hwf; try discriminate. apply andb_true_iff in Hwf. destruct Hwf as [Hc Hhas].
    apply String.eqb_eq in Hc. subst cls0.
    destruct (enum_value_roundtrip cls member Hw Hhas) as [val [Hval [Hback _]]].
    simpl in Henc. rewrite Hval in Henc. simpl in Henc. inversion Henc. subst cv. simpl.
    unfold dec_enum_value. rewrite Hback. simpl. eexists. split; [reflexivity|apply veq_refl].
  - (* WEnumValue, REnumByValueOr *)
    simpl in Hw. destruct t; try discriminate. destruct a; try discriminate.
    apply String.eqb_eq in Hi. subst cls0.
    destruct v; simpl in Hwf; try discriminate. apply andb_true_iff in Hwf. destruct Hwf as [Hc Hhas].
    apply String.eqb_eq in Hc. subst cls0.
    destruct (enum_value_roundtrip cls member Hw Hhas) as [val [Hval [Hback Hne]]].
    simpl in Henc. rewrite Hval in Henc. simpl in Henc. inversion Henc. subst cv. simpl.
    rewrite Hne. simpl. rewrite Hback. simpl. eexists. split; [reflexivity|apply veq_refl].
  - (* WOptEnumValue, ROptEnumByValue *)
    simpl in Hw. destruct t as [| | | | | | | | |t'|]; try discriminate. destruct t'; try discriminate.
    destruct a; try discriminate. apply String.eqb_eq in Hi. subst cls0.
    destruct v; simpl in Hwf; try discriminate.
    + simpl in Henc. inversion Henc. subst cv. simpl. eexists. split; [reflexivity|apply veq_refl].
    + apply andb_true_iff in Hwf. destruct Hwf as [Hc Hhas]. apply String.eqb_eq in Hc. subst cls0.
      destruct (enum_value_roundtrip cls member Hw Hhas) as [val [Hval [Hback Hne]]].
      simpl in Henc. rewrite Hval in Henc. simpl in Henc. inversion Henc. subst cv. simpl.
      rewrite Hne. simpl. rewrite Hback. simpl. eexists. split; [reflexivity|apply veq_refl].
  - (* WJson, RJson *)
    simpl in Hw. simpl in Henc. inversion Henc. subst cv.
    assert (Hj : jrep v = true).
    { destruct t; try discriminate; destruct a; try discriminate;
      match type of Hwf with Codec.wf_value _ _ ?t0 _ = true => exact (wf_flat_jrep t0 v Hwf) end. }
    assert (Ha : a = AText) by (destruct t; try discriminate; destruct a; try discriminate; reflexivity). subst a.
    simpl. unfold dec_json_or. rewrite truthy_json. rewrite (dec_enc v Hj). eexists. split; [reflexivity|apply veq_refl].
  - (* WJson, RJsonIfStr *)
    simpl in Hw. simpl in Henc. inversion Henc. subst cv.
    assert (Hj : jrep v = true).
    { destruct t; try discriminate; destruct a; try discriminate;
      match type of Hwf with Codec.wf_value _ _ ?t0 _ = true => exact (wf_flat_jrep t0 v Hwf) end. }
    assert (Ha : a = AText) by (destruct t; try discriminate; destruct a; try discriminate; reflexivity). subst a.
    simpl. unfold dec_json_or. rewrite truthy_json. rewrite (dec_enc v Hj). eexists. split; [reflexivity|apply veq_refl].
  - (* WJsonList, RSetOfJson *)
    simpl in Hw. destruct t; try discriminate. destruct a; try discriminate.
    destruct v; simpl in Hwf; try discriminate. simpl in Henc. inversion Henc. subst cv. simpl.
    unfold dec_json_or. rewrite truthy_json.
    assert (Hj : jrep (VList (order l0)) = true).
    { simpl. apply vstr_jrep. eapply forallb_perm; [apply order_perm|exact Hwf]. }
    rewrite (dec_enc _ Hj). eexists. split; [reflexivity|]. simpl. apply order_perm.
  - (* WJsonObj, RJsonObj *)
    simpl in Hw. destruct t; try discriminate. destruct a; try discriminate.
    apply andb_true_iff in Hi. destruct Hi as [Hi _]. apply String.eqb_eq in Hi. subst cls0.
    apply andb_true_iff in Hw. destruct Hw as [Hc Hsp]. apply String.eqb_eq in Hc. subst cls1.
    destruct (find_spec cls OS) as [sp|] eqn:Esp; [|discriminate].
    apply andb_true_iff in Hsp. destruct Hsp as [Hsp _]. simpl in Hwf.
    destruct (obj_field_roundtrip cls v sp Esp Hsp Hwf) as [d [Hd [Hj [_ Hback]]]].
    simpl in Henc. rewrite Hd in Henc. inversion Henc. subst cv. simpl.
    unfold dec_json_or. rewrite truthy_json. rewrite (dec_enc d Hj). rewrite Hback.
    eexists. split; [reflexivity|apply veq_refl].
  - (* WOptJsonObj, ROptJsonObj *)
    simpl in Hw. destruct t as [| | | | | | | | |t'|]; try discriminate. destruct t'; try discriminate.
    destruct a; try discriminate. apply String.eqb_eq in Hi. subst cls0.
    apply andb_true_iff in Hw. destruct Hw as [Hc Hsp]. apply String.eqb_eq in Hc. subst cls1.
    destruct (find_spec cls OS) as [sp|] eqn:Esp; [|discriminate].
    apply andb_true_iff in Hsp. destruct Hsp as [Hsp _]. simpl in Hwf.
    destruct v; try (exfalso; apply wf_obj_inv in Hwf; destruct Hwf as [? [? [? _]]]; discriminate).
    + simpl in Henc. inversion Henc. subst cv. simpl. eexists. split; [reflexivity|apply veq_refl].
    + destruct (obj_field_roundtrip cls _ sp Esp Hsp Hwf) as [d [Hd [Hj [Ht Hback]]]].
      simpl in Henc. simpl in Hd. rewrite Hd in Henc. inversion Henc. subst cv.
      simpl. rewrite enc_nonempty. simpl. rewrite (dec_enc d Hj). rewrite Ht. rewrite Hback.
      eexists. split; [reflexivity|apply veq_refl].
  - (* WBool01, RBool *)
    simpl in Hw. destruct t; try discriminate. destruct a; try discriminate.
    destruct v; simpl in Hwf; try discriminate. simpl in Henc. inversion Henc. subst cv.
    destruct b; simpl; eexists; (split; [reflexivity|apply veq_refl]).
Qed.

(* ---------- rows ---------- *)
Lemma write_col_fst cols r e y : write_col cols r e = Some y -> fst y = w_col e.
Proof.
  unfold Codec.write_col. destruct (sget (w_field e) r); [|discriminate]. destruct (find_col (w_col e) cols); [|discriminate].
  destruct (encode (w_kind e) p); [|discriminate].
  destruct (c_notnull c && is_null jtext (sql_store (c_aff c) c0)); [discriminate|]. intros H. inversion H. reflexivity.
Qed.

Lemma to_row_get cols W r rw c e :
  to_row cols W r = Some rw -> find_w c W = Some e ->
  exists s, write_col cols r e = Some (c, s) /\ sget c rw = Some s.
Proof.
  unfold Codec.to_row. revert rw. induction W as [|e0 W' IH]; simpl; intros rw H Hf; [discriminate|].
  destruct (write_col cols r e0) as [[c0 s0]|] eqn:E0; [|discriminate].
  destruct (map_opt _ W') as [ys|] eqn:Er; [|discriminate]. inversion H. subst rw.
  pose proof (write_col_fst cols r e0 _ E0) as Hc0. simpl in Hc0. subst c0. simpl.
  destruct (String.eqb c (w_col e0)) eqn:E.
  - inversion Hf. subst e0. apply String.eqb_eq in E. subst c. exists s0. auto.
  - apply (IH ys eq_refl Hf).
Qed.

Lemma find_w_In c W e : find_w c W = Some e -> In e W /\ w_col e = c.
Proof.
  induction W as [|e0 r IH]; simpl; [discriminate|].
  destruct (String.eqb c (w_col e0)) eqn:E.
  - intros H. inversion H. subst. apply String.eqb_eq in E. auto.
  - intros H. destruct (IH H). auto.
Qed.

Lemma find_r_field f R e : find_r f R = Some e -> r_field e = f.
Proof.
  induction R as [|e0 r IH]; simpl; [discriminate|].
  destruct (String.eqb f (r_field e0)) eqn:E.
  - intros H. inversion H. subst. apply String.eqb_eq in E. auto.
  - exact IH.
Qed.

(* the W-part of codec_ok and record_ok, for one entry *)
Lemma entry_facts FT cols W R listed r e :
  codec_ok FT cols W R listed = true -> record_ok FT cols W R listed r = true -> In e W ->
  exists v t c, sget (w_field e) r = Some v /\ field_type FT (w_kind e) (w_field e) = Some t
                /\ find_col (w_col e) cols = Some c /\ w_ok t (c_aff c) (w_kind e) = true
                /\ value_ok t c (w_kind e) v = true.
Proof.
  unfold Codec.codec_ok, Codec.record_ok. intros Hc Hr Hin.
  apply andb_true_iff in Hc. destruct Hc as [Hc _]. apply andb_true_iff in Hc. destruct Hc as [_ Hw].
  apply andb_true_iff in Hr. destruct Hr as [Hr _].
  rewrite forallb_forall in Hw, Hr. specialize (Hw e Hin). specialize (Hr e Hin).
  destruct (sget (w_field e) r) as [v|]; [|discriminate].
  destruct (field_type FT (w_kind e) (w_field e)) as [t|]; [|discriminate].
  destruct (find_col (w_col e) cols) as [c|]; [|discriminate].
  exists v, t, c. auto.
Qed.

Lemma write_col_ok FT cols W R listed r e :
  codec_ok FT cols W R listed = true -> record_ok FT cols W R listed r = true -> In e W ->
  exists y, write_col cols r e = Some y.
Proof.
  intros Hc Hr Hin. destruct (entry_facts FT cols W R listed r e Hc Hr Hin) as [v [t [c [Hv [Ht [Hcol [Hw Hval]]]]]]].
  destruct (encode_total t c (w_kind e) v Hw Hval) as [cv [Henc Hst]].
  unfold Codec.write_col. rewrite Hv, Hcol, Henc. unfold stored_ok in Hst. rewrite Hst. eexists. reflexivity.
Qed.

Theorem roundtrip_sound FT cols W R listed r :
  codec_ok FT cols W R listed = true ->
  record_ok FT cols W R listed r = true ->
  exists rw, to_row cols W r = Some rw /\
    forall f, In f listed ->
      exists v v', sget f r = Some v /\ read_field R rw f = Some v' /\ veq v' v.
Proof.
  intros Hc Hr.
  destruct (map_opt_all (write_col cols r) W) as [rw Hrw].
  { intros e Hin. eapply write_col_ok; eassumption. }
  exists rw. split; [exact Hrw|]. intros f Hf.
  pose proof Hc as Hc'. pose proof Hr as Hr'.
  unfold Codec.codec_ok in Hc'. apply andb_true_iff in Hc'. destruct Hc' as [_ Hl].
  unfold Codec.record_ok in Hr'. apply andb_true_iff in Hr'. destruct Hr' as [_ Hlr].
  rewrite forallb_forall in Hl, Hlr. specialize (Hl f Hf). specialize (Hlr f Hf).
  destruct (find_r f R) as [re|] eqn:Ere; [|discriminate].
  destruct (find_w (r_col re) W) as [we|] eqn:Ewe; [|discriminate].
  apply andb_true_iff in Hl. destruct Hl as [Hfe Hinv]. apply String.eqb_eq in Hfe.
  destruct (sget f FT) as [t|] eqn:Eft; [|discriminate].
  destruct (sget f r) as [v|] eqn:Ev; [|discriminate].
  destruct (find_w_In _ _ _ Ewe) as [Hin Hcol].
  destruct (entry_facts FT cols W R listed r we Hc Hr Hin) as [v0 [t0 [c [Hv0 [Ht0 [Hfc [Hw Hval]]]]]]].
  rewrite Hfe, Ev in Hv0. inversion Hv0. subst v0.
  assert (t0 = t).
  { unfold Codec.field_type in Ht0. destruct (w_kind we); try (rewrite Hfe, Eft in Ht0; inversion Ht0; reflexivity).
    simpl in Hinv. destruct (r_kind re); discriminate. }
  subst t0.
  destruct (to_row_get cols W r rw (r_col re) we Hrw Ewe) as [s [Hws Hget]].
  unfold Codec.write_col in Hws. rewrite Hfe, Ev, Hfc in Hws.
  destruct (encode (w_kind we) v) as [cv|] eqn:Eenc; [|discriminate].
  destruct (c_notnull c && is_null jtext (sql_store (c_aff c) cv)); [discriminate|].
  inversion Hws. subst s.
  unfold Codec.value_ok in Hval.
  repeat (apply andb_true_iff in Hval; let H := fresh "Hq" in destruct Hval as [Hval H]).
  destruct (field_roundtrip t (c_aff c) (w_kind we) (r_kind re) v cv Hw Hinv Hval Hq1 Hq0 Hlr Eenc) as [v' [Hd Hveq]].
  exists v, v'. split; [reflexivity|]. split; [|exact Hveq].
  unfold Codec.read_field. rewrite Ere, Hget. exact Hd.
Qed.

(* a listed field that the reader does not mention is not read back at all *)
Lemma dropped_field_not_read R rw f : find_r f R = None -> read_field R rw f = None.
Proof. unfold Codec.read_field. intros ->. reflexivity. Qed.

(* ---------- UPDATE ---------- *)
Lemma apply_sets_other (l : list (string * colval)) (rw : row) c :
  ~ In c (map fst l) -> sget c (apply_sets jtext l rw) = sget c rw.
Proof.
  revert rw. induction l as [|[c0 v0] r IH]; simpl; intros rw H; [reflexivity|].
  rewrite IH; [|tauto]. apply sget_sset_other. intros ->. tauto.
Qed.

Lemma apply_sets_in (l : list (string * colval)) (rw : row) c v :
  NoDup (map fst l) -> In (c, v) l -> sget c (apply_sets jtext l rw) = Some v.
Proof.
  revert rw. induction l as [|[c0 v0] r IH]; simpl; intros rw Hnd Hin; [contradiction|].
  inversion Hnd as [|? ? Hn Hnd']. subst. destruct Hin as [Hin|Hin].
  - inversion Hin. subst. rewrite apply_sets_other; [|exact Hn]. apply sget_sset_same.
  - apply IH; assumption.
Qed.

Lemma update_col_fst cols s rw e y : update_col cols s rw e = Some y -> fst y = w_col e.
Proof.
  unfold Codec.update_col. destruct (w_kind e); try apply write_col_fst.
  destruct (sget (w_col e) rw) as [[]|]; try discriminate. intros H. inversion H. reflexivity.
Qed.

Lemma map_opt_fst cols s rw U sets :
  map_opt (update_col cols s rw) U = Some sets -> map fst sets = map w_col U.
Proof.
  revert sets. induction U as [|e r IH]; simpl; intros sets H.
  - inversion H. reflexivity.
  - destruct (update_col cols s rw e) as [y|] eqn:E; [|discriminate].
    destruct (map_opt _ r) as [ys|] eqn:Er; [|discriminate]. inversion H. subst. simpl.
    f_equal; [eapply update_col_fst; exact E|apply IH; reflexivity].
Qed.

Lemma map_opt_in {A B} (f : A -> option B) l ys x :
  map_opt f l = Some ys -> In x l -> exists y, f x = Some y /\ In y ys.
Proof.
  revert ys. induction l as [|a r IH]; simpl; intros ys H Hin; [contradiction|].
  destruct (f a) as [y|] eqn:E; [|discriminate]. destruct (map_opt f r) as [ys'|] eqn:Er; [|discriminate].
  inversion H. subst. destruct Hin as [<-|Hin].
  - exists y. split; [exact E|now left].
  - destruct (IH ys' eq_refl Hin) as [y' [H1 H2]]. exists y'. split; [exact H1|now right].
Qed.

(* FRAME: a column that the SET list does not mention keeps its value *)
Theorem update_frame cols U s (rw rw' : row) c :
  apply_update cols U s rw = Some rw' -> ~ In c (map w_col U) -> sget c rw' = sget c rw.
Proof.
  unfold Codec.apply_update. destruct (map_opt _ U) as [sets|] eqn:E; [|discriminate].
  intros H Hn. inversion H. subst. apply apply_sets_other. rewrite (map_opt_fst _ _ _ _ _ E). exact Hn.
Qed.

(* hence every field whose column is not in the SET list is read back as before *)
Theorem update_frame_fields cols U R s (rw rw' : row) f e :
  apply_update cols U s rw = Some rw' -> find_r f R = Some e -> ~ In (r_col e) (map w_col U) ->
  read_field R rw' f = read_field R rw f.
Proof.
  intros H He Hn. unfold Codec.read_field. rewrite He. rewrite (update_frame cols U s rw rw' (r_col e) H Hn). reflexivity.
Qed.

(* a column in the SET list holds what the statement entry computes from the caller's record *)
Theorem update_written cols U s (rw rw' : row) e :
  apply_update cols U s rw = Some rw' -> NoDup (map w_col U) -> In e U ->
  exists y, update_col cols s rw e = Some (w_col e, y) /\ sget (w_col e) rw' = Some y.
Proof.
  unfold Codec.apply_update. destruct (map_opt _ U) as [sets|] eqn:E; [|discriminate].
  intros H Hnd Hin. inversion H. subst.
  destruct (map_opt_in _ _ _ _ E Hin) as [[c y] [Hy Hys]].
  pose proof (update_col_fst _ _ _ _ _ Hy) as Hc. simpl in Hc. subst c.
  exists y. split; [exact Hy|]. apply apply_sets_in; [|exact Hys].
  rewrite (map_opt_fst _ _ _ _ _ E). exact Hnd.
Qed.

Notation upd_ok := (upd_ok ET OS).
Notation upd_record_ok := (upd_record_ok jtext ET OS).

Lemma find_w_filter (p : wentry -> bool) c U e : find_w c (filter p U) = Some e -> In e U /\ p e = true /\ w_col e = c.
Proof.
  intros H. destruct (find_w_In _ _ _ H) as [Hin Hc]. apply filter_In in Hin. tauto.
Qed.

Theorem update_sound FT cols U R listed s (rw : row) :
  upd_ok FT cols U R listed = true -> upd_record_ok FT cols U R listed s rw = true ->
  exists rw', apply_update cols U s rw = Some rw'
    /\ (forall f, In f listed -> exists v v', sget f s = Some v /\ read_field R rw' f = Some v' /\ veq v' v)
    /\ (forall e z, In e U -> w_kind e = WVersionBump -> sget (w_col e) rw = Some (CInt z) -> sget (w_col e) rw' = Some (CInt (z + 1)))
    /\ (forall c, ~ In c (map w_col U) -> sget c rw' = sget c rw).
Proof.
  unfold Codec.upd_ok, Codec.upd_record_ok. intros Hok Hrec.
  apply andb_true_iff in Hok. destruct Hok as [Hok Hb]. apply andb_true_iff in Hok. destruct Hok as [Hc Hnd].
  apply andb_true_iff in Hrec. destruct Hrec as [Hr Hbr].
  set (U' := filter not_bump U) in *.
  assert (Hex : exists sets, map_opt (update_col cols s rw) U = Some sets).
  { apply map_opt_all. intros e Hin. unfold Codec.update_col.
    destruct (is_bump (w_kind e)) eqn:Eb.
    - rewrite forallb_forall in Hbr. specialize (Hbr e Hin). unfold not_bump in Hbr. rewrite Eb in Hbr. simpl in Hbr.
      destruct (w_kind e); try discriminate.
      destruct (sget (w_col e) rw) as [[]|]; try discriminate. eexists. reflexivity.
    - assert (Hin' : In e U'). { apply filter_In. unfold not_bump. rewrite Eb. auto. }
      destruct (write_col_ok FT cols U' R listed s e Hc Hr Hin') as [y Hy].
      destruct (w_kind e); try (exists y; exact Hy). discriminate. }
  destruct Hex as [sets Hsets].
  assert (Hap : apply_update cols U s rw = Some (apply_sets jtext sets rw)).
  { unfold Codec.apply_update. rewrite Hsets. reflexivity. }
  exists (apply_sets jtext sets rw). split; [exact Hap|]. apply snodup_NoDup in Hnd. split; [|split].
  - intros f Hf.
    pose proof Hc as Hc'. pose proof Hr as Hr'.
    unfold Codec.codec_ok in Hc'. apply andb_true_iff in Hc'. destruct Hc' as [_ Hl].
    unfold Codec.record_ok in Hr'. apply andb_true_iff in Hr'. destruct Hr' as [_ Hlr].
    rewrite forallb_forall in Hl, Hlr. specialize (Hl f Hf). specialize (Hlr f Hf).
    destruct (find_r f R) as [re|] eqn:Ere; [|discriminate].
    destruct (find_w (r_col re) U') as [we|] eqn:Ewe; [|discriminate].
    apply andb_true_iff in Hl. destruct Hl as [Hfe Hinv]. apply String.eqb_eq in Hfe.
    destruct (sget f FT) as [t|] eqn:Eft; [|discriminate].
    destruct (sget f s) as [v|] eqn:Ev; [|discriminate].
    destruct (find_w_filter _ _ _ _ Ewe) as [HinU [Hnb Hcol]].
    destruct (find_w_In _ _ _ Ewe) as [Hin' _].
    destruct (entry_facts FT cols U' R listed s we Hc Hr Hin') as [v0 [t0 [c [Hv0 [Ht0 [Hfc [Hw Hval]]]]]]].
    rewrite Hfe, Ev in Hv0. inversion Hv0. subst v0.
    assert (t0 = t).
    { unfold Codec.field_type in Ht0. destruct (w_kind we); try (rewrite Hfe, Eft in Ht0; inversion Ht0; reflexivity).
      simpl in Hinv. destruct (r_kind re); discriminate. }
    subst t0.
    destruct (update_written cols U s rw _ we Hap Hnd HinU) as [y [Hy Hget]].
    assert (Hwc : write_col cols s we = Some (w_col we, y)).
    { unfold Codec.update_col in Hy. destruct (w_kind we); try exact Hy. discriminate. }
    unfold Codec.write_col in Hwc. rewrite Hfe, Ev, Hfc in Hwc.
    destruct (encode (w_kind we) v) as [cv|] eqn:Eenc; [|discriminate].
    destruct (c_notnull c && is_null jtext (sql_store (c_aff c) cv)); [discriminate|].
    inversion Hwc. subst y.
    unfold Codec.value_ok in Hval.
    repeat (apply andb_true_iff in Hval; let H := fresh "Hq" in destruct Hval as [Hval H]).
    destruct (field_roundtrip t (c_aff c) (w_kind we) (r_kind re) v cv Hw Hinv Hval Hq1 Hq0 Hlr Eenc) as [v' [Hd Hveq]].
    exists v, v'. split; [reflexivity|]. split; [|exact Hveq].
    unfold Codec.read_field. rewrite Ere. rewrite <- Hcol. rewrite Hget. exact Hd.
  - intros e z Hin Hk Hz.
    destruct (update_written cols U s rw _ e Hap Hnd Hin) as [y [Hy Hget]].
    unfold Codec.update_col in Hy. rewrite Hk, Hz in Hy. inversion Hy. subst y. exact Hget.
  - intros c Hn. eapply update_frame; eassumption.
Qed.

(* the UPDATE on a table: rows that do not satisfy the WHERE clause are untouched *)
Theorem update_table_frame cols U Wh s (tbl tbl' : list row) :
  update_table jtext enc order ET OS cols U Wh s tbl = Some tbl' ->
  Forall2 (fun rw rw' => if row_matches jtext enc order ET OS Wh s rw then apply_update cols U s rw = Some rw' else rw' = rw) tbl tbl'.
Proof.
  unfold Codec.update_table. destruct (existsb _ tbl); [|discriminate].
  revert tbl'. induction tbl as [|rw r IH]; simpl; intros tbl' H.
  - inversion H. constructor.
  - destruct (row_matches jtext enc order ET OS Wh s rw) eqn:Em.
    + destruct (apply_update cols U s rw) as [rw'|] eqn:Ea; [|discriminate].
      destruct (map_opt _ r) as [ys|] eqn:Er; [|discriminate]. inversion H. subst. constructor.
      * rewrite Em. exact Ea.
      * apply IH. reflexivity.
    + destruct (map_opt _ r) as [ys|] eqn:Er; [|discriminate]. inversion H. subst. constructor.
      * rewrite Em. reflexivity.
      * apply IH. reflexivity.
Qed.

(* the listed fields outside the SET list are read back as before *)
Theorem update_frame_listed cols U R s (rw rw' : row) (unchanged : list string) :
  forallb (fun f => match find_r f R with Some e => negb (smem (r_col e) (map w_col U)) | None => false end) unchanged = true ->
  apply_update cols U s rw = Some rw' ->
  forall f, In f unchanged -> read_field R rw' f = read_field R rw f.
Proof.
  intros Hall Hap f Hf. rewrite forallb_forall in Hall. specialize (Hall f Hf).
  destruct (find_r f R) as [e|] eqn:Ee; [|discriminate]. apply negb_true_iff in Hall. apply smem_false in Hall.
  eapply update_frame_fields; eassumption.
Qed.

(* ---------- tasks of a stage: INSERT in list order, SELECT … ORDER BY id ---------- *)
Lemma row_id_of_record FT cols W R listed r rw :
  codec_ok FT cols W R listed = true -> record_ok FT cols W R listed r = true ->
  id_entry_ok FT cols W = true -> to_row cols W r = Some rw -> row_id jtext rw = rec_id r.
Proof.
  intros Hc Hr Hid Hrw. unfold id_entry_ok in Hid.
  destruct (find_w "id" W) as [e|] eqn:Ee; [|discriminate].
  destruct (find_col "id" cols) as [c|] eqn:Ec; [|discriminate].
  destruct (sget "id" FT) as [t|] eqn:Et; [|discriminate]. destruct t; try discriminate.
  apply andb_true_iff in Hid. destruct Hid as [Hid Haff]. apply andb_true_iff in Hid. destruct Hid as [Hf Hk].
  apply String.eqb_eq in Hf. destruct (find_w_In _ _ _ Ee) as [Hin Hcol].
  destruct (entry_facts FT cols W R listed r e Hc Hr Hin) as [v [t [c' [Hv [Ht [Hfc [_ Hval]]]]]]].
  destruct (w_kind e) eqn:Ek; try discriminate.
  unfold Codec.field_type in Ht. rewrite Hf, Et in Ht. inversion Ht. subst t.
  rewrite Hcol, Ec in Hfc. inversion Hfc. subst c'.
  unfold Codec.value_ok in Hval. apply andb_true_iff in Hval. destruct Hval as [Hval _].
  apply andb_true_iff in Hval. destruct Hval as [Hval _]. apply andb_true_iff in Hval. destruct Hval as [Hwf _].
  destruct v; simpl in Hwf; try discriminate.
  destruct (to_row_get cols W r rw "id" e Hrw Ee) as [s' [Hws Hget]].
  unfold Codec.write_col in Hws. rewrite Hv, Hcol, Ec, Ek in Hws. simpl in Hws.
  destruct (c_aff c); try discriminate. simpl in Hws.
  destruct (c_notnull c && false); try discriminate. inversion Hws. subst s'.
  unfold row_id, rec_id. rewrite Hget. rewrite Hf in Hv. rewrite Hv. reflexivity.
Qed.

Theorem tasks_sound FT cols W R listed (ts : list record) :
  codec_ok FT cols W R listed = true -> id_entry_ok FT cols W = true ->
  forallb (record_ok FT cols W R listed) ts = true ->
  strs_ascending (map rec_id ts) = true ->
  exists rows, map_opt (to_row cols W) ts = Some rows
    /\ select_tasks jtext [("id", true)] rows = Some rows
    /\ Forall2 (fun t rw => forall f, In f listed ->
                  exists v v', sget f t = Some v /\ read_field R rw f = Some v' /\ veq v' v) ts rows.
Proof.
  intros Hc Hid Hall Hasc.
  assert (H : exists rows, map_opt (to_row cols W) ts = Some rows
            /\ map (row_id jtext) rows = map rec_id ts
            /\ Forall2 (fun t rw => forall f, In f listed ->
                  exists v v', sget f t = Some v /\ read_field R rw f = Some v' /\ veq v' v) ts rows).
  { clear Hasc. induction ts as [|t r IH]; simpl in *.
    - exists []. repeat split; constructor.
    - apply andb_true_iff in Hall. destruct Hall as [Ht Hall].
      destruct (roundtrip_sound FT cols W R listed t Hc Ht) as [rw [Hrw Hf]].
      destruct (IH Hall) as [rows [Hrows [Hids Hf2]]].
      exists (rw :: rows). rewrite Hrw, Hrows. split; [reflexivity|]. split.
      + simpl. f_equal; [eapply row_id_of_record; eassumption|exact Hids].
      + constructor; assumption. }
  destruct H as [rows [Hrows [Hids Hf2]]]. exists rows. split; [exact Hrows|]. split; [|exact Hf2].
  apply select_tasks_sorted; [reflexivity|]. rewrite Hids. exact Hasc.
Qed.

End Proofs.

(* ---------- the structural comparison used by the correspondence check is sound ---------- *)
Lemma pkey_eqb_sound a b : pkey_eqb a b = true -> a = b.
Proof.
  destruct a, b; simpl; try discriminate; intros H.
  - apply String.eqb_eq in H. congruence.
  - apply Z.eqb_eq in H. congruence.
Qed.

Lemma pyval_eqb_sound : forall a b, pyval_eqb a b = true -> a = b.
Proof.
  fix IH 1. intros a b. destruct a; destruct b; simpl; try discriminate; intros H.
  - reflexivity.
  - apply Bool.eqb_prop in H. congruence.
  - apply Z.eqb_eq in H. congruence.
  - apply Z.eqb_eq in H. congruence.
  - apply String.eqb_eq in H. congruence.
  - f_equal. revert l0 H. induction l as [|x r IHl]; destruct l0; simpl; try discriminate; auto.
    intros H. apply andb_true_iff in H. destruct H as [H1 H2]. f_equal; [apply IH; exact H1|apply IHl; exact H2].
  - f_equal. revert l0 H. induction l as [|x r IHl]; destruct l0; simpl; try discriminate; auto.
    intros H. apply andb_true_iff in H. destruct H as [H1 H2]. f_equal; [apply IH; exact H1|apply IHl; exact H2].
  - f_equal. revert kvs0 H. induction kvs as [|[k x] r IHl]; destruct kvs0 as [|[k' y] r']; simpl; try discriminate; auto.
    intros H. apply andb_true_iff in H. destruct H as [H H2]. apply andb_true_iff in H. destruct H as [H0 H1].
    f_equal; [f_equal; [apply pkey_eqb_sound; exact H0|apply IH; exact H1]|apply IHl; exact H2].
  - f_equal. revert l0 H. induction l as [|x r IHl]; destruct l0; simpl; try discriminate; auto.
    intros H. apply andb_true_iff in H. destruct H as [H1 H2]. f_equal; [apply IH; exact H1|apply IHl; exact H2].
  - apply andb_true_iff in H. destruct H as [H1 H2]. apply String.eqb_eq in H1. apply String.eqb_eq in H2. congruence.
  - apply andb_true_iff in H. destruct H as [H0 H]. apply String.eqb_eq in H0. subst. f_equal.
    revert fields0 H. induction fields as [|[k x] r IHl]; destruct fields0 as [|[k' y] r']; simpl; try discriminate; auto.
    intros H. apply andb_true_iff in H. destruct H as [H H2]. apply andb_true_iff in H. destruct H as [H0 H1].
    f_equal; [f_equal; [apply String.eqb_eq; exact H0|apply IH; exact H1]|apply IHl; exact H2].
  - apply Z.eqb_eq in H. congruence.
  - reflexivity.
Qed.
