(* ConcP: invariants of the statement-level interleaving model coq/model/Conc.v, for ANY number of workers and ANY
   schedule (induction over the schedule).

     part 1  frame facts of the durable writes; the OCC invariant `Fresh` (every stage object a worker holds is
             not newer than the row and, if it has the row's version, IS the row);
     part 2  what a step can do to the durable state, given Fresh (step_sem);
     part 3  C04: at most one NOT_STARTED -> RUNNING claim commit per stage; a failed claim writes nothing;
     part 4  C11: a RUNNING stage with a mutex key owns claim mutex:k; started members of a deferred-choice
             group own choice:g; progress lemmas;
     part 5  acquire_claim as coded = Engine.acquire_claim. *)
From Coq Require Import List Bool Arith ZArith Lia.
Import ListNotations.
From Stab.model Require Import Base StatusM Readiness StageStat Conc.
From Stab.gen Require Import Gen_Config Gen_Guards Gen_Occ Gen_Conc.

(* ------------------------------------------------------------------------------------------ *)
(* part 1: lists, frames                                                                       *)
(* ------------------------------------------------------------------------------------------ *)

Lemma lset_length {A} (l : list A) i x : length (list_set l i x) = length l.
Proof. revert i. induction l as [|a l IH]; intros [|i]; simpl; auto. Qed.

Lemma lset_same {A} (l : list A) i x y : nth_error l i = Some y -> nth_error (list_set l i x) i = Some x.
Proof. revert i. induction l as [|a l IH]; intros [|i]; simpl; try discriminate; auto. Qed.

Lemma lset_other {A} (l : list A) i j x : i <> j -> nth_error (list_set l i x) j = nth_error l j.
Proof.
  revert i j. induction l as [|a l IH]; intros [|i] [|j] H; simpl; auto; try congruence.
Qed.

Lemma lset_none {A} (l : list A) i x : nth_error l i = None -> list_set l i x = l.
Proof. revert i. induction l as [|a l IH]; intros [|i]; simpl; try discriminate; auto. intros H. f_equal. auto. Qed.

Lemma get_put_same s i st row : get_stage s i = Some row -> get_stage (put_stage i st s) i = Some st.
Proof. unfold get_stage, put_stage. simpl. apply lset_same. Qed.

Lemma get_put_other s i j st : i <> j -> get_stage (put_stage i st s) j = get_stage s j.
Proof. unfold get_stage, put_stage. simpl. apply lset_other. Qed.

Lemma put_none s i st : get_stage s i = None -> w_stages (put_stage i st s) = w_stages s.
Proof. unfold get_stage, put_stage. simpl. apply lset_none. Qed.

(* queue-only writes *)
Lemma qop_stages s q : w_stages (apply_qop s q) = w_stages s. Proof. destruct q; reflexivity. Qed.
Lemma qop_claims s q : w_claims (apply_qop s q) = w_claims s. Proof. destruct q; reflexivity. Qed.
Lemma qop_status s q : w_status (apply_qop s q) = w_status s. Proof. destruct q; reflexivity. Qed.
Lemma qop_starts s q : g_starts (apply_qop s q) = g_starts s. Proof. destruct q; reflexivity. Qed.

Lemma qops_stages qs : forall s, w_stages (apply_qops s qs) = w_stages s.
Proof. unfold apply_qops. induction qs as [|q qs IH]; simpl; intros s; [reflexivity|]. rewrite IH. apply qop_stages. Qed.
Lemma qops_claims qs : forall s, w_claims (apply_qops s qs) = w_claims s.
Proof. unfold apply_qops. induction qs as [|q qs IH]; simpl; intros s; [reflexivity|]. rewrite IH. apply qop_claims. Qed.
Lemma qops_status qs : forall s, w_status (apply_qops s qs) = w_status s.
Proof. unfold apply_qops. induction qs as [|q qs IH]; simpl; intros s; [reflexivity|]. rewrite IH. apply qop_status. Qed.
Lemma qops_starts qs : forall s, g_starts (apply_qops s qs) = g_starts s.
Proof. unfold apply_qops. induction qs as [|q qs IH]; simpl; intros s; [reflexivity|]. rewrite IH. apply qop_starts. Qed.

Lemma qops_get qs s j : get_stage (apply_qops s qs) j = get_stage s j.
Proof. unfold get_stage. rewrite qops_stages. reflexivity. Qed.

(* the workflow status is never written by the programs of this model *)
Lemma effect_status s e : w_status (apply_effect s e) = w_status s.
Proof.
  destruct e; simpl; try reflexivity.
  - apply qops_status.
  - destruct fresh; reflexivity.
  - rewrite qops_status. reflexivity.
  - destruct (is_complete (w_status s)); reflexivity.
Qed.

(* ---- versions of the stored objects ---- *)
Lemma eff_version st : s_version (eff st) = s_version st.
Proof. unfold eff. destruct (s_bypass st); reflexivity. Qed.
Lemma eff_mutex st : s_mutex (eff st) = s_mutex st.
Proof. unfold eff. destruct (s_bypass st); reflexivity. Qed.
Lemma eff_choice st : s_choice (eff st) = s_choice st.
Proof. unfold eff. destruct (s_bypass st); reflexivity. Qed.
Lemma eff_status st : s_status (eff st) = s_status st.
Proof. unfold eff. destruct (s_bypass st); reflexivity. Qed.
Lemma eff_tasks st : s_tasks (eff st) = s_tasks st.
Proof. unfold eff. destruct (s_bypass st); reflexivity. Qed.
Lemma eff_reqs st : s_reqs (eff st) = s_reqs st.
Proof. unfold eff. destruct (s_bypass st); reflexivity. Qed.

Lemma apply_mod_version m o : s_version (apply_mod m o) = (s_version o + 1)%Z.
Proof.
  destruct m; simpl; try reflexivity.
  - destruct (status_eqb (s_status o) NOT_STARTED); reflexivity.
  - destruct (end_ok x); reflexivity.
Qed.

Lemma claim_obj_version st : s_version (claim_obj st) = (s_version st + 1)%Z.
Proof.
  unfold claim_obj. destruct (status_eqb (s_status (eff st)) claim_phase_zombie); simpl; rewrite eff_version; reflexivity.
Qed.

(* static fields survive every store *)
Definition same_static (a b : stage) : Prop :=
  s_reqs a = s_reqs b /\ s_join a = s_join b /\ s_threshold a = s_threshold b /\ s_mutex a = s_mutex b /\
  s_choice a = s_choice b /\ s_tasks a = s_tasks b /\ s_cof a = s_cof b /\ s_fp a = s_fp b.

Lemma apply_mod_static m o : same_static (apply_mod m o) o.
Proof.
  unfold same_static. destruct m; simpl.
  - repeat split.
  - destruct (status_eqb (s_status o) NOT_STARTED); repeat split.
  - repeat split.
  - destruct (end_ok x); repeat split.
  - repeat split.
Qed.

Lemma claim_obj_static st : same_static (claim_obj st) st.
Proof.
  unfold same_static, claim_obj.
  destruct (status_eqb (s_status (eff st)) claim_phase_zombie); simpl;
    rewrite ?eff_reqs, ?eff_mutex, ?eff_choice, ?eff_tasks; unfold eff; destruct (s_bypass st); repeat split.
Qed.

(* statuses written by a store *)
Lemma apply_mod_not_started m o : s_status (apply_mod m o) = NOT_STARTED -> s_status o = NOT_STARTED.
Proof.
  destruct m; simpl; auto.
  - destruct (status_eqb (s_status o) NOT_STARTED) eqn:E; simpl; [discriminate|auto].
  - unfold end_ok. destruct (status_eqb x RUNNING) eqn:E1; simpl; auto.
    destruct (status_eqb x NOT_STARTED) eqn:E2; simpl; auto.
    intros H. subst x. discriminate.
Qed.

Lemma apply_mod_running m o : s_status (apply_mod m o) = RUNNING -> s_status o = RUNNING.
Proof.
  destruct m; simpl; auto.
  - destruct (status_eqb (s_status o) NOT_STARTED) eqn:E; simpl; [discriminate|auto].
  - unfold end_ok. destruct (status_eqb x RUNNING) eqn:E1; simpl; auto.
    destruct (status_eqb x NOT_STARTED) eqn:E2; simpl; auto.
    intros H. subst x. discriminate.
Qed.

Lemma claim_obj_status st : s_status (claim_obj st) = RUNNING.
Proof.
  unfold claim_obj. destruct (status_eqb (s_status (eff st)) claim_phase_zombie) eqn:E; simpl; [|reflexivity].
  apply status_eqb_eq in E. exact E.
Qed.

(* ------------------------------------------------------------------------------------------ *)
(* the OCC invariant                                                                           *)
(* ------------------------------------------------------------------------------------------ *)

Definition kind_stage (k : wkind) : nat :=
  match k with WStart _ i _ => i | WComplete _ b => b | WSignal _ i _ => i | WSweeper => 0 end.

(* every stage object a worker holds in memory, with the row it was read from (or last stored to) *)
Fixpoint held (k : wkind) (p : pc) : list (nat * stage) :=
  match p with
  | SReadUps st | SReadMutex st | SReadChoice st | SClaim st | SReadSibs st => [(kind_stage k, st)]
  | PCas j base _ _ _ ok fail => (j, base) :: held k ok ++ held k fail
  | PCommits _ next => held k next
  | CReadDown _ st _ | CTrackRead _ st _ _ _ _ => [(kind_stage k, st)]
  | _ => []
  end.

Definition fresh_obj (s : state) (jo : nat * stage) : Prop :=
  exists row, get_stage s (fst jo) = Some row /\ (s_version (snd jo) <= s_version row)%Z /\
              (s_version (snd jo) = s_version row -> snd jo = row).

Definition Fresh (s : state) (w : worker) : Prop := Forall (fresh_obj s) (held (w_kind w) (w_pc w)).
Definition FreshAll (c : cfg) : Prop := Forall (Fresh (fst c)) (snd c).

Lemma fresh_row s j row : get_stage s j = Some row -> fresh_obj s (j, row).
Proof. intros H. exists row. simpl. repeat split; auto. lia. Qed.

(* an effect either leaves the stage rows alone or replaces one row by an object one version newer *)
Definition effect_ok (s : state) (e : effect) : Prop :=
  match e with
  | EPut j new _ => exists row, get_stage s j = Some row /\ s_version new = (s_version row + 1)%Z
  | EClaim i _ obj _ => exists row, get_stage s i = Some row /\ s_version obj = (s_version row + 1)%Z
  | _ => True
  end.

Lemma effect_stages_other s e j :
  (match e with EPut i _ _ => i <> j | EClaim i _ _ _ => i <> j | _ => True end) ->
  get_stage (apply_effect s e) j = get_stage s j.
Proof.
  destruct e; simpl; intros H; auto.
  - apply qops_get.
  - destruct fresh; unfold get_stage; simpl; apply lset_other; exact H.
  - rewrite qops_get. apply get_put_other. exact H.
  - destruct (is_complete (w_status s)); reflexivity.
Qed.

Lemma effect_stage_put s j new qs row : get_stage s j = Some row -> get_stage (apply_effect s (EPut j new qs)) j = Some new.
Proof. intros H. simpl. rewrite qops_get. eapply get_put_same. exact H. Qed.

Lemma effect_stage_claim s i cl obj fr row : get_stage s i = Some row -> get_stage (apply_effect s (EClaim i cl obj fr)) i = Some obj.
Proof.
  intros H. simpl. destruct fr; unfold get_stage; simpl; apply lset_same with row; exact H.
Qed.

Lemma fresh_obj_effect s e jo : effect_ok s e -> fresh_obj s jo -> fresh_obj (apply_effect s e) jo.
Proof.
  intros Hok [row [Hg [Hle Heq]]]. destruct jo as [j o]. simpl in *.
  destruct e as [|qs|i cl obj fr|i new qs|].
  - exists row. auto.
  - exists row. simpl. rewrite qops_get. auto.
  - destruct Hok as [r0 [Hr0 Hv]]. destruct (Nat.eq_dec i j) as [->|Hne].
    + rewrite Hg in Hr0. inversion Hr0; subst r0. exists obj. split; [eapply effect_stage_claim; eauto|]. simpl. split; [lia|intros Hx; exfalso; lia].
    + exists row. rewrite effect_stages_other by exact Hne. auto.
  - destruct Hok as [r0 [Hr0 Hv]]. destruct (Nat.eq_dec i j) as [->|Hne].
    + rewrite Hg in Hr0. inversion Hr0; subst r0. exists new. split; [eapply effect_stage_put; eauto|]. simpl. split; [lia|intros Hx; exfalso; lia].
    + exists row. rewrite effect_stages_other by exact Hne. auto.
  - exists row. rewrite effect_stages_other by exact I. auto.
Qed.

(* held objects of the composite pcs *)
Lemma held_commits k cs next : held k (commits cs next) = held k next.
Proof. destruct cs; reflexivity. Qed.

Lemma held_retry k outer : held k (retry_or_raise k outer) = [].
Proof. destruct outer; [reflexivity|]. destruct k; reflexivity. Qed.

Lemma held_plan k id i cl : held k (plan_pc id i cl) = [(i, cl)].
Proof. unfold plan_pc. simpl. destruct plan_conc_error_swallowed; reflexivity. Qed.

Lemma held_final k outer id b st x ds : held k (final_pc k outer id b st x ds) = [(b, st)].
Proof. unfold final_pc. simpl. rewrite held_retry. reflexivity. Qed.

Lemma held_track k outer id b st x ds todo fuel :
  kind_stage k = b -> held k (track_pc k outer id b st x ds todo fuel) = [(b, st)].
Proof. intros H. unfold track_pc. destruct todo; [apply held_final|]. simpl. rewrite H. reflexivity. Qed.

Lemma cas_ok_spec s j base phase :
  cas_ok s j base phase = true ->
  exists row, get_stage s j = Some row /\ s_version row = s_version base /\
              (phase = true -> s_status row = s_status base).
Proof.
  unfold cas_ok. destruct (get_stage s j) as [row|]; [|discriminate].
  intros H. apply andb_prop in H. destruct H as [H1 H2]. apply Z.eqb_eq in H1.
  exists row. repeat split; auto. intros ->. simpl in H2. apply status_eqb_eq in H2. exact H2.
Qed.

(* claim_step: the shape of a successful claim *)
Lemma claim_step_claim s id i retry st i' cl obj fr p :
  claim_step s id i retry st = (EClaim i' cl obj fr, p) ->
  i' = i /\ obj = claim_obj st /\ fr = negb (status_eqb (s_status (eff st)) claim_phase_zombie) /\
  exists row, get_stage s i = Some row /\ s_version row = s_version st /\
    (claim_uses_expected_phase = true ->
     s_status row = (if status_eqb (s_status (eff st)) claim_phase_zombie then claim_phase_zombie else claim_phase_fresh)) /\
    exists m c,
      m = match s_mutex (eff st) with Some k => acquire_claim s true k i mutex_claim_steals | None => (true, w_claims s) end /\
      c = match s_choice (eff st) with Some g => acquire_claim (with_claims (snd m) s) false g i choice_claim_steals | None => (true, snd m) end /\
      fst m = true /\ fst c = true /\ cl = snd c /\
      p = match s_choice (eff st) with Some _ => SReadSibs (claim_obj st) | None => plan_pc id i (claim_obj st) end.
Proof.
  unfold claim_step.
  set (m := match s_mutex (eff st) with Some k => acquire_claim s true k i mutex_claim_steals | None => (true, w_claims s) end).
  destruct (fst m) eqn:Hm; simpl; [|discriminate].
  set (c := match s_choice (eff st) with Some g => acquire_claim (with_claims (snd m) s) false g i choice_claim_steals | None => (true, snd m) end).
  destruct (fst c) eqn:Hc; simpl; [|discriminate].
  destruct (get_stage s i) as [row|] eqn:Hrow; [|discriminate].
  destruct ((s_version row =? s_version st)%Z && _) eqn:Hcas; [|destruct claim_conc_error_swallowed; discriminate].
  intros H. inversion H; subst. apply andb_prop in Hcas. destruct Hcas as [Hv Hp]. apply Z.eqb_eq in Hv.
  repeat split; auto. exists row. repeat split; auto.
  - intros _. unfold claim_uses_expected_phase in Hp. simpl in Hp. apply status_eqb_eq in Hp. exact Hp.
  - exists m, c. repeat split; auto.
Qed.

Lemma claim_step_effect s id i retry st : match fst (claim_step s id i retry st) with ENone | EClaim _ _ _ _ => True | _ => False end.
Proof.
  unfold claim_step.
  destruct (fst match s_mutex (eff st) with Some k => acquire_claim s true k i mutex_claim_steals | None => (true, w_claims s) end); simpl; auto.
  destruct (fst match s_choice (eff st) with Some g => _ | None => _ end); simpl; auto.
  destruct (get_stage s i); simpl; auto.
  destruct (_ && _); simpl; auto.
Qed.

Lemma step_effect_ok s w k e p : step_worker s w = Some (k, e, p) -> effect_ok s e.
Proof.
  unfold step_worker. destruct (w_pc w) eqn:Hpc; intros H;
    try (destruct (w_kind w); inversion H; subst; exact I); try discriminate.
  - (* SClaim *)
    destruct (w_kind w); try discriminate. inversion H; subst. clear H.
    destruct (claim_step s id i retry st) as [e0 p0] eqn:Hc. simpl.
    pose proof (claim_step_effect s id i retry st) as He. rewrite Hc in He. simpl in He.
    destruct e0; try exact I; try contradiction.
    apply claim_step_claim in Hc. destruct Hc as [-> [-> [_ [row [Hr [Hv _]]]]]].
    exists row. split; [exact Hr|]. rewrite claim_obj_version. lia.
  - (* PCas *)
    destruct (cas_ok s j base phase) eqn:Hc; inversion H; subst; [|exact I].
    apply cas_ok_spec in Hc. destruct Hc as [row [Hr [Hv _]]]. exists row. split; [exact Hr|].
    rewrite apply_mod_version. lia.
  - (* PCommits *)
    destruct cs; inversion H; subst; exact I.
Qed.

(* the objects held after a step were held before, or are the rows of the state after the step *)
Lemma step_held s w k e p :
  step_worker s w = Some (k, e, p) ->
  forall jo, In jo (held (w_kind w) p) -> In jo (held (w_kind w) (w_pc w)) \/ get_stage (apply_effect s e) (fst jo) = Some (snd jo).
Proof.
  unfold step_worker. destruct (w_pc w) eqn:Hpc; intros H jo Hin; try discriminate.
  - (* SReadStage *)
    destruct (w_kind w) eqn:Hk; try discriminate. inversion H; subst. clear H.
    destruct (get_stage s i) as [st|] eqn:Hs; simpl in Hin; [|contradiction].
    destruct Hin as [<-|[]]. right. simpl. exact Hs.
  - (* SReadUps *)
    destruct (w_kind w) eqn:Hk; try discriminate. inversion H; subst. clear H. left. simpl.
    unfold after_ups in Hin.
    destruct (rr_phase _).
    + destruct (negb (start_stage_fresh (s_status (eff st))) && _); [simpl in Hin; contradiction|].
      destruct (should_skip (eff st)); [try rewrite held_commits in Hin; simpl in Hin; contradiction|].
      unfold after_mutex_check, after_choice_check in Hin.
      destruct (s_mutex (eff st)); [exact Hin|]. destruct (s_choice (eff st)); [destruct (choice_fast_guard _)|]; exact Hin.
    + destruct (start_stage_late _); [simpl in Hin; contradiction|].
      destruct (start_stage_waits _ _); [simpl in Hin; contradiction|].
      destruct (wait_exhausted _ _); [|try rewrite held_commits in Hin; simpl in Hin; contradiction].
      simpl in Hin. destruct Hin as [<-|[]]. left. reflexivity.
    + try rewrite held_commits in Hin. simpl in Hin. contradiction.
    + destruct (start_stage_late _); [simpl in Hin; contradiction|].
      destruct (start_stage_waits _ _); [simpl in Hin; contradiction|].
      destruct (wait_exhausted _ _); [|try rewrite held_commits in Hin; simpl in Hin; contradiction].
      simpl in Hin. destruct Hin as [<-|[]]. left. reflexivity.
  - (* SReadMutex *)
    destruct (w_kind w) eqn:Hk; try discriminate. inversion H; subst. clear H. left. simpl.
    destruct (mutex_blocked s i (eff st)).
    + unfold requeue_pc in Hin. try rewrite held_commits in Hin. simpl in Hin. contradiction.
    + unfold after_mutex_check, after_choice_check in Hin. destruct (s_choice (eff st)); [destruct (choice_fast_guard _)|]; exact Hin.
  - (* SReadChoice *)
    destruct (w_kind w) eqn:Hk; try discriminate. inversion H; subst. clear H. left. simpl.
    destruct (choice_claimed s i (eff st)).
    + unfold cancel_self_pc in Hin. try rewrite held_commits in Hin. simpl in Hin. contradiction.
    + exact Hin.
  - (* SClaim *)
    destruct (w_kind w) eqn:Hk; try discriminate. inversion H; subst. clear H.
    destruct (claim_step s id i retry st) as [e0 p0] eqn:Hc. simpl in *.
    pose proof (claim_step_effect s id i retry st) as He. rewrite Hc in He. simpl in He.
    destruct e0; try contradiction.
    + (* no claim: the worker holds nothing any more *)
      exfalso. revert Hc Hin. unfold claim_step.
      destruct (fst match s_mutex (eff st) with Some k0 => acquire_claim s true k0 i mutex_claim_steals | None => (true, w_claims s) end); simpl.
      2:{ intros Hc. inversion Hc; subst. unfold requeue_pc. try rewrite held_commits. simpl. auto. }
      destruct (fst match s_choice (eff st) with Some g => _ | None => _ end); simpl.
      2:{ intros Hc. inversion Hc; subst. unfold cancel_self_pc. try rewrite held_commits. simpl. auto. }
      destruct (get_stage s i); [|intros Hc; inversion Hc; subst; simpl; auto].
      destruct (_ && _); [discriminate|].
      intros Hc. inversion Hc; subst. destruct claim_conc_error_swallowed; simpl; auto.
    + apply claim_step_claim in Hc.
      destruct Hc as [-> [-> [_ [row [Hr [_ [_ [m [c [_ [_ [_ [_ [_ ->]]]]]]]]]]]]]].
      right. assert (jo = (i, claim_obj st)) as ->.
      { destruct (s_choice (eff st)); [simpl in Hin|rewrite held_plan in Hin; simpl in Hin]; destruct Hin as [<-|[]]; reflexivity. }
      simpl. destruct fresh; unfold get_stage; simpl; apply lset_same with row; exact Hr.
  - (* SReadSibs *)
    destruct (w_kind w) eqn:Hk; try discriminate. inversion H; subst. clear H. left. simpl.
    unfold sibs_pc in Hin. rewrite held_commits, held_plan in Hin. exact Hin.
  - (* PCas *)
    left. simpl. destruct (cas_ok s j base phase); inversion H; subst; right; apply in_or_app; auto.
  - (* PCommits *)
    left. simpl. destruct cs; inversion H; subst; [exact Hin|]. rewrite held_commits in Hin. exact Hin.
  - (* PMark *) inversion H; subst. simpl in Hin. contradiction.
  - (* CReadStage *)
    destruct (w_kind w) eqn:Hk; try discriminate. inversion H; subst. clear H.
    unfold complete_read in Hin. destruct (get_stage s b) as [st|] eqn:Hs; [|simpl in Hin; contradiction].
    assert (jo = (b, st) -> In jo [] \/ get_stage (apply_effect s ENone) (fst jo) = Some (snd jo)) as Hrow
      by (intros ->; right; exact Hs).
    destruct (status_eqb (s_status st) NOT_STARTED); [try rewrite held_commits in Hin; simpl in Hin; contradiction|].
    destruct (negb (complete_stage_guard (s_status st))).
    { destruct (is_halt (s_status st)); [try rewrite held_commits in Hin|]; simpl in Hin; contradiction. }
    destruct (status_eqb _ RUNNING); [try rewrite held_commits in Hin; simpl in Hin; contradiction|].
    destruct (negb (can_transition _ _)); [simpl in Hin; contradiction|].
    destruct (success_like _); simpl in Hin.
    + destruct Hin as [<-|[]]. apply Hrow. reflexivity.
    + rewrite held_retry in Hin. simpl in Hin. destruct Hin as [<-|[]]. apply Hrow. reflexivity.
  - (* CReadDown *)
    destruct (w_kind w) eqn:Hk; try discriminate. inversion H; subst. clear H. left.
    rewrite held_track in Hin by reflexivity. simpl. exact Hin.
  - (* CTrackRead *)
    destruct (w_kind w) eqn:Hk; try discriminate. inversion H; subst. clear H.
    unfold track_read in Hin. destruct todo as [|d rest].
    + left. rewrite held_final in Hin. simpl. exact Hin.
    + destruct (get_stage s d) as [fr|] eqn:Hd; [|simpl in Hin; contradiction].
      destruct (mem_nat b (s_branches fr)).
      * left. rewrite held_track in Hin by reflexivity. simpl. exact Hin.
      * simpl in Hin. destruct Hin as [<-|Hin]; [right; exact Hd|]. left.
        apply in_app_or in Hin. destruct Hin as [Hin|Hin].
        -- rewrite held_track in Hin by reflexivity. simpl. exact Hin.
        -- destruct fuel as [|[|f]]; [rewrite held_retry in Hin; contradiction|rewrite held_retry in Hin; contradiction|].
           simpl in Hin. simpl. exact Hin.
  - (* BRead *)
    destruct (w_kind w) eqn:Hk; try discriminate. inversion H; subst. clear H.
    unfold signal_read in Hin. destruct (get_stage s i) as [st|] eqn:Hs; [|simpl in Hin; contradiction].
    destruct (status_eqb (s_status st) SUSPENDED); [simpl in Hin; contradiction|].
    simpl in Hin. rewrite held_retry in Hin. simpl in Hin. destruct Hin as [<-|[]]. right. exact Hs.
  - (* WSweep *)
    destruct (w_kind w); try discriminate. inversion H; subst. simpl in Hin. contradiction.
Qed.

Lemma Forall_lset {A} (P : A -> Prop) l n x : Forall P l -> P x -> Forall P (list_set l n x).
Proof.
  intros Hl Hx. revert n. induction Hl as [|a l Ha Hl IH]; intros [|n]; simpl; constructor; auto.
Qed.

Theorem fresh_step c n : FreshAll c -> FreshAll (step_cfg c n).
Proof.
  unfold FreshAll, step_cfg. intros HF.
  destruct (nth_error (snd c) n) as [w|] eqn:Hn; [|exact HF].
  destruct (step_worker (fst c) w) as [[[k e] p]|] eqn:Hs; [|exact HF]. simpl.
  pose proof (step_effect_ok _ _ _ _ _ Hs) as Hok.
  apply Forall_lset.
  - eapply Forall_impl; [|exact HF]. intros w' Hw'. unfold Fresh in *.
    eapply Forall_impl; [|exact Hw']. intros jo. apply fresh_obj_effect. exact Hok.
  - unfold Fresh. simpl. apply Forall_forall. intros jo Hin.
    destruct (step_held _ _ _ _ _ Hs jo Hin) as [Hold|Hrow].
    + apply fresh_obj_effect; [exact Hok|].
      rewrite Forall_forall in HF. specialize (HF w (nth_error_In _ _ Hn)). unfold Fresh in HF.
      rewrite Forall_forall in HF. apply HF. exact Hold.
    + destruct jo as [j o]. apply fresh_row. exact Hrow.
Qed.

Theorem fresh_run sched : forall c, FreshAll c -> FreshAll (run_conc sched c).
Proof. unfold run_conc. induction sched as [|n r IH]; simpl; intros c H; [exact H|]. apply IH, fresh_step, H. Qed.

Lemma fresh_spawn s ks : FreshAll (s, map spawn ks).
Proof.
  unfold FreshAll. simpl. apply Forall_forall. intros w Hw. apply in_map_iff in Hw. destruct Hw as [k [<- _]].
  unfold Fresh, spawn. simpl. destruct k; constructor.
Qed.

(* ------------------------------------------------------------------------------------------ *)
(* part 2: what a step can do, given Fresh                                                     *)
(* ------------------------------------------------------------------------------------------ *)

Lemma fresh_held_eq s w j o row :
  Fresh s w -> In (j, o) (held (w_kind w) (w_pc w)) -> get_stage s j = Some row -> s_version row = s_version o -> o = row.
Proof.
  intros HF Hin Hr Hv. unfold Fresh in HF. rewrite Forall_forall in HF.
  destruct (HF _ Hin) as [row' [Hr' [_ Heq]]]. simpl in *. rewrite Hr in Hr'. inversion Hr'; subst row'.
  apply Heq. symmetry. exact Hv.
Qed.

(* a store: the row is replaced by a modification OF THE ROW ITSELF (no lost update) *)
Lemma step_put_sem s w k j new qs p :
  Fresh s w -> step_worker s w = Some (k, EPut j new qs, p) ->
  exists row m base phase ok fail,
    w_pc w = PCas j base phase m qs ok fail /\ get_stage s j = Some row /\ base = row /\ new = apply_mod m row /\
    p = ok.
Proof.
  intros HF. unfold step_worker. destruct (w_pc w) eqn:Hpc; intros H; try discriminate;
    try (destruct (w_kind w); inversion H; fail).
  - destruct (w_kind w); try discriminate. inversion H.
    pose proof (claim_step_effect s id i retry st) as He. rewrite H2 in He. contradiction.
  - destruct (cas_ok s j0 base phase) eqn:Hc; inversion H; subst.
    apply cas_ok_spec in Hc. destruct Hc as [row [Hr [Hv _]]].
    assert (base = row) as ->.
    { eapply fresh_held_eq; eauto. rewrite Hpc. simpl. left. reflexivity. }
    do 6 eexists. split; [reflexivity|]. split; [exact Hr|]. split; [reflexivity|]. split; reflexivity.
  - destruct cs; inversion H.
Qed.

Lemma step_claim_sem s w k i cl obj fr p :
  Fresh s w -> step_worker s w = Some (k, EClaim i cl obj fr, p) ->
  exists id retry row,
    w_kind w = WStart id i retry /\ w_pc w = SClaim row /\ get_stage s i = Some row /\
    claim_step s id i retry row = (EClaim i cl obj fr, p).
Proof.
  intros HF. unfold step_worker. destruct (w_pc w) eqn:Hpc; intros H; try discriminate;
    try (destruct (w_kind w); inversion H; fail).
  - destruct (w_kind w) eqn:Hk; try discriminate. inversion H. subst k.
    destruct (claim_step s id i0 retry st) as [e0 p0] eqn:Hc. simpl in *. subst e0 p0.
    pose proof (claim_step_claim _ _ _ _ _ _ _ _ _ _ Hc) as [-> [_ [_ [row [Hr [Hv _]]]]]].
    assert (st = row) as ->.
    { eapply fresh_held_eq; eauto. rewrite Hpc, Hk. simpl. left. reflexivity. }
    exists id, retry, row. repeat split; auto.
  - destruct (cas_ok s j base phase); inversion H.
  - destruct cs; inversion H.
Qed.

(* ------------------------------------------------------------------------------------------ *)
(* part 3: C04                                                                                 *)
(* ------------------------------------------------------------------------------------------ *)

Definition starts (i : nat) (s : state) : nat := length (filter (fun p => fst p =? i) (g_starts s)).
Definition not_started (s : state) (i : nat) : bool :=
  match get_stage s i with Some row => status_eqb (s_status row) NOT_STARTED | None => false end.
Definition b2n (b : bool) : nat := if b then 1 else 0.

(* starts so far + 1 while the stage can still be started: never increases *)
Definition phi (i : nat) (s : state) : nat := starts i s + b2n (not_started s i).

Lemma starts_qops qs s i : starts i (apply_qops s qs) = starts i s.
Proof. unfold starts. rewrite qops_starts. reflexivity. Qed.

Lemma not_started_other s e i :
  (match e with EPut j _ _ => j <> i | EClaim j _ _ _ => j <> i | _ => True end) ->
  not_started (apply_effect s e) i = not_started s i.
Proof. intros H. unfold not_started. rewrite effect_stages_other by exact H. reflexivity. Qed.

Lemma phi_effect s w k e p i : Fresh s w -> step_worker s w = Some (k, e, p) -> phi i (apply_effect s e) <= phi i s.
Proof.
  intros HF Hs. unfold phi. destruct e as [|qs|j cl obj fr|j new qs|].
  - simpl. lia.
  - rewrite not_started_other by exact I. simpl. rewrite starts_qops. lia.
  - destruct (step_claim_sem _ _ _ _ _ _ _ _ HF Hs) as [id [retry [row [Hk [Hpc [Hr Hc]]]]]].
    apply claim_step_claim in Hc. destruct Hc as [_ [-> [-> [row' [Hr' [_ [Hph _]]]]]]].
    rewrite Hr in Hr'. inversion Hr'; subst row'. specialize (Hph eq_refl).
    destruct (Nat.eq_dec j i) as [->|Hne].
    + unfold not_started at 1. erewrite effect_stage_claim by exact Hr. rewrite claim_obj_status. simpl.
      unfold not_started. rewrite Hr.
      destruct (status_eqb (s_status (eff row)) claim_phase_zombie) eqn:Hz; simpl.
      * unfold starts. simpl. lia.
      * rewrite Hph. unfold claim_phase_fresh. simpl. unfold starts. simpl. rewrite Nat.eqb_refl. simpl. lia.
    + rewrite not_started_other by exact Hne.
      assert (starts i (apply_effect s (EClaim j cl (claim_obj row) (negb (status_eqb (s_status (eff row)) claim_phase_zombie)))) = starts i s) as ->; [|lia].
      simpl. destruct (negb _); unfold starts; simpl; [|reflexivity].
      destruct (j =? i) eqn:E; [apply Nat.eqb_eq in E; congruence|reflexivity].
  - destruct (step_put_sem _ _ _ _ _ _ _ HF Hs) as [row [m [base [ph [ok [fl [Hpc [Hr [-> [-> _]]]]]]]]]].
    assert (starts i (apply_effect s (EPut j (apply_mod m row) qs)) = starts i s) as -> by (simpl; rewrite starts_qops; reflexivity).
    destruct (Nat.eq_dec j i) as [->|Hne].
    + unfold not_started. erewrite effect_stage_put by exact Hr. rewrite Hr.
      destruct (status_eqb (s_status (apply_mod m row)) NOT_STARTED) eqn:E; simpl; [|lia].
      apply status_eqb_eq in E. apply apply_mod_not_started in E. rewrite E. simpl. lia.
    + rewrite not_started_other by exact Hne. lia.
  - rewrite not_started_other by exact I.
    assert (starts i (apply_effect s ESweep) = starts i s) as -> by (simpl; destruct (is_complete (w_status s)); reflexivity). lia.
Qed.

Lemma phi_step c n i : FreshAll c -> phi i (fst (step_cfg c n)) <= phi i (fst c).
Proof.
  unfold FreshAll, step_cfg. intros HF.
  destruct (nth_error (snd c) n) as [w|] eqn:Hn; [|lia].
  destruct (step_worker (fst c) w) as [[[k e] p]|] eqn:Hs; [|lia]. simpl.
  rewrite Forall_forall in HF. eapply phi_effect; [apply HF; eapply nth_error_In; eauto|exact Hs].
Qed.

Theorem phi_run sched i : forall c, FreshAll c -> phi i (fst (run_conc sched c)) <= phi i (fst c).
Proof.
  unfold run_conc. induction sched as [|n r IH]; simpl; intros c H; [lia|].
  specialize (IH (step_cfg c n) (fresh_step c n H)). pose proof (phi_step c n i H). lia.
Qed.

(* C04_one_claim: for ANY workers and ANY schedule, a stage gets at most one NOT_STARTED -> RUNNING claim commit, and
   none if it was not NOT_STARTED *)
Theorem one_claim s ks sched i :
  starts i (fst (run_conc sched (s, map spawn ks))) <= starts i s + b2n (not_started s i).
Proof.
  pose proof (phi_run sched i (s, map spawn ks) (fresh_spawn s ks)) as H. unfold phi in H. simpl in H. lia.
Qed.

(* a claim whose snapshot is older than the row, or whose row has left the expected phase, writes nothing *)
Lemma stale_claim_fails s id i retry st row :
  get_stage s i = Some row -> (s_version st <> s_version row \/ s_status row <> (if status_eqb (s_status (eff st)) claim_phase_zombie then claim_phase_zombie else claim_phase_fresh)) ->
  fst (claim_step s id i retry st) = ENone.
Proof.
  intros Hr Hst. unfold claim_step.
  destruct (fst match s_mutex (eff st) with Some k => acquire_claim s true k i mutex_claim_steals | None => (true, w_claims s) end); simpl; auto.
  destruct (fst match s_choice (eff st) with Some g => _ | None => _ end); simpl; auto.
  rewrite Hr.
  destruct ((s_version row =? s_version st)%Z && _) eqn:Hc; [|reflexivity].
  exfalso. apply andb_prop in Hc. destruct Hc as [Hv Hp]. apply Z.eqb_eq in Hv.
  unfold claim_uses_expected_phase in Hp. simpl in Hp. apply status_eqb_eq in Hp.
  destruct Hst as [H|H]; [apply H; auto|apply H; exact Hp].
Qed.

(* after a successful claim of stage i every other snapshot of stage i is stale: its claim fails *)
Lemma claim_excludes_others s w k i cl obj fr p id' retry' o :
  Fresh s w -> step_worker s w = Some (k, EClaim i cl obj fr, p) ->
  fresh_obj s (i, o) ->
  fst (claim_step (apply_effect s (EClaim i cl obj fr)) id' i retry' o) = ENone.
Proof.
  intros HF Hs [row [Hr [Hle _]]]. simpl in Hr, Hle.
  destruct (step_claim_sem _ _ _ _ _ _ _ _ HF Hs) as [id [retry [row' [_ [_ [Hr' Hc]]]]]].
  rewrite Hr in Hr'. inversion Hr'; subst row'.
  apply claim_step_claim in Hc. destruct Hc as [_ [-> _]].
  eapply stale_claim_fails.
  - eapply effect_stage_claim. exact Hr.
  - left. rewrite claim_obj_version. lia.
Qed.

(* a failed claim: nothing is written, and what the worker still does is re-queue itself, cancel itself, or nothing *)
Lemma failed_claim_pc s id i retry st p :
  claim_step s id i retry st = (ENone, p) ->
  p = requeue_pc i retry \/ p = cancel_self_pc id i \/ p = PMark \/ p = PUnmodelled.
Proof.
  unfold claim_step.
  destruct (fst match s_mutex (eff st) with Some k => acquire_claim s true k i mutex_claim_steals | None => (true, w_claims s) end); simpl.
  2:{ intros H; inversion H; auto. }
  destruct (fst match s_choice (eff st) with Some g => _ | None => _ end); simpl.
  2:{ intros H; inversion H; auto. }
  destruct (get_stage s i); [|intros H; inversion H; auto].
  destruct (_ && _); [discriminate|]. unfold claim_conc_error_swallowed. intros H; inversion H; auto.
Qed.

(* pcs from which only queue rows and processed marks are written *)
Fixpoint quiet_pc (p : pc) : Prop :=
  match p with
  | PCommits _ next => quiet_pc next
  | PMark | PDone | PRaised | PUnmodelled => True
  | _ => False
  end.

Fixpoint pc_pushes (p : pc) : list msg :=
  match p with
  | PCommits cs next => flat_map (fun c => flat_map (fun q => match q with QPush m => [m] | QMark _ => [] end) c) cs ++ pc_pushes next
  | _ => []
  end.
Definition qs_pushes (qs : list qop) : list msg := flat_map (fun q => match q with QPush m => [m] | QMark _ => [] end) qs.

Lemma quiet_commits cs next : quiet_pc next -> quiet_pc (commits cs next).
Proof. destruct cs; simpl; auto. Qed.
Lemma pushes_commits cs next : pc_pushes (commits cs next) = flat_map qs_pushes cs ++ pc_pushes next.
Proof. destruct cs; reflexivity. Qed.

Lemma quiet_step s w k e p :
  quiet_pc (w_pc w) -> step_worker s w = Some (k, e, p) ->
  quiet_pc p /\ exists qs, e = EQ qs /\ qs_pushes qs ++ pc_pushes p = pc_pushes (w_pc w).
Proof.
  unfold step_worker. destruct (w_pc w) eqn:Hpc; simpl; intros Hq H; try contradiction; try discriminate.
  - destruct cs as [|c rest]; inversion H; subst.
    + split; [exact Hq|]. exists []. split; reflexivity.
    + split; [apply quiet_commits; exact Hq|]. exists c. split; [reflexivity|].
      rewrite pushes_commits. simpl. unfold qs_pushes. rewrite app_assoc. reflexivity.
  - inversion H; subst. split; [exact I|]. exists [QMark (kind_id (w_kind w))]. split; reflexivity.
Qed.

Lemma loser_pcs_quiet id i retry :
  quiet_pc (requeue_pc i retry) /\ quiet_pc (cancel_self_pc id i) /\
  pc_pushes (requeue_pc i retry) = [MStartStage i (retry + mutex_requeue_increment)] /\
  pc_pushes (cancel_self_pc id i) = [MCancelStage i] /\ pc_pushes PMark = [].
Proof. repeat split; reflexivity. Qed.

(* EQ effects leave the stage rows, the claims and the start ledger alone *)
Lemma eq_effect_frame s qs :
  w_stages (apply_effect s (EQ qs)) = w_stages s /\ w_claims (apply_effect s (EQ qs)) = w_claims s /\
  g_starts (apply_effect s (EQ qs)) = g_starts s.
Proof. simpl. rewrite qops_stages, qops_claims, qops_starts. auto. Qed.

(* ------------------------------------------------------------------------------------------ *)
(* part 4: C11 — the claim table                                                               *)
(* ------------------------------------------------------------------------------------------ *)

Lemma find_app_none {A} (f : A -> bool) l1 l2 : find f l1 = None -> find f (l1 ++ l2) = find f l2.
Proof. induction l1 as [|a l IH]; simpl; auto. destruct (f a); [discriminate|auto]. Qed.

Lemma find_app_last_false {A} (f : A -> bool) l x : f x = false -> find f (l ++ [x]) = find f l.
Proof. intros H. induction l as [|a l IH]; simpl; [rewrite H; reflexivity|]. destruct (f a); auto. Qed.

Lemma find_map_same {A} (f : A -> bool) (g : A -> A) l :
  (forall c, f (g c) = f c) -> find f (map g l) = option_map g (find f l).
Proof. intros H. induction l as [|a l IH]; simpl; auto. rewrite H. destruct (f a); auto. Qed.

Lemma find_map_id {A} (f : A -> bool) (g : A -> A) l :
  (forall c, f (g c) = f c) -> (forall c, f c = true -> g c = c) -> find f (map g l) = find f l.
Proof.
  intros H1 H2. induction l as [|a l IH]; simpl; auto. rewrite H1.
  destruct (f a) eqn:E; [rewrite H2 by exact E; reflexivity|auto].
Qed.

Lemma claim_is_self b k i : claim_is b k (b, k, i) = true.
Proof. unfold claim_is. simpl. rewrite Nat.eqb_refl. destruct b; reflexivity. Qed.

Lemma claim_is_diff b k b' k' i : (b, k) <> (b', k') -> claim_is b' k' (b, k, i) = false.
Proof.
  intros H. unfold claim_is. simpl. destruct (Bool.eqb b b') eqn:E1; simpl; auto.
  destruct (k =? k') eqn:E2; auto. apply Bool.eqb_prop in E1. apply Nat.eqb_eq in E2. subst. congruence.
Qed.

Lemma claim_lookup_find cl b k : claim_lookup cl b k = option_map snd (find (claim_is b k) cl).
Proof. unfold claim_lookup, claim_is. destruct (find _ cl); reflexivity. Qed.

Definition owner_gone_or_complete (s : state) (o : nat) : bool :=
  match get_stage s o with Some r => is_complete (s_status r) | None => true end.

(* acquired => this stage is the owner afterwards *)
Lemma acquire_owner s b k i steal : fst (acquire_claim s b k i steal) = true -> claim_lookup (snd (acquire_claim s b k i steal)) b k = Some i.
Proof.
  unfold acquire_claim. destruct (claim_lookup (w_claims s) b k) as [o|] eqn:Hl.
  - destruct (o =? i) eqn:Eo.
    + intros _. simpl. apply Nat.eqb_eq in Eo. subst. exact Hl.
    + destruct (steal && _) eqn:Es; simpl; [|discriminate]. intros _.
      rewrite claim_lookup_find in *.
      change (fun c : bool * nat * nat => if Bool.eqb (fst (fst c)) b && (snd (fst c) =? k) then (b, k, i) else c)
        with (fun c : bool * nat * nat => if claim_is b k c then (b, k, i) else c).
      rewrite find_map_same.
      * destruct (find (claim_is b k) (w_claims s)) as [c|] eqn:Hf; [|discriminate]. simpl.
        apply find_some in Hf. destruct Hf as [_ Hc]. rewrite Hc. reflexivity.
      * intros c. destruct (claim_is b k c) eqn:Ec; [apply claim_is_self|exact Ec].
  - intros _. simpl. rewrite claim_lookup_find in *.
    destruct (find (claim_is b k) (w_claims s)) eqn:Hf; [discriminate|].
    rewrite find_app_none by exact Hf. simpl. rewrite claim_is_self. reflexivity.
Qed.

(* other keys are untouched *)
Lemma acquire_other s b k i steal b' k' :
  (b, k) <> (b', k') -> claim_lookup (snd (acquire_claim s b k i steal)) b' k' = claim_lookup (w_claims s) b' k'.
Proof.
  intros Hne. unfold acquire_claim. destruct (claim_lookup (w_claims s) b k) as [o|] eqn:Hl.
  - destruct (o =? i); [reflexivity|]. destruct (steal && _); [|reflexivity]. simpl.
    rewrite !claim_lookup_find.
    change (fun c : bool * nat * nat => if Bool.eqb (fst (fst c)) b && (snd (fst c) =? k) then (b, k, i) else c)
      with (fun c : bool * nat * nat => if claim_is b k c then (b, k, i) else c).
    rewrite find_map_id; [reflexivity| |].
    + intros c. destruct (claim_is b k c) eqn:Ec; [|reflexivity].
      rewrite claim_is_diff by exact Hne. destruct c as [[cb ck] ci]. unfold claim_is in *. simpl in *.
      apply andb_prop in Ec. destruct Ec as [E1 E2]. apply Bool.eqb_prop in E1. apply Nat.eqb_eq in E2. subst.
      symmetry. apply (claim_is_diff b k b' k' ci Hne).
    + intros c Hc. destruct (claim_is b k c) eqn:Ec; [|reflexivity]. exfalso.
      destruct c as [[cb ck] ci]. unfold claim_is in *. simpl in *.
      apply andb_prop in Ec. destruct Ec as [E1 E2]. apply Bool.eqb_prop in E1. apply Nat.eqb_eq in E2. subst.
      apply andb_prop in Hc. destruct Hc as [E1 E2]. apply Bool.eqb_prop in E1. apply Nat.eqb_eq in E2. subst. congruence.
  - simpl. rewrite !claim_lookup_find. rewrite find_app_last_false; [reflexivity|]. apply claim_is_diff. exact Hne.
Qed.

(* a claim is taken from another owner only by a stealing acquire, and only when that owner is gone or complete *)
Lemma acquire_from_other s b k i steal o :
  fst (acquire_claim s b k i steal) = true -> claim_lookup (w_claims s) b k = Some o -> o <> i ->
  steal = true /\ owner_gone_or_complete s o = true.
Proof.
  unfold acquire_claim. intros H Hl Hne. rewrite Hl in H.
  destruct (o =? i) eqn:Eo; [apply Nat.eqb_eq in Eo; congruence|].
  unfold owner_gone_or_complete. destruct steal; simpl in *; [|discriminate].
  destruct (match get_stage s o with Some o0 => is_complete (s_status o0) | None => true end); [auto|discriminate].
Qed.

Lemma get_with_claims cl s j : get_stage (with_claims cl s) j = get_stage s j.
Proof. reflexivity. Qed.

(* the claims after a successful claim transaction *)
Lemma claim_tx_mutex s id i retry row cl obj fr p k :
  claim_step s id i retry row = (EClaim i cl obj fr, p) -> s_mutex row = Some k ->
  claim_lookup cl true k = Some i /\
  (forall o, claim_lookup (w_claims s) true k = Some o -> o <> i -> owner_gone_or_complete s o = true).
Proof.
  intros Hc Hm. apply claim_step_claim in Hc.
  destruct Hc as [_ [_ [_ [row' [_ [_ [_ [m [c [Hmd [Hcd [Hm1 [Hc1 [-> _]]]]]]]]]]]]]].
  rewrite eff_mutex, Hm in Hmd. rewrite eff_choice in Hcd. subst m. split.
  - subst c. destruct (s_choice row) as [g|].
    + rewrite acquire_other by congruence. simpl. apply acquire_owner. exact Hm1.
    + simpl. apply acquire_owner. exact Hm1.
  - intros o Ho Hne. eapply acquire_from_other; eauto.
Qed.

Lemma claim_tx_mutex_other s id i retry row cl obj fr p k' :
  claim_step s id i retry row = (EClaim i cl obj fr, p) -> s_mutex row <> Some k' ->
  claim_lookup cl true k' = claim_lookup (w_claims s) true k'.
Proof.
  intros Hc Hm. apply claim_step_claim in Hc.
  destruct Hc as [_ [_ [_ [row' [_ [_ [_ [m [c [Hmd [Hcd [Hm1 [Hc1 [-> _]]]]]]]]]]]]]].
  rewrite eff_mutex in Hmd. rewrite eff_choice in Hcd. subst c.
  assert (claim_lookup (snd m) true k' = claim_lookup (w_claims s) true k') as Hmm.
  { subst m. destruct (s_mutex row) as [k|]; [|reflexivity]. apply acquire_other. congruence. }
  destruct (s_choice row) as [g|]; [|exact Hmm].
  rewrite acquire_other by congruence. simpl. exact Hmm.
Qed.

Lemma claim_tx_choice s id i retry row cl obj fr p g :
  claim_step s id i retry row = (EClaim i cl obj fr, p) -> s_choice row = Some g ->
  claim_lookup cl false g = Some i /\
  (forall o, claim_lookup (w_claims s) false g = Some o -> o = i).
Proof.
  intros Hc Hg. apply claim_step_claim in Hc.
  destruct Hc as [_ [_ [_ [row' [_ [_ [_ [m [c [Hmd [Hcd [Hm1 [Hc1 [-> _]]]]]]]]]]]]]].
  rewrite eff_mutex in Hmd. rewrite eff_choice, Hg in Hcd. subst c. split.
  - apply acquire_owner. exact Hc1.
  - intros o Ho. destruct (Nat.eq_dec o i) as [|Hne]; [assumption|]. exfalso.
    assert (claim_lookup (w_claims (with_claims (snd m) s)) false g = Some o) as Ho'.
    { simpl. subst m. destruct (s_mutex row) as [k|]; [|exact Ho]. rewrite acquire_other by congruence. exact Ho. }
    destruct (acquire_from_other _ _ _ _ _ _ Hc1 Ho' Hne) as [Hs _]. unfold choice_claim_steals in Hs. discriminate.
Qed.

Lemma claim_tx_choice_other s id i retry row cl obj fr p g' :
  claim_step s id i retry row = (EClaim i cl obj fr, p) -> s_choice row <> Some g' ->
  claim_lookup cl false g' = claim_lookup (w_claims s) false g'.
Proof.
  intros Hc Hg. apply claim_step_claim in Hc.
  destruct Hc as [_ [_ [_ [row' [_ [_ [_ [m [c [Hmd [Hcd [Hm1 [Hc1 [-> _]]]]]]]]]]]]]].
  rewrite eff_mutex in Hmd. rewrite eff_choice in Hcd. subst c.
  assert (claim_lookup (snd m) false g' = claim_lookup (w_claims s) false g') as Hmm.
  { subst m. destruct (s_mutex row) as [k|]; [|reflexivity]. apply acquire_other. congruence. }
  destruct (s_choice row) as [g|]; [|exact Hmm].
  rewrite acquire_other by congruence. simpl. exact Hmm.
Qed.

(* ---- the mutex invariant: a RUNNING stage with key k owns claim mutex:k ---- *)
Definition mutex_owner_inv (s : state) : Prop :=
  forall j row k, get_stage s j = Some row -> s_status row = RUNNING -> s_mutex row = Some k ->
                  claim_lookup (w_claims s) true k = Some j.

Definition live (s : state) : Prop := is_complete (w_status s) = false.

Lemma effect_claims_frame s e :
  live s -> (match e with EClaim _ _ _ _ => False | _ => True end) -> w_claims (apply_effect s e) = w_claims s.
Proof.
  intros Hl H. destruct e; simpl; try reflexivity; try contradiction.
  - apply qops_claims.
  - rewrite qops_claims. reflexivity.
  - unfold live in Hl. rewrite Hl. reflexivity.
Qed.

Lemma mutex_owner_effect s w k e p :
  Fresh s w -> live s -> step_worker s w = Some (k, e, p) -> mutex_owner_inv s -> mutex_owner_inv (apply_effect s e).
Proof.
  intros HF Hl Hs HI. destruct e as [|qs|i cl obj fr|i new qs|].
  - exact HI.
  - intros j row kk Hr. rewrite effect_stages_other in Hr by exact I. rewrite effect_claims_frame by (auto; exact I). eauto.
  - destruct (step_claim_sem _ _ _ _ _ _ _ _ HF Hs) as [id [retry [rowi [Hk [Hpc [Hri Hc]]]]]].
    assert (obj = claim_obj rowi) as -> by (apply claim_step_claim in Hc; tauto).
    assert (w_claims (apply_effect s (EClaim i cl (claim_obj rowi) fr)) = cl) as Hcl by (simpl; destruct fr; reflexivity).
    intros j row kk Hr Hst Hmx. rewrite Hcl.
    destruct (Nat.eq_dec i j) as [->|Hne].
    + erewrite effect_stage_claim in Hr by exact Hri. inversion Hr; subst row.
      destruct (claim_obj_static rowi) as [_ [_ [_ [Hm _]]]]. rewrite Hm in Hmx.
      eapply claim_tx_mutex; eauto.
    + rewrite effect_stages_other in Hr by exact Hne.
      pose proof (HI j row kk Hr Hst Hmx) as Hown.
      destruct (s_mutex rowi) as [ki|] eqn:Hmi.
      * destruct (Nat.eq_dec ki kk) as [->|Hk'].
        -- (* same key: the running owner j is neither gone nor complete, so the claim could not have succeeded *)
           exfalso. destruct (claim_tx_mutex _ _ _ _ _ _ _ _ _ _ Hc Hmi) as [_ Hsteal].
           assert (j <> i) as Hji by congruence.
           specialize (Hsteal j Hown Hji). unfold owner_gone_or_complete in Hsteal. rewrite Hr, Hst in Hsteal. discriminate.
        -- rewrite (claim_tx_mutex_other _ _ _ _ _ _ _ _ _ kk Hc) by (rewrite Hmi; congruence). exact Hown.
      * rewrite (claim_tx_mutex_other _ _ _ _ _ _ _ _ _ kk Hc) by (rewrite Hmi; congruence). exact Hown.
  - destruct (step_put_sem _ _ _ _ _ _ _ HF Hs) as [rowi [m [base [ph [ok [fl [Hpc [Hri [-> [-> _]]]]]]]]]].
    intros j row kk Hr Hst Hmx. rewrite effect_claims_frame by (auto; exact I).
    destruct (Nat.eq_dec i j) as [->|Hne].
    + erewrite effect_stage_put in Hr by exact Hri. inversion Hr; subst row.
      destruct (apply_mod_static m rowi) as [_ [_ [_ [Hm _]]]]. rewrite Hm in Hmx.
      apply apply_mod_running in Hst. eauto.
    + rewrite effect_stages_other in Hr by exact Hne. eauto.
  - intros j row kk Hr. rewrite effect_stages_other in Hr by exact I. rewrite effect_claims_frame by (auto; exact I). eauto.
Qed.

Lemma live_effect s e : live s -> live (apply_effect s e).
Proof. unfold live. rewrite effect_status. auto. Qed.

Lemma step_cfg_inv (P : state -> Prop) :
  (forall s w k e p, Fresh s w -> live s -> step_worker s w = Some (k, e, p) -> P s -> P (apply_effect s e)) ->
  forall c n, FreshAll c -> live (fst c) -> P (fst c) -> P (fst (step_cfg c n)).
Proof.
  intros Hstep c n HF Hl HP. unfold step_cfg.
  destruct (nth_error (snd c) n) as [w|] eqn:Hn; [|exact HP].
  destruct (step_worker (fst c) w) as [[[k e] p]|] eqn:Hs; [|exact HP]. simpl.
  unfold FreshAll in HF. rewrite Forall_forall in HF. eapply Hstep; eauto. apply HF. eapply nth_error_In; eauto.
Qed.

Lemma live_step c n : live (fst c) -> live (fst (step_cfg c n)).
Proof.
  intros Hl. unfold step_cfg. destruct (nth_error (snd c) n) as [w|]; [|exact Hl].
  destruct (step_worker (fst c) w) as [[[k e] p]|]; [|exact Hl]. simpl. apply live_effect. exact Hl.
Qed.

Lemma run_conc_inv (P : state -> Prop) :
  (forall s w k e p, Fresh s w -> live s -> step_worker s w = Some (k, e, p) -> P s -> P (apply_effect s e)) ->
  forall sched c, FreshAll c -> live (fst c) -> P (fst c) -> P (fst (run_conc sched c)).
Proof.
  intros Hstep. unfold run_conc. induction sched as [|n r IH]; simpl; intros c HF Hl HP; [exact HP|].
  apply IH; [apply fresh_step, HF|apply live_step, Hl|apply step_cfg_inv; auto].
Qed.

(* C11_mutex_owner: for ANY workers (StartStage / CompleteStage / SignalStage handlers, sweeps) and ANY schedule *)
Theorem mutex_owner_run s ks sched :
  live s -> mutex_owner_inv s -> mutex_owner_inv (fst (run_conc sched (s, map spawn ks))).
Proof. intros Hl HI. apply (run_conc_inv mutex_owner_inv mutex_owner_effect); auto. apply fresh_spawn. Qed.

Corollary mutex_exclusive s j1 j2 r1 r2 k :
  mutex_owner_inv s -> get_stage s j1 = Some r1 -> get_stage s j2 = Some r2 ->
  s_status r1 = RUNNING -> s_status r2 = RUNNING -> s_mutex r1 = Some k -> s_mutex r2 = Some k -> j1 = j2.
Proof. intros HI H1 H2 S1 S2 M1 M2. pose proof (HI _ _ _ H1 S1 M1). pose proof (HI _ _ _ H2 S2 M2). congruence. Qed.

(* ---- the deferred-choice invariant: every member that ever committed NOT_STARTED -> RUNNING owns choice:g ---- *)
Definition choice_owner_inv (s : state) : Prop :=
  forall j jc row g, In (j, jc) (g_starts s) -> get_stage s j = Some row -> s_choice row = Some g ->
                     claim_lookup (w_claims s) false g = Some j.

Lemma effect_starts_frame s e :
  (match e with EClaim _ _ _ true => False | _ => True end) -> g_starts (apply_effect s e) = g_starts s.
Proof.
  destruct e; simpl; intros H; try reflexivity.
  - apply qops_starts.
  - destruct fresh; [contradiction|reflexivity].
  - rewrite qops_starts. reflexivity.
  - destruct (is_complete (w_status s)); reflexivity.
Qed.

Lemma choice_owner_effect s w k e p :
  Fresh s w -> live s -> step_worker s w = Some (k, e, p) -> choice_owner_inv s -> choice_owner_inv (apply_effect s e).
Proof.
  intros HF Hl Hs HI. destruct e as [|qs|i cl obj fr|i new qs|].
  - exact HI.
  - intros j jc row g Hin Hr. rewrite effect_stages_other in Hr by exact I.
    rewrite effect_starts_frame in Hin by exact I. rewrite effect_claims_frame by (auto; exact I). eauto.
  - destruct (step_claim_sem _ _ _ _ _ _ _ _ HF Hs) as [id [retry [rowi [Hk [Hpc [Hri Hc]]]]]].
    assert (obj = claim_obj rowi) as -> by (apply claim_step_claim in Hc; tauto).
    assert (w_claims (apply_effect s (EClaim i cl (claim_obj rowi) fr)) = cl) as Hcl by (simpl; destruct fr; reflexivity).
    intros j jc row g Hin Hr Hg. rewrite Hcl.
    destruct (Nat.eq_dec i j) as [->|Hne].
    + erewrite effect_stage_claim in Hr by exact Hri. inversion Hr; subst row.
      destruct (claim_obj_static rowi) as [_ [_ [_ [_ [Hch _]]]]]. rewrite Hch in Hg.
      eapply claim_tx_choice; eauto.
    + rewrite effect_stages_other in Hr by exact Hne.
      assert (In (j, jc) (g_starts s)) as Hin'.
      { simpl in Hin. destruct fr; simpl in Hin; [|exact Hin]. destruct Hin as [E|Hin]; [inversion E; congruence|exact Hin]. }
      pose proof (HI j jc row g Hin' Hr Hg) as Hown.
      destruct (s_choice rowi) as [gi|] eqn:Hgi.
      * destruct (Nat.eq_dec gi g) as [->|Hg'].
        -- exfalso. destruct (claim_tx_choice _ _ _ _ _ _ _ _ _ _ Hc Hgi) as [_ Hsame]. specialize (Hsame j Hown). congruence.
        -- rewrite (claim_tx_choice_other _ _ _ _ _ _ _ _ _ g Hc) by (rewrite Hgi; congruence). exact Hown.
      * rewrite (claim_tx_choice_other _ _ _ _ _ _ _ _ _ g Hc) by (rewrite Hgi; congruence). exact Hown.
  - destruct (step_put_sem _ _ _ _ _ _ _ HF Hs) as [rowi [m [base [ph [ok [fl [Hpc [Hri [-> [-> _]]]]]]]]]].
    intros j jc row g Hin Hr Hg. rewrite effect_starts_frame in Hin by exact I. rewrite effect_claims_frame by (auto; exact I).
    destruct (Nat.eq_dec i j) as [->|Hne].
    + erewrite effect_stage_put in Hr by exact Hri. inversion Hr; subst row.
      destruct (apply_mod_static m rowi) as [_ [_ [_ [_ [Hch _]]]]]. rewrite Hch in Hg. eauto.
    + rewrite effect_stages_other in Hr by exact Hne. eauto.
  - intros j jc row g Hin Hr. rewrite effect_stages_other in Hr by exact I.
    rewrite effect_starts_frame in Hin by exact I. rewrite effect_claims_frame by (auto; exact I). eauto.
Qed.

Theorem choice_owner_run s ks sched :
  live s -> choice_owner_inv s -> choice_owner_inv (fst (run_conc sched (s, map spawn ks))).
Proof. intros Hl HI. apply (run_conc_inv choice_owner_inv choice_owner_effect); auto. apply fresh_spawn. Qed.

Corollary choice_one_winner s j1 j2 c1 c2 r1 r2 g :
  choice_owner_inv s -> In (j1, c1) (g_starts s) -> In (j2, c2) (g_starts s) ->
  get_stage s j1 = Some r1 -> get_stage s j2 = Some r2 -> s_choice r1 = Some g -> s_choice r2 = Some g -> j1 = j2.
Proof. intros HI I1 I2 H1 H2 G1 G2. pose proof (HI _ _ _ _ I1 H1 G1). pose proof (HI _ _ _ _ I2 H2 G2). congruence. Qed.

(* the sweep: identity on a live execution, deletes the claims of a completed one (and nothing else) *)
Lemma sweep_live s : live s -> apply_effect s ESweep = s.
Proof. unfold live. simpl. intros ->. reflexivity. Qed.
Lemma sweep_complete s : is_complete (w_status s) = true -> apply_effect s ESweep = with_claims [] s.
Proof. simpl. intros ->. reflexivity. Qed.

(* ---- progress: who re-queues, who cancels, when a claim succeeds ---- *)
Lemma acquire_succeeds s b k i steal :
  (forall o, claim_lookup (w_claims s) b k = Some o -> o = i \/ (steal = true /\ owner_gone_or_complete s o = true)) ->
  fst (acquire_claim s b k i steal) = true.
Proof.
  intros H. unfold acquire_claim. destruct (claim_lookup (w_claims s) b k) as [o|]; [|reflexivity].
  destruct (o =? i) eqn:Eo; [reflexivity|].
  destruct (H o eq_refl) as [->|[-> Hg]]; [rewrite Nat.eqb_refl in Eo; discriminate|].
  unfold owner_gone_or_complete in Hg. simpl. rewrite Hg. reflexivity.
Qed.

Lemma acquire_fails s b k i steal o :
  claim_lookup (w_claims s) b k = Some o -> o <> i -> (steal = false \/ owner_gone_or_complete s o = false) ->
  fst (acquire_claim s b k i steal) = false.
Proof.
  intros Hl Hne Hs. unfold acquire_claim. rewrite Hl.
  destruct (o =? i) eqn:Eo; [apply Nat.eqb_eq in Eo; congruence|].
  unfold owner_gone_or_complete in Hs. destruct Hs as [->|Hs]; [reflexivity|]. rewrite Hs. destruct steal; reflexivity.
Qed.

(* C11_mutex_progress (a): a stage that loses the mutex - at the fast path or in the claim transaction - pushes
   StartStage(retry + 1) for itself, whatever retry is (no budget on this path) *)
Lemma mutex_loser_claim s id i retry st k o :
  s_mutex st = Some k -> claim_lookup (w_claims s) true k = Some o -> o <> i -> owner_gone_or_complete s o = false ->
  claim_step s id i retry st = (ENone, requeue_pc i retry).
Proof.
  intros Hm Hl Hne Hg. unfold claim_step. rewrite eff_mutex, Hm.
  rewrite (acquire_fails s true k i mutex_claim_steals o Hl Hne (or_intror Hg)). reflexivity.
Qed.

Lemma requeue_step s w id i retry :
  w_kind w = WStart id i retry -> w_pc w = requeue_pc i retry ->
  exists k, step_worker s w = Some (k, EQ [QPush (MStartStage i (retry + mutex_requeue_increment))], PMark).
Proof. intros Hk Hp. unfold step_worker. rewrite Hp. simpl. eexists. reflexivity. Qed.

Lemma push_in_queue s m : In m (map q_msg (w_queue (push m s))).
Proof. simpl. rewrite map_app. apply in_or_app. right. left. reflexivity. Qed.

(* C11_mutex_progress (b): the claim of a NOT_STARTED stage succeeds whenever the claim is free, its own, or its owner
   is gone or complete *)
Lemma mutex_claim_succeeds s id i retry row k :
  get_stage s i = Some row -> s_status row = NOT_STARTED -> s_mutex row = Some k -> s_choice row = None ->
  (forall o, claim_lookup (w_claims s) true k = Some o -> o = i \/ owner_gone_or_complete s o = true) ->
  exists cl p, claim_step s id i retry row = (EClaim i cl (claim_obj row) true, p) /\ claim_lookup cl true k = Some i.
Proof.
  intros Hr Hst Hm Hc Hown. unfold claim_step. rewrite eff_mutex, eff_choice, eff_status, Hm, Hc, Hst, Hr.
  assert (fst (acquire_claim s true k i mutex_claim_steals) = true) as Ha.
  { apply acquire_succeeds. intros o Ho. destruct (Hown o Ho); auto. }
  rewrite Ha. simpl. rewrite Z.eqb_refl, Hst. simpl.
  eexists. eexists. split; [reflexivity|]. apply acquire_owner. exact Ha.
Qed.

(* C11_choice_one_winner (losers): a member of a decided group cancels itself, at the fast path or in the claim *)
Lemma choice_loser_claim s id i retry st g o :
  s_mutex st = None -> s_choice st = Some g -> claim_lookup (w_claims s) false g = Some o -> o <> i ->
  claim_step s id i retry st = (ENone, cancel_self_pc id i).
Proof.
  intros Hm Hg Hl Hne. unfold claim_step. rewrite eff_mutex, eff_choice, Hm, Hg. simpl.
  assert (fst (acquire_claim (with_claims (w_claims s) s) false g i choice_claim_steals) = false) as Ha.
  { eapply acquire_fails; [exact Hl|exact Hne|left; reflexivity]. }
  rewrite Ha. reflexivity.
Qed.

Lemma choice_loser_claim_any s id i retry st g :
  s_choice st = Some g ->
  (forall cl, claim_lookup cl false g = claim_lookup (w_claims s) false g -> exists o, claim_lookup cl false g = Some o /\ o <> i) ->
  snd (claim_step s id i retry st) = cancel_self_pc id i \/ snd (claim_step s id i retry st) = requeue_pc i retry.
Proof.
  intros Hg Hl. unfold claim_step. rewrite eff_choice, Hg.
  set (m := match s_mutex (eff st) with Some k => acquire_claim s true k i mutex_claim_steals | None => (true, w_claims s) end).
  destruct (fst m) eqn:Hm; simpl; [|right; reflexivity].
  assert (claim_lookup (snd m) false g = claim_lookup (w_claims s) false g) as Hsame.
  { subst m. destruct (s_mutex (eff st)); [apply acquire_other; congruence|reflexivity]. }
  destruct (Hl _ Hsame) as [o [Ho Hne]].
  assert (fst (acquire_claim (with_claims (snd m) s) false g i choice_claim_steals) = false) as Ha.
  { eapply acquire_fails; [exact Ho|exact Hne|left; reflexivity]. }
  rewrite Ha. left. reflexivity.
Qed.

Lemma cancel_self_step s w id i retry :
  w_kind w = WStart id i retry -> w_pc w = cancel_self_pc id i ->
  exists k, step_worker s w = Some (k, EQ [QMark id; QPush (MCancelStage i)], PMark).
Proof. intros Hk Hp. unfold step_worker. rewrite Hp. simpl. eexists. reflexivity. Qed.

(* the winner pushes one CancelStage per sibling that is still NOT_STARTED when it looks *)
Lemma winner_cancels_siblings s id i cl g :
  s_choice cl = Some g -> pc_pushes (sibs_pc s id i cl) = map MCancelStage (siblings_not_started s i g).
Proof.
  intros Hg. unfold sibs_pc. rewrite Hg, pushes_commits. unfold plan_pc. simpl. rewrite app_nil_r.
  induction (siblings_not_started s i g) as [|j l IH]; simpl; [reflexivity|]. rewrite IH. reflexivity.
Qed.

(* ------------------------------------------------------------------------------------------ *)
(* part 5: acquire_claim as coded                                                              *)
(* ------------------------------------------------------------------------------------------ *)

Lemma nodup_map_inj {A B} (f : A -> B) l a b : NoDup (map f l) -> In a l -> In b l -> f a = f b -> a = b.
Proof.
  induction l as [|x l IH]; simpl; intros Hn Ha Hb Hf; [contradiction|].
  inversion Hn; subst. destruct Ha as [->|Ha], Hb as [->|Hb]; auto.
  - exfalso. apply H1. rewrite Hf. apply in_map. exact Hb.
  - exfalso. apply H1. rewrite <- Hf. apply in_map. exact Ha.
Qed.

Lemma claim_is_key b k c : claim_is b k c = true -> fst c = (b, k).
Proof.
  destruct c as [[cb ck] ci]. unfold claim_is. simpl. intros H. apply andb_prop in H. destruct H as [H1 H2].
  apply Bool.eqb_prop in H1. apply Nat.eqb_eq in H2. subst. reflexivity.
Qed.

Lemma unique_key_entry cl b k c :
  NoDup (map fst cl) -> find (claim_is b k) cl = Some c -> forall c', In c' cl -> claim_is b k c' = true -> c' = c.
Proof.
  intros Hn Hf c' Hin Hc'. apply find_some in Hf. destruct Hf as [Hin0 Hc0].
  eapply nodup_map_inj; eauto. rewrite (claim_is_key _ _ _ Hc'), (claim_is_key _ _ _ Hc0). reflexivity.
Qed.

Lemma update_owner_unique cl b k i c :
  NoDup (map fst cl) -> find (claim_is b k) cl = Some c ->
  update_owner cl b k i (snd c) = (1, map (fun c' => if claim_is b k c' then (b, k, i) else c') cl).
Proof.
  intros Hn Hf. unfold update_owner.
  assert (forall c', In c' cl -> (claim_is b k c' && (snd c' =? snd c)) = claim_is b k c') as Hsame.
  { intros c' Hin. destruct (claim_is b k c') eqn:E; [|reflexivity].
    rewrite (unique_key_entry _ _ _ _ Hn Hf c' Hin E). simpl. apply Nat.eqb_refl. }
  f_equal.
  - rewrite (filter_ext_in _ (claim_is b k)) by exact Hsame.
    clear Hsame. revert Hn Hf. induction cl as [|a l IH]; simpl; [discriminate|].
    intros Hn Hf. inversion Hn; subst. destruct (claim_is b k a) eqn:Ea.
    + simpl. f_equal. assert (filter (claim_is b k) l = []) as ->; [|reflexivity].
      apply filter_nil_iff. intros x Hx. destruct (claim_is b k x) eqn:Ex; [|reflexivity].
      exfalso. apply H1. rewrite (claim_is_key _ _ _ Ea), <- (claim_is_key _ _ _ Ex). apply in_map. exact Hx.
    + apply IH; auto.
  - apply map_ext_in. intros c' Hin. rewrite Hsame by exact Hin. reflexivity.
Qed.

Arguments update_owner : simpl never.

(* inside one write transaction (nothing can vanish between the INSERT OR IGNORE and the re-read) and with the
   table's PRIMARY KEY (execution_id, claim_key), the statements of acquire_claim compute Engine.acquire_claim *)
Theorem acquire_claim_coded_eq s b k i steal :
  NoDup (map fst (w_claims s)) -> acquire_claim_coded s b k i steal = acquire_claim s b k i steal.
Proof.
  intros Hn. unfold acquire_claim_coded, acquire_claim, insert_or_ignore.
  destruct (claim_lookup (w_claims s) b k) as [o|] eqn:Hl; simpl; [|reflexivity].
  rewrite Hl. destruct (o =? i); [reflexivity|].
  destruct steal; simpl; [|reflexivity].
  destruct (get_stage s o) as [r|]; simpl.
  - destruct (is_complete (s_status r)); [|reflexivity].
    rewrite claim_lookup_find in Hl. destruct (find (claim_is b k) (w_claims s)) as [c|] eqn:Hf; [|discriminate].
    simpl in Hl. inversion Hl; subst o. pose proof (update_owner_unique _ _ _ i _ Hn Hf) as Hu. unfold update_owner in Hu.
    inversion Hu as [[Hu1 Hu2]]. rewrite Hu1, Hu2. reflexivity.
  - rewrite claim_lookup_find in Hl. destruct (find (claim_is b k) (w_claims s)) as [c|] eqn:Hf; [|discriminate].
    simpl in Hl. inversion Hl; subst o. pose proof (update_owner_unique _ _ _ i _ Hn Hf) as Hu. unfold update_owner in Hu.
    inversion Hu as [[Hu1 Hu2]]. rewrite Hu1, Hu2. reflexivity.
Qed.

(* ------------------------------------------------------------------------------------------ *)
(* executable forms of the invariants (for the non-vacuity examples) and of "a start was lost"  *)
(* ------------------------------------------------------------------------------------------ *)

Lemma get_stage_in_seqn s j row : get_stage s j = Some row -> In j (seqn (length (w_stages s))).
Proof.
  unfold get_stage, seqn. intros H. apply in_seq. split; [lia|]. simpl.
  apply nth_error_Some. congruence.
Qed.

Definition mutex_owner_invb (s : state) : bool :=
  forallb (fun j => match get_stage s j with
                    | Some row =>
                        negb (status_eqb (s_status row) RUNNING) ||
                        match s_mutex row with
                        | Some k => match claim_lookup (w_claims s) true k with Some o => o =? j | None => false end
                        | None => true end
                    | None => true end) (seqn (length (w_stages s))).

Lemma mutex_owner_invb_ok s : mutex_owner_invb s = true -> mutex_owner_inv s.
Proof.
  unfold mutex_owner_invb. rewrite forallb_forall. intros H j row k Hr Hst Hm.
  specialize (H j (get_stage_in_seqn _ _ _ Hr)). rewrite Hr, Hst, Hm in H. simpl in H.
  destruct (claim_lookup (w_claims s) true k) as [o|]; [|discriminate]. apply Nat.eqb_eq in H. subst. reflexivity.
Qed.

Definition choice_owner_invb (s : state) : bool :=
  forallb (fun p => match get_stage s (fst p) with
                    | Some row => match s_choice row with
                                  | Some g => match claim_lookup (w_claims s) false g with Some o => o =? fst p | None => false end
                                  | None => true end
                    | None => true end) (g_starts s).

Lemma choice_owner_invb_ok s : choice_owner_invb s = true -> choice_owner_inv s.
Proof.
  unfold choice_owner_invb. rewrite forallb_forall. intros H j jc row g Hin Hr Hg.
  specialize (H (j, jc) Hin). simpl in H. rewrite Hr, Hg in H.
  destruct (claim_lookup (w_claims s) false g) as [o|]; [|discriminate]. apply Nat.eqb_eq in H. subst. reflexivity.
Qed.

Definition ready_now (s : state) (j : nat) : bool :=
  match get_stage s j with
  | Some st => match rr_phase (evaluate_readiness (rstage_of st) (upstream s st) (s_bypass st)) with P_READY => true | _ => false end
  | None => false
  end.

Definition handled (ws : list worker) (id : nat) : bool := existsb (fun w => kind_id (w_kind w) =? id) ws.

(* a StartStage for j that no worker of this run is handling *)
Definition pending_start (c : cfg) (j : nat) : bool :=
  existsb (fun r => match q_msg r with
                    | MStartStage j' _ => (j' =? j) && negb (handled (snd c) (q_id r))
                    | _ => false end) (w_queue (fst c)).

Definition all_done (c : cfg) : bool := forallb (fun w => match w_pc w with PDone => true | _ => false end) (snd c).

(* every handler returned normally (its message is acked), the stage is NOT_STARTED and READY, nothing will start it *)
Definition lost_start (c : cfg) (j : nat) : bool :=
  not_started (fst c) j && ready_now (fst c) j && all_done c && negb (pending_start c j).

(* every handler returned normally, the stage is RUNNING with its plan commit missing, and neither a StartStage nor a
   StartTask for it is pending *)
Definition lost_plan (c : cfg) (j : nat) : bool :=
  match get_stage (fst c) j with
  | Some row => status_eqb (s_status row) RUNNING && s_plan_pending row
  | None => false end
  && all_done c && negb (pending_start c j)
  && negb (existsb (fun r => match q_msg r with MStartTask j' _ => j' =? j | _ => false end) (w_queue (fst c))).

(* ------------------------------------------------------------------------------------------ *)
(* part 6: well-formed program counters (what the handlers can have in flight)                 *)
(* ------------------------------------------------------------------------------------------ *)

Definition no_starttask (qs : list qop) : Prop := forall i t, ~ In (QPush (MStartTask i t)) qs.

(* a stage object the StartStage handler goes on to claim: NOT_STARTED, or a zombie (RUNNING, plan commit missing) *)
Definition claimable (st : stage) : Prop :=
  s_status st = NOT_STARTED \/ (s_status st = RUNNING /\ (s_plan_pending st = true \/ s_tasks st = [])).
(* a claimed object whose plan commit is still to come *)
Definition planable (cl : stage) : Prop :=
  s_status cl = RUNNING /\ (s_plan_pending cl = true \/ s_tasks cl = []).

Fixpoint pc_wf (k : wkind) (p : pc) : Prop :=
  match p with
  | SReadMutex st | SReadChoice st | SClaim st => claimable st
  | SReadSibs cl => planable cl
  | PCas j base phase m qs ok fail =>
      pc_wf k ok /\ pc_wf k fail /\
      match m with
      | MPlan => (exists id i r, k = WStart id i r /\ j = i /\ qs = QMark id :: map QPush (first_msgs i base)) /\ planable base
      | MTerminal => (exists id i r, k = WStart id i r) /\ no_starttask qs
      | MBranch b' => (exists id, k = WComplete id b') /\ qs = []
      | MEnd x => (exists id, k = WComplete id j) /\ end_ok x = true /\ no_starttask qs /\ ok = PMark
      | MBuffer n => (exists id i, k = WSignal id i n) /\ no_starttask qs
      end
  | PCommits cs next => Forall no_starttask cs /\ pc_wf k next
  | CReadDown _ _ x | CTrackRead _ _ x _ _ _ => end_ok x = true
  | _ => True
  end.

Definition wfw (w : worker) : Prop := pc_wf (w_kind w) (w_pc w).

Lemma wf_commits k cs next : Forall no_starttask cs -> pc_wf k next -> pc_wf k (commits cs next).
Proof. destruct cs; simpl; auto. Qed.

Lemma nst_nil : no_starttask []. Proof. intros i t []. Qed.
Lemma nst_cons q qs : (forall i t, q <> QPush (MStartTask i t)) -> no_starttask qs -> no_starttask (q :: qs).
Proof. intros H1 H2 i t [E|E]; [eapply H1; eauto|eapply H2; eauto]. Qed.
Ltac nst := repeat (first [apply nst_nil | apply nst_cons; [intros ? ?; discriminate|]]).
Ltac wfc := first [apply wf_commits; [constructor; [nst|constructor]|exact I]
                  | simpl; split; [constructor; [nst|constructor]|exact I]].

Lemma nst_map_start ds : no_starttask (map QPush (map (fun d => MStartStage d 0) ds)).
Proof. intros i t H. apply in_map_iff in H. destruct H as [m [E H]]. apply in_map_iff in H. destruct H as [d [<- _]]. discriminate. Qed.

Lemma wf_retry k outer : pc_wf k (retry_or_raise k outer).
Proof. destruct outer; simpl; auto. destruct k; simpl; auto. Qed.

Lemma can_running_not_ns x : can_transition RUNNING x = true -> status_eqb x NOT_STARTED = false.
Proof. destruct x; vm_compute; congruence. Qed.

Lemma wf_plan id i retry cl : planable cl -> pc_wf (WStart id i retry) (plan_pc id i cl).
Proof.
  intros H. unfold plan_pc. simpl. split; [exact I|]. split; [destruct plan_conc_error_swallowed; exact I|].
  split; [|exact H]. exists id, i, retry. auto.
Qed.

Lemma claim_obj_planable st : claimable (eff st) -> planable (claim_obj st).
Proof.
  intros Hc. unfold planable. split; [apply claim_obj_status|].
  unfold claim_obj. destruct (status_eqb (s_status (eff st)) claim_phase_zombie) eqn:E; simpl; [|left; reflexivity].
  apply status_eqb_eq in E. destruct Hc as [Hn|[_ Hp]]; [unfold claim_phase_zombie in E; congruence|exact Hp].
Qed.

Lemma eff_claimable st : claimable st -> claimable (eff st).
Proof. unfold claimable, eff. destruct (s_bypass st); simpl; auto. Qed.

Lemma wf_final id b outer st x ds :
  end_ok x = true -> pc_wf (WComplete id b) (final_pc (WComplete id b) outer id b st x ds).
Proof.
  intros He. unfold final_pc. simpl. split; [exact I|]. split; [apply wf_retry|].
  split; [exists id; reflexivity|]. split; [exact He|]. split; [|reflexivity].
  apply nst_cons; [intros ? ?; discriminate|]. destruct ds; [nst|apply nst_map_start].
Qed.

Lemma wf_track id b outer st x ds todo fuel :
  end_ok x = true -> pc_wf (WComplete id b) (track_pc (WComplete id b) outer id b st x ds todo fuel).
Proof. intros He. unfold track_pc. destruct todo; [apply wf_final; exact He|exact He]. Qed.

(* the end status computed by complete_read passes end_ok *)
Lemma complete_read_end_ok st x :
  complete_stage_guard (s_status st) = true -> status_eqb x RUNNING = false -> can_transition (s_status st) x = true -> end_ok x = true.
Proof.
  intros Hg Hr Hc. unfold complete_stage_guard in Hg. rewrite negb_involutive in Hg. apply status_eqb_eq in Hg. rewrite Hg in Hc.
  unfold end_ok. rewrite Hr, (can_running_not_ns _ Hc). reflexivity.
Qed.

Lemma wf_step s w k e p : wfw w -> step_worker s w = Some (k, e, p) -> pc_wf (w_kind w) p.
Proof.
  unfold wfw, step_worker. destruct (w_pc w) eqn:Hpc; intros Hw H; try discriminate.
  - (* SReadStage *)
    destruct (w_kind w) eqn:Hk; try discriminate. inversion H; subst. destruct (get_stage s i); exact I.
  - (* SReadUps *)
    destruct (w_kind w) eqn:Hk; try discriminate. inversion H; subst. clear H. unfold after_ups.
    destruct (rr_phase _).
    + destruct (negb (start_stage_fresh (s_status (eff st))) && _) eqn:Hz; [exact I|].
      assert (claimable st) as Hcl.
      { apply andb_false_iff in Hz. unfold claimable. rewrite <- eff_status.
        destruct Hz as [Hz|Hz].
        - apply negb_false_iff in Hz. unfold start_stage_fresh in Hz. rewrite negb_involutive in Hz. apply status_eqb_eq in Hz. auto.
        - apply negb_false_iff in Hz. apply andb_prop in Hz. destruct Hz as [H1 H2]. apply status_eqb_eq in H1.
          right. split; [exact H1|]. apply orb_prop in H2. unfold eff in H2. destruct (s_bypass st); simpl in H2;
            (destruct H2 as [H2|H2]; [left; exact H2|right; apply is_nil_true; exact H2]). }
      destruct (should_skip (eff st)); [wfc|].
      unfold after_mutex_check, after_choice_check.
      destruct (s_mutex (eff st)); [exact Hcl|]. destruct (s_choice (eff st)); [destruct (choice_fast_guard _)|]; exact Hcl.
    + destruct (start_stage_late _); [exact I|]. destruct (start_stage_waits _ _); [exact I|].
      destruct (wait_exhausted _ _).
      * simpl. repeat split; auto; [exists id, i, retry; reflexivity|nst].
      * wfc.
    + wfc.
    + destruct (start_stage_late _); [exact I|]. destruct (start_stage_waits _ _); [exact I|].
      destruct (wait_exhausted _ _).
      * simpl. repeat split; auto; [exists id, i, retry; reflexivity|nst].
      * wfc.
  - (* SReadMutex *)
    destruct (w_kind w) eqn:Hk; try discriminate. inversion H; subst. clear H. simpl in Hw.
    destruct (mutex_blocked s i (eff st)).
    + unfold requeue_pc. wfc.
    + unfold after_mutex_check, after_choice_check. destruct (s_choice (eff st)); [destruct (choice_fast_guard _)|]; exact Hw.
  - (* SReadChoice *)
    destruct (w_kind w) eqn:Hk; try discriminate. inversion H; subst. clear H. simpl in Hw.
    destruct (choice_claimed s i (eff st)).
    + unfold cancel_self_pc. wfc.
    + exact Hw.
  - (* SClaim *)
    destruct (w_kind w) eqn:Hk; try discriminate. inversion H; subst. clear H. simpl in Hw.
    unfold claim_step.
    destruct (fst match s_mutex (eff st) with Some k0 => acquire_claim s true k0 i mutex_claim_steals | None => (true, w_claims s) end); simpl.
    2:{ split; [constructor; [nst|constructor]|exact I]. }
    destruct (fst match s_choice (eff st) with Some g => _ | None => _ end); simpl.
    2:{ split; [constructor; [nst|constructor]|exact I]. }
    destruct (get_stage s i); [|exact I].
    destruct (_ && _); simpl; [|destruct claim_conc_error_swallowed; exact I].
    pose proof (claim_obj_planable st (eff_claimable _ Hw)) as Hp.
    destruct (s_choice (eff st)); [exact Hp|apply wf_plan; exact Hp].
  - (* SReadSibs *)
    destruct (w_kind w) eqn:Hk; try discriminate. inversion H; subst. clear H. simpl in Hw.
    unfold sibs_pc. apply wf_commits; [|apply wf_plan; exact Hw].
    destruct (s_choice cl); [|constructor].
    apply Forall_forall. intros c Hc. apply in_map_iff in Hc. destruct Hc as [j [<- _]]. nst.
  - (* PCas *)
    simpl in Hw. destruct Hw as [Hok [Hfail _]]. destruct (cas_ok s j base phase); inversion H; subst; assumption.
  - (* PCommits *)
    simpl in Hw. destruct Hw as [Hcs Hn]. destruct cs as [|c rest]; inversion H; subst; [exact Hn|].
    apply wf_commits; [inversion Hcs; assumption|exact Hn].
  - (* PMark *) inversion H; subst. exact I.
  - (* CReadStage *)
    destruct (w_kind w) eqn:Hk; try discriminate. inversion H; subst. clear H. unfold complete_read.
    destruct (get_stage s b) as [st|]; [|exact I].
    destruct (status_eqb (s_status st) NOT_STARTED); [wfc|].
    destruct (negb (complete_stage_guard (s_status st))) eqn:Hg.
    { destruct (is_halt (s_status st)); [wfc|exact I]. }
    apply negb_false_iff in Hg.
    destruct (status_eqb _ RUNNING) eqn:Hr; [wfc|].
    destruct (negb (can_transition _ _)) eqn:Hc; [exact I|]. apply negb_false_iff in Hc.
    pose proof (complete_read_end_ok _ _ Hg Hr Hc) as He.
    destruct (success_like _); [exact He|].
    simpl. split; [exact I|]. split; [apply wf_retry|]. split; [exists id; reflexivity|]. split; [exact He|]. split; [nst|reflexivity].
  - (* CReadDown *)
    destruct (w_kind w) eqn:Hk; try discriminate. inversion H; subst. clear H. simpl in Hw. apply wf_track. exact Hw.
  - (* CTrackRead *)
    destruct (w_kind w) eqn:Hk; try discriminate. inversion H; subst. clear H. simpl in Hw.
    unfold track_read. destruct todo as [|d rest]; [apply wf_final; exact Hw|].
    destruct (get_stage s d) as [fr|]; [|exact I].
    destruct (mem_nat b (s_branches fr)); [apply wf_track; exact Hw|].
    simpl. split; [apply wf_track; exact Hw|]. split.
    + destruct fuel as [|[|f]]; [apply wf_retry|apply wf_retry|exact Hw].
    + split; [exists id; reflexivity|reflexivity].
  - (* BRead *)
    destruct (w_kind w) eqn:Hk; try discriminate. inversion H; subst. clear H. unfold signal_read.
    destruct (get_stage s i) as [st|]; [|exact I]. destruct (status_eqb (s_status st) SUSPENDED); [exact I|].
    simpl. split; [exact I|]. split; [apply wf_retry|]. split; [exists id, i; reflexivity|nst].
  - (* WSweep *)
    destruct (w_kind w); try discriminate. inversion H; subst. exact I.
Qed.

Definition WfAll (c : cfg) : Prop := Forall wfw (snd c).

Lemma wf_spawn s ks : WfAll (s, map spawn ks).
Proof.
  unfold WfAll. simpl. apply Forall_forall. intros w Hw. apply in_map_iff in Hw. destruct Hw as [k [<- _]].
  unfold wfw, spawn. simpl. destruct k; exact I.
Qed.

Lemma wf_step_cfg c n : WfAll c -> WfAll (step_cfg c n).
Proof.
  unfold WfAll, step_cfg. intros HW.
  destruct (nth_error (snd c) n) as [w|] eqn:Hn; [|exact HW].
  destruct (step_worker (fst c) w) as [[[k e] p]|] eqn:Hs; [|exact HW]. simpl.
  apply Forall_lset; [exact HW|]. unfold wfw. simpl. eapply wf_step; eauto.
  rewrite Forall_forall in HW. apply HW. eapply nth_error_In; eauto.
Qed.

Lemma map_lset {A B} (f : A -> B) l n x y : nth_error l n = Some y -> f x = f y -> map f (list_set l n x) = map f l.
Proof.
  revert n. induction l as [|a l IH]; intros [|n]; simpl; try discriminate.
  - intros H E. inversion H; subst. rewrite E. reflexivity.
  - intros H E. f_equal. apply IH; auto.
Qed.

Lemma kinds_step c n : map w_kind (snd (step_cfg c n)) = map w_kind (snd c).
Proof.
  unfold step_cfg. destruct (nth_error (snd c) n) as [w|] eqn:Hn; [|reflexivity].
  destruct (step_worker (fst c) w) as [[[k e] p]|]; [|reflexivity]. simpl.
  eapply map_lset; eauto.
Qed.

(* a generic induction principle: an invariant of the whole configuration that every step preserves, given the three
   structural invariants (OCC freshness, well-formed pcs, live execution) *)
Lemma run_conc_cfg_inv (P : cfg -> Prop) :
  (forall c n, FreshAll c -> WfAll c -> P c -> P (step_cfg c n)) ->
  forall sched c, FreshAll c -> WfAll c -> P c -> P (run_conc sched c).
Proof.
  intros Hstep. unfold run_conc. induction sched as [|n r IH]; simpl; intros c HF HW HP; [exact HP|].
  apply IH; [apply fresh_step, HF|apply wf_step_cfg, HW|apply Hstep; auto].
Qed.

(* ---- C04_one_start_task ---- *)
Definition is_starttask (i : nat) (r : qrow) : bool := match q_msg r with MStartTask i' _ => i' =? i | _ => false end.
Definition st_count (i : nat) (s : state) : nat := length (filter (is_starttask i) (w_queue s)).
Definition pending_b (s : state) (i : nat) : bool :=
  match get_stage s i with Some row => s_plan_pending row | None => false end.
(* StartTask rows for stage i + 1 while its plan commit is outstanding *)
Definition psi (i : nat) (s : state) : nat := st_count i s + b2n (pending_b s i).

Lemma st_count_qop i s q :
  (forall t, q <> QPush (MStartTask i t)) -> st_count i (apply_qop s q) = st_count i s.
Proof.
  intros H. destruct q as [m|id]; simpl; [|reflexivity].
  unfold st_count. simpl. rewrite filter_app, app_length. simpl.
  unfold is_starttask at 2. simpl. destruct m; simpl; try lia.
  destruct (s0 =? i) eqn:E; simpl; [|lia]. apply Nat.eqb_eq in E. subst. exfalso. eapply H. reflexivity.
Qed.

Lemma st_count_qops i qs : forall s, (forall t, ~ In (QPush (MStartTask i t)) qs) -> st_count i (apply_qops s qs) = st_count i s.
Proof.
  unfold apply_qops. induction qs as [|q qs IH]; simpl; intros s H; [reflexivity|].
  rewrite IH by (intros t Ht; eapply H; right; exact Ht).
  apply st_count_qop. intros t E. eapply H. left. exact E.
Qed.

Lemma step_eq_nst s w k qs p : wfw w -> step_worker s w = Some (k, EQ qs, p) -> no_starttask qs.
Proof.
  unfold wfw, step_worker. destruct (w_pc w) eqn:Hpc; intros Hw H; try discriminate;
    try (destruct (w_kind w); inversion H; fail).
  - destruct (w_kind w); try discriminate. inversion H.
    pose proof (claim_step_effect s id i retry st) as He. rewrite H2 in He. contradiction.
  - destruct (cas_ok s j base phase); inversion H.
  - simpl in Hw. destruct Hw as [Hcs _]. destruct cs as [|c rest]; inversion H; subst; [nst|]. inversion Hcs; assumption.
  - inversion H; subst. nst.
Qed.

Lemma apply_mod_pending m o : m <> MPlan -> s_plan_pending (apply_mod m o) = s_plan_pending o.
Proof.
  destruct m; simpl; intros H; try congruence; try reflexivity.
  - destruct (status_eqb (s_status o) NOT_STARTED); reflexivity.
  - destruct (end_ok x); reflexivity.
Qed.

Lemma pending_other s e i :
  (match e with EPut j _ _ => j <> i | EClaim j _ _ _ => j <> i | _ => True end) ->
  pending_b (apply_effect s e) i = pending_b s i.
Proof. intros H. unfold pending_b. rewrite effect_stages_other by exact H. reflexivity. Qed.

Lemma st_count_put i s j st : st_count i (put_stage j st s) = st_count i s.
Proof. reflexivity. Qed.

Lemma st_count_plan i s id row :
  st_count i (apply_qops s (QMark id :: map QPush (first_msgs i row))) = st_count i s + (if is_nil (s_tasks row) then 0 else 1).
Proof.
  unfold first_msgs, apply_qops, st_count. destruct (s_tasks row); simpl.
  - rewrite filter_app, app_length. simpl. lia.
  - rewrite filter_app, app_length. simpl. unfold is_starttask at 2. simpl. rewrite Nat.eqb_refl. simpl. lia.
Qed.

Lemma psi_put_other s j row m qs i :
  get_stage s j = Some row -> m <> MPlan -> (forall t, ~ In (QPush (MStartTask i t)) qs) ->
  psi i (apply_effect s (EPut j (apply_mod m row) qs)) = psi i s.
Proof.
  intros Hr Hm Hn. unfold psi. f_equal.
  - simpl. rewrite st_count_qops by exact Hn. reflexivity.
  - f_equal. destruct (Nat.eq_dec j i) as [->|Hne]; [|apply pending_other; exact Hne].
    unfold pending_b. erewrite effect_stage_put by exact Hr. rewrite Hr. apply apply_mod_pending. exact Hm.
Qed.

Lemma psi_effect s w k e p i :
  Fresh s w -> wfw w -> step_worker s w = Some (k, e, p) ->
  psi i (apply_effect s e) + starts i s <= psi i s + starts i (apply_effect s e).
Proof.
  intros HF HW Hs. unfold psi. destruct e as [|qs|j cl obj fr|j new qs|].
  - simpl. lia.
  - pose proof (step_eq_nst _ _ _ _ _ HW Hs) as Hn.
    rewrite pending_other by exact I. simpl. rewrite starts_qops, st_count_qops by (intros t; apply Hn). lia.
  - destruct (step_claim_sem _ _ _ _ _ _ _ _ HF Hs) as [id [retry [row [Hk [Hpc [Hr Hc]]]]]].
    apply claim_step_claim in Hc. destruct Hc as [_ [-> [-> _]]].
    assert (st_count i (apply_effect s (EClaim j cl (claim_obj row) (negb (status_eqb (s_status (eff row)) claim_phase_zombie)))) = st_count i s) as ->
      by (simpl; destruct (negb _); reflexivity).
    destruct (Nat.eq_dec j i) as [->|Hne].
    + unfold pending_b at 1. erewrite effect_stage_claim by exact Hr. unfold pending_b. rewrite Hr.
      unfold claim_obj. destruct (status_eqb (s_status (eff row)) claim_phase_zombie) eqn:Hz; simpl.
      * unfold starts. simpl. unfold eff. destruct (s_bypass row); simpl; lia.
      * unfold starts. simpl. rewrite Nat.eqb_refl. simpl. destruct (s_plan_pending row); simpl; lia.
    + rewrite pending_other by exact Hne.
      assert (starts i (apply_effect s (EClaim j cl (claim_obj row) (negb (status_eqb (s_status (eff row)) claim_phase_zombie)))) = starts i s) as ->; [|lia].
      simpl. destruct (negb _); unfold starts; simpl; [|reflexivity].
      destruct (j =? i) eqn:E; [apply Nat.eqb_eq in E; congruence|reflexivity].
  - destruct (step_put_sem _ _ _ _ _ _ _ HF Hs) as [row [m [base [ph [ok [fl [Hpc [Hr [-> [-> _]]]]]]]]]].
    assert (starts i (apply_effect s (EPut j (apply_mod m row) qs)) = starts i s) as -> by (simpl; rewrite starts_qops; reflexivity).
    unfold wfw in HW. rewrite Hpc in HW. simpl in HW. destruct HW as [_ [_ HW]].
    destruct m.
    + (* MPlan *)
      destruct HW as [[id [i' [r [Hk [-> ->]]]]] [Hrun Hpl]].
      destruct (Nat.eq_dec i' i) as [->|Hne].
      * unfold pending_b at 1. erewrite effect_stage_put by exact Hr.
        replace (s_plan_pending (apply_mod MPlan row)) with false by reflexivity.
        unfold pending_b. rewrite Hr. unfold apply_effect. rewrite st_count_plan, st_count_put.
        destruct (s_tasks row) as [|t0 ts] eqn:Ht; simpl.
        -- destruct (s_plan_pending row); simpl; lia.
        -- destruct Hpl as [Hp|Hp]; [|discriminate]. rewrite Hp. simpl. lia.
      * rewrite pending_other by exact Hne. simpl.
        rewrite st_count_qops; [unfold st_count; simpl; lia|].
        intros t E. unfold first_msgs in E. destruct (s_tasks row); simpl in E; destruct E as [E|[]];
          [discriminate|inversion E; congruence].
    + destruct HW as [_ Hn]. fold (psi i (apply_effect s (EPut j (apply_mod MTerminal row) qs))). fold (psi i s).
      rewrite (psi_put_other s j row MTerminal qs i Hr) by (try discriminate; intros t; apply Hn). lia.
    + destruct HW as [_ ->]. fold (psi i (apply_effect s (EPut j (apply_mod (MBranch b) row) []))). fold (psi i s).
      rewrite (psi_put_other s j row (MBranch b) [] i Hr) by (try discriminate; intros t []). lia.
    + destruct HW as [_ [_ [Hn _]]]. fold (psi i (apply_effect s (EPut j (apply_mod (MEnd x) row) qs))). fold (psi i s).
      rewrite (psi_put_other s j row (MEnd x) qs i Hr) by (try discriminate; intros t; apply Hn). lia.
    + destruct HW as [_ Hn]. fold (psi i (apply_effect s (EPut j (apply_mod (MBuffer name) row) qs))). fold (psi i s).
      rewrite (psi_put_other s j row (MBuffer name) qs i Hr) by (try discriminate; intros t; apply Hn). lia.
  - rewrite pending_other by exact I.
    assert (starts i (apply_effect s ESweep) = starts i s) as -> by (simpl; destruct (is_complete (w_status s)); reflexivity).
    assert (st_count i (apply_effect s ESweep) = st_count i s) as -> by (simpl; destruct (is_complete (w_status s)); reflexivity). lia.
Qed.

Lemma psi_step c n i : FreshAll c -> WfAll c ->
  psi i (fst (step_cfg c n)) + starts i (fst c) <= psi i (fst c) + starts i (fst (step_cfg c n)).
Proof.
  unfold FreshAll, WfAll, step_cfg. intros HF HW.
  destruct (nth_error (snd c) n) as [w|] eqn:Hn; [|lia].
  destruct (step_worker (fst c) w) as [[[k e] p]|] eqn:Hs; [|lia]. simpl.
  rewrite Forall_forall in HF, HW. pose proof (nth_error_In _ _ Hn) as Hin.
  eapply psi_effect; eauto.
Qed.

Theorem psi_run sched i : forall c, FreshAll c -> WfAll c ->
  psi i (fst (run_conc sched c)) + starts i (fst c) <= psi i (fst c) + starts i (fst (run_conc sched c)).
Proof.
  unfold run_conc. induction sched as [|n r IH]; simpl; intros c HF HW; [lia|].
  specialize (IH (step_cfg c n) (fresh_step c n HF) (wf_step_cfg c n HW)). pose proof (psi_step c n i HF HW). lia.
Qed.

(* C04_one_start_task: the StartTask rows pushed for stage i during any run are at most: one per claim commit of the
   run (<= 1 by one_claim) + one if a plan commit was already outstanding *)
Theorem one_start_task s ks sched i :
  st_count i (fst (run_conc sched (s, map spawn ks))) <= st_count i s + b2n (pending_b s i) + b2n (not_started s i).
Proof.
  pose proof (psi_run sched i (s, map spawn ks) (fresh_spawn s ks) (wf_spawn s ks)) as H1.
  pose proof (one_claim s ks sched i) as H2. unfold psi in H1. simpl in H1. lia.
Qed.

(* ------------------------------------------------------------------------------------------ *)
(* part 7: C04_join_bump_safe                                                                  *)
(* ------------------------------------------------------------------------------------------ *)

(* fields no handler ever changes *)
Definition sfields (st : stage) := (s_reqs st, s_join st, s_tasks st, s_cof st, s_fp st).
Definition statics (s : state) := map sfields (w_stages s).

Lemma same_static_sfields a b : same_static a b -> sfields a = sfields b.
Proof. intros [H1 [H2 [_ [_ [_ [H6 [H7 H8]]]]]]]. unfold sfields. congruence. Qed.

Lemma statics_effect s w k e p : Fresh s w -> step_worker s w = Some (k, e, p) -> statics (apply_effect s e) = statics s.
Proof.
  intros HF Hs. unfold statics. destruct e as [|qs|i cl obj fr|i new qs|].
  - reflexivity.
  - simpl. rewrite qops_stages. reflexivity.
  - destruct (step_claim_sem _ _ _ _ _ _ _ _ HF Hs) as [id [retry [row [_ [_ [Hr Hc]]]]]].
    apply claim_step_claim in Hc. destruct Hc as [_ [-> _]].
    assert (w_stages (apply_effect s (EClaim i cl (claim_obj row) fr)) = list_set (w_stages s) i (claim_obj row)) as -> by (simpl; destruct fr; reflexivity).
    eapply map_lset; [exact Hr|]. apply same_static_sfields, claim_obj_static.
  - destruct (step_put_sem _ _ _ _ _ _ _ HF Hs) as [row [m [base [ph [ok [fl [_ [Hr [_ [-> _]]]]]]]]]].
    simpl. rewrite qops_stages. simpl. eapply map_lset; [exact Hr|]. apply same_static_sfields, apply_mod_static.
  - simpl. destruct (is_complete (w_status s)); reflexivity.
Qed.

Lemma statics_get s s' j : statics s = statics s' -> option_map sfields (get_stage s j) = option_map sfields (get_stage s' j).
Proof. unfold statics, get_stage. intros H. rewrite <- !nth_error_map. rewrite H. reflexivity. Qed.

Lemma statics_length s s' : statics s = statics s' -> length (w_stages s) = length (w_stages s').
Proof. unfold statics. intros H. rewrite <- (map_length sfields (w_stages s)), H, map_length. reflexivity. Qed.

Lemma downstream_statics s s' b : statics s = statics s' -> downstream s b = downstream s' b.
Proof.
  intros H. unfold downstream. rewrite (statics_length _ _ H). apply filter_ext. intros j.
  pose proof (statics_get s s' j H) as Hj.
  destruct (get_stage s j) as [d|], (get_stage s' j) as [d'|]; simpl in Hj; try discriminate; try reflexivity.
  inversion Hj. unfold sfields in H1. inversion H1. congruence.
Qed.

Lemma downstream_some s b d : In d (downstream s b) -> exists row, get_stage s d = Some row.
Proof.
  unfold downstream. intros H. apply filter_In in H. destruct H as [_ H].
  destruct (get_stage s d) as [row|]; [eauto|discriminate].
Qed.

(* the CompleteStage handler of stage b, reading now, goes on to the success branch with end status x *)
Definition cok (s : state) (b : nat) (x : status) : Prop :=
  exists row, get_stage s b = Some row /\ s_status row = RUNNING /\
    determine_status RUNNING (s_cof row) (s_fp row) [] (s_tasks row) [] = x /\
    status_eqb x RUNNING = false /\ can_transition RUNNING x = true /\ success_like x = true.

Lemma cok_read s k outer id b x :
  cok s b x -> exists row, get_stage s b = Some row /\ complete_read s k outer id b = CReadDown outer row x.
Proof.
  intros [row [Hr [Hst [Hx [Hnr [Hct Hsl]]]]]]. exists row. split; [exact Hr|].
  unfold complete_read. rewrite Hr, Hst. simpl. rewrite Hx, Hnr, Hct, Hsl. reflexivity.
Qed.

Lemma read_cok s k outer id b outer' st x :
  complete_read s k outer id b = CReadDown outer' st x -> outer' = outer /\ get_stage s b = Some st /\ cok s b x.
Proof.
  unfold complete_read. destruct (get_stage s b) as [row|] eqn:Hr; [|discriminate].
  destruct (status_eqb (s_status row) NOT_STARTED); [discriminate|].
  destruct (negb (complete_stage_guard (s_status row))) eqn:Hg.
  { destruct (is_halt (s_status row)); discriminate. }
  apply negb_false_iff in Hg. unfold complete_stage_guard in Hg. rewrite negb_involutive in Hg. apply status_eqb_eq in Hg.
  rewrite Hg.
  destruct (status_eqb (determine_status RUNNING (s_cof row) (s_fp row) [] (s_tasks row) []) RUNNING) eqn:Hnr; [discriminate|].
  destruct (negb (can_transition RUNNING _)) eqn:Hct; [discriminate|]. apply negb_false_iff in Hct.
  destruct (success_like _) eqn:Hsl; [|discriminate].
  intros H. inversion H; subst. repeat split. exists st. repeat split; auto.
Qed.

Lemma apply_mod_status_keep m o :
  (match m with MEnd _ => False | _ => True end) -> s_status o = RUNNING -> s_status (apply_mod m o) = RUNNING.
Proof. destruct m; simpl; intros H Hs; try contradiction; auto. rewrite Hs. simpl. exact Hs. Qed.

(* cok survives every step that is not the final commit of a CompleteStage worker of b *)
Lemma cok_effect s w k e p b x :
  Fresh s w -> wfw w -> step_worker s w = Some (k, e, p) -> cok s b x ->
  (forall id, w_kind w = WComplete id b -> match w_pc w with PCas _ _ _ (MEnd _) _ _ _ => False | _ => True end) ->
  cok (apply_effect s e) b x.
Proof.
  intros HF HW Hs [row [Hr [Hst [Hx Hrest]]]] Hnf. destruct e as [|qs|i cl obj fr|i new qs|].
  - exists row. auto.
  - exists row. rewrite effect_stages_other by exact I. auto.
  - destruct (Nat.eq_dec i b) as [->|Hne]; [|exists row; rewrite effect_stages_other by exact Hne; auto].
    destruct (step_claim_sem _ _ _ _ _ _ _ _ HF Hs) as [id [retry [row' [_ [_ [Hr' Hc]]]]]].
    rewrite Hr in Hr'. inversion Hr'; subst row'.
    apply claim_step_claim in Hc. destruct Hc as [_ [-> _]].
    exists (claim_obj row). split; [eapply effect_stage_claim; eauto|]. split; [apply claim_obj_status|].
    destruct (claim_obj_static row) as [_ [_ [_ [_ [_ [Ht [Hc Hf]]]]]]]. rewrite Ht, Hc, Hf. auto.
  - destruct (Nat.eq_dec i b) as [->|Hne]; [|exists row; rewrite effect_stages_other by exact Hne; auto].
    destruct (step_put_sem _ _ _ _ _ _ _ HF Hs) as [row' [m [base [ph [ok [fl [Hpc [Hr' [_ [-> _]]]]]]]]]].
    rewrite Hr in Hr'. inversion Hr'; subst row'.
    assert (match m with MEnd _ => False | _ => True end) as Hm.
    { destruct m; try exact I. unfold wfw in HW. rewrite Hpc in HW. simpl in HW.
      destruct HW as [_ [_ [[id Hk] _]]]. specialize (Hnf id Hk). rewrite Hpc in Hnf. exact Hnf. }
    exists (apply_mod m row). split; [eapply effect_stage_put; eauto|]. split; [apply apply_mod_status_keep; auto|].
    destruct (apply_mod_static m row) as [_ [_ [_ [_ [_ [Ht [Hc Hf]]]]]]]. rewrite Ht, Hc, Hf. auto.
  - exists row. rewrite effect_stages_other by exact I. auto.
Qed.

(* pcs of a CompleteStage worker from which it will still push the downstream StartStage (or keep its message) *)
Definition tokpc (p : pc) : bool :=
  match p with
  | CReadStage o => o <? reruns              (* a re-run by retry_on_concurrency_error *)
  | CReadDown _ _ _ | CTrackRead _ _ _ _ _ _ | PRaised => true
  | PCas _ _ _ (MBranch _) _ _ _ => true
  | PCas _ _ _ (MEnd x) _ _ _ => success_like x
  | _ => false
  end.

Definition final_qs (id : nat) (ds : list nat) : list qop :=
  QMark id :: map QPush (match ds with [] => [MCompleteWorkflow 0] | _ => map (fun d => MStartStage d 0) ds end).

Fixpoint region (s : state) (id b : nat) (p : pc) : Prop :=
  match p with
  | CReadStage o => o <= reruns
  | CReadDown o _ x => o <= reruns /\ cok s b x
  | CTrackRead o _ x ds todo _ => o <= reruns /\ cok s b x /\ ds = downstream s b /\ incl todo ds
  | PCas d _ _ (MBranch _) _ ok fail =>
      In d (downstream s b) /\ (exists x, cok s b x) /\ tokpc ok = true /\ tokpc fail = true /\
      region s id b ok /\ region s id b fail
  | PCas _ _ _ (MEnd x) qs ok fail =>
      region s id b fail /\
      (success_like x = true -> cok s b x /\ qs = final_qs id (downstream s b) /\ tokpc fail = true)
  | PCommits _ next => region s id b next
  | _ => True
  end.

Lemma region_commits s id b cs next : region s id b next -> region s id b (commits cs next).
Proof. destruct cs; simpl; auto. Qed.

Definition regionw (s : state) (w : worker) : Prop :=
  match w_kind w with WComplete id b => region s id b (w_pc w) | _ => True end.

Lemma region_transport s s' id b p :
  statics s' = statics s -> (forall x, cok s b x -> cok s' b x) -> region s id b p -> region s' id b p.
Proof.
  intros Hst Hc. induction p; simpl; auto.
  - (* PCas *)
    destruct m; auto.
    + intros [Hd [[x Hx] [Ho [Hf [Ro Rf]]]]]. rewrite (downstream_statics _ _ b Hst). repeat split; auto. exists x. auto.
    + intros [Rf Hs]. split; [auto|]. intros Hsl. destruct (Hs Hsl) as [H1 [H2 H3]].
      rewrite (downstream_statics _ _ b Hst). auto.
  - intros [Ho Hx]. auto.
  - intros [Ho [Hx [Hds Hi]]]. rewrite (downstream_statics _ _ b Hst). auto.
Qed.

Lemma tok_retry id b outer : outer <= reruns -> tokpc (retry_or_raise (WComplete id b) outer) = true.
Proof. destruct outer; simpl; auto. intros H. apply Nat.ltb_lt. lia. Qed.

Lemma region_retry s id b outer : outer <= reruns -> region s id b (retry_or_raise (WComplete id b) outer).
Proof. destruct outer; simpl; auto. intros H. lia. Qed.

Lemma region_final s id b outer st x ds :
  outer <= reruns -> cok s b x -> ds = downstream s b ->
  region s id b (final_pc (WComplete id b) outer id b st x ds) /\ tokpc (final_pc (WComplete id b) outer id b st x ds) = true.
Proof.
  intros Ho Hx Hds. unfold final_pc. simpl. split.
  - split; [apply region_retry; exact Ho|]. intros _. subst ds. split; [exact Hx|]. split; [reflexivity|apply tok_retry; exact Ho].
  - destruct Hx as [row [_ [_ [_ [_ [_ Hsl]]]]]]. exact Hsl.
Qed.

Lemma region_track s id b outer st x ds todo fuel :
  outer <= reruns -> cok s b x -> ds = downstream s b -> incl todo ds ->
  region s id b (track_pc (WComplete id b) outer id b st x ds todo fuel) /\
  tokpc (track_pc (WComplete id b) outer id b st x ds todo fuel) = true.
Proof.
  intros Ho Hx Hds Hi. unfold track_pc. destruct todo; [apply region_final; auto|]. simpl. auto.
Qed.

(* one step of a CompleteStage worker keeps its region facts (evaluated in the state BEFORE the step) *)
Lemma region_step s w k e p id b :
  w_kind w = WComplete id b -> wfw w -> region s id b (w_pc w) -> step_worker s w = Some (k, e, p) -> region s id b p.
Proof.
  intros Hk HW HR. unfold step_worker. rewrite Hk. revert HR. destruct (w_pc w) eqn:Hpc; intros HR H; try discriminate.
  - (* PCas *)
    unfold wfw in HW. rewrite Hpc, Hk in HW. simpl in HW. destruct HW as [_ [_ HW]].
    destruct m; simpl in HR.
    + destruct HW as [[id' [i' [r' [E _]]]] _]. discriminate.
    + destruct HW as [[id' [i' [r' E]]] _]. discriminate.
    + destruct HR as [_ [_ [_ [_ [Ro Rf]]]]]. destruct (cas_ok s j base phase); inversion H; subst; assumption.
    + destruct HW as [_ [_ [_ ->]]]. destruct HR as [Rf _]. destruct (cas_ok s j base phase); inversion H; subst; [exact I|exact Rf].
    + destruct HW as [[id' [i' E]] _]. discriminate.
  - simpl in HR. destruct cs; inversion H; subst; [exact HR|]. apply region_commits. exact HR.
  - inversion H; subst. exact I.
  - (* CReadStage *)
    inversion H; subst. clear H. simpl in HR. unfold complete_read.
    destruct (get_stage s b) as [row|] eqn:Hr; [|exact I].
    destruct (status_eqb (s_status row) NOT_STARTED) eqn:Hns; [exact I|].
    destruct (negb (complete_stage_guard (s_status row))) eqn:Hg. { destruct (is_halt (s_status row)); exact I. }
    apply negb_false_iff in Hg. unfold complete_stage_guard in Hg. rewrite negb_involutive in Hg. apply status_eqb_eq in Hg.
    rewrite Hg.
    destruct (status_eqb (determine_status RUNNING (s_cof row) (s_fp row) [] (s_tasks row) []) RUNNING) eqn:Hnr; [exact I|].
    destruct (negb (can_transition RUNNING _)) eqn:Hct; [exact I|]. apply negb_false_iff in Hct.
    destruct (success_like _) eqn:Hsl; simpl.
    + split; [exact HR|]. exists row. repeat split; auto.
    + split; [apply region_retry; exact HR|]. intros Hx. congruence.
  - (* CReadDown *)
    inversion H; subst. clear H. simpl in HR. destruct HR as [Ho Hx].
    apply region_track; auto. intros d Hd. apply filter_In in Hd. tauto.
  - (* CTrackRead *)
    inversion H; subst. clear H. simpl in HR. destruct HR as [Ho [Hx [Hds Hi]]].
    unfold track_read. destruct todo as [|d rest]; [apply region_final; auto|].
    destruct (get_stage s d) as [fr|]; [|exact I].
    assert (incl rest ds) as Hi' by (intros y Hy; apply Hi; right; exact Hy).
    destruct (mem_nat b (s_branches fr)); [apply region_track; auto|].
    simpl. split; [subst ds; apply Hi; left; reflexivity|]. split; [eauto|].
    destruct (region_track s id b outer st x ds rest track_tries Ho Hx Hds Hi') as [R1 T1].
    split; [exact T1|].
    destruct fuel as [|[|f]]; simpl; (split; [try (apply tok_retry; exact Ho); reflexivity|]); (split; [exact R1|]);
      try (apply region_retry; exact Ho); auto.
Qed.

(* ---- tokens ---- *)
Definition version_of (s : state) (j : nat) : Z := match get_stage s j with Some row => s_version row | None => 0%Z end.

(* the join stage is still NOT_STARTED and its version is not the one it had when the run began: some non-claimant
   writer has bumped it (a claim / plan / terminal store would have moved it out of NOT_STARTED) *)
Definition bumped (s0 s : state) (j : nat) : Prop := not_started s j = true /\ version_of s j <> version_of s0 j.

(* a StartStage(j) row pushed during the run (no worker of the run handles it: their messages were polled before) *)
Definition tok_queue (s0 s : state) (j : nat) : Prop :=
  exists r, In r (w_queue s) /\ q_msg r = MStartStage j 0 /\ w_next s0 <= q_id r.

(* a CompleteStage worker of an upstream of j that is past its first read and has not yet committed its final
   transaction (which pushes StartStage(j)), or whose handler raised (the CompleteStage message stays in the queue) *)
Definition tok_worker (c : cfg) (j : nat) : Prop :=
  exists n w id b, nth_error (snd c) n = Some w /\ w_kind w = WComplete id b /\ In j (downstream (fst c) b) /\
                   tokpc (w_pc w) = true /\ (w_pc w = PRaised \/ exists x, cok (fst c) b x).

Definition no_signal (ks : list wkind) : Prop := forall id i n, ~ In (WSignal id i n) ks.
Definition complete_of (k : wkind) : list nat := match k with WComplete _ b => [b] | _ => [] end.

Record jb_inv (s0 : state) (ks : list wkind) (j : nat) (c : cfg) : Prop := {
  jb_kinds : map w_kind (snd c) = ks;
  jb_region : forall n w, nth_error (snd c) n = Some w -> regionw (fst c) w;
  jb_next : w_next s0 <= w_next (fst c);
  jb_tok : bumped s0 (fst c) j -> tok_queue s0 (fst c) j \/ tok_worker c j;
}.

Lemma nodup_app_r {A} (l1 l2 : list A) : NoDup (l1 ++ l2) -> NoDup l2.
Proof. induction l1 as [|a l IH]; simpl; auto. intros H. inversion H; auto. Qed.

Lemma nodup_app_disj {A} (l1 l2 : list A) x : NoDup (l1 ++ l2) -> In x l1 -> In x l2 -> False.
Proof.
  induction l1 as [|a l IH]; simpl; [tauto|]. intros H [->|H1] H2; inversion H; subst.
  - apply H3. apply in_or_app. auto.
  - eauto.
Qed.

Lemma nodup_flat_map_index {A B} (f : A -> list B) (l : list A) n1 n2 a1 a2 b :
  NoDup (flat_map f l) -> nth_error l n1 = Some a1 -> nth_error l n2 = Some a2 -> In b (f a1) -> In b (f a2) -> n1 = n2.
Proof.
  revert n1 n2. induction l as [|a l IH]; intros n1 n2 Hn H1 H2 B1 B2; [destruct n1; discriminate|].
  simpl in Hn. destruct n1 as [|n1], n2 as [|n2]; simpl in H1, H2; auto.
  - inversion H1; subst. exfalso. eapply nodup_app_disj; [exact Hn|exact B1|].
    apply in_flat_map. exists a2. split; [eapply nth_error_In; eauto|exact B2].
  - inversion H2; subst. exfalso. eapply nodup_app_disj; [exact Hn|exact B2|].
    apply in_flat_map. exists a1. split; [eapply nth_error_In; eauto|exact B1].
  - f_equal. eapply IH; eauto. eapply nodup_app_r; eauto.
Qed.

Lemma kinds_nth (c : cfg) ks n w : map w_kind (snd c) = ks -> nth_error (snd c) n = Some w -> nth_error ks n = Some (w_kind w).
Proof. intros <- H. rewrite nth_error_map, H. reflexivity. Qed.

(* queue rows only accumulate, ids only grow *)
Lemma qop_queue_incl s q r : In r (w_queue s) -> In r (w_queue (apply_qop s q)).
Proof. destruct q; simpl; auto. intros H. apply in_or_app. auto. Qed.
Lemma qops_queue_incl qs : forall s r, In r (w_queue s) -> In r (w_queue (apply_qops s qs)).
Proof. unfold apply_qops. induction qs as [|q qs IH]; simpl; intros s r H; [exact H|]. apply IH, qop_queue_incl, H. Qed.
Lemma qop_next s q : w_next s <= w_next (apply_qop s q). Proof. destruct q; simpl; lia. Qed.
Lemma qops_next qs : forall s, w_next s <= w_next (apply_qops s qs).
Proof. unfold apply_qops. induction qs as [|q qs IH]; simpl; intros s; [lia|]. specialize (IH (apply_qop s q)). pose proof (qop_next s q). lia. Qed.

Lemma effect_queue_incl s e r : In r (w_queue s) -> In r (w_queue (apply_effect s e)).
Proof.
  destruct e; simpl; auto.
  - apply qops_queue_incl.
  - destruct fresh; auto.
  - intros H. apply qops_queue_incl. exact H.
  - destruct (is_complete (w_status s)); auto.
Qed.

Lemma effect_next s e : w_next s <= w_next (apply_effect s e).
Proof.
  destruct e; simpl; try lia.
  - apply qops_next.
  - destruct fresh; simpl; lia.
  - apply (qops_next qs (put_stage j obj s)).
  - destruct (is_complete (w_status s)); simpl; lia.
Qed.

Lemma qops_push_in qs : forall s m, In (QPush m) qs -> exists r, In r (w_queue (apply_qops s qs)) /\ q_msg r = m /\ w_next s <= q_id r.
Proof.
  unfold apply_qops. induction qs as [|q qs IH]; simpl; intros s m H; [contradiction|].
  destruct H as [->|H].
  - exists {| q_id := w_next s; q_msg := m |}. split; [|split; [reflexivity|simpl; lia]].
    apply (qops_queue_incl qs (push m s)). simpl. apply in_or_app. right. left. reflexivity.
  - destruct (IH (apply_qop s q) m H) as [r [H1 [H2 H3]]]. exists r. split; [exact H1|]. split; [exact H2|].
    pose proof (qop_next s q). lia.
Qed.

Lemma final_qs_pushes id ds j : In j ds -> In (QPush (MStartStage j 0)) (final_qs id ds).
Proof.
  intros H. unfold final_qs. right. destruct ds as [|d ds']; [contradiction|].
  apply in_map. apply (in_map (fun d => MStartStage d 0)). exact H.
Qed.

Lemma bumped_untouched s0 s e j :
  (match e with EPut i _ _ => i <> j | EClaim i _ _ _ => i <> j | _ => True end) ->
  bumped s0 (apply_effect s e) j -> bumped s0 s j.
Proof.
  intros H [H1 H2]. unfold bumped, version_of in *. rewrite not_started_other in H1 by exact H.
  rewrite effect_stages_other in H2 by exact H. auto.
Qed.

Lemma region_step' s w k e p id b :
  w_kind w = WComplete id b -> wfw w -> Fresh s w -> region s id b (w_pc w) -> step_worker s w = Some (k, e, p) ->
  region (apply_effect s e) id b p.
Proof.
  intros Hk HW HF HR Hs. pose proof (region_step _ _ _ _ _ _ _ Hk HW HR Hs) as R.
  assert ((forall id', w_kind w = WComplete id' b -> match w_pc w with PCas _ _ _ (MEnd _) _ _ _ => False | _ => True end) ->
          region (apply_effect s e) id b p) as Hgen.
  { intros Hside. eapply region_transport; [eapply statics_effect; eauto| |exact R].
    intros x Hx. eapply cok_effect; eauto. }
  destruct (w_pc w) eqn:Hpc; try (apply Hgen; intros; exact I).
  destruct m; try (apply Hgen; intros; exact I).
  (* the final commit *)
  unfold step_worker in Hs. rewrite Hpc in Hs. destruct (cas_ok s j base phase); inversion Hs; subst.
  - unfold wfw in HW. rewrite Hpc in HW. simpl in HW. destruct HW as [_ [_ [_ [_ [_ ->]]]]]. exact I.
  - exact R.
Qed.

(* one step of a token worker: it is still a token worker, or its final commit has just pushed StartStage(j) *)
Lemma tok_step s w k e p id b j :
  w_kind w = WComplete id b -> wfw w -> Fresh s w -> region s id b (w_pc w) ->
  tokpc (w_pc w) = true -> (w_pc w = PRaised \/ exists x, cok s b x) -> In j (downstream s b) ->
  step_worker s w = Some (k, e, p) ->
  (tokpc p = true /\ (p = PRaised \/ exists x, cok (apply_effect s e) b x)) \/
  (exists r, In r (w_queue (apply_effect s e)) /\ q_msg r = MStartStage j 0 /\ w_next s <= q_id r).
Proof.
  intros Hk HW HF HR Ht Hc Hj Hs.
  assert (forall x, (match w_pc w with PCas _ _ _ (MEnd _) _ _ _ => False | _ => True end) -> cok s b x -> cok (apply_effect s e) b x) as Hkeep.
  { intros x Hside Hx. eapply cok_effect; eauto. }
  unfold step_worker in Hs. rewrite Hk in Hs. revert HR Ht Hc Hkeep Hs.
  destruct (w_pc w) eqn:Hpc; simpl; intros HR Ht Hc Hkeep Hs; try discriminate.
  - (* PCas *)
    destruct m; try discriminate.
    + (* tracking CAS *)
      destruct HR as [_ [[x Hx] [To [Tf _]]]].
      destruct (cas_ok s j0 base phase); inversion Hs; subst; left; (split; [assumption|]); right; exists x; [apply Hkeep; auto|exact Hx].
    + (* the final commit *)
      destruct HR as [_ HR]. destruct (HR Ht) as [Hx [-> Tf]].
      destruct (cas_ok s j0 base phase); inversion Hs; subst.
      * right. simpl.
        destruct (qops_push_in (final_qs id (downstream s b)) (put_stage j0 (apply_mod (MEnd x) base) s) (MStartStage j 0)
                   (final_qs_pushes id _ j Hj)) as [r [H1 [H2 H3]]].
        exists r. auto.
      * left. split; [exact Tf|]. right. exists x. exact Hx.
  - (* CReadStage: a re-run *)
    destruct Hc as [Hc|[x Hx]]; [discriminate|].
    destruct (cok_read s (WComplete id b) outer id b x Hx) as [row [_ Hr]].
    inversion Hs; subst. rewrite Hr. left. split; [reflexivity|]. right. exists x. exact Hx.
  - (* CReadDown *)
    destruct HR as [Ho Hx]. inversion Hs; subst. left.
    destruct (region_track s id b outer st x (downstream s b) (filter (tracked_join s) (downstream s b)) track_tries Ho Hx eq_refl) as [_ T].
    { intros d Hd. apply filter_In in Hd. tauto. }
    split; [exact T|]. right. exists x. exact Hx.
  - (* CTrackRead *)
    destruct HR as [Ho [Hx [Hds Hi]]]. inversion Hs; subst. left. split; [|right; exists x; exact Hx].
    unfold track_read. destruct todo as [|d rest]; [apply (region_final s id b outer st x _ Ho Hx eq_refl)|].
    destruct (downstream_some s b d (Hi d (or_introl eq_refl))) as [fr Hfr]. rewrite Hfr.
    destruct (mem_nat b (s_branches fr)); [|reflexivity].
    apply (region_track s id b outer st x _ rest track_tries Ho Hx eq_refl). intros y Hy. apply Hi. right. exact Hy.
Qed.

Theorem jb_step s0 ks j c n :
  no_signal ks -> NoDup (flat_map complete_of ks) ->
  FreshAll c -> WfAll c -> jb_inv s0 ks j c -> jb_inv s0 ks j (step_cfg c n).
Proof.
  intros Hns Hnd HF HW [Hkinds Hreg Hnext Htok].
  pose proof (kinds_step c n) as Hk'.
  unfold step_cfg in *. destruct (nth_error (snd c) n) as [w|] eqn:Hn; [|constructor; auto].
  destruct (step_worker (fst c) w) as [[[k e] p]|] eqn:Hs; [|constructor; auto]. simpl in *.
  set (s := fst c) in *. set (ws := snd c) in *.
  assert (Fresh s w) as HFw by (unfold FreshAll in HF; rewrite Forall_forall in HF; apply HF; eapply nth_error_In; eauto).
  assert (wfw w) as HWw by (unfold WfAll in HW; rewrite Forall_forall in HW; apply HW; eapply nth_error_In; eauto).
  pose proof (statics_effect _ _ _ _ _ HFw Hs) as Hst.
  (* cok of ANOTHER CompleteStage worker's stage survives this step: at most one CompleteStage worker per stage *)
  assert (forall n2 w2 id2 b2 x, nth_error ws n2 = Some w2 -> w_kind w2 = WComplete id2 b2 -> n2 <> n ->
                                 cok s b2 x -> cok (apply_effect s e) b2 x) as Hother.
  { intros n2 w2 id2 b2 x Hn2 Hk2 Hne Hx. eapply cok_effect; eauto.
    intros id' Hkw. exfalso. apply Hne.
    eapply (nodup_flat_map_index complete_of ks n2 n (w_kind w2) (w_kind w) b2 Hnd).
    - eapply kinds_nth; eauto.
    - eapply kinds_nth; eauto.
    - rewrite Hk2. left. reflexivity.
    - rewrite Hkw. left. reflexivity. }
  constructor; simpl.
  - rewrite Hk'. exact Hkinds.
  - (* regions *)
    intros n2 w2 Hn2. destruct (Nat.eq_dec n2 n) as [->|Hne].
    + rewrite (lset_same _ _ _ _ Hn) in Hn2. inversion Hn2; subst w2. unfold regionw. simpl.
      destruct (w_kind w) eqn:Hkw; try exact I.
      eapply region_step'; eauto. specialize (Hreg n w Hn). unfold regionw in Hreg. rewrite Hkw in Hreg. exact Hreg.
    + rewrite lset_other in Hn2 by congruence. specialize (Hreg n2 w2 Hn2). unfold regionw in *.
      destruct (w_kind w2) eqn:Hk2; try exact I.
      eapply region_transport; [exact Hst| |exact Hreg]. intros x Hx. eapply Hother; eauto.
  - pose proof (effect_next s e). lia.
  - (* the token *)
    intros Hb.
    assert (forall n0 w0 id0 b0, nth_error ws n0 = Some w0 -> w_kind w0 = WComplete id0 b0 -> In j (downstream s b0) ->
              tokpc (w_pc w0) = true -> (w_pc w0 = PRaised \/ exists x, cok s b0 x) ->
              tok_queue s0 (apply_effect s e) j \/ tok_worker (apply_effect s e, list_set ws n {| w_kind := w_kind w; w_pc := p |}) j) as Hevolve.
    { intros n0 w0 id0 b0 Hn0 Hk0 Hj0 Ht0 Hc0.
      destruct (Nat.eq_dec n0 n) as [->|Hne].
      - rewrite Hn in Hn0. inversion Hn0; subst w0.
        pose proof (Hreg n w Hn) as HR. unfold regionw in HR. rewrite Hk0 in HR.
        destruct (tok_step _ _ _ _ _ _ _ j Hk0 HWw HFw HR Ht0 Hc0 Hj0 Hs) as [[Tp Cp]|[r [R1 [R2 R3]]]].
        + right. exists n, {| w_kind := w_kind w; w_pc := p |}, id0, b0. cbn [fst snd w_kind w_pc].
          split; [eapply lset_same; eauto|]. split; [exact Hk0|].
          split; [rewrite (downstream_statics _ _ b0 Hst); exact Hj0|]. split; assumption.
        + left. exists r. split; [exact R1|]. split; [exact R2|]. lia.
      - right. exists n0, w0, id0, b0. cbn [fst snd]. split; [rewrite lset_other by congruence; exact Hn0|].
        split; [exact Hk0|]. split; [rewrite (downstream_statics _ _ b0 Hst); exact Hj0|]. split; [exact Ht0|].
        destruct Hc0 as [Hc0|[x Hx]]; [left; exact Hc0|right; exists x; eapply Hother; eauto]. }
    (* did this step write row j ? *)
    assert ((match e with EPut i _ _ => i <> j | EClaim i _ _ _ => i <> j | _ => True end) ->
            tok_queue s0 (apply_effect s e) j \/ tok_worker (apply_effect s e, list_set ws n {| w_kind := w_kind w; w_pc := p |}) j) as Huntouched.
    { intros Hu. destruct (Htok (bumped_untouched _ _ _ _ Hu Hb)) as [[r [R1 [R2 R3]]]|[n0 [w0 [id0 [b0 [Hn0 [Hk0 [Hj0 [Ht0 Hc0]]]]]]]]].
      - left. exists r. split; [apply effect_queue_incl; exact R1|auto].
      - eapply Hevolve; eauto. }
    destruct e as [|qs|i cl obj fr|i new qs|]; try (apply Huntouched; exact I).
    + (* a claim of row i *)
      destruct (Nat.eq_dec i j) as [->|Hne]; [|apply Huntouched; exact Hne].
      exfalso. destruct Hb as [Hb _]. unfold not_started in Hb.
      destruct (step_claim_sem _ _ _ _ _ _ _ _ HFw Hs) as [id [retry [row [_ [_ [Hr Hc]]]]]].
      apply claim_step_claim in Hc. destruct Hc as [_ [-> _]].
      erewrite effect_stage_claim in Hb by exact Hr. rewrite claim_obj_status in Hb. discriminate.
    + (* a store to row i *)
      destruct (Nat.eq_dec i j) as [->|Hne]; [|apply Huntouched; exact Hne].
      destruct (step_put_sem _ _ _ _ _ _ _ HFw Hs) as [row [m [base [ph [ok [fl [Hpc [Hr [-> [-> ->]]]]]]]]]].
      destruct Hb as [Hb _]. unfold not_started in Hb. erewrite effect_stage_put in Hb by exact Hr. apply status_eqb_eq in Hb.
      pose proof HWw as HWw'. unfold wfw in HWw'. rewrite Hpc in HWw'. simpl in HWw'. destruct HWw' as [_ [_ HWm]].
      destruct m.
      * (* plan commit: the object is RUNNING *)
        exfalso. destruct HWm as [_ [Hrun _]]. simpl in Hb. congruence.
      * (* wait-exhausted TERMINAL *)
        exfalso. simpl in Hb. destruct (status_eqb (s_status row) NOT_STARTED) eqn:E; simpl in Hb; [discriminate|].
        rewrite Hb in E. discriminate.
      * (* join tracking by the CompleteStage worker of branch b: it still has to push StartStage(j) *)
        destruct HWm as [[id Hkw] _].
        pose proof (Hreg n w Hn) as HR. unfold regionw in HR. rewrite Hkw, Hpc in HR. simpl in HR.
        destruct HR as [Hj0 [[x Hx] [To [Tf _]]]].
        right. exists n, {| w_kind := w_kind w; w_pc := ok |}, id, b. cbn [fst snd w_kind w_pc].
        split; [eapply lset_same; eauto|]. split; [exact Hkw|].
        split; [rewrite (downstream_statics _ _ b Hst); exact Hj0|]. split; [exact To|].
        right. exists x. eapply cok_effect; eauto. intros id' _. rewrite Hpc. exact I.
      * (* an end status is never NOT_STARTED *)
        exfalso. destruct HWm as [_ [He _]]. simpl in Hb. rewrite He in Hb. simpl in Hb.
        rewrite Hb in He. vm_compute in He. discriminate.
      * (* a signal buffer: excluded, there is no SignalStage worker in this run *)
        exfalso. destruct HWm as [[id [i' Hkw]] _].
        eapply Hns. rewrite <- Hkinds. apply in_map_iff. exists w. split; [exact Hkw|]. eapply nth_error_In; eauto.
Qed.

(* the structural part of the invariant: holds at spawn, kept by every step *)
Record structural (ks : list wkind) (c : cfg) : Prop := {
  st_fresh : FreshAll c;
  st_wf : WfAll c;
  st_kinds : map w_kind (snd c) = ks;
  st_region : forall n w, nth_error (snd c) n = Some w -> regionw (fst c) w;
}.

Lemma structural_spawn s ks : structural ks (s, map spawn ks).
Proof.
  constructor.
  - apply fresh_spawn.
  - apply wf_spawn.
  - simpl. rewrite map_map. simpl. apply map_id.
  - simpl. intros n w Hn. apply nth_error_In in Hn. apply in_map_iff in Hn. destruct Hn as [k [<- _]].
    unfold regionw, spawn. simpl. destruct k; simpl; auto.
Qed.

Lemma jb_of_structural ks j c : structural ks c -> jb_inv (fst c) ks j c.
Proof.
  intros [HF HW Hk Hr]. constructor; auto. intros [_ H]. exfalso. apply H. reflexivity.
Qed.

Lemma jb_run s0 ks j sched :
  no_signal ks -> NoDup (flat_map complete_of ks) ->
  forall c, FreshAll c -> WfAll c -> jb_inv s0 ks j c -> jb_inv s0 ks j (run_conc sched c).
Proof.
  intros Hns Hnd. apply (run_conc_cfg_inv (jb_inv s0 ks j)). intros c n HF HW HI. apply jb_step; auto.
Qed.

Lemma structural_run ks sched :
  no_signal ks -> NoDup (flat_map complete_of ks) -> forall c, structural ks c -> structural ks (run_conc sched c).
Proof.
  intros Hns Hnd c Hst. pose proof (jb_run (fst c) ks 0 sched Hns Hnd c (st_fresh _ _ Hst) (st_wf _ _ Hst) (jb_of_structural ks 0 c Hst)) as [H1 H2 _ _].
  constructor; auto; [apply fresh_run, (st_fresh _ _ Hst)|].
  clear -Hst. destruct Hst as [_ HW _ _]. revert c HW. unfold run_conc. induction sched as [|n r IH]; simpl; intros c HW; [exact HW|].
  apply IH, wf_step_cfg, HW.
Qed.

(* C04_join_bump_safe.  From ANY configuration c reached by a run of StartStage / CompleteStage workers and sweeps (no
   SignalStage worker; at most one CompleteStage worker per stage), for ANY continuation schedule: whenever the join stage
   j is still NOT_STARTED and its version differs from the one it had in c, a StartStage(j) pushed since c is in the queue
   (and no worker of the run handles it), or a CompleteStage worker of an upstream of j is between its first read and its
   final commit - which pushes StartStage(j) (tok_step) - or raised and keeps its message. *)
Theorem join_bump_safe ks j c sched :
  no_signal ks -> NoDup (flat_map complete_of ks) -> structural ks c ->
  let c' := run_conc sched c in
  bumped (fst c) (fst c') j -> tok_queue (fst c) (fst c') j \/ tok_worker c' j.
Proof.
  intros Hns Hnd Hst c'.
  exact (jb_tok _ _ _ _ (jb_run (fst c) ks j sched Hns Hnd c (st_fresh _ _ Hst) (st_wf _ _ Hst) (jb_of_structural ks j c Hst))).
Qed.

(* a claim that fails with the ConcurrencyError path on a stage that is still NOT_STARTED: the row is newer than the snapshot *)
Lemma conc_error_means_newer s w id j retry st row :
  Fresh s w -> w_kind w = WStart id j retry -> w_pc w = SClaim st ->
  get_stage s j = Some row -> s_status row = NOT_STARTED -> s_status st = NOT_STARTED ->
  claim_step s id j retry st = (ENone, PMark) ->
  (forall k o, s_mutex st = Some k -> claim_lookup (w_claims s) true k = Some o -> o = j \/ owner_gone_or_complete s o = true) ->
  s_choice st = None ->
  (s_version st < s_version row)%Z.
Proof.
  intros HF Hk Hpc Hr Hrs Hss Hc Hmx Hch.
  assert (fresh_obj s (j, st)) as [row' [Hr' [Hle Heq]]].
  { unfold Fresh in HF. rewrite Forall_forall in HF. apply HF. rewrite Hk, Hpc. simpl. left. reflexivity. }
  simpl in *. rewrite Hr in Hr'. inversion Hr'; subst row'.
  destruct (Z.eq_dec (s_version st) (s_version row)) as [E|E]; [|lia]. exfalso.
  revert Hc. unfold claim_step. rewrite eff_mutex, eff_choice, eff_status, Hch, Hss, Hr.
  assert (fst (match s_mutex st with Some k => acquire_claim s true k j mutex_claim_steals | None => (true, w_claims s) end) = true) as Ha.
  { destruct (s_mutex st) as [k|] eqn:Hm; [|reflexivity]. apply acquire_succeeds. intros o Ho.
    destruct (Hmx k o eq_refl Ho); auto. }
  rewrite Ha. simpl. rewrite E, Z.eqb_refl, Hrs. simpl. discriminate.
Qed.
