(* ConcP: invariants of the statement-level interleaving model coq/model/Conc.v, for ANY number of workers and ANY
   schedule (induction over the schedule).

     part 1  frame facts of the durable writes; the OCC invariant `Fresh` (every stage object a worker holds is
             not newer than the row and, if it has the row's version, IS the row);
     part 2  what a step can do to the durable state, given Fresh (step_sem);
     part 3  C04: at most one NOT_STARTED -> RUNNING claim commit per stage; a failed claim writes nothing;
     part 4  C11: a RUNNING stage with a mutex key owns claim mutex:k; started members of a deferred-choice
             group own choice:g; progress lemmas;
     part 5  acquire_claim as coded = Engine.acquire_claim. *)
From Coq Require Import List Bool Arith ZArith Lia.
Import ListNotations.
From Stab.model Require Import Base StatusM Readiness StageStat Engine Conc.
From Stab.gen Require Import Gen_Config Gen_Guards Gen_Occ Gen_Conc.

(* ------------------------------------------------------------------------------------------ *)
(* part 1: lists, frames                                                                       *)
(* ------------------------------------------------------------------------------------------ *)

Lemma lset_length {A} (l : list A) i x : length (list_set l i x) = length l.
Proof. revert i. induction l as [|a l IH]; intros [|i]; simpl; auto. Qed.

Lemma lset_same {A} (l : list A) i x y : nth_error l i = Some y -> nth_error (list_set l i x) i = Some x.
Proof. revert i. induction l as [|a l IH]; intros [|i]; simpl; try discriminate; auto. Qed.

Lemma lset_other {A} (l : list A) i j x : i <> j -> nth_error (list_set l i x) j = nth_error l j.
Proof.
  revert i j. induction l as [|a l IH]; intros [|i] [|j] H; simpl; auto; try congruence.
Qed.

Lemma lset_none {A} (l : list A) i x : nth_error l i = None -> list_set l i x = l.
Proof. revert i. induction l as [|a l IH]; intros [|i]; simpl; try discriminate; auto. intros H. f_equal. auto. Qed.

Lemma get_put_same s i st row : get_stage s i = Some row -> get_stage (put_stage i st s) i = Some st.
Proof. unfold get_stage, put_stage. simpl. apply lset_same. Qed.

Lemma get_put_other s i j st : i <> j -> get_stage (put_stage i st s) j = get_stage s j.
Proof. unfold get_stage, put_stage. simpl. apply lset_other. Qed.

Lemma put_none s i st : get_stage s i = None -> w_stages (put_stage i st s) = w_stages s.
Proof. unfold get_stage, put_stage. simpl. apply lset_none. Qed.

(* queue-only writes *)
Lemma qop_stages s q : w_stages (apply_qop s q) = w_stages s. Proof. destruct q; reflexivity. Qed.
Lemma qop_claims s q : w_claims (apply_qop s q) = w_claims s. Proof. destruct q; reflexivity. Qed.
Lemma qop_status s q : w_status (apply_qop s q) = w_status s. Proof. destruct q; reflexivity. Qed.
Lemma qop_starts s q : g_starts (apply_qop s q) = g_starts s. Proof. destruct q; reflexivity. Qed.

Lemma qops_stages qs : forall s, w_stages (apply_qops s qs) = w_stages s.
Proof. unfold apply_qops. induction qs as [|q qs IH]; simpl; intros s; [reflexivity|]. rewrite IH. apply qop_stages. Qed.
Lemma qops_claims qs : forall s, w_claims (apply_qops s qs) = w_claims s.
Proof. unfold apply_qops. induction qs as [|q qs IH]; simpl; intros s; [reflexivity|]. rewrite IH. apply qop_claims. Qed.
Lemma qops_status qs : forall s, w_status (apply_qops s qs) = w_status s.
Proof. unfold apply_qops. induction qs as [|q qs IH]; simpl; intros s; [reflexivity|]. rewrite IH. apply qop_status. Qed.
Lemma qops_starts qs : forall s, g_starts (apply_qops s qs) = g_starts s.
Proof. unfold apply_qops. induction qs as [|q qs IH]; simpl; intros s; [reflexivity|]. rewrite IH. apply qop_starts. Qed.

Lemma qops_get qs s j : get_stage (apply_qops s qs) j = get_stage s j.
Proof. unfold get_stage. rewrite qops_stages. reflexivity. Qed.

(* the workflow status is never written by the programs of this model *)
Lemma effect_status s e : w_status (apply_effect s e) = w_status s.
Proof.
  destruct e; simpl; try reflexivity.
  - apply qops_status.
  - destruct fresh; reflexivity.
  - rewrite qops_status. reflexivity.
  - destruct (is_complete (w_status s)); reflexivity.
Qed.

(* ---- versions of the stored objects ---- *)
Lemma eff_version st : s_version (eff st) = s_version st.
Proof. unfold eff. destruct (s_bypass st); reflexivity. Qed.
Lemma eff_mutex st : s_mutex (eff st) = s_mutex st.
Proof. unfold eff. destruct (s_bypass st); reflexivity. Qed.
Lemma eff_choice st : s_choice (eff st) = s_choice st.
Proof. unfold eff. destruct (s_bypass st); reflexivity. Qed.
Lemma eff_status st : s_status (eff st) = s_status st.
Proof. unfold eff. destruct (s_bypass st); reflexivity. Qed.
Lemma eff_tasks st : s_tasks (eff st) = s_tasks st.
Proof. unfold eff. destruct (s_bypass st); reflexivity. Qed.
Lemma eff_reqs st : s_reqs (eff st) = s_reqs st.
Proof. unfold eff. destruct (s_bypass st); reflexivity. Qed.

Lemma apply_mod_version m o : s_version (apply_mod m o) = (s_version o + 1)%Z.
Proof.
  destruct m; simpl; try reflexivity.
  - destruct (status_eqb (s_status o) NOT_STARTED); reflexivity.
  - destruct (end_ok x); reflexivity.
Qed.

Lemma claim_obj_version st : s_version (claim_obj st) = (s_version st + 1)%Z.
Proof.
  unfold claim_obj. destruct (status_eqb (s_status (eff st)) claim_phase_zombie); simpl; rewrite eff_version; reflexivity.
Qed.

(* static fields survive every store *)
Definition same_static (a b : stage) : Prop :=
  s_reqs a = s_reqs b /\ s_join a = s_join b /\ s_threshold a = s_threshold b /\ s_mutex a = s_mutex b /\
  s_choice a = s_choice b /\ s_tasks a = s_tasks b /\ s_cof a = s_cof b /\ s_fp a = s_fp b.

Lemma apply_mod_static m o : same_static (apply_mod m o) o.
Proof.
  unfold same_static. destruct m; simpl.
  - repeat split.
  - destruct (status_eqb (s_status o) NOT_STARTED); repeat split.
  - repeat split.
  - destruct (end_ok x); repeat split.
  - repeat split.
Qed.

Lemma claim_obj_static st : same_static (claim_obj st) st.
Proof.
  unfold same_static, claim_obj.
  destruct (status_eqb (s_status (eff st)) claim_phase_zombie); simpl;
    rewrite ?eff_reqs, ?eff_mutex, ?eff_choice, ?eff_tasks; unfold eff; destruct (s_bypass st); repeat split.
Qed.

(* statuses written by a store *)
Lemma apply_mod_not_started m o : s_status (apply_mod m o) = NOT_STARTED -> s_status o = NOT_STARTED.
Proof.
  destruct m; simpl; auto.
  - destruct (status_eqb (s_status o) NOT_STARTED) eqn:E; simpl; [discriminate|auto].
  - unfold end_ok. destruct (status_eqb x RUNNING) eqn:E1; simpl; auto.
    destruct (status_eqb x NOT_STARTED) eqn:E2; simpl; auto.
    intros H. subst x. discriminate.
Qed.

Lemma apply_mod_running m o : s_status (apply_mod m o) = RUNNING -> s_status o = RUNNING.
Proof.
  destruct m; simpl; auto.
  - destruct (status_eqb (s_status o) NOT_STARTED) eqn:E; simpl; [discriminate|auto].
  - unfold end_ok. destruct (status_eqb x RUNNING) eqn:E1; simpl; auto.
    destruct (status_eqb x NOT_STARTED) eqn:E2; simpl; auto.
    intros H. subst x. discriminate.
Qed.

Lemma claim_obj_status st : s_status (claim_obj st) = RUNNING.
Proof.
  unfold claim_obj. destruct (status_eqb (s_status (eff st)) claim_phase_zombie) eqn:E; simpl; [|reflexivity].
  apply status_eqb_eq in E. exact E.
Qed.

(* ------------------------------------------------------------------------------------------ *)
(* the OCC invariant                                                                           *)
(* ------------------------------------------------------------------------------------------ *)

Definition kind_stage (k : wkind) : nat :=
  match k with WStart _ i _ => i | WComplete _ b => b | WSignal _ i _ => i | WSweeper => 0 end.

(* every stage object a worker holds in memory, with the row it was read from (or last stored to) *)
Fixpoint held (k : wkind) (p : pc) : list (nat * stage) :=
  match p with
  | SReadUps st | SReadMutex st | SReadChoice st | SClaim st | SReadSibs st => [(kind_stage k, st)]
  | PCas j base _ _ _ ok fail => (j, base) :: held k ok ++ held k fail
  | PCommits _ next => held k next
  | CReadDown _ st _ | CTrackRead _ st _ _ _ _ => [(kind_stage k, st)]
  | _ => []
  end.

Definition fresh_obj (s : state) (jo : nat * stage) : Prop :=
  exists row, get_stage s (fst jo) = Some row /\ (s_version (snd jo) <= s_version row)%Z /\
              (s_version (snd jo) = s_version row -> snd jo = row).

Definition Fresh (s : state) (w : worker) : Prop := Forall (fresh_obj s) (held (w_kind w) (w_pc w)).
Definition FreshAll (c : cfg) : Prop := Forall (Fresh (fst c)) (snd c).

Lemma fresh_row s j row : get_stage s j = Some row -> fresh_obj s (j, row).
Proof. intros H. exists row. simpl. repeat split; auto. lia. Qed.

(* an effect either leaves the stage rows alone or replaces one row by an object one version newer *)
Definition effect_ok (s : state) (e : effect) : Prop :=
  match e with
  | EPut j new _ => exists row, get_stage s j = Some row /\ s_version new = (s_version row + 1)%Z
  | EClaim i _ obj _ => exists row, get_stage s i = Some row /\ s_version obj = (s_version row + 1)%Z
  | _ => True
  end.

Lemma effect_stages_other s e j :
  (match e with EPut i _ _ => i <> j | EClaim i _ _ _ => i <> j | _ => True end) ->
  get_stage (apply_effect s e) j = get_stage s j.
Proof.
  destruct e; simpl; intros H; auto.
  - apply qops_get.
  - destruct fresh; unfold get_stage; simpl; apply lset_other; exact H.
  - rewrite qops_get. apply get_put_other. exact H.
  - destruct (is_complete (w_status s)); reflexivity.
Qed.

Lemma effect_stage_put s j new qs row : get_stage s j = Some row -> get_stage (apply_effect s (EPut j new qs)) j = Some new.
Proof. intros H. simpl. rewrite qops_get. eapply get_put_same. exact H. Qed.

Lemma effect_stage_claim s i cl obj fr row : get_stage s i = Some row -> get_stage (apply_effect s (EClaim i cl obj fr)) i = Some obj.
Proof.
  intros H. simpl. destruct fr; unfold get_stage; simpl; apply lset_same with row; exact H.
Qed.

Lemma fresh_obj_effect s e jo : effect_ok s e -> fresh_obj s jo -> fresh_obj (apply_effect s e) jo.
Proof.
  intros Hok [row [Hg [Hle Heq]]]. destruct jo as [j o]. simpl in *.
  destruct e as [|qs|i cl obj fr|i new qs|].
  - exists row. auto.
  - exists row. simpl. rewrite qops_get. auto.
  - destruct Hok as [r0 [Hr0 Hv]]. destruct (Nat.eq_dec i j) as [->|Hne].
    + rewrite Hg in Hr0. inversion Hr0; subst r0. exists obj. split; [eapply effect_stage_claim; eauto|]. simpl. split; [lia|intros Hx; exfalso; lia].
    + exists row. rewrite effect_stages_other by exact Hne. auto.
  - destruct Hok as [r0 [Hr0 Hv]]. destruct (Nat.eq_dec i j) as [->|Hne].
    + rewrite Hg in Hr0. inversion Hr0; subst r0. exists new. split; [eapply effect_stage_put; eauto|]. simpl. split; [lia|intros Hx; exfalso; lia].
    + exists row. rewrite effect_stages_other by exact Hne. auto.
  - exists row. rewrite effect_stages_other by exact I. auto.
Qed.

(* held objects of the composite pcs *)
Lemma held_commits k cs next : held k (commits cs next) = held k next.
Proof. destruct cs; reflexivity. Qed.

Lemma held_retry k outer : held k (retry_or_raise k outer) = [].
Proof. destruct outer; [reflexivity|]. destruct k; reflexivity. Qed.

Lemma held_plan k id i cl : held k (plan_pc id i cl) = [(i, cl)].
Proof. unfold plan_pc. simpl. destruct plan_conc_error_swallowed; reflexivity. Qed.

Lemma held_final k outer id b st x ds : held k (final_pc k outer id b st x ds) = [(b, st)].
Proof. unfold final_pc. simpl. rewrite held_retry. reflexivity. Qed.

Lemma held_track k outer id b st x ds todo fuel :
  kind_stage k = b -> held k (track_pc k outer id b st x ds todo fuel) = [(b, st)].
Proof. intros H. unfold track_pc. destruct todo; [apply held_final|]. simpl. rewrite H. reflexivity. Qed.

Lemma cas_ok_spec s j base phase :
  cas_ok s j base phase = true ->
  exists row, get_stage s j = Some row /\ s_version row = s_version base /\
              (phase = true -> s_status row = s_status base).
Proof.
  unfold cas_ok. destruct (get_stage s j) as [row|]; [|discriminate].
  intros H. apply andb_prop in H. destruct H as [H1 H2]. apply Z.eqb_eq in H1.
  exists row. repeat split; auto. intros ->. simpl in H2. apply status_eqb_eq in H2. exact H2.
Qed.

(* claim_step: the shape of a successful claim *)
Lemma claim_step_claim s id i retry st i' cl obj fr p :
  claim_step s id i retry st = (EClaim i' cl obj fr, p) ->
  i' = i /\ obj = claim_obj st /\ fr = negb (status_eqb (s_status (eff st)) claim_phase_zombie) /\
  exists row, get_stage s i = Some row /\ s_version row = s_version st /\
    (claim_uses_expected_phase = true ->
     s_status row = (if status_eqb (s_status (eff st)) claim_phase_zombie then claim_phase_zombie else claim_phase_fresh)) /\
    exists m c,
      m = match s_mutex (eff st) with Some k => acquire_claim s true k i mutex_claim_steals | None => (true, w_claims s) end /\
      c = match s_choice (eff st) with Some g => acquire_claim (with_claims (snd m) s) false g i choice_claim_steals | None => (true, snd m) end /\
      fst m = true /\ fst c = true /\ cl = snd c /\
      p = match s_choice (eff st) with Some _ => SReadSibs (claim_obj st) | None => plan_pc id i (claim_obj st) end.
Proof.
  unfold claim_step.
  set (m := match s_mutex (eff st) with Some k => acquire_claim s true k i mutex_claim_steals | None => (true, w_claims s) end).
  destruct (fst m) eqn:Hm; simpl; [|discriminate].
  set (c := match s_choice (eff st) with Some g => acquire_claim (with_claims (snd m) s) false g i choice_claim_steals | None => (true, snd m) end).
  destruct (fst c) eqn:Hc; simpl; [|discriminate].
  destruct (get_stage s i) as [row|] eqn:Hrow; [|discriminate].
  destruct ((s_version row =? s_version st)%Z && _) eqn:Hcas; [|destruct claim_conc_error_swallowed; discriminate].
  intros H. inversion H; subst. apply andb_prop in Hcas. destruct Hcas as [Hv Hp]. apply Z.eqb_eq in Hv.
  repeat split; auto. exists row. repeat split; auto.
  - intros _. unfold claim_uses_expected_phase in Hp. simpl in Hp. apply status_eqb_eq in Hp. exact Hp.
  - exists m, c. repeat split; auto.
Qed.

Lemma claim_step_effect s id i retry st : match fst (claim_step s id i retry st) with ENone | EClaim _ _ _ _ => True | _ => False end.
Proof.
  unfold claim_step.
  destruct (fst match s_mutex (eff st) with Some k => acquire_claim s true k i mutex_claim_steals | None => (true, w_claims s) end); simpl; auto.
  destruct (fst match s_choice (eff st) with Some g => _ | None => _ end); simpl; auto.
  destruct (get_stage s i); simpl; auto.
  destruct (_ && _); simpl; auto.
Qed.

Lemma step_effect_ok s w k e p : step_worker s w = Some (k, e, p) -> effect_ok s e.
Proof.
  unfold step_worker. destruct (w_pc w) eqn:Hpc; intros H;
    try (destruct (w_kind w); inversion H; subst; exact I); try discriminate.
  - (* SClaim *)
    destruct (w_kind w); try discriminate. inversion H; subst. clear H.
    destruct (claim_step s id i retry st) as [e0 p0] eqn:Hc. simpl.
    pose proof (claim_step_effect s id i retry st) as He. rewrite Hc in He. simpl in He.
    destruct e0; try exact I; try contradiction.
    apply claim_step_claim in Hc. destruct Hc as [-> [-> [_ [row [Hr [Hv _]]]]]].
    exists row. split; [exact Hr|]. rewrite claim_obj_version. lia.
  - (* PCas *)
    destruct (cas_ok s j base phase) eqn:Hc; inversion H; subst; [|exact I].
    apply cas_ok_spec in Hc. destruct Hc as [row [Hr [Hv _]]]. exists row. split; [exact Hr|].
    rewrite apply_mod_version. lia.
  - (* PCommits *)
    destruct cs; inversion H; subst; exact I.
Qed.

(* the objects held after a step were held before, or are the rows of the state after the step *)
Lemma step_held s w k e p :
  step_worker s w = Some (k, e, p) ->
  forall jo, In jo (held (w_kind w) p) -> In jo (held (w_kind w) (w_pc w)) \/ get_stage (apply_effect s e) (fst jo) = Some (snd jo).
Proof.
  unfold step_worker. destruct (w_pc w) eqn:Hpc; intros H jo Hin; try discriminate.
  - (* SReadStage *)
    destruct (w_kind w) eqn:Hk; try discriminate. inversion H; subst. clear H.
    destruct (get_stage s i) as [st|] eqn:Hs; simpl in Hin; [|contradiction].
    destruct Hin as [<-|[]]. right. simpl. exact Hs.
  - (* SReadUps *)
    destruct (w_kind w) eqn:Hk; try discriminate. inversion H; subst. clear H. left. simpl.
    unfold after_ups in Hin.
    destruct (rr_phase _).
    + destruct (negb (start_stage_fresh (s_status (eff st))) && _); [simpl in Hin; contradiction|].
      destruct (should_skip (eff st)); [try rewrite held_commits in Hin; simpl in Hin; contradiction|].
      unfold after_mutex_check, after_choice_check in Hin.
      destruct (s_mutex (eff st)); [exact Hin|]. destruct (s_choice (eff st)); exact Hin.
    + destruct (start_stage_late _); [simpl in Hin; contradiction|].
      destruct (start_stage_waits _ _); [simpl in Hin; contradiction|].
      destruct (wait_exhausted _ _); [|try rewrite held_commits in Hin; simpl in Hin; contradiction].
      simpl in Hin. destruct Hin as [<-|[]]. left. reflexivity.
    + try rewrite held_commits in Hin. simpl in Hin. contradiction.
    + destruct (start_stage_late _); [simpl in Hin; contradiction|].
      destruct (start_stage_waits _ _); [simpl in Hin; contradiction|].
      destruct (wait_exhausted _ _); [|try rewrite held_commits in Hin; simpl in Hin; contradiction].
      simpl in Hin. destruct Hin as [<-|[]]. left. reflexivity.
  - (* SReadMutex *)
    destruct (w_kind w) eqn:Hk; try discriminate. inversion H; subst. clear H. left. simpl.
    destruct (mutex_blocked s i (eff st)).
    + unfold requeue_pc in Hin. try rewrite held_commits in Hin. simpl in Hin. contradiction.
    + unfold after_mutex_check, after_choice_check in Hin. destruct (s_choice (eff st)); exact Hin.
  - (* SReadChoice *)
    destruct (w_kind w) eqn:Hk; try discriminate. inversion H; subst. clear H. left. simpl.
    destruct (choice_claimed s i (eff st)).
    + unfold cancel_self_pc in Hin. try rewrite held_commits in Hin. simpl in Hin. contradiction.
    + exact Hin.
  - (* SClaim *)
    destruct (w_kind w) eqn:Hk; try discriminate. inversion H; subst. clear H.
    destruct (claim_step s id i retry st) as [e0 p0] eqn:Hc. simpl in *.
    pose proof (claim_step_effect s id i retry st) as He. rewrite Hc in He. simpl in He.
    destruct e0; try contradiction.
    + (* no claim: the worker holds nothing any more *)
      exfalso. revert Hc Hin. unfold claim_step.
      destruct (fst match s_mutex (eff st) with Some k0 => acquire_claim s true k0 i mutex_claim_steals | None => (true, w_claims s) end); simpl.
      2:{ intros Hc. inversion Hc; subst. unfold requeue_pc. try rewrite held_commits. simpl. auto. }
      destruct (fst match s_choice (eff st) with Some g => _ | None => _ end); simpl.
      2:{ intros Hc. inversion Hc; subst. unfold cancel_self_pc. try rewrite held_commits. simpl. auto. }
      destruct (get_stage s i); [|intros Hc; inversion Hc; subst; simpl; auto].
      destruct (_ && _); [discriminate|].
      intros Hc. inversion Hc; subst. destruct claim_conc_error_swallowed; simpl; auto.
    + apply claim_step_claim in Hc.
      destruct Hc as [-> [-> [_ [row [Hr [_ [_ [m [c [_ [_ [_ [_ [_ ->]]]]]]]]]]]]]].
      right. assert (jo = (i, claim_obj st)) as ->.
      { destruct (s_choice (eff st)); [simpl in Hin|rewrite held_plan in Hin; simpl in Hin]; destruct Hin as [<-|[]]; reflexivity. }
      simpl. destruct fresh; unfold get_stage; simpl; apply lset_same with row; exact Hr.
  - (* SReadSibs *)
    destruct (w_kind w) eqn:Hk; try discriminate. inversion H; subst. clear H. left. simpl.
    unfold sibs_pc in Hin. rewrite held_commits, held_plan in Hin. exact Hin.
  - (* PCas *)
    left. simpl. destruct (cas_ok s j base phase); inversion H; subst; right; apply in_or_app; auto.
  - (* PCommits *)
    left. simpl. destruct cs; inversion H; subst; [exact Hin|]. rewrite held_commits in Hin. exact Hin.
  - (* PMark *) inversion H; subst. simpl in Hin. contradiction.
  - (* CReadStage *)
    destruct (w_kind w) eqn:Hk; try discriminate. inversion H; subst. clear H.
    unfold complete_read in Hin. destruct (get_stage s b) as [st|] eqn:Hs; [|simpl in Hin; contradiction].
    assert (jo = (b, st) -> In jo [] \/ get_stage (apply_effect s ENone) (fst jo) = Some (snd jo)) as Hrow
      by (intros ->; right; exact Hs).
    destruct (status_eqb (s_status st) NOT_STARTED); [try rewrite held_commits in Hin; simpl in Hin; contradiction|].
    destruct (negb (complete_stage_guard (s_status st))).
    { destruct (is_halt (s_status st)); [try rewrite held_commits in Hin|]; simpl in Hin; contradiction. }
    destruct (status_eqb _ RUNNING); [try rewrite held_commits in Hin; simpl in Hin; contradiction|].
    destruct (negb (can_transition _ _)); [simpl in Hin; contradiction|].
    destruct (success_like _); simpl in Hin.
    + destruct Hin as [<-|[]]. apply Hrow. reflexivity.
    + rewrite held_retry in Hin. simpl in Hin. destruct Hin as [<-|[]]. apply Hrow. reflexivity.
  - (* CReadDown *)
    destruct (w_kind w) eqn:Hk; try discriminate. inversion H; subst. clear H. left.
    rewrite held_track in Hin by reflexivity. simpl. exact Hin.
  - (* CTrackRead *)
    destruct (w_kind w) eqn:Hk; try discriminate. inversion H; subst. clear H.
    unfold track_read in Hin. destruct todo as [|d rest].
    + left. rewrite held_final in Hin. simpl. exact Hin.
    + destruct (get_stage s d) as [fr|] eqn:Hd; [|simpl in Hin; contradiction].
      destruct (mem_nat b (s_branches fr)).
      * left. rewrite held_track in Hin by reflexivity. simpl. exact Hin.
      * simpl in Hin. destruct Hin as [<-|Hin]; [right; exact Hd|]. left.
        apply in_app_or in Hin. destruct Hin as [Hin|Hin].
        -- rewrite held_track in Hin by reflexivity. simpl. exact Hin.
        -- destruct fuel as [|[|f]]; [rewrite held_retry in Hin; contradiction|rewrite held_retry in Hin; contradiction|].
           simpl in Hin. simpl. exact Hin.
  - (* BRead *)
    destruct (w_kind w) eqn:Hk; try discriminate. inversion H; subst. clear H.
    unfold signal_read in Hin. destruct (get_stage s i) as [st|] eqn:Hs; [|simpl in Hin; contradiction].
    destruct (status_eqb (s_status st) SUSPENDED); [simpl in Hin; contradiction|].
    simpl in Hin. rewrite held_retry in Hin. simpl in Hin. destruct Hin as [<-|[]]. right. exact Hs.
  - (* WSweep *)
    destruct (w_kind w); try discriminate. inversion H; subst. simpl in Hin. contradiction.
Qed.

Lemma Forall_lset {A} (P : A -> Prop) l n x : Forall P l -> P x -> Forall P (list_set l n x).
Proof.
  intros Hl Hx. revert n. induction Hl as [|a l Ha Hl IH]; intros [|n]; simpl; constructor; auto.
Qed.

Theorem fresh_step c n : FreshAll c -> FreshAll (step_cfg c n).
Proof.
  unfold FreshAll, step_cfg. intros HF.
  destruct (nth_error (snd c) n) as [w|] eqn:Hn; [|exact HF].
  destruct (step_worker (fst c) w) as [[[k e] p]|] eqn:Hs; [|exact HF]. simpl.
  pose proof (step_effect_ok _ _ _ _ _ Hs) as Hok.
  apply Forall_lset.
  - eapply Forall_impl; [|exact HF]. intros w' Hw'. unfold Fresh in *.
    eapply Forall_impl; [|exact Hw']. intros jo. apply fresh_obj_effect. exact Hok.
  - unfold Fresh. simpl. apply Forall_forall. intros jo Hin.
    destruct (step_held _ _ _ _ _ Hs jo Hin) as [Hold|Hrow].
    + apply fresh_obj_effect; [exact Hok|].
      rewrite Forall_forall in HF. specialize (HF w (nth_error_In _ _ Hn)). unfold Fresh in HF.
      rewrite Forall_forall in HF. apply HF. exact Hold.
    + destruct jo as [j o]. apply fresh_row. exact Hrow.
Qed.

Theorem fresh_run sched : forall c, FreshAll c -> FreshAll (run_conc sched c).
Proof. unfold run_conc. induction sched as [|n r IH]; simpl; intros c H; [exact H|]. apply IH, fresh_step, H. Qed.

Lemma fresh_spawn s ks : FreshAll (s, map spawn ks).
Proof.
  unfold FreshAll. simpl. apply Forall_forall. intros w Hw. apply in_map_iff in Hw. destruct Hw as [k [<- _]].
  unfold Fresh, spawn. simpl. destruct k; constructor.
Qed.
