(* DataFlowP: proofs about coq/model/DataFlow.v (C16).
   Part 1  BFS computes exactly the transitive requisites, on every graph, and never runs out of fuel.
   Part 2  Kahn's algorithm, for every iteration order of the ancestor set: the result has no
           duplicates, lists every ancestor after its requisites, and (acyclic graph) is complete.
   Part 3  the merge, key by key.
   Part 4  the planned context: visibility, precedence, lists, path-ordered keys. *)
From Coq Require Import List Bool Arith ZArith Lia Permutation Sorting.Sorted.
Import ListNotations.
From Stab.model Require Import Base Reducers DataFlow.
From Stab.proofs Require Import ReducersP.

(* ------------------------------------------------------------------------------------------ *)
(* small list facts                                                                            *)
(* ------------------------------------------------------------------------------------------ *)
Lemma mem_nat_In x l : mem_nat x l = true <-> In x l.
Proof.
  unfold mem_nat. rewrite existsb_exists. split.
  - intros [y [Hy He]]. apply Nat.eqb_eq in He. now subst.
  - intros H. exists x. split; [assumption|apply Nat.eqb_refl].
Qed.

Lemma mem_nat_false x l : mem_nat x l = false <-> ~ In x l.
Proof. rewrite <- mem_nat_In. destruct (mem_nat x l); split; congruence. Qed.

Lemma mem_nat_app x l m : mem_nat x (l ++ m) = mem_nat x l || mem_nat x m.
Proof. unfold mem_nat. apply existsb_app. Qed.

Lemma forallb_ext_in_local {A} (f g : A -> bool) (l : list A) :
  (forall a, In a l -> f a = g a) -> forallb f l = forallb g l.
Proof.
  induction l as [|a l IH]; intros H; simpl; [reflexivity|].
  rewrite (H a (or_introl eq_refl)), IH; [reflexivity|]. intros x Hx. apply H. now right.
Qed.

Lemma NoDup_app_intro {A} (l m : list A) :
  NoDup l -> NoDup m -> (forall x, In x l -> ~ In x m) -> NoDup (l ++ m).
Proof.
  induction l as [|a l IH]; simpl; intros Hl Hm Hd; [assumption|].
  inversion Hl as [|? ? Hna Hl']. subst. constructor.
  - rewrite in_app_iff. intros [H|H]; [tauto|]. apply (Hd a); auto.
  - apply IH; auto.
Qed.

Lemma NoDup_app_l {A} (l m : list A) : NoDup (l ++ m) -> NoDup l.
Proof.
  induction l as [|a l IH]; simpl; intros H; [constructor|].
  inversion H as [|? ? Hna H']. subst. constructor; [|auto].
  intros Hin. apply Hna. apply in_app_iff. now left.
Qed.

Lemma NoDup_app_r {A} (l m : list A) : NoDup (l ++ m) -> NoDup m.
Proof. induction l as [|a l IH]; simpl; intros H; [assumption|]. inversion H. auto. Qed.

Lemma NoDup_app_disj {A} (l m : list A) x : NoDup (l ++ m) -> In x l -> ~ In x m.
Proof.
  induction l as [|a l IH]; simpl; intros H Hx; [tauto|].
  inversion H as [|? ? Hna H']. subst. destruct Hx as [->|Hx]; [|auto].
  intros Hm. apply Hna. apply in_app_iff. now right.
Qed.

(* in a duplicate-free list the position of an element is unique *)
Lemma nodup_split_unique {A} (a1 a2 b1 b2 : list A) x :
  NoDup (a1 ++ x :: a2) -> a1 ++ x :: a2 = b1 ++ x :: b2 -> a1 = b1 /\ a2 = b2.
Proof.
  revert b1. induction a1 as [|a a1 IH]; intros b1 Hnd Heq.
  - destruct b1 as [|b b1]; simpl in *.
    + inversion Heq. auto.
    + inversion Heq. subst. inversion Hnd as [|? ? Hn _]. exfalso. apply Hn.
      apply in_app_iff. right. now left.
  - destruct b1 as [|b b1]; simpl in *.
    + inversion Heq. subst. inversion Hnd as [|? ? Hn _]. exfalso. apply Hn.
      apply in_app_iff. right. now left.
    + inversion Heq. subst. inversion Hnd. subst. destruct (IH b1); auto. subst. auto.
Qed.

(* `a` occurs strictly before `b` *)
Definition before {A} (l : list A) (a b : A) : Prop := exists l1 l2, l = l1 ++ b :: l2 /\ In a l1.

Lemma before_trans {A} (l : list A) a b c : NoDup l -> before l a b -> before l b c -> before l a c.
Proof.
  intros Hnd [m1 [m2 [Hm Ha]]] [l1 [l2 [Hl Hb]]].
  exists l1, l2. split; [assumption|].
  apply in_split in Hb as [p [p' Hp]]. subst l1.
  assert (Heq : m1 ++ b :: m2 = p ++ b :: (p' ++ c :: l2)).
  { rewrite <- Hm, Hl, <- app_assoc. reflexivity. }
  rewrite Hm in Hnd. destruct (nodup_split_unique _ _ _ _ _ Hnd Heq) as [-> _].
  apply in_app_iff. now left.
Qed.

Lemma before_In {A} (l : list A) a b : before l a b -> In a l /\ In b l.
Proof.
  intros [l1 [l2 [-> Ha]]]. split; apply in_app_iff; [now left|right; now left].
Qed.

Lemma before_neq {A} (l : list A) a b : NoDup l -> before l a b -> a <> b.
Proof.
  intros Hnd [l1 [l2 [-> Ha]]] ->. apply (NoDup_app_disj _ _ b Hnd Ha). now left.
Qed.

Lemma before_filter {A} (f : A -> bool) l a b :
  before l a b -> f a = true -> f b = true -> before (filter f l) a b.
Proof.
  intros [l1 [l2 [-> Ha]]] Hfa Hfb. exists (filter f l1), (filter f l2).
  rewrite filter_app. simpl. rewrite Hfb. split; [reflexivity|]. apply filter_In. auto.
Qed.

Lemma before_cons_inv {A} (x : A) xs a b :
  NoDup (x :: xs) -> In a xs -> before (x :: xs) a b -> before xs a b.
Proof.
  intros Hnd Ha [l1 [l2 [Heq Hin]]]. destruct l1 as [|y l1]; [destruct Hin|].
  simpl in Heq. inversion Heq. subst y. subst xs.
  destruct Hin as [->|Hin].
  - inversion Hnd. tauto.
  - exists l1, l2. auto.
Qed.

(* two duplicate-free lists with the same elements, one sorted by a relation and the other
   compatible with it, are equal *)
Lemma ordered_unique {A} (R : A -> A -> Prop) (l1 : list A) : forall l2,
  NoDup l1 -> NoDup l2 -> (forall x, In x l1 <-> In x l2) ->
  StronglySorted R l1 -> (forall a b, In a l2 -> In b l2 -> R a b -> before l2 a b) -> l1 = l2.
Proof.
  induction l1 as [|c cs IH]; intros l2 Hn1 Hn2 Hsame Hs Hcomp.
  - destruct l2 as [|x xs]; [reflexivity|]. exfalso. apply (proj2 (Hsame x)). now left.
  - destruct l2 as [|x xs].
    + exfalso. apply (proj1 (Hsame c)). now left.
    + inversion Hs as [|? ? Hs' Hall]. subst. inversion Hn1 as [|? ? Hnc Hn1']. subst.
      inversion Hn2 as [|? ? Hnx Hn2']. subst.
      assert (Hxc : x = c).
      { destruct (proj2 (Hsame x) (or_introl eq_refl)) as [Hc|Hx]; [auto|].
        exfalso. rewrite Forall_forall in Hall. assert (HR := Hall x Hx).
        assert (Hc2 : In c (x :: xs)) by (apply Hsame; now left).
        destruct (Hcomp c x Hc2 (or_introl eq_refl) HR) as [p [q [Heq Hin]]].
        destruct p as [|y p]; [destruct Hin|]. simpl in Heq. inversion Heq. subst y.
        apply Hnx. rewrite H1. apply in_app_iff. right. now left. }
      subst x. f_equal. apply IH; auto.
      * intros y. split; intros Hy.
        -- destruct (proj1 (Hsame y) (or_intror Hy)) as [->|]; [tauto|assumption].
        -- destruct (proj2 (Hsame y) (or_intror Hy)) as [->|]; [tauto|assumption].
      * intros a b Ha Hb HR. apply (before_cons_inv c); auto. apply Hcomp; auto; now right.
Qed.

(* ------------------------------------------------------------------------------------------ *)
(* the dependency relation                                                                     *)
(* ------------------------------------------------------------------------------------------ *)
(* r is a direct requisite of s *)
Definition direct (d : dag) (r s : nat) : Prop := exists st, lookup d s = Some st /\ In r (s_reqs st).

(* a is a transitive requisite (ancestor) of s *)
Inductive ancestor (d : dag) : nat -> nat -> Prop :=
| anc_direct a s : direct d a s -> ancestor d a s
| anc_step a r s : direct d r s -> ancestor d a r -> ancestor d a s.

(* no dependency cycle *)
Definition acyclic (d : dag) : Prop := exists rank : nat -> nat, forall r s, direct d r s -> rank r < rank s.

(* every dict has unique keys (it comes from json.loads) *)
Definition wf_dag (d : dag) : Prop :=
  forall st, In st d -> NoDup (map fst (s_outputs st)) /\ NoDup (map fst (s_context st)).

Lemma lookup_In d r st : lookup d r = Some st -> In st d /\ s_ref st = r.
Proof.
  unfold lookup. intros H. apply find_some in H as [Hin He]. apply in_rev in Hin.
  apply Nat.eqb_eq in He. auto.
Qed.

Lemma reqs_of_direct d r s : In r (reqs_of d s) <-> direct d r s.
Proof.
  unfold reqs_of, direct, req_set. destruct (lookup d s) as [st|].
  - rewrite nodup_In. split; [intros H; exists st; auto|intros [st' [E H]]; inversion E; now subst].
  - split; [intros []|intros [st' [E _]]; discriminate].
Qed.

Lemma reqs_of_NoDup d s : NoDup (reqs_of d s).
Proof. unfold reqs_of, req_set. destruct (lookup d s); [apply NoDup_nodup|constructor]. Qed.

Lemma ancestor_rank d rank : (forall r s, direct d r s -> rank r < rank s) ->
  forall a s, ancestor d a s -> rank a < rank s.
Proof.
  intros Hr a s H. induction H as [a s Hd|a r s Hd _ IH]; [auto|]. specialize (Hr _ _ Hd). lia.
Qed.

Lemma acyclic_irrefl d : acyclic d -> forall a, ~ ancestor d a a.
Proof. intros [rank Hr] a H. apply (ancestor_rank d rank Hr) in H. lia. Qed.

Lemma ancestor_trans d a b c : ancestor d a b -> ancestor d b c -> ancestor d a c.
Proof.
  intros Hab Hbc. induction Hbc as [b c Hd|b r c Hd _ IH].
  - eapply anc_step; eauto.
  - eapply anc_step; eauto.
Qed.

(* ------------------------------------------------------------------------------------------ *)
(* Part 1: BFS                                                                                 *)
(* ------------------------------------------------------------------------------------------ *)
Lemma bfs_visit_fold rs : forall q vis,
  exists new, fold_left bfs_visit rs (q, vis) = (q ++ new, vis ++ new) /\ NoDup new /\
              (forall x, In x new <-> In x rs /\ ~ In x vis).
Proof.
  induction rs as [|r rs IH]; intros q vis; simpl.
  - exists []. rewrite !app_nil_r. split; [reflexivity|]. split; [constructor|]. simpl. tauto.
  - unfold bfs_visit at 2. simpl. destruct (mem_nat r vis) eqn:E.
    + destruct (IH q vis) as [new [Hf [Hnd Hin]]]. exists new. split; [exact Hf|]. split; [exact Hnd|].
      intros x. rewrite Hin. apply mem_nat_In in E. split; [tauto|].
      intros [[->|Hx] Hn]; tauto.
    + apply mem_nat_false in E.
      destruct (IH (q ++ [r]) (vis ++ [r])) as [new [Hf [Hnd Hin]]]. exists (r :: new).
      split; [rewrite Hf, <- !app_assoc; reflexivity|]. split.
      * constructor; [|exact Hnd]. rewrite Hin. rewrite in_app_iff. simpl. tauto.
      * intros x. simpl. rewrite Hin, in_app_iff. simpl.
        destruct (Nat.eq_dec r x) as [->|Hne]; [tauto|]. split; [tauto|].
        intros [[?|?] ?]; [congruence|]. right. tauto.
Qed.

Record bfs_inv (d : dag) (s : nat) (done queue : list nat) : Prop := {
  bi_nodup : NoDup (done ++ queue);
  bi_univ : incl (done ++ queue) (universe d s);
  bi_sound : forall x, In x (done ++ queue) -> x = s \/ ancestor d x s;
  bi_closed : forall x r, In x done -> direct d r x -> In r (done ++ queue)
}.

Lemma reqs_in_universe d s cur st r : lookup d cur = Some st -> In r (s_reqs st) -> In r (universe d s).
Proof.
  intros Hl Hr. right. apply in_flat_map. exists st. split; [apply (lookup_In _ _ _ Hl)|assumption].
Qed.

Lemma bfs_run d s : forall fuel done queue,
  bfs_inv d s done queue -> length (universe d s) - length done < fuel ->
  exists vis tail, bfs d fuel queue (done ++ queue) = Some vis /\ vis = (done ++ queue) ++ tail /\
                   bfs_inv d s vis [].
Proof.
  induction fuel as [|f IH]; intros done queue Hinv Hfuel; [lia|].
  destruct queue as [|cur q]; simpl.
  - exists (done ++ []), []. split; [reflexivity|]. split; [now rewrite !app_nil_r|].
    rewrite app_nil_r. exact Hinv.
  - destruct Hinv as [Hnd Hun Hso Hcl].
    assert (Hlen : length done + 1 <= length (universe d s)).
    { assert (H := NoDup_incl_length Hnd Hun). rewrite app_length in H. change (length (cur :: q)) with (S (length q)) in H. lia. }
    assert (Hre : done ++ cur :: q = (done ++ [cur]) ++ q) by (rewrite <- app_assoc; reflexivity).
    destruct (lookup d cur) as [st|] eqn:El.
    + destruct (bfs_visit_fold (req_set st) q (done ++ cur :: q)) as [new [Hf [Hnn Hin]]].
      rewrite Hf. simpl.
      assert (Hre2 : (done ++ cur :: q) ++ new = (done ++ [cur]) ++ (q ++ new)).
      { rewrite <- !app_assoc. reflexivity. }
      rewrite Hre2.
      destruct (IH (done ++ [cur]) (q ++ new)) as [vis [tail [Hb [Hv Hi]]]].
      * constructor; rewrite <- ?Hre2.
        -- apply NoDup_app_intro; auto. intros x Hx Hx2. apply Hin in Hx2. tauto.
        -- intros x Hx. apply in_app_iff in Hx as [Hx|Hx]; [auto|].
           apply Hin in Hx as [Hx _]. unfold req_set in Hx. apply nodup_In in Hx.
           eapply reqs_in_universe; eauto.
        -- intros x Hx. apply in_app_iff in Hx as [Hx|Hx]; [auto|].
           apply Hin in Hx as [Hx _]. unfold req_set in Hx. apply nodup_In in Hx.
           right. assert (Hd : direct d x cur) by (exists st; auto).
           destruct (Hso cur) as [->|Hc]; [apply in_app_iff; right; now left|now apply anc_direct|].
           eapply ancestor_trans; [apply anc_direct; eauto|assumption].
        -- intros x r Hx Hd. apply in_app_iff in Hx as [Hx|[<-|[]]].
           ++ apply in_app_iff. left. eapply Hcl; eauto.
           ++ destruct Hd as [st' [E Hr]]. rewrite El in E. inversion E. subst st'.
              destruct (in_dec Nat.eq_dec r (done ++ cur :: q)) as [Hi|Hi].
              ** apply in_app_iff. now left.
              ** apply in_app_iff. right. apply Hin. split; [|assumption].
                 unfold req_set. now apply nodup_In.
      * rewrite app_length. change (length [cur]) with 1. lia.
      * exists vis, (new ++ tail). split; [exact Hb|]. split; [|exact Hi].
        rewrite Hv, <- Hre2, <- app_assoc. reflexivity.
    + rewrite Hre.
      destruct (IH (done ++ [cur]) q) as [vis [tail [Hb [Hv Hi]]]].
      * constructor; rewrite <- ?Hre; auto.
        intros x r Hx Hd. apply in_app_iff in Hx as [Hx|[<-|[]]]; [eapply Hcl; eauto|].
        destruct Hd as [st' [E _]]. congruence.
      * rewrite app_length. change (length [cur]) with 1. lia.
      * exists vis, tail. auto.
Qed.

(* BFS never runs out of fuel and returns exactly the transitive requisites (the stage itself,
   which is in `visited` from the start, is never among them) *)
Lemma ancestors_spec d s :
  exists anc, ancestors d s = Some anc /\ NoDup (s :: anc) /\
              (forall x, In x anc <-> ancestor d x s /\ x <> s).
Proof.
  destruct (bfs_run d s (bfs_fuel d s) [] [s]) as [vis [tail [Hb [Hv Hi]]]].
  - constructor; simpl.
    + constructor; [tauto|constructor].
    + intros x [<-|[]]. now left.
    + intros x [<-|[]]. now left.
    + intros x r [].
  - unfold bfs_fuel. simpl. lia.
  - change ([] ++ [s]) with [s] in Hb, Hv. unfold ancestors. rewrite Hb. subst vis.
    change (tl ([s] ++ tail)) with tail. exists tail.
    destruct Hi as [Hnd _ Hso Hcl]. rewrite app_nil_r in *. change ([s] ++ tail) with (s :: tail) in *.
    split; [reflexivity|]. split; [exact Hnd|].
    assert (Hall : forall a t, ancestor d a t -> In t (s :: tail) -> In a (s :: tail)).
    { intros a t H. induction H as [a t Hd|a r t Hd _ IH]; intros Ht.
      - eapply Hcl; eauto.
      - apply IH. eapply Hcl; eauto. }
    intros x. split.
    + intros Hx. inversion Hnd as [|? ? Hns _]. subst.
      destruct (Hso x (or_intror Hx)) as [->|Ha]; [tauto|]. split; [assumption|]. intros ->. tauto.
    + intros [Ha Hne]. destruct (Hall x s Ha (or_introl eq_refl)) as [->|H]; [congruence|assumption].
Qed.

(* ------------------------------------------------------------------------------------------ *)
(* Part 2: Kahn                                                                                *)
(* ------------------------------------------------------------------------------------------ *)
Lemma kahn_relax_fold vs : forall q ind, NoDup vs ->
  fst (fold_left kahn_relax vs (q, ind)) = q ++ filter (fun v => Z.eqb (ind v) 1) vs /\
  forall x, snd (fold_left kahn_relax vs (q, ind)) x = if mem_nat x vs then (ind x - 1)%Z else ind x.
Proof.
  induction vs as [|v vs IH]; intros q ind Hnd; simpl.
  - rewrite app_nil_r. auto.
  - inversion Hnd as [|? ? Hnv Hnd']. subst.
    unfold kahn_relax at 2 4. simpl.
    assert (Hupd : forall x, upd ind v (ind v - 1)%Z x = if Nat.eqb x v then (ind v - 1)%Z else ind x)
      by reflexivity.
    rewrite (Hupd v), Nat.eqb_refl.
    assert (Hfilt : filter (fun x => Z.eqb (upd ind v (ind v - 1)%Z x) 1) vs = filter (fun x => Z.eqb (ind x) 1) vs).
    { apply filter_ext_in. intros x Hx. rewrite Hupd. destruct (Nat.eqb x v) eqn:E; [|reflexivity].
      apply Nat.eqb_eq in E. subst. tauto. }
    assert (Hpt : forall x, (if mem_nat x vs then (upd ind v (ind v - 1)%Z x - 1)%Z else upd ind v (ind v - 1)%Z x)
                            = if Nat.eqb x v || mem_nat x vs then (ind x - 1)%Z else ind x).
    { intros x. rewrite Hupd. destruct (Nat.eqb x v) eqn:E; simpl.
      - apply Nat.eqb_eq in E. subst. apply mem_nat_false in Hnv. now rewrite Hnv.
      - reflexivity. }
    destruct (Z.eqb (ind v - 1) 0) eqn:E0.
    + destruct (IH (q ++ [v]) (upd ind v (ind v - 1)%Z) Hnd') as [H1 H2].
      replace (Z.eqb (ind v) 1) with true by (symmetry; apply Z.eqb_eq; apply Z.eqb_eq in E0; lia).
      split.
      * rewrite H1, Hfilt, <- app_assoc. reflexivity.
      * intros x. rewrite H2. apply Hpt.
    + destruct (IH q (upd ind v (ind v - 1)%Z) Hnd') as [H1 H2].
      replace (Z.eqb (ind v) 1) with false by (symmetry; apply Z.eqb_neq; apply Z.eqb_neq in E0; lia).
      split.
      * rewrite H1, Hfilt. reflexivity.
      * intros x. rewrite H2. apply Hpt.
Qed.

(* requisites of v inside the ancestor set that are not yet output *)
Definition remaining (d : dag) (order sorted : list nat) (v : nat) : list nat :=
  filter (fun r => mem_nat r order && negb (mem_nat r sorted)) (reqs_of d v).

Record kahn_inv (d : dag) (order queue sorted : list nat) (ind : nat -> Z) : Prop := {
  ki_nodup : NoDup (sorted ++ queue);
  ki_incl : incl (sorted ++ queue) order;
  ki_count : forall v, In v order -> ind v = Z.of_nat (length (remaining d order sorted v));
  ki_zero : forall v, In v order -> (In v (sorted ++ queue) <-> ind v = 0%Z);
  ki_topo : forall l1 v l2, sorted = l1 ++ v :: l2 ->
            forall r, In r (reqs_of d v) -> In r order -> In r l1
}.

Lemma filter_remove_one (f : nat -> bool) (u : nat) (l : list nat) :
  NoDup l -> In u l -> f u = true ->
  S (length (filter (fun r => f r && negb (Nat.eqb r u)) l)) = length (filter f l).
Proof.
  induction l as [|a l IH]; intros Hnd Hin Hf; [destruct Hin|].
  inversion Hnd as [|? ? Hna Hnd']. subst. simpl. destruct Hin as [->|Hin].
  - rewrite Hf, Nat.eqb_refl. simpl. f_equal. f_equal. apply filter_ext_in.
    intros r Hr. destruct (Nat.eqb r u) eqn:E; [|now rewrite andb_true_r].
    apply Nat.eqb_eq in E. subst. tauto.
  - assert (Hne : Nat.eqb a u = false) by (apply Nat.eqb_neq; intros ->; tauto).
    rewrite Hne, andb_true_r. destruct (f a); simpl; [f_equal|]; apply IH; auto.
Qed.

Lemma remaining_step d order sorted u v :
  In u order -> ~ In u sorted ->
  length (remaining d order sorted v) =
  (if mem_nat u (reqs_of d v) then S (length (remaining d order (sorted ++ [u]) v))
   else length (remaining d order (sorted ++ [u]) v)).
Proof.
  intros Huo Hus. unfold remaining.
  assert (Hext : filter (fun r => mem_nat r order && negb (mem_nat r (sorted ++ [u]))) (reqs_of d v)
               = filter (fun r => (mem_nat r order && negb (mem_nat r sorted)) && negb (Nat.eqb r u)) (reqs_of d v)).
  { apply filter_ext. intros r. rewrite mem_nat_app. simpl. rewrite orb_false_r, negb_orb.
    now rewrite andb_assoc. }
  rewrite Hext. destruct (mem_nat u (reqs_of d v)) eqn:E.
  - apply mem_nat_In in E. symmetry. apply filter_remove_one; [apply reqs_of_NoDup|assumption|].
    apply andb_true_iff. split; [now apply mem_nat_In|]. apply negb_true_iff. now apply mem_nat_false.
  - apply mem_nat_false in E. f_equal. apply filter_ext_in. intros r Hr.
    destruct (Nat.eqb r u) eqn:E2; [|now rewrite andb_true_r].
    apply Nat.eqb_eq in E2. subst. tauto.
Qed.

Lemma kahn_run d order : NoDup order -> forall fuel queue sorted ind,
  kahn_inv d order queue sorted ind -> length order - length sorted < fuel ->
  exists res ind', kahn d order fuel queue sorted ind = Some res /\ kahn_inv d order [] res ind'.
Proof.
  intros Hno. induction fuel as [|f IH]; intros queue sorted ind Hinv Hfuel; [lia|].
  destruct queue as [|u q]; simpl.
  - exists sorted, ind. auto.
  - destruct Hinv as [Hnd Hincl Hcount Hzero Htopo].
    assert (Huo : In u order) by (apply Hincl, in_app_iff; right; now left).
    assert (Hus : ~ In u sorted).
    { intros H. apply (NoDup_app_disj _ _ u Hnd H). now left. }
    assert (Huq : ~ In u q).
    { apply NoDup_app_r in Hnd. inversion Hnd. assumption. }
    assert (Hlen : length sorted + 1 <= length order).
    { assert (H := NoDup_incl_length Hnd Hincl). rewrite app_length in H. simpl in H. lia. }
    assert (Hsn : NoDup (succs d order u)) by (apply NoDup_filter; assumption).
    destruct (kahn_relax_fold (succs d order u) q ind Hsn) as [Hq Hind].
    set (qi := fold_left kahn_relax (succs d order u) (q, ind)) in *.
    assert (Hsucc : forall v, In v (succs d order u) <-> In v order /\ In u (reqs_of d v)).
    { intros v. unfold succs. rewrite filter_In, mem_nat_In. tauto. }
    assert (Hind0 : ind u = 0%Z) by (apply Hzero; [assumption|apply in_app_iff; right; now left]).
    assert (Hnew : forall v, In v (filter (fun v => Z.eqb (ind v) 1) (succs d order u)) <->
                             In v order /\ In u (reqs_of d v) /\ ind v = 1%Z).
    { intros v. rewrite filter_In, Hsucc, Z.eqb_eq. tauto. }
    apply (IH (fst qi) (sorted ++ [u]) (snd qi)).
    + rewrite Hq. constructor.
      * replace ((sorted ++ [u]) ++ q ++ filter (fun v => Z.eqb (ind v) 1) (succs d order u))
          with ((sorted ++ u :: q) ++ filter (fun v => Z.eqb (ind v) 1) (succs d order u))
          by (rewrite <- !app_assoc; reflexivity).
        apply NoDup_app_intro; [assumption|now apply NoDup_filter|].
        intros x Hx Hx2. apply Hnew in Hx2 as [Hxo [_ H1]].
        apply (Hzero x Hxo) in Hx. lia.
      * intros x Hx. rewrite !in_app_iff in Hx. simpl in Hx.
        destruct Hx as [[Hx|[<-|[]]]|[Hx|Hx]]; auto.
        -- apply Hincl, in_app_iff. now left.
        -- apply Hincl, in_app_iff. right. now right.
        -- now apply Hnew in Hx.
      * intros v Hv. rewrite Hind. specialize (Hcount v Hv).
        rewrite (remaining_step d order sorted u v Huo Hus) in Hcount.
        destruct (mem_nat v (succs d order u)) eqn:E.
        -- apply mem_nat_In, Hsucc in E as [_ E]. apply mem_nat_In in E. rewrite E in Hcount. lia.
        -- apply mem_nat_false in E. rewrite Hsucc in E.
           destruct (mem_nat u (reqs_of d v)) eqn:E2; [apply mem_nat_In in E2; tauto|exact Hcount].
      * intros v Hv. rewrite Hind. specialize (Hzero v Hv). specialize (Hcount v Hv).
        rewrite (remaining_step d order sorted u v Huo Hus) in Hcount.
        replace ((sorted ++ [u]) ++ q ++ filter (fun v => Z.eqb (ind v) 1) (succs d order u))
          with ((sorted ++ u :: q) ++ filter (fun v => Z.eqb (ind v) 1) (succs d order u))
          by (rewrite <- !app_assoc; reflexivity).
        rewrite in_app_iff, Hnew.
        destruct (mem_nat v (succs d order u)) eqn:E.
        -- apply mem_nat_In, Hsucc in E as [_ E]. assert (E' := E). apply mem_nat_In in E'.
           rewrite E' in Hcount. split.
           ++ intros [H|[_ [_ H]]]; [apply Hzero in H; lia|lia].
           ++ intros H. right. split; [assumption|]. split; [assumption|lia].
        -- apply mem_nat_false in E. rewrite Hsucc in E. split.
           ++ intros [H|[_ [H _]]]; [now apply Hzero|tauto].
           ++ intros H. left. now apply Hzero.
      * intros l1 v l2 Heq r Hr Hro.
        destruct l2 as [|z l2] using rev_ind.
        -- apply app_inj_tail in Heq as [-> ->].
           specialize (Hcount v Huo). rewrite Hind0 in Hcount.
           assert (Hnil : remaining d order l1 v = []).
           { destruct (remaining d order l1 v); [reflexivity|simpl in Hcount; lia]. }
           unfold remaining in Hnil. rewrite filter_nil_iff in Hnil. specialize (Hnil r Hr).
           apply mem_nat_In in Hro. rewrite Hro in Hnil. simpl in Hnil.
           apply negb_false_iff, mem_nat_In in Hnil. exact Hnil.
        -- clear IHl2. rewrite app_comm_cons, app_assoc in Heq. apply app_inj_tail in Heq as [Heq _].
           eapply Htopo; eauto.
    + rewrite app_length. simpl. lia.
Qed.

Lemma all_known_spec d l : all_known d l = true <-> forall a, In a l -> lookup d a <> None.
Proof.
  unfold all_known. rewrite forallb_forall. split; intros H a Ha; specialize (H a Ha).
  - destruct (lookup d a); congruence.
  - destruct (lookup d a); congruence.
Qed.

(* what merge_order returns, for EVERY iteration order of the ancestor set *)
Lemma merge_order_spec d order :
  NoDup order -> (forall a, In a order -> lookup d a <> None) ->
  exists sorted, merge_order d order = Ok sorted /\ NoDup sorted /\ incl sorted order /\
    (forall l1 v l2, sorted = l1 ++ v :: l2 -> forall r, direct d r v -> In r order -> In r l1) /\
    (acyclic d -> incl order sorted).
Proof.
  intros Hno Hk. unfold merge_order. rewrite (proj2 (all_known_spec d order) Hk).
  destruct (kahn_run d order Hno (S (length order))
              (filter (fun a => Z.eqb (in_degree d order a) 0) order) [] (in_degree d order))
    as [res [ind' [Hr Hi]]].
  - constructor; simpl.
    + now apply NoDup_filter.
    + intros x Hx. now apply filter_In in Hx.
    + intros v _. unfold in_degree, remaining. do 2 f_equal. apply filter_ext. intros r. simpl.
      now rewrite andb_true_r.
    + intros v Hv. rewrite filter_In, Z.eqb_eq. tauto.
    + intros l1 v l2 Heq. destruct l1; discriminate.
  - simpl. lia.
  - rewrite Hr. exists res. destruct Hi as [Hnd Hincl Hcount Hzero Htopo]. rewrite app_nil_r in *.
    split; [reflexivity|]. split; [assumption|]. split; [assumption|]. split.
    + intros l1 v l2 Heq r Hd Hro. eapply Htopo; eauto. now apply reqs_of_direct.
    + intros [rank Hrank].
      assert (Hall : forall n v, rank v < n -> In v order -> In v res).
      { induction n as [|n IHn]; intros v Hlt Hv; [lia|].
        apply Hzero; [assumption|]. rewrite (Hcount v Hv).
        assert (Hnil : remaining d order res v = []).
        { unfold remaining. apply filter_nil_iff. intros r Hr'.
          destruct (mem_nat r order) eqn:E; [|reflexivity]. simpl.
          apply negb_false_iff, mem_nat_In. apply mem_nat_In in E.
          apply IHn; [|assumption]. apply reqs_of_direct in Hr'. specialize (Hrank _ _ Hr'). lia. }
        now rewrite Hnil. }
      intros v Hv. apply (Hall (S (rank v))); auto.
Qed.

(* the transitive version: every ancestor comes after all of ITS ancestors *)
Lemma merge_order_topological d order sorted :
  NoDup sorted ->
  (forall l1 v l2, sorted = l1 ++ v :: l2 -> forall r, direct d r v -> In r order -> In r l1) ->
  incl sorted order ->
  (forall v r, In v order -> direct d r v -> In r order) ->
  forall a b, ancestor d a b -> In b sorted -> before sorted a b.
Proof.
  intros Hnd Htopo Hincl Hclosed a b H. induction H as [a b Hd|a r b Hd _ IH]; intros Hb.
  - apply in_split in Hb as [l1 [l2 Heq]]. exists l1, l2. split; [assumption|].
    eapply Htopo; eauto. eapply Hclosed; eauto. apply Hincl. rewrite Heq. apply in_app_iff. right. now left.
  - assert (Hrb : before sorted r b).
    { apply in_split in Hb as [l1 [l2 Heq]]. exists l1, l2. split; [assumption|].
      eapply Htopo; eauto. eapply Hclosed; eauto. apply Hincl. rewrite Heq. apply in_app_iff. right. now left. }
    eapply before_trans; eauto. apply IH. now apply before_In in Hrb.
Qed.

(* ------------------------------------------------------------------------------------------ *)
(* Part 3: the merge, key by key                                                               *)
(* ------------------------------------------------------------------------------------------ *)
(* one arrival of value v at a key currently holding cur *)
Definition vstep (cur : option value) (v : value) : option value := Some (merge_value cur v).

(* what stage a contributes under key k, and the contributions of a list of stages in order *)
Definition kval (d : dag) (k a : nat) : list value :=
  match cget k (outputs_of d a) with Some v => [v] | None => [] end.
Definition kvals (d : dag) (k : nat) (l : list nat) : list value := flat_map (kval d k) l.
Definition own_kval (st : stage) (k : nat) : list value :=
  match cget k (s_context st) with Some v => [v] | None => [] end.

Lemma merge_into_get acc outs k : NoDup (map fst outs) ->
  cget k (merge_into acc outs) =
  match cget k outs with Some v => Some (merge_value (cget k acc) v) | None => cget k acc end.
Proof.
  unfold merge_into. revert acc. induction outs as [|[k0 v0] o IH]; intros acc Hnd; simpl; [reflexivity|].
  inversion Hnd as [|? ? Hn Hnd']. subst. rewrite (IH _ Hnd').
  assert (Hce : cget k (merge_entry acc (k0, v0))
                = if Nat.eqb k k0 then Some (merge_value (cget k0 acc) v0) else cget k acc).
  { unfold merge_entry. simpl. apply cget_cset. }
  rewrite Hce. destruct (Nat.eqb k k0) eqn:E.
  - apply Nat.eqb_eq in E. subst k0. apply cget_None_notin in Hn. now rewrite Hn.
  - reflexivity.
Qed.

Lemma outputs_of_wf d a : wf_dag d -> NoDup (map fst (outputs_of d a)).
Proof.
  intros Hwf. unfold outputs_of. destruct (lookup d a) as [st|] eqn:E; [|constructor].
  apply lookup_In in E as [E _]. apply (Hwf st E).
Qed.

Lemma merge_sorted_get_from d k l : wf_dag d -> forall acc,
  cget k (fold_left (fun acc a => merge_into acc (outputs_of d a)) l acc)
  = fold_left vstep (kvals d k l) (cget k acc).
Proof.
  intros Hwf. induction l as [|a l IH]; intros acc; simpl; [reflexivity|].
  rewrite fold_left_app, IH, (merge_into_get _ _ _ (outputs_of_wf d a Hwf)). unfold kval.
  destruct (cget k (outputs_of d a)); reflexivity.
Qed.

Lemma merge_sorted_get d k l : wf_dag d -> cget k (merge_sorted d l) = fold_left vstep (kvals d k l) None.
Proof. intros Hwf. unfold merge_sorted. now rewrite merge_sorted_get_from. Qed.

Lemma is_reducer_key_In reds k : is_reducer_key reds k = true <-> In k (map fst reds).
Proof.
  unfold is_reducer_key. rewrite existsb_exists, in_map_iff. split.
  - intros [x [Hx He]]. apply Nat.eqb_eq in He. exists x. auto.
  - intros [x [He Hx]]. exists x. split; [assumption|]. now apply Nat.eqb_eq.
Qed.

Lemma merge_own_get reds own k : NoDup (map fst own) -> forall acc,
  cget k (merge_own reds acc own) =
  if is_reducer_key reds k then cget k acc
  else match cget k own with Some v => Some (merge_value (cget k acc) v) | None => cget k acc end.
Proof.
  unfold merge_own. induction own as [|[k0 v0] o IH]; intros Hnd acc; simpl.
  - now destruct (is_reducer_key reds k).
  - inversion Hnd as [|? ? Hn Hnd']. subst. rewrite (IH Hnd').
    destruct (is_reducer_key reds k0) eqn:Ek0.
    + destruct (is_reducer_key reds k) eqn:Ek; [reflexivity|].
      destruct (Nat.eqb k k0) eqn:E; [apply Nat.eqb_eq in E; congruence|reflexivity].
    + assert (Hce : cget k (merge_entry acc (k0, v0))
                    = if Nat.eqb k k0 then Some (merge_value (cget k0 acc) v0) else cget k acc).
      { unfold merge_entry. simpl. apply cget_cset. }
      rewrite Hce. destruct (Nat.eqb k k0) eqn:E.
      * apply Nat.eqb_eq in E. subst k0. rewrite Ek0. apply cget_None_notin in Hn. now rewrite Hn.
      * reflexivity.
Qed.

Lemma cupdate_keys k o : forall c, cget k (cupdate c o) <> None <-> cget k c <> None \/ cget k o <> None.
Proof.
  unfold cupdate. induction o as [|[k0 v0] o IH]; intros c; simpl; [tauto|].
  rewrite IH, cget_cset. destruct (Nat.eqb k k0); split; try tauto.
  - intros _. right. discriminate.
  - intros _. left. discriminate.
Qed.

Lemma cupdate_get_none k c o : cget k o = None -> cget k (cupdate c o) = cget k c.
Proof.
  unfold cupdate. revert c. induction o as [|[k0 v0] o IH]; intros c; simpl; [reflexivity|].
  destruct (Nat.eqb k k0) eqn:E; [discriminate|]. intros H. rewrite (IH _ H), cget_cset. now rewrite E.
Qed.

Lemma fold_vstep_some vs : forall o, o <> None -> fold_left vstep vs o <> None.
Proof. induction vs as [|w vs IH]; intros o Ho; simpl; [assumption|]. apply IH. discriminate. Qed.

Lemma fold_vstep_nil_iff vs : fold_left vstep vs None <> None <-> vs <> [].
Proof.
  destruct vs as [|v vs]; simpl; [tauto|]. split; [discriminate|]. intros _.
  apply fold_vstep_some. discriminate.
Qed.

Lemma merge_value_atom cur a : merge_value cur (VAtom a) = VAtom a.
Proof. destruct cur as [[b|l]|]; reflexivity. Qed.

Lemma fold_vstep_last_atom vs a o : fold_left vstep (vs ++ [VAtom a]) o = Some (VAtom a).
Proof. rewrite fold_left_app. simpl. unfold vstep. now rewrite merge_value_atom. Qed.

Lemma kvals_app d k l m : kvals d k (l ++ m) = kvals d k l ++ kvals d k m.
Proof. unfold kvals. apply flat_map_app. Qed.

Lemma kvals_In d k l v : In v (kvals d k l) <-> exists a, In a l /\ cget k (outputs_of d a) = Some v.
Proof.
  unfold kvals. rewrite in_flat_map. unfold kval. split.
  - intros [a [Ha Hv]]. exists a. split; [assumption|].
    destruct (cget k (outputs_of d a)); simpl in Hv; [destruct Hv as [->|[]]; reflexivity|tauto].
  - intros [a [Ha Hv]]. exists a. split; [assumption|]. rewrite Hv. now left.
Qed.

Lemma kvals_nil_iff d k l : kvals d k l = [] <-> forall a, In a l -> cget k (outputs_of d a) = None.
Proof.
  split.
  - intros H a Ha. destruct (cget k (outputs_of d a)) as [v|] eqn:E; [|reflexivity].
    assert (Hin : In v (kvals d k l)) by (apply kvals_In; eauto). rewrite H in Hin. destruct Hin.
  - intros H. destruct (kvals d k l) as [|v r] eqn:E; [reflexivity|].
    assert (Hin : In v (kvals d k l)) by (rewrite E; now left).
    apply kvals_In in Hin as [a [Ha Hv]]. rewrite (H a Ha) in Hv. discriminate.
Qed.

Definition contributes (d : dag) (k a : nat) : bool := cmem k (outputs_of d a).

Lemma contributes_true d k a : contributes d k a = true <-> cget k (outputs_of d a) <> None.
Proof. unfold contributes, cmem. destruct (cget k (outputs_of d a)); split; congruence. Qed.

Lemma kvals_filter d k l : kvals d k l = kvals d k (filter (contributes d k) l).
Proof.
  induction l as [|a l IH]; simpl; [reflexivity|]. unfold contributes at 1, cmem. unfold kval at 1.
  destruct (cget k (outputs_of d a)) eqn:E; simpl.
  - unfold kval at 1. rewrite E. simpl. now f_equal.
  - exact IH.
Qed.

(* list-valued keys *)
Lemma append_new_In n : forall e x, In x (append_new e n) <-> In x e \/ In x n.
Proof.
  unfold append_new. induction n as [|i n IH]; intros e x; simpl; [tauto|].
  rewrite IH. destruct (existsb (atom_eqb i) e) eqn:E.
  - apply existsb_atom_eqb in E. split; [tauto|]. intros [H|[<-|H]]; auto.
  - rewrite in_app_iff. simpl. tauto.
Qed.

Lemma append_new_NoDup n : forall e, NoDup e -> NoDup (append_new e n).
Proof.
  unfold append_new. induction n as [|i n IH]; intros e He; simpl; [assumption|].
  apply IH. destruct (existsb (atom_eqb i) e) eqn:E; [assumption|].
  apply existsb_atom_eqb_false in E. apply NoDup_app_intro; [assumption|repeat constructor; tauto|].
  intros x Hx [<-|[]]. tauto.
Qed.

Definition is_list (v : value) : Prop := exists l, v = VList l.

Lemma fold_vstep_lists vs : Forall is_list vs -> forall e,
  exists L, fold_left vstep vs (Some (VList e)) = Some (VList L) /\
            (forall x, In x L <-> In x e \/ exists l, In (VList l) vs /\ In x l) /\
            (NoDup e -> NoDup L).
Proof.
  induction 1 as [|v vs [l ->] _ IH]; intros e; simpl.
  - exists e. split; [reflexivity|]. split; [|auto]. intros x. split; [auto|]. intros [H|[l [[] _]]]. exact H.
  - destruct (IH (append_new e l)) as [L [HL [Hin Hnd]]]. exists L. split; [exact HL|]. split.
    + intros x. rewrite Hin, append_new_In. split.
      * intros [[H|H]|[l' [H1 H2]]]; auto; right; [exists l|exists l']; auto.
      * intros [H|[l' [[H1|H1] H2]]]; auto; [inversion H1; subst; auto|right; exists l'; auto].
    + intros He. apply Hnd. now apply append_new_NoDup.
Qed.

Lemma fold_vstep_lists_none vs : Forall is_list vs -> forall v,
  fold_left vstep vs None = Some v ->
  exists L, v = VList L /\ (forall x, In x L <-> exists l, In (VList l) vs /\ In x l) /\
            ((forall l, In (VList l) vs -> NoDup l) -> NoDup L).
Proof.
  intros Hall v Hf. destruct vs as [|w vs]; simpl in Hf; [discriminate|].
  inversion Hall as [|? ? [l ->] Hall']. subst.
  unfold vstep at 2 in Hf. simpl in Hf.
  destruct (fold_vstep_lists vs Hall' l) as [L [HL [Hin Hnd]]]. rewrite HL in Hf. inversion Hf. subst v.
  exists L. split; [reflexivity|]. split.
  - intros x. rewrite Hin. split.
    + intros [H|[l' [H1 H2]]]; [exists l|exists l']; simpl; auto.
    + intros [l' [[H1|H1] H2]]; [inversion H1; subst; auto|right; exists l'; auto].
  - intros Hn. apply Hnd. apply Hn. now left.
Qed.

(* ------------------------------------------------------------------------------------------ *)
(* Part 4: the planned context                                                                 *)
(* ------------------------------------------------------------------------------------------ *)
(* the arbitrary choices: `order` is the iteration order of the Python set `ancestors`, `ups` the row
   order of get_upstream_stages *)
Definition iteration_orders (d : dag) (s : nat) (order ups : list nat) : Prop :=
  (exists anc, ancestors d s = Some anc /\ Permutation order anc) /\ Permutation ups (upstream_refs d s).

Lemma plan_unfold d s order ups st sorted :
  lookup d s = Some st -> merge_order d order = Ok sorted ->
  plan_context d s order ups =
  match apply_output_reducers (s_reducers st) (branch_outputs d ups) with
  | RErr e => Err (ReducerError e)
  | ROk reduced => Ok (merge_own (s_reducers st) (cupdate (merge_sorted d sorted) reduced) (s_context st))
  end.
Proof.
  intros Hl Hm. unfold plan_context, merged_ancestor_outputs. rewrite Hl.
  destruct (ancestors_spec d s) as [anc [Ha _]]. rewrite Ha, Hm. reflexivity.
Qed.

Lemma plan_ok_order d s order ups c :
  plan_context d s order ups = Ok c ->
  exists st sorted, lookup d s = Some st /\ merge_order d order = Ok sorted /\ all_known d order = true.
Proof.
  unfold plan_context, merged_ancestor_outputs. destruct (lookup d s) as [st|]; [|discriminate].
  destruct (ancestors d s); [|discriminate].
  destruct (merge_order d order) as [sorted|e] eqn:Em; [|discriminate]. intros _.
  exists st, sorted. split; [reflexivity|]. split; [reflexivity|].
  unfold merge_order in Em. destruct (all_known d order); [reflexivity|discriminate].
Qed.

(* everything the theorems need to know about the merge order, for any iteration order *)
Lemma order_facts d s order ups :
  acyclic d -> iteration_orders d s order ups ->
  NoDup order /\ (forall x, In x order <-> ancestor d x s) /\
  (forall v r, In v order -> direct d r v -> In r order).
Proof.
  intros Hac [[anc [Ha Hp]] _]. destruct (ancestors_spec d s) as [anc' [Ha' [Hnd Hin]]].
  rewrite Ha in Ha'. inversion Ha'. subst anc'.
  assert (Hiff : forall x, In x order <-> ancestor d x s).
  { intros x. split.
    - intros Hx. apply (Permutation_in _ Hp) in Hx. now apply Hin in Hx.
    - intros Hx. apply (Permutation_in _ (Permutation_sym Hp)). apply Hin. split; [assumption|].
      intros ->. now apply (acyclic_irrefl d Hac s). }
  split; [|split; [exact Hiff|]].
  - apply (Permutation_NoDup (Permutation_sym Hp)). now inversion Hnd.
  - intros v r Hv Hd. apply Hiff. apply Hiff in Hv. eapply ancestor_trans; [apply anc_direct|]; eauto.
Qed.

Lemma sorted_facts d s order ups sorted :
  acyclic d -> iteration_orders d s order ups ->
  merge_order d order = Ok sorted -> all_known d order = true ->
  NoDup sorted /\ (forall x, In x sorted <-> ancestor d x s) /\
  (forall a b, ancestor d a b -> In b sorted -> before sorted a b).
Proof.
  intros Hac Hio Hm Hk. destruct (order_facts d s order ups Hac Hio) as [Hnd [Hiff Hcl]].
  destruct (merge_order_spec d order Hnd (proj1 (all_known_spec d order) Hk))
    as [sorted' [Hm' [Hns [Hincl [Htopo Hcompl]]]]].
  rewrite Hm in Hm'. inversion Hm'. subst sorted'.
  split; [assumption|]. split.
  - intros x. rewrite <- Hiff. split; [apply Hincl|apply (Hcompl Hac)].
  - eapply merge_order_topological; eauto.
Qed.

(* fuel always suffices, and with every ancestor present in the store no KeyError either *)
Lemma plan_total d s order ups st :
  lookup d s = Some st -> iteration_orders d s order ups ->
  (forall a, In a order -> lookup d a <> None) ->
  exists sorted, merge_order d order = Ok sorted /\
    plan_context d s order ups <> Err OutOfFuel /\ plan_context d s order ups <> Err KeyError.
Proof.
  intros Hl [[anc [Ha Hp]] _] Hk. destruct (ancestors_spec d s) as [anc' [Ha' [Hnd _]]].
  rewrite Ha in Ha'. inversion Ha'. subst anc'.
  assert (Hno : NoDup order).
  { apply (Permutation_NoDup (Permutation_sym Hp)). now inversion Hnd. }
  destruct (merge_order_spec d order Hno Hk) as [sorted [Hm _]]. exists sorted. split; [exact Hm|].
  rewrite (plan_unfold d s order ups st sorted Hl Hm).
  destruct (apply_output_reducers (s_reducers st) (branch_outputs d ups)); split; discriminate.
Qed.

(* the value planned under a key, as a fold of the merge rule over the contributions in merge order *)
Lemma plan_get d s order ups st sorted c k :
  wf_dag d -> lookup d s = Some st -> merge_order d order = Ok sorted ->
  plan_context d s order ups = Ok c ->
  exists reduced, apply_output_reducers (s_reducers st) (branch_outputs d ups) = ROk reduced /\
    cget k c = if is_reducer_key (s_reducers st) k
               then cget k (cupdate (merge_sorted d sorted) reduced)
               else fold_left vstep (kvals d k sorted ++ own_kval st k) None.
Proof.
  intros Hwf Hl Hm Hp. rewrite (plan_unfold d s order ups st sorted Hl Hm) in Hp.
  destruct (apply_output_reducers (s_reducers st) (branch_outputs d ups)) as [reduced|e] eqn:Er; [|discriminate].
  inversion Hp. subst c. exists reduced. split; [reflexivity|].
  assert (Hown : NoDup (map fst (s_context st))) by (apply (Hwf st), (lookup_In _ _ _ Hl)).
  rewrite (merge_own_get _ _ k Hown). destruct (is_reducer_key (s_reducers st) k) eqn:Ek; [reflexivity|].
  assert (Hred : cget k reduced = None).
  { destruct (cget k reduced) eqn:E; [|reflexivity]. exfalso.
    assert (Hne : cget k reduced <> None) by congruence.
    apply (apply_output_reducers_from_keys _ _ _ _ Er) in Hne as [Hne|[Hne _]]; [now apply Hne|].
    apply is_reducer_key_In in Hne. congruence. }
  rewrite (cupdate_get_none _ _ _ Hred), (merge_sorted_get d k sorted Hwf), fold_left_app.
  unfold own_kval. destruct (cget k (s_context st)); reflexivity.
Qed.

Lemma upstream_refs_direct d s u : In u (upstream_refs d s) -> direct d u s.
Proof. unfold upstream_refs. rewrite filter_In. intros [H _]. now apply reqs_of_direct. Qed.

(* VISIBILITY *)
Lemma visibility d s order ups st c :
  wf_dag d -> acyclic d -> lookup d s = Some st -> iteration_orders d s order ups ->
  plan_context d s order ups = Ok c ->
  forall k, cget k c <> None <->
    (cget k (s_context st) <> None /\ is_reducer_key (s_reducers st) k = false) \/
    (exists a, ancestor d a s /\ cget k (outputs_of d a) <> None).
Proof.
  intros Hwf Hac Hl Hio Hp k.
  destruct (plan_ok_order _ _ _ _ _ Hp) as [st' [sorted [Hl' [Hm Hk]]]].
  rewrite Hl in Hl'. inversion Hl'. subst st'.
  destruct (sorted_facts d s order ups sorted Hac Hio Hm Hk) as [Hns [Hiff _]].
  destruct (plan_get d s order ups st sorted c k Hwf Hl Hm Hp) as [reduced [Er Hc]].
  assert (Hmerged : fold_left vstep (kvals d k sorted) None <> None <->
                    exists a, ancestor d a s /\ cget k (outputs_of d a) <> None).
  { rewrite fold_vstep_nil_iff. split.
    - intros Hne. destruct (kvals d k sorted) as [|v r] eqn:E; [congruence|].
      assert (Hin : In v (kvals d k sorted)) by (rewrite E; now left).
      apply kvals_In in Hin as [a [Ha Hv]]. exists a. split; [now apply Hiff|congruence].
    - intros [a [Ha Hv]] Hnil. rewrite kvals_nil_iff in Hnil. apply Hv, Hnil. now apply Hiff. }
  rewrite Hc. destruct (is_reducer_key (s_reducers st) k) eqn:Ek.
  - rewrite cupdate_keys, (merge_sorted_get d k sorted Hwf), Hmerged. split.
    + intros [H|H]; [now right|]. right.
      apply (apply_output_reducers_from_keys _ _ _ _ Er) in H as [H|[_ H]]; [exfalso; now apply H|].
      destruct (branch_values k (branch_outputs d ups)) as [|v r] eqn:E; [congruence|].
      assert (Hin : In v (branch_values k (branch_outputs d ups))) by (rewrite E; now left).
      apply branch_values_In in Hin as [o [Ho Hv]]. unfold branch_outputs in Ho.
      apply filter_In in Ho as [Ho _]. apply in_map_iff in Ho as [u [<- Hu]].
      exists u. split; [|congruence]. apply anc_direct, upstream_refs_direct.
      destruct Hio as [_ Hup]. apply (Permutation_in _ Hup Hu).
    + intros [[_ H]|H]; [discriminate|now left].
  - rewrite fold_left_app. unfold own_kval. destruct (cget k (s_context st)) as [v|] eqn:Eo; simpl.
    + split; [intros _; left; split; [discriminate|reflexivity]|intros _; discriminate].
    + rewrite Hmerged. split; [now right|]. intros [[H _]|H]; [congruence|assumption].
Qed.

(* PRECEDENCE (a): a non-list value set on the stage itself wins (unless a reducer owns the key) *)
Lemma own_scalar_wins d s order ups st c k a :
  wf_dag d -> lookup d s = Some st -> plan_context d s order ups = Ok c ->
  is_reducer_key (s_reducers st) k = false -> cget k (s_context st) = Some (VAtom a) ->
  cget k c = Some (VAtom a).
Proof.
  intros Hwf Hl Hp Hr Ho.
  destruct (plan_ok_order _ _ _ _ _ Hp) as [st' [sorted [Hl' [Hm Hk]]]].
  destruct (plan_get d s order ups st sorted c k Hwf Hl Hm Hp) as [reduced [_ Hc]].
  rewrite Hc, Hr. unfold own_kval. rewrite Ho. apply fold_vstep_last_atom.
Qed.

(* PRECEDENCE (b): otherwise, if one contributing ancestor m lies below every other contributor on
   the dependency paths (all other contributors are ancestors of m), its non-list value is the one
   seen, whatever the iteration orders *)
Lemma nearest_ancestor_wins d s order ups st c k m a :
  wf_dag d -> acyclic d -> lookup d s = Some st -> iteration_orders d s order ups ->
  plan_context d s order ups = Ok c ->
  is_reducer_key (s_reducers st) k = false -> cget k (s_context st) = None ->
  ancestor d m s -> cget k (outputs_of d m) = Some (VAtom a) ->
  (forall x, ancestor d x s -> cget k (outputs_of d x) <> None -> x = m \/ ancestor d x m) ->
  cget k c = Some (VAtom a).
Proof.
  intros Hwf Hac Hl Hio Hp Hr Ho Hm Hv Hmax.
  destruct (plan_ok_order _ _ _ _ _ Hp) as [st' [sorted [Hl' [Hmo Hk]]]].
  destruct (sorted_facts d s order ups sorted Hac Hio Hmo Hk) as [Hns [Hiff Hbefore]].
  destruct (plan_get d s order ups st sorted c k Hwf Hl Hmo Hp) as [reduced [_ Hc]].
  rewrite Hc, Hr. unfold own_kval. rewrite Ho, app_nil_r.
  assert (Hms : In m sorted) by now apply Hiff.
  apply in_split in Hms as [l1 [l2 Heq]].
  assert (Hl2 : kvals d k l2 = []).
  { apply kvals_nil_iff. intros x Hx.
    destruct (cget k (outputs_of d x)) eqn:E; [|reflexivity]. exfalso.
    assert (Hxs : In x sorted) by (rewrite Heq; apply in_app_iff; right; now right).
    assert (Hne : x <> m).
    { intros ->. rewrite Heq in Hns. apply NoDup_remove_2 in Hns. apply Hns, in_app_iff. now right. }
    destruct (Hmax x (proj1 (Hiff x) Hxs)) as [?|Hxm]; [congruence|congruence|].
    assert (Hb : before sorted x m).
    { apply Hbefore; [assumption|]. rewrite Heq. apply in_app_iff. right. now left. }
    destruct Hb as [p1 [p2 [Hp12 Hxp]]]. rewrite Heq in Hns.
    assert (Hsame : l1 ++ m :: l2 = p1 ++ m :: p2) by congruence.
    destruct (nodup_split_unique _ _ _ _ _ Hns Hsame) as [-> _].
    apply (NoDup_app_disj _ _ x Hns Hxp). now right. }
  rewrite Heq, kvals_app. simpl. rewrite Hl2, app_nil_r. unfold kval. rewrite Hv. apply fold_vstep_last_atom.
Qed.

Lemma StronglySorted_NoDup {A} (R : A -> A -> Prop) l :
  (forall a, ~ R a a) -> StronglySorted R l -> NoDup l.
Proof.
  intros Hirr. induction 1 as [|a l _ IH Hall]; constructor; [|assumption].
  intros Hin. rewrite Forall_forall in Hall. apply (Hirr a). now apply Hall.
Qed.

(* PATH-ORDERED KEYS: when the ancestors that output k form a chain of the dependency relation, the
   value planned under k is the merge rule folded along that chain (then the own context) --
   independent of every iteration order.  Covers non-list and list values alike. *)
Lemma path_ordered d s order ups st c k chain :
  wf_dag d -> acyclic d -> lookup d s = Some st -> iteration_orders d s order ups ->
  plan_context d s order ups = Ok c ->
  is_reducer_key (s_reducers st) k = false ->
  StronglySorted (ancestor d) chain ->
  (forall a, In a chain <-> ancestor d a s /\ cget k (outputs_of d a) <> None) ->
  cget k c = fold_left vstep (kvals d k chain ++ own_kval st k) None.
Proof.
  intros Hwf Hac Hl Hio Hp Hr Hss Hchain.
  destruct (plan_ok_order _ _ _ _ _ Hp) as [st' [sorted [Hl' [Hmo Hk]]]].
  destruct (sorted_facts d s order ups sorted Hac Hio Hmo Hk) as [Hns [Hiff Hbefore]].
  destruct (plan_get d s order ups st sorted c k Hwf Hl Hmo Hp) as [reduced [_ Hc]].
  rewrite Hc, Hr. f_equal. f_equal. rewrite kvals_filter.
  replace (filter (contributes d k) sorted) with chain; [reflexivity|].
  apply (ordered_unique (ancestor d)); auto.
  - apply (StronglySorted_NoDup (ancestor d)); [apply (acyclic_irrefl d Hac)|assumption].
  - now apply NoDup_filter.
  - intros x. rewrite Hchain, filter_In, contributes_true, Hiff. tauto.
  - intros a b Ha Hb Hab. apply filter_In in Ha as [Ha Hca]. apply filter_In in Hb as [Hb Hcb].
    apply before_filter; auto.
Qed.

(* LISTS: a key under which every contribution is a list holds the union of the contributors' items;
   no item twice when no contributor repeats an item *)
Lemma lists_accumulate d s order ups st c k :
  wf_dag d -> acyclic d -> lookup d s = Some st -> iteration_orders d s order ups ->
  plan_context d s order ups = Ok c ->
  is_reducer_key (s_reducers st) k = false ->
  (forall a v, ancestor d a s -> cget k (outputs_of d a) = Some v -> is_list v) ->
  (forall v, cget k (s_context st) = Some v -> is_list v) ->
  forall v, cget k c = Some v ->
  exists L, v = VList L /\
    (forall x, In x L <-> (exists a l, ancestor d a s /\ cget k (outputs_of d a) = Some (VList l) /\ In x l)
                          \/ (exists l, cget k (s_context st) = Some (VList l) /\ In x l)) /\
    ((forall a l, ancestor d a s -> cget k (outputs_of d a) = Some (VList l) -> NoDup l) ->
     (forall l, cget k (s_context st) = Some (VList l) -> NoDup l) -> NoDup L).
Proof.
  intros Hwf Hac Hl Hio Hp Hr Hanc Hown v Hv.
  destruct (plan_ok_order _ _ _ _ _ Hp) as [st' [sorted [Hl' [Hmo Hk]]]].
  destruct (sorted_facts d s order ups sorted Hac Hio Hmo Hk) as [Hns [Hiff _]].
  destruct (plan_get d s order ups st sorted c k Hwf Hl Hmo Hp) as [reduced [_ Hc]].
  rewrite Hc, Hr in Hv.
  assert (Hin : forall w, In w (kvals d k sorted ++ own_kval st k) <->
                (exists a, ancestor d a s /\ cget k (outputs_of d a) = Some w) \/ cget k (s_context st) = Some w).
  { intros w. rewrite in_app_iff, kvals_In. unfold own_kval. split.
    - intros [[a [Ha Hw]]|H]; [left; exists a; split; [now apply Hiff|assumption]|].
      destruct (cget k (s_context st)); simpl in H; [destruct H as [->|[]]; now right|tauto].
    - intros [[a [Ha Hw]]|H]; [left; exists a; split; [now apply Hiff|assumption]|].
      right. rewrite H. now left. }
  assert (Hall : Forall is_list (kvals d k sorted ++ own_kval st k)).
  { apply Forall_forall. intros w Hw. apply Hin in Hw as [[a [Ha Hw]]|Hw]; eauto. }
  destruct (fold_vstep_lists_none _ Hall v Hv) as [L [-> [HL Hnd]]]. exists L. split; [reflexivity|]. split.
  - intros x. rewrite HL. split.
    + intros [l [Hl1 Hl2]]. apply Hin in Hl1 as [[a [Ha Hw]]|Hw]; [left; exists a, l; auto|right; exists l; auto].
    + intros [[a [l [Ha [Hw Hx]]]]|[l [Hw Hx]]]; exists l; (split; [apply Hin|assumption]); eauto.
  - intros H1 H2. apply Hnd. intros l Hl1. apply Hin in Hl1 as [[a [Ha Hw]]|Hw]; eauto.
Qed.

(* ------------------------------------------------------------------------------------------ *)
(* Part 5: no other stage matters (non-interference)                                            *)
(* ------------------------------------------------------------------------------------------ *)
Lemma kahn_relax_step q i v :
  kahn_relax (q, i) v = (if Z.eqb (i v - 1) 0 then q ++ [v] else q, upd i v (i v - 1)%Z).
Proof.
  unfold kahn_relax. simpl. unfold upd at 1. rewrite Nat.eqb_refl. now destruct (Z.eqb (i v - 1) 0).
Qed.

Lemma kahn_relax_fold_ext order vs : forall q i1 i2,
  (forall x, In x vs -> In x order) -> (forall x, In x order -> i1 x = i2 x) ->
  fst (fold_left kahn_relax vs (q, i1)) = fst (fold_left kahn_relax vs (q, i2)) /\
  forall x, In x order -> snd (fold_left kahn_relax vs (q, i1)) x = snd (fold_left kahn_relax vs (q, i2)) x.
Proof.
  induction vs as [|v vs IH]; intros q i1 i2 Hvs Hi; simpl; [auto|].
  assert (Hv : i1 v = i2 v) by (apply Hi, Hvs; now left).
  rewrite !kahn_relax_step, Hv. apply IH.
  - intros x Hx. apply Hvs. now right.
  - intros x Hx. unfold upd. destruct (Nat.eqb x v); [reflexivity|now apply Hi].
Qed.

Lemma kahn_ext d1 d2 order :
  (forall u, succs d1 order u = succs d2 order u) ->
  forall fuel queue sorted i1 i2, (forall x, In x order -> i1 x = i2 x) ->
  kahn d1 order fuel queue sorted i1 = kahn d2 order fuel queue sorted i2.
Proof.
  intros Hs. induction fuel as [|f IH]; intros queue sorted i1 i2 Hi; simpl; [reflexivity|].
  destruct queue as [|u q]; [reflexivity|]. rewrite (Hs u).
  destruct (kahn_relax_fold_ext order (succs d2 order u) q i1 i2) as [H1 H2]; auto.
  - intros x Hx. unfold succs in Hx. now apply filter_In in Hx.
  - rewrite H1. apply IH. exact H2.
Qed.

Lemma merge_order_ext d1 d2 order :
  (forall a, In a order -> lookup d1 a = lookup d2 a) -> merge_order d1 order = merge_order d2 order.
Proof.
  intros Hl.
  assert (Hr : forall a, In a order -> reqs_of d1 a = reqs_of d2 a).
  { intros a Ha. unfold reqs_of. now rewrite (Hl a Ha). }
  assert (Hk : all_known d1 order = all_known d2 order).
  { unfold all_known. apply forallb_ext_in_local. intros a Ha. now rewrite (Hl a Ha). }
  assert (Hd : forall a, In a order -> in_degree d1 order a = in_degree d2 order a).
  { intros a Ha. unfold in_degree. now rewrite (Hr a Ha). }
  assert (Hs : forall u, succs d1 order u = succs d2 order u).
  { intros u. unfold succs. apply filter_ext_in. intros a Ha. now rewrite (Hr a Ha). }
  unfold merge_order. rewrite Hk.
  replace (filter (fun a => Z.eqb (in_degree d1 order a) 0) order)
    with (filter (fun a => Z.eqb (in_degree d2 order a) 0) order)
    by (apply filter_ext_in; intros a Ha; now rewrite (Hd a Ha)).
  now rewrite (kahn_ext d1 d2 order Hs (S (length order)) _ [] _ _ Hd).
Qed.

Lemma merge_sorted_ext d1 d2 l :
  (forall a, In a l -> lookup d1 a = lookup d2 a) -> merge_sorted d1 l = merge_sorted d2 l.
Proof.
  unfold merge_sorted. generalize (@nil (nat * value)). induction l as [|a l IH]; intros acc Hl; simpl; [reflexivity|].
  assert (Ho : outputs_of d1 a = outputs_of d2 a) by (unfold outputs_of; now rewrite (Hl a (or_introl eq_refl))).
  rewrite Ho. apply IH. intros x Hx. apply Hl. now right.
Qed.

Lemma ancestor_agree d1 d2 s :
  lookup d1 s = lookup d2 s -> (forall a, ancestor d1 a s -> lookup d1 a = lookup d2 a) ->
  forall a, ancestor d1 a s <-> ancestor d2 a s.
Proof.
  intros Hs Hl.
  assert (HP : forall t, t = s \/ ancestor d1 t s -> lookup d1 t = lookup d2 t).
  { intros t [->|H]; auto. }
  assert (Hdir : forall r t, t = s \/ ancestor d1 t s -> (direct d1 r t <-> direct d2 r t)).
  { intros r t Ht. unfold direct. rewrite (HP t Ht). tauto. }
  assert (Hstep : forall r t, t = s \/ ancestor d1 t s -> direct d1 r t -> ancestor d1 r s).
  { intros r t [->|Ht] Hd; [now apply anc_direct|]. eapply ancestor_trans; [apply anc_direct|]; eauto. }
  assert (H12 : forall a t, ancestor d1 a t -> t = s \/ ancestor d1 t s -> ancestor d2 a t).
  { intros a t H. induction H as [a t Hd|a r t Hd _ IH]; intros Ht.
    - apply anc_direct. now apply (Hdir a t Ht).
    - eapply anc_step; [apply (Hdir r t Ht); eauto|]. apply IH. right. eapply Hstep; eauto. }
  assert (H21 : forall a t, ancestor d2 a t -> t = s \/ ancestor d1 t s -> ancestor d1 a t).
  { intros a t H. induction H as [a t Hd|a r t Hd _ IH]; intros Ht.
    - apply anc_direct. now apply (Hdir a t Ht).
    - apply (Hdir r t Ht) in Hd. eapply anc_step; [eauto|]. apply IH. right. eapply Hstep; eauto. }
  intros a. split; intros H; [apply H12|apply H21]; auto.
Qed.

(* the planned context is a function of the stage's own row and its ancestors' rows only: any other
   stage may be changed at will (outputs, context, reducers, even its requisites) *)
Lemma plan_noninterference d1 d2 s order ups :
  lookup d1 s = lookup d2 s -> (forall a, ancestor d1 a s -> lookup d1 a = lookup d2 a) ->
  iteration_orders d1 s order ups ->
  (forall a, ancestor d1 a s <-> ancestor d2 a s) /\
  plan_context d1 s order ups = plan_context d2 s order ups.
Proof.
  intros Hs Hl [[anc [Ha Hp]] Hup]. split; [now apply ancestor_agree|].
  destruct (ancestors_spec d1 s) as [anc1 [Ha1 [_ Hin1]]]. rewrite Ha in Ha1. inversion Ha1. subst anc1.
  destruct (ancestors_spec d2 s) as [anc2 [Ha2 _]].
  assert (Hord : forall a, In a order -> lookup d1 a = lookup d2 a).
  { intros a Hx. apply Hl. apply (Permutation_in _ Hp) in Hx. now apply Hin1 in Hx. }
  assert (Hups : forall u, In u ups -> lookup d1 u = lookup d2 u).
  { intros u Hu. apply Hl. apply anc_direct, upstream_refs_direct. apply (Permutation_in _ Hup Hu). }
  unfold plan_context, merged_ancestor_outputs. rewrite <- Hs, Ha, Ha2, <- (merge_order_ext d1 d2 order Hord).
  destruct (lookup d1 s) as [st|]; [|reflexivity].
  destruct (merge_order d1 order) as [sorted|e] eqn:Em; [|reflexivity].
  assert (Hincl : forall a, In a sorted -> In a order).
  { unfold merge_order in Em. destruct (all_known d1 order) eqn:Ek; [|discriminate].
    assert (Hno : NoDup order).
    { apply (Permutation_NoDup (Permutation_sym Hp)). destruct (ancestors_spec d1 s) as [x [Hx [Hn _]]].
      rewrite Ha in Hx. inversion Hx. subst x. now inversion Hn. }
    destruct (merge_order_spec d1 order Hno (proj1 (all_known_spec d1 order) Ek)) as [sorted' [Hm' [_ [Hi _]]]].
    unfold merge_order in Hm'. rewrite Ek in Hm'. rewrite Em in Hm'. inversion Hm'. subst sorted'. exact Hi. }
  rewrite (merge_sorted_ext d1 d2 sorted) by (intros a Hx; apply Hord, Hincl, Hx).
  replace (branch_outputs d1 ups) with (branch_outputs d2 ups); [reflexivity|].
  unfold branch_outputs. f_equal. apply map_ext_in. intros u Hu. unfold outputs_of. now rewrite (Hups u Hu).
Qed.
