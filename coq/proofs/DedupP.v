(* Lemmas about model/Dedup.v: the duplicate test of _handle_message never lets the handler run on an id
   that is in the durable processed set.  Holds for ANY hash functions h1 h2.  The guards are the
   regenerated Gen_Dedup definitions: every proof below unfolds them, so a changed guard breaks here. *)
From Coq Require Import List Bool Arith NArith Lia.
Import ListNotations.
From Stab.gen Require Import Gen_Dedup.
From Stab.model Require Import Bloom Dedup.
From Stab.proofs Require Import BloomP.
Local Open Scope N_scope.

Lemma mem_In x l : mem x l = true <-> In x l.
Proof.
  unfold mem. rewrite existsb_exists. split.
  - intros [y [Hy E]]. apply N.eqb_eq in E. subst. exact Hy.
  - intros H. exists x. split; [exact H | apply N.eqb_refl].
Qed.

Lemma add_id_In x id D : In x (add_id id D) <-> x = id \/ In x D.
Proof.
  unfold add_id. destruct (mem id D) eqn:E.
  - apply mem_In in E. split; [auto|]. intros [->|H]; auto.
  - rewrite in_app_iff. simpl. intuition.
Qed.

Lemma mem_add_same id D : mem id (add_id id D) = true.
Proof. apply mem_In, add_id_In. auto. Qed.

Lemma mem_add_mono x id D : mem x D = true -> mem x (add_id id D) = true.
Proof. rewrite !mem_In, add_id_In. auto. Qed.

(* the code's hydration either fetched the COMPLETE durable set or declines *)
Lemma fetched_complete cap (D : list N) :
  hydrate_too_many (N.of_nat (length (firstn (N.to_nat (hydrate_fetch_limit cap)) D))) cap = false ->
  firstn (N.to_nat (hydrate_fetch_limit cap)) D = D.
Proof.
  unfold hydrate_too_many, hydrate_fetch_limit. intros H. apply N.ltb_ge in H.
  apply firstn_all2. rewrite firstn_length in H. lia.
Qed.

Section Hash.
Variables h1 h2 : N -> N.
Notation maybe_seen := (maybe_seen h1 h2).
Notation mark_seen := (mark_seen h1 h2).
Notation hydrate := (hydrate h1 h2).
Notation hydrate_from_store := (hydrate_from_store h1 h2).
Notation handle := (handle h1 h2).
Notation step := (step h1 h2).
Notation run := (run h1 h2).
Notation boot := (boot h1 h2).

(* the filter is well formed and, while authoritative, reports every durable id as seen *)
Definition Inv (st : dstate) : Prop :=
  bwf (d_filt st) /\
  (b_auth (d_filt st) = true -> forall id, In id (d_durable st) -> maybe_seen (d_filt st) id = true).

Lemma inv_nonauth D f : bwf f -> b_auth f = false -> Inv (mkSt D f).
Proof. intros W A. split; simpl; [exact W | congruence]. Qed.

Lemma hfs_inv cfg D f : Inv (mkSt D f) -> Inv (mkSt D (hydrate_from_store cfg D f)).
Proof.
  intros [W A]. simpl in *. unfold Dedup.hydrate_from_store.
  destruct (c_store cfg); [|split; assumption].
  destruct (hydrate_too_many _ _) eqn:T; [split; assumption|].
  rewrite (fetched_complete _ _ T). split; simpl.
  - apply hydrate_bwf, W.
  - intros _ id Hid. apply hydrate_seen; assumption.
Qed.

Lemma hfs_bwf cfg D f : bwf f -> bwf (hydrate_from_store cfg D f).
Proof.
  intros W. unfold Dedup.hydrate_from_store. destruct (c_store cfg); [|exact W].
  destruct (hydrate_too_many _ _); [exact W | apply hydrate_bwf, W].
Qed.

Lemma inv_mark D f id : Inv (mkSt D f) -> Inv (mkSt D (mark_seen f id)).
Proof.
  intros [W A]. simpl in *. split; simpl; [apply mark_bwf, W|].
  intros Au x Hx. apply (seen_mono h1 h2 f); [apply mark_bits_le | apply A; assumption].
Qed.

Lemma inv_add_marked D f id : Inv (mkSt D f) -> maybe_seen f id = true -> Inv (mkSt (add_id id D) f).
Proof.
  intros [W A] S. simpl in *. split; simpl; [exact W|].
  intros Au x Hx. apply add_id_In in Hx. destruct Hx as [->|Hx]; [exact S | apply A; assumption].
Qed.

(* ---------- the skip ---------- *)
Definition P (cfg : config) (st : dstate) : Prop := c_trust cfg = true -> Inv st.

Lemma handle_skips cfg st id aged o :
  c_enable cfg = true -> c_store cfg = true -> P cfg st ->
  mem id (d_durable st) = true -> l_inv (snd (handle cfg st (Some id) aged o)) = false.
Proof.
  intros En St HP M. unfold Dedup.handle. rewrite En, St, M.
  assert (C : dup_consult_guard (maybe_seen (d_filt st) id) (c_trust cfg) (b_auth (d_filt st)) = true).
  { unfold dup_consult_guard. destruct (c_trust cfg) eqn:T.
    - destruct (b_auth (d_filt st)) eqn:A.
      + destruct (HP T) as [_ I]. rewrite (I A id) by (apply mem_In, M). reflexivity.
      + destruct (maybe_seen (d_filt st) id); reflexivity.
    - destruct (maybe_seen (d_filt st) id); reflexivity. }
  rewrite C. unfold dedup_on_guard, dup_skip_guard. simpl. reflexivity.
Qed.

Lemma handle_was cfg st id aged o : l_was (snd (handle cfg st (Some id) aged o)) = mem id (d_durable st).
Proof.
  unfold Dedup.handle. destruct (_ && _ && _); [reflexivity|]. destruct o; reflexivity.
Qed.

Lemma handle_id cfg st id aged o : l_id (snd (handle cfg st (Some id) aged o)) = Some id.
Proof.
  unfold Dedup.handle. destruct (_ && _ && _); [reflexivity|]. destruct o; reflexivity.
Qed.

Lemma handle_none_was cfg st aged o : l_was (snd (handle cfg st None aged o)) = false.
Proof. unfold Dedup.handle. destruct (_ || _); reflexivity. Qed.

Lemma handle_none_id cfg st aged o : l_id (snd (handle cfg st None aged o)) = None.
Proof. unfold Dedup.handle. destruct (_ || _); reflexivity. Qed.

(* frame: a new id is always handed to the handler, and a skip changes nothing *)
Lemma handle_new cfg st id aged o :
  mem id (d_durable st) = false -> l_inv (snd (handle cfg st (Some id) aged o)) = true.
Proof.
  intros M. unfold Dedup.handle. rewrite M.
  replace (dup_skip_guard (c_store cfg) false) with false
    by (unfold dup_skip_guard; destruct (c_store cfg); reflexivity).
  rewrite andb_false_r. destruct o; reflexivity.
Qed.

Lemma handle_skip_frame cfg st mid aged o :
  l_inv (snd (handle cfg st mid aged o)) = false -> fst (handle cfg st mid aged o) = st.
Proof.
  unfold Dedup.handle. destruct mid as [id|].
  - destruct (_ && _ && _); [reflexivity|]. destruct o; simpl; discriminate.
  - destruct (_ || _); reflexivity.
Qed.

(* after an uninterrupted delivery the id is durable *)
Lemma handle_marks cfg st id aged own :
  c_enable cfg = true -> c_store cfg = true ->
  mem id (d_durable (fst (handle cfg st (Some id) aged (HOk own)))) = true.
Proof.
  intros En St. unfold Dedup.handle. rewrite En, St.
  destruct (_ && _ && _) eqn:G.
  - simpl. apply andb_true_iff in G. destruct G as [_ G]. unfold dup_skip_guard in G. simpl in G. exact G.
  - simpl. unfold mark_guard, mark_store_guard. simpl. apply mem_add_same.
Qed.

(* a committed invocation leaves the id durable *)
Lemma handle_com cfg st id aged o :
  l_com (snd (handle cfg st (Some id) aged o)) = true ->
  mem id (d_durable (fst (handle cfg st (Some id) aged o))) = true.
Proof.
  unfold Dedup.handle. destruct (_ && _ && _); [simpl; discriminate|].
  destruct o; simpl; try discriminate; auto. intros _. apply mem_add_same.
Qed.

Lemma handle_durable_mono cfg st mid aged o x :
  mem x (d_durable st) = true -> mem x (d_durable (fst (handle cfg st mid aged o))) = true.
Proof.
  intros M. unfold Dedup.handle. destruct mid as [id|].
  - destruct (_ && _ && _); [exact M|]. destruct o; simpl; auto using mem_add_mono.
    destruct own; destruct (_ && _); auto using mem_add_mono.
  - destruct (_ || _); exact M.
Qed.

(* ---------- the invariant along a history ---------- *)
Definition act_ok (cfg : config) (a : action) : bool :=
  negb (c_trust cfg) || (negb (is_external a) && (c_early cfg || (c_late cfg && negb (is_raise_after a)))).

Lemma hist_ok_cons cfg a r : hist_ok cfg (a :: r) = true -> act_ok cfg a = true /\ hist_ok cfg r = true.
Proof.
  unfold hist_ok, act_ok, single_writer, no_raise_after_mark. simpl.
  destruct (c_trust cfg), (is_external a), (c_early cfg), (c_late cfg), (is_raise_after a); simpl;
    try (intros H; split; [reflexivity || discriminate | exact H]); try discriminate;
    rewrite ?andb_false_r; try discriminate; auto.
Qed.

Lemma handle_inv cfg st mid aged o :
  c_enable cfg = true -> c_store cfg = true ->
  (c_early cfg = true \/ (c_late cfg = true /\ o <> HRaiseAfterMark)) ->
  Inv st -> Inv (fst (handle cfg st mid aged o)).
Proof.
  intros En St Mk I. destruct st as [D f]. unfold Dedup.handle. simpl. destruct mid as [id|].
  2:{ destruct (_ || _); exact I. }
  rewrite En, St. destruct (_ && _ && _); [exact I|].
  unfold dedup_on_guard, mark_guard, mark_store_guard. simpl.
  set (f1 := if should_reset f aged then hydrate_from_store cfg D (reset f) else f).
  assert (I1 : Inv (mkSt D f1)).
  { unfold f1. destruct (should_reset f aged); [|exact I].
    apply hfs_inv, inv_nonauth; [apply reset_bwf, I | reflexivity]. }
  clearbody f1.
  set (f2 := if c_early cfg then mark_seen f1 id else f1).
  assert (I2 : Inv (mkSt D f2)).
  { unfold f2. destruct (c_early cfg); [apply inv_mark|]; exact I1. }
  assert (E2 : c_early cfg = true -> maybe_seen f2 id = true).
  { intros E. unfold f2. rewrite E. apply mark_seen_seen, I1. }
  clearbody f2.
  destruct o as [own| |]; simpl.
  - set (f3 := if c_late cfg then mark_seen f2 id else f2).
    assert (I3 : Inv (mkSt D f3) /\ maybe_seen f3 id = true).
    { unfold f3. destruct (c_late cfg) eqn:L.
      - split; [apply inv_mark, I2 | apply mark_seen_seen, I2].
      - split; [exact I2|]. destruct Mk as [E|[L' _]]; [apply E2, E | congruence]. }
    destruct I3 as [I3 S3]. clearbody f3.
    destruct own; repeat apply inv_add_marked; assumption.
  - exact I2.
  - apply inv_add_marked; [exact I2|]. destruct Mk as [E|[_ N]]; [apply E2, E | congruence].
Qed.

Lemma step_P cfg st a :
  c_enable cfg = true -> c_store cfg = true -> act_ok cfg a = true -> bwf (d_filt st) ->
  P cfg st -> P cfg (fst (step cfg st a)) /\ bwf (d_filt (fst (step cfg st a))).
Proof.
  intros En St Ok W HP.
  assert (B : bwf (d_filt (fst (step cfg st a)))).
  { destruct a; simpl; try exact W.
    - destruct (handle cfg st mid aged o) as [st' e] eqn:H. simpl.
      replace st' with (fst (handle cfg st mid aged o)) by (rewrite H; reflexivity).
      unfold Dedup.handle. destruct mid as [id|].
      + destruct (_ && _ && _); [exact W|].
        assert (W1 : bwf (if dedup_on_guard (c_enable cfg) true && should_reset (d_filt st) aged
                          then hydrate_from_store cfg (d_durable st) (reset (d_filt st)) else d_filt st)).
        { destruct (_ && _); [apply hfs_bwf, reset_bwf, W | exact W]. }
        assert (W2 : bwf (if dedup_on_guard (c_enable cfg) true && c_early cfg
                          then mark_seen (if dedup_on_guard (c_enable cfg) true && should_reset (d_filt st) aged
                                           then hydrate_from_store cfg (d_durable st) (reset (d_filt st)) else d_filt st) id
                          else (if dedup_on_guard (c_enable cfg) true && should_reset (d_filt st) aged
                                then hydrate_from_store cfg (d_durable st) (reset (d_filt st)) else d_filt st))).
        { destruct (dedup_on_guard (c_enable cfg) true && c_early cfg); [apply mark_bwf, W1 | exact W1]. }
        destruct o; simpl; try exact W2.
        destruct (mark_guard (c_enable cfg) true && c_late cfg); [apply mark_bwf, W2 | exact W2].
      + destruct (_ || _); exact W.
    - destruct (init_hydrate_guard _ _); [apply hfs_bwf|]; apply bwf_new, W.
    - destruct (init_hydrate_guard _ _); [apply hfs_bwf|]; exact W.
    - apply hfs_bwf, reset_bwf, W.
    - apply reset_bwf, W. }
  split; [|exact B].
  intros T. specialize (HP T). unfold act_ok in Ok. rewrite T in Ok. simpl in Ok.
  apply andb_true_iff in Ok. destruct Ok as [Ex Mk].
  destruct a; simpl in *; try discriminate.
  - destruct (handle cfg st mid aged o) as [st' e] eqn:H. simpl.
    replace st' with (fst (handle cfg st mid aged o)) by (rewrite H; reflexivity).
    apply handle_inv; try assumption.
    destruct (c_early cfg); [left; reflexivity|right]. simpl in Mk.
    apply andb_true_iff in Mk. destruct Mk as [L R]. split; [exact L|].
    destruct o; simpl in R; congruence.
  - destruct (init_hydrate_guard _ _).
    + apply hfs_inv, inv_nonauth; [apply bwf_new, W | reflexivity].
    + apply inv_nonauth; [apply bwf_new, W | reflexivity].
  - destruct (init_hydrate_guard _ _); [apply hfs_inv|]; destruct st; exact HP.
  - apply hfs_inv, inv_nonauth; [apply reset_bwf, W | reflexivity].
  - apply inv_nonauth; [apply reset_bwf, W | reflexivity].
  - split; simpl; [exact W | intros _ id []].
Qed.

Lemma step_log_ok cfg st a :
  c_enable cfg = true -> c_store cfg = true -> P cfg st -> no_rehandle (snd (step cfg st a)) = true.
Proof.
  intros En St HP. destruct a; simpl; try reflexivity.
  destruct (handle cfg st mid aged o) as [st' e] eqn:H. simpl.
  replace e with (snd (handle cfg st mid aged o)) by (rewrite H; reflexivity).
  unfold no_rehandle, rehandled. simpl. rewrite andb_true_r. apply negb_true_iff.
  destruct mid as [id|].
  - rewrite handle_was. destruct (mem id (d_durable st)) eqn:M; [|reflexivity].
    rewrite (handle_skips cfg st id aged o En St HP M). reflexivity.
  - rewrite handle_none_was. reflexivity.
Qed.

(* C09, general form: from any state satisfying the invariant, along any history *)
Lemma run_no_rehandle cfg : forall h st,
  c_enable cfg = true -> c_store cfg = true -> bwf (d_filt st) -> P cfg st -> hist_ok cfg h = true ->
  no_rehandle (snd (run cfg st h)) = true.
Proof.
  induction h as [|a r IH]; intros st En St W HP Ok; simpl; [reflexivity|].
  apply hist_ok_cons in Ok. destruct Ok as [Oa Or].
  pose proof (step_log_ok cfg st a En St HP) as L.
  destruct (step_P cfg st a En St Oa W HP) as [HP' W'].
  destruct (step cfg st a) as [st1 l1]. simpl in *.
  specialize (IH st1 En St W' HP' Or). destruct (run cfg st1 r) as [st2 l2]. simpl in *.
  unfold no_rehandle in *. rewrite forallb_app, L, IH. reflexivity.
Qed.

Lemma boot_ok cfg m k cap D0 : 0 < m -> bwf (d_filt (boot cfg m k cap D0)) /\ P cfg (boot cfg m k cap D0).
Proof.
  intros Hm. unfold Dedup.boot. simpl.
  assert (W : bwf (bloom_new m k cap)) by (apply bwf_new, Hm).
  destruct (init_hydrate_guard _ _).
  - split; [apply hfs_bwf, W|]. intros _. apply hfs_inv, inv_nonauth; [exact W | reflexivity].
  - split; [exact W|]. intros _. apply inv_nonauth; [exact W | reflexivity].
Qed.

Lemma skip_processed : forall cfg m k cap D0 h,
  0 < m -> c_enable cfg = true -> c_store cfg = true -> hist_ok cfg h = true ->
  no_rehandle (snd (run cfg (boot cfg m k cap D0) h)) = true.
Proof.
  intros cfg m k cap D0 h Hm En St Ok. destruct (boot_ok cfg m k cap D0 Hm) as [W HP].
  apply run_no_rehandle; assumption.
Qed.

(* with trust off the premise on the history is vacuous *)
Lemma hist_ok_trust_off cfg h : c_trust cfg = false -> hist_ok cfg h = true.
Proof. intros T. unfold hist_ok. rewrite T. reflexivity. Qed.

(* ---------- ghost counter ---------- *)
Arguments Dedup.handle : simpl never.
Lemma step_durable_mono cfg st a x :
  is_sweep a = false -> mem x (d_durable st) = true -> mem x (d_durable (fst (step cfg st a))) = true.
Proof.
  intros S M. destruct a; simpl in *; try exact M; try discriminate.
  - destruct (handle cfg st mid aged o) as [st' e] eqn:H. simpl.
    replace st' with (fst (handle cfg st mid aged o)) by (rewrite H; reflexivity).
    apply handle_durable_mono, M.
  - apply mem_add_mono, M.
Qed.

Definition budget (id : N) (st : dstate) : nat := if mem id (d_durable st) then 0%nat else 1%nat.

Ltac case_budget := repeat match goal with |- context [if ?b then 0%nat else 1%nat] => destruct b end; simpl; try lia.

Lemma step_count cfg st a id :
  c_enable cfg = true -> c_store cfg = true -> P cfg st -> is_sweep a = false ->
  (commit_count id (snd (step cfg st a)) + budget id (fst (step cfg st a)) <= budget id st)%nat.
Proof.
  intros En St HP S. unfold budget.
  destruct (mem id (d_durable st)) eqn:M.
  - rewrite (step_durable_mono cfg st a id S M).
    destruct a; simpl; try reflexivity.
    destruct (handle cfg st mid aged o) as [st' e] eqn:H. simpl.
    replace e with (snd (handle cfg st mid aged o)) by (rewrite H; reflexivity).
    unfold commit_count, committed_for. simpl. destruct mid as [x|].
    + rewrite handle_id. destruct (N.eqb_spec x id) as [->|_]; [|reflexivity].
      rewrite (handle_skips cfg st id aged o En St HP M). reflexivity.
    + rewrite handle_none_id. reflexivity.
  - destruct a; simpl; try (case_budget; fail).
    destruct (handle cfg st mid aged o) as [st' e] eqn:H. simpl.
    replace e with (snd (handle cfg st mid aged o)) by (rewrite H; reflexivity).
    replace st' with (fst (handle cfg st mid aged o)) by (rewrite H; reflexivity).
    unfold commit_count, committed_for. simpl. destruct mid as [x|].
    + rewrite handle_id. destruct (N.eqb_spec x id) as [->|_].
      * destruct (l_inv _); simpl; [|case_budget].
        destruct (l_com (snd (handle cfg st (Some id) aged o))) eqn:C; simpl.
        -- rewrite (handle_com cfg st id aged o C). simpl. lia.
        -- case_budget.
      * simpl. case_budget.
    + rewrite handle_none_id. simpl. case_budget.
Qed.

Lemma run_count cfg id : forall h st,
  c_enable cfg = true -> c_store cfg = true -> bwf (d_filt st) -> P cfg st ->
  hist_ok cfg h = true -> no_sweep h = true ->
  (commit_count id (snd (run cfg st h)) <= budget id st)%nat.
Proof.
  induction h as [|a r IH]; intros st En St W HP Ok NS; simpl; [unfold commit_count; simpl; lia|].
  apply hist_ok_cons in Ok. destruct Ok as [Oa Or].
  simpl in NS. apply andb_true_iff in NS. destruct NS as [S1 S2]. apply negb_true_iff in S1.
  pose proof (step_count cfg st a id En St HP S1) as C.
  destruct (step_P cfg st a En St Oa W HP) as [HP' W'].
  destruct (step cfg st a) as [st1 l1]. simpl in *.
  specialize (IH st1 En St W' HP' Or S2). destruct (run cfg st1 r) as [st2 l2]. simpl in *.
  unfold commit_count in *. rewrite filter_app, app_length. lia.
Qed.

Lemma at_most_once : forall cfg m k cap D0 h id,
  0 < m -> c_enable cfg = true -> c_store cfg = true -> hist_ok cfg h = true -> no_sweep h = true ->
  (commit_count id (snd (run cfg (boot cfg m k cap D0) h)) <= 1)%nat.
Proof.
  intros cfg m k cap D0 h id Hm En St Ok NS. destruct (boot_ok cfg m k cap D0 Hm) as [W HP].
  pose proof (run_count cfg id h _ En St W HP Ok NS) as C. unfold budget in C.
  destruct (mem id _); lia.
Qed.

(* ---------- the configuration the source has today (regenerated flags) ---------- *)
Lemma code_enable trust : c_enable (code_cfg trust) = true.
Proof. reflexivity. Qed.

Lemma code_store trust : c_store (code_cfg trust) = true.
Proof. reflexivity. Qed.

Lemma code_hist_ok h :
  single_writer h = true -> (early_mark = true \/ no_raise_after_mark h = true) ->
  hist_ok (code_cfg true) h = true.
Proof.
  unfold hist_ok, code_cfg. cbn [c_trust c_early c_late negb orb andb]. intros S Hp. rewrite S. cbn [andb].
  revert Hp. destruct early_mark eqn:E; [reflexivity|]. destruct late_mark eqn:L; [|discriminate L].
  intros [Hp|Hp]; [discriminate Hp | rewrite Hp; reflexivity].
Qed.

Lemma code_skip_trust_off : forall m k cap D0 h, 0 < m ->
  no_rehandle (snd (run (code_cfg false) (boot (code_cfg false) m k cap D0) h)) = true.
Proof.
  intros. apply skip_processed;
    [assumption | apply code_enable | apply code_store | apply hist_ok_trust_off; reflexivity].
Qed.

Lemma code_skip_trust_on : forall m k cap D0 h, 0 < m ->
  single_writer h = true -> (early_mark = true \/ no_raise_after_mark h = true) ->
  no_rehandle (snd (run (code_cfg true) (boot (code_cfg true) m k cap D0) h)) = true.
Proof.
  intros. apply skip_processed;
    [assumption | apply code_enable | apply code_store | apply code_hist_ok; assumption].
Qed.
End Hash.
