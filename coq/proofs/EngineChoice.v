(* Deferred choice at engine level: in EVERY run (any delivery order, redeliveries, crash cuts, recovery, cancels,
   signals, pauses, jumps, restarts) every stage that ever performed a NOT_STARTED -> RUNNING claim commit (ghost
   ledger g_starts) and belongs to choice group g owns the claim row choice:g.  The table has one owner per key and a
   choice claim is never stolen or released, so a group has at most one winner - also across a crash between the claim
   and the plan commit (finding F11) and across loop iterations. *)
From Coq Require Import List Bool Arith ZArith Lia.
Import ListNotations.
From Stab.model Require Import Base StatusM Readiness StageStat Engine.
From Stab.gen Require Import Gen_Config Gen_Guards.
From Stab.proofs Require Import StatusP EngineLegal EngineMx.

Definition choice_at (l : list stage) (i : nat) : option nat :=
  match nth_error l i with Some st => s_choice st | None => None end.

Definition ch_ok (s : state) : Prop :=
  forall i jc g, In (i, jc) (g_starts s) -> choice_at (w_stages s) i = Some g -> claim_lookup (w_claims s) false g = Some i.

Theorem ch_one_winner s i j ji jj g :
  ch_ok s -> In (i, ji) (g_starts s) -> In (j, jj) (g_starts s) ->
  choice_at (w_stages s) i = Some g -> choice_at (w_stages s) j = Some g -> i = j.
Proof. intros C Hi Hj Gi Gj. pose proof (C i ji g Hi Gi). pose proof (C j jj g Hj Gj). congruence. Qed.

(* ---- ops that keep every existing row's choice group, the claim table and the start ledger ---- *)
Definition op_ch (l : list stage) (o : op) : Prop :=
  match o with
  | OPut i st' => forall st, nth_error l i = Some st -> s_choice st' = s_choice st
  | OMut _ f => forall x, s_choice (f x) = s_choice x
  | OClaims _ | OGStart _ _ => False
  | _ => True
  end.

(* rows of l still exist in l' (which may be longer) with the same choice group *)
Definition same_choice (l l' : list stage) : Prop :=
  forall i st, nth_error l i = Some st -> exists st', nth_error l' i = Some st' /\ s_choice st' = s_choice st.

Lemma same_choice_refl l : same_choice l l.
Proof. intros i st H. exists st. auto. Qed.

Lemma same_choice_op l l' o : same_choice l l' -> op_ch l o -> same_choice l (op_stages l' o).
Proof.
  intros S Ho i st Hi. destruct (S i st Hi) as [y [Hy Ey]]. destruct o; simpl in *; try (exists y; auto; fail).
  - (* OPut *) destruct (Nat.eq_dec i0 i) as [E|Ne].
    + subst i0. exists st0. split; [apply (nth_list_set_same l' i st0 y Hy)|apply (Ho st Hi)].
    + exists y. split; [rewrite nth_list_set_other by exact Ne; exact Hy|exact Ey].
  - (* OMut *) destruct (nth_error l' i0) as [z|] eqn:Hz; [|exists y; auto].
    destruct (Nat.eq_dec i0 i) as [E|Ne].
    + subst i0. rewrite Hy in Hz. inversion Hz; subst z. exists (f y). split; [apply (nth_list_set_same l' i (f y) y Hy)|rewrite Ho; exact Ey].
    + exists y. split; [rewrite nth_list_set_other by exact Ne; exact Hy|exact Ey].
  - (* OAdd *) exists y. split; [|exact Ey]. rewrite nth_error_app1; [exact Hy|]. apply nth_error_Some. rewrite Hy. discriminate.
Qed.

(* the invariant proper: a started stage exists, and owns its group's claim *)
Definition ch_inv (s : state) : Prop :=
  forall i jc, In (i, jc) (g_starts s) ->
    exists st, nth_error (w_stages s) i = Some st /\ forall g, s_choice st = Some g -> claim_lookup (w_claims s) false g = Some i.

Lemma ch_inv_one_winner s i j ji jj a b g :
  ch_inv s -> In (i, ji) (g_starts s) -> In (j, jj) (g_starts s) ->
  nth_error (w_stages s) i = Some a -> nth_error (w_stages s) j = Some b -> s_choice a = Some g -> s_choice b = Some g -> i = j.
Proof.
  intros C Hi Hj Ha Hb Ga Gb.
  destruct (C i ji Hi) as [a' [Ha' Ca]]. destruct (C j jj Hj) as [b' [Hb' Cb]].
  rewrite Ha in Ha'. inversion Ha'; subst a'. rewrite Hb in Hb'. inversion Hb'; subst b'.
  pose proof (Ca g Ga). pose proof (Cb g Gb). congruence.
Qed.

Lemma frame_apply_op l o s : op_ch l o -> w_claims (apply_op s o) = w_claims s /\ g_starts (apply_op s o) = g_starts s.
Proof.
  intros H. destruct o; simpl in *; try contradiction; try (split; reflexivity).
  unfold mutate_stage. destruct (get_stage s i); split; reflexivity.
Qed.

Lemma ch_commit l c : forall s, same_choice l (w_stages s) -> Forall (op_ch l) c ->
  same_choice l (w_stages (apply_commit s c)) /\ w_claims (apply_commit s c) = w_claims s /\ g_starts (apply_commit s c) = g_starts s.
Proof.
  unfold apply_commit. induction c as [|o c IH]; simpl; intros s S Hc; [auto|].
  inversion Hc; subst. destruct (frame_apply_op l o s H1) as [E1 E2].
  assert (same_choice l (w_stages (apply_op s o))) as S1 by (rewrite stages_apply_op; apply same_choice_op; assumption).
  destruct (IH (apply_op s o) S1 H2) as [S2 [E3 E4]]. split; [exact S2|split; congruence].
Qed.

Lemma ch_commits l cs : forall s, same_choice l (w_stages s) -> Forall (Forall (op_ch l)) cs ->
  same_choice l (w_stages (apply_commits cs s)) /\ w_claims (apply_commits cs s) = w_claims s /\ g_starts (apply_commits cs s) = g_starts s.
Proof.
  induction cs as [|c cs IH]; simpl; intros s S Hc; [auto|].
  inversion Hc; subst. destruct (ch_commit l c s S H1) as [S1 [E1 E2]].
  destruct (IH (apply_commit s c) S1 H2) as [S2 [E3 E4]]. split; [exact S2|split; congruence].
Qed.

(* same rows, same claims, same ledger: the invariant carries over *)
Lemma ch_inv_frame s s' :
  same_choice (w_stages s) (w_stages s') -> w_claims s' = w_claims s -> g_starts s' = g_starts s -> ch_inv s -> ch_inv s'.
Proof.
  intros S E1 E2 C i jc Hin. rewrite E2 in Hin. destruct (C i jc Hin) as [st [Hs Hc]].
  destruct (S i st Hs) as [st' [Hs' Ec]]. exists st'. split; [exact Hs'|]. intros g Hg. rewrite E1. apply Hc. congruence.
Qed.

Definition CHH (s : state) (h : hres) : Prop := Forall (Forall (op_ch (w_stages s))) (h_commits h).

Lemma chh_preserves s cs n : ch_inv s -> Forall (Forall (op_ch (w_stages s))) cs -> ch_inv (apply_commits (firstn n cs) s).
Proof.
  intros C H. destruct (ch_commits (w_stages s) (firstn n cs) s (same_choice_refl _) (Forall_firstn' _ _ _ H)) as [S [E1 E2]].
  apply (ch_inv_frame s); assumption.
Qed.

(* ---- per-handler: every stage write keeps the row's choice group ---- *)
Ltac ch_op Hs :=
  match goal with
  | |- True => exact I
  | |- forall st, nth_error _ _ = Some st -> _ = _ =>
      let y := fresh "y" in let Hy := fresh "Hy" in intros y Hy;
      first [ (unfold get_stage in Hs; rewrite Hs in Hy; inversion Hy; subst; reflexivity)
            | reflexivity ]
  | |- forall x, s_choice _ = s_choice x => intros; reflexivity
  end.

Ltac ch_list Hs :=
  unfold ok, raised; cbn [h_commits txn concat app c_put c_mark c_push c_wf c_cancel c_mutate c_pushes];
  repeat first [ apply Forall_nil
               | apply Forall_cons
               | (cbn [op_ch]; ch_op Hs)
               | apply Forall_app; split ].

Lemma ch_pushes l ms : Forall (op_ch l) (c_pushes ms).
Proof. unfold c_pushes. induction ms; simpl; constructor; [exact I|assumption]. Qed.
Lemma ch_map_push {A} l (f : A -> msg) xs : Forall (op_ch l) (map OPush (map f xs)).
Proof. induction xs; simpl; constructor; [exact I|assumption]. Qed.
Lemma ch_adds l xs : Forall (op_ch l) (map OAdd xs).
Proof. induction xs; simpl; constructor; [exact I|assumption]. Qed.

Lemma chh_start_workflow s id : CHH s (handle_start_workflow s id).
Proof.
  unfold CHH, handle_start_workflow. destruct (negb _); [constructor|]. destruct (w_canceled s); [constructor|].
  destruct (initial_stages s); ch_list I; apply ch_map_push.
Qed.
Lemma chh_complete_workflow s id k : CHH s (handle_complete_workflow s id k).
Proof.
  unfold CHH, handle_complete_workflow. destruct (is_complete _); [constructor|].
  destruct (determine_final_status _ _ _ _); [destruct (negb _)|]; ch_list I.
  destruct (status_eqb _ SUCCEEDED); [constructor|apply ch_map_push].
Qed.
Lemma chh_cancel_workflow s id : CHH s (handle_cancel_workflow s id).
Proof. unfold CHH, handle_cancel_workflow. destruct (is_complete _); ch_list I. apply ch_map_push. Qed.
Lemma chh_skip_stage s id i : CHH s (handle_skip_stage s id i).
Proof.
  unfold CHH, handle_skip_stage. destruct (get_stage s i) as [st|] eqn:Hs; [|constructor]. destruct (negb _); [constructor|].
  ch_list Hs. apply ch_pushes.
Qed.
Lemma chh_cancel_stage s id i : CHH s (handle_cancel_stage s id i).
Proof.
  unfold CHH, handle_cancel_stage. destruct (get_stage s i) as [st|] eqn:Hs; [|constructor]. destruct (negb _); [constructor|].
  destruct (negb _); ch_list Hs.
Qed.
Lemma chh_start_task s id i t : CHH s (handle_start_task s id i t).
Proof.
  unfold CHH, handle_start_task. destruct (get_stage s i) as [st|] eqn:Hs; [|constructor].
  destruct (nth_error _ t) as [tk|]; [|constructor].
  destruct (status_eqb _ NOT_STARTED); [ch_list Hs|].
  destruct (before_incomplete s i); [ch_list Hs|].
  destruct (negb _); [ch_list Hs|]. destruct (t_disabled tk); ch_list Hs.
Qed.
Lemma chh_complete_task s id i t x : CHH s (handle_complete_task s id i t x).
Proof.
  unfold CHH, handle_complete_task. destruct (get_stage s i) as [st|] eqn:Hs; [|constructor].
  destruct (nth_error _ t) as [tk|]; [|constructor].
  destruct (negb _); [ch_list Hs|]. destruct (negb _); [constructor|].
  destruct (status_eqb x REDIRECT); [|destruct (S t <? _)]; ch_list Hs.
Qed.
Lemma chh_signal s id i n p : CHH s (handle_signal_stage s id i n p).
Proof.
  unfold CHH, handle_signal_stage. destruct (get_stage s i) as [st|] eqn:Hs; [|constructor].
  destruct (status_eqb _ SUSPENDED); [destruct (find _ _) as [[ti tk]|]|destruct p]; ch_list Hs.
Qed.
Lemma chh_pause_task s id i t : CHH s (handle_pause_task s id i t).
Proof.
  unfold CHH, handle_pause_task. destruct (get_stage s i) as [st|] eqn:Hs; [|constructor]. destruct (nth_error _ t); [|constructor].
  destruct (is_complete _); [ch_list Hs|]. destruct (_ || _); ch_list Hs.
Qed.
Lemma chh_resume_stage s id i : CHH s (handle_resume_stage s id i).
Proof.
  unfold CHH, handle_resume_stage. destruct (get_stage s i) as [st|] eqn:Hs; [|constructor]. destruct (negb _); [ch_list Hs|].
  destruct (find _ _) as [[ti tk]|]; destruct (status_eqb (w_status s) PAUSED); ch_list Hs.
Qed.
Lemma chh_restart_stage s id i : CHH s (handle_restart_stage s id i).
Proof.
  unfold CHH, handle_restart_stage. destruct (get_stage s i) as [st|] eqn:Hs; [|constructor].
  destruct (w_canceled s); [ch_list Hs|]. destruct (negb _); [ch_list Hs|]. destruct (is_complete (w_status s)); ch_list Hs.
Qed.
Lemma chh_continue_parent s id i o k : CHH s (handle_continue_parent s id i o k).
Proof.
  unfold CHH, handle_continue_parent. destruct (get_stage s i) as [st|] eqn:Hs; [|constructor].
  cbn zeta. destruct (existsb _ _).
  { destruct (forallb _ _); (destruct (negb _); [constructor|ch_list Hs]). }
  destruct (negb _).
  { destruct (_ <=? _)%Z; [destruct (negb _); [constructor|ch_list Hs]|ch_list Hs]. }
  destruct o; [|ch_list Hs].
  destruct (s_tasks st); [|ch_list Hs].
  destruct (filter (initial_at s) _); [ch_list Hs|].
  destruct (filter _ (_ :: _)); ch_list Hs. apply ch_map_push.
Qed.

Lemma chh_join_tracking s i ds : Forall (Forall (op_ch (w_stages s))) (join_tracking s i ds).
Proof.
  unfold join_tracking. induction ds as [|d ds IH]; simpl; [constructor|].
  apply Forall_app. split; [|exact IH].
  destruct (get_stage s d) as [dst|]; [|constructor].
  assert (Forall (Forall (op_ch (w_stages s))) [c_mutate d (fun f : stage => st_set f (s_status f) (s_started f) (s_ended f) (s_fired f)
                                                    (s_branches f ++ [i]) (s_has_exc f) (s_ctx f) (s_outs f) (s_tasks f))]) as Hm.
  { constructor; [|constructor]. constructor; [|constructor]. cbn [op_ch]. intros x. reflexivity. }
  destruct (s_join dst); try (constructor; fail); destruct (mem_nat i (s_branches dst)); try (constructor; fail); exact Hm.
Qed.

Lemma chh_complete_stage s id i : CHH s (handle_complete_stage s id i).
Proof.
  unfold CHH, handle_complete_stage. destruct (get_stage s i) as [st|] eqn:Hs; [|constructor].
  destruct (status_eqb _ NOT_STARTED); [ch_list Hs|].
  destruct (negb _). { destruct (is_halt _); ch_list Hs. }
  cbn zeta.
  match goal with |- context [if ?c then ok [txn [c_put i (st_touch st); _; _; _]] else _] => destruct c end.
  { ch_list Hs; first [apply ch_adds|apply ch_map_push]. }
  match goal with |- context [if ?c then ok [c_mark id] else _] => destruct c end; [ch_list Hs|].
  match goal with |- context [if ?c then ok [txn [c_put i (st_touch (with_onfail st true)); _; _; _]] else _] => destruct c end.
  { ch_list Hs; first [apply ch_adds|apply ch_map_push]. }
  match goal with |- context [status_eqb ?x RUNNING] => destruct (status_eqb x RUNNING) end; [ch_list Hs|].
  match goal with |- context [can_transition (s_status ?st2) ?x2] =>
    assert (forall y, nth_error (w_stages s) i = Some y -> s_choice (st_end st2 x2) = s_choice y) as Hc
      by (intros y Hy; unfold get_stage in Hs; rewrite Hs in Hy; inversion Hy; subst; destruct (negb (is_nil _)); reflexivity);
    destruct (negb (can_transition (s_status st2) x2)); [constructor|] end.
  destruct (_ || _ || _); cbn [h_commits ok].
  - apply Forall_app. split; [apply chh_join_tracking|].
    constructor; [|constructor]. cbn [txn concat app c_put c_mark]. constructor; [cbn [op_ch]; exact Hc|].
    constructor; [exact I|]. rewrite app_nil_r. apply ch_pushes.
  - constructor; [|constructor]. cbn [txn concat app c_put c_push]. constructor; [cbn [op_ch]; exact Hc|]. repeat constructor.
Qed.

Lemma chh_run_task orc s id i t a : CHH s (handle_run_task orc s id i t a).
Proof.
  unfold CHH, handle_run_task. destruct (get_stage s i) as [st|] eqn:Hs; [|constructor].
  destruct (nth_error _ t) as [tk|]; [|constructor].
  destruct (negb _); [ch_list Hs|].
  destruct (w_canceled s); [ch_list Hs|].
  destruct (is_complete _); [ch_list Hs|].
  destruct (status_eqb _ PAUSED); [ch_list Hs|].
  cbn [h_commits].
  destruct (orc i t (count_execs s i t)); unfold process_result, handle_exception, mark_terminal; try ch_list Hs.
  - destruct (retry_guard _ _); [destruct ctx|]; ch_list Hs.
  - destruct (s_buffered st); ch_list Hs.
Qed.

Lemma ch_muts l (xs : list nat) f : (forall x, s_choice (f x) = s_choice x) -> Forall (Forall (op_ch l)) (map (fun j => c_mutate j f) xs).
Proof. intros Hf. induction xs; simpl; constructor; [constructor; [exact Hf|constructor]|assumption]. Qed.

Lemma chh_jump s id i tg c : CHH s (handle_jump s id i tg c).
Proof.
  unfold CHH, handle_jump. destruct (get_stage s i) as [src|]; [|constructor].
  destruct (w_canceled s); [ch_list I|].
  destruct (get_stage s tg) as [tgt|]; [|ch_list I].
  destruct (jump_exhausted _ _); [ch_list I|].
  cbn [h_commits ok]. constructor; [|constructor].
  unfold txn. apply Forall_concat''.
  repeat (apply Forall_app; split).
  - match goal with |- Forall _ (flat_map _ ?l) => generalize l end. intros l0.
    induction l0 as [|j l0 IH]; simpl; [constructor|].
    constructor; [constructor; [cbn [op_ch]; reflexivity|constructor]|]. apply Forall_app. split; [apply ch_muts; reflexivity|exact IH].
  - apply ch_muts. reflexivity.
  - match goal with |- context [if ?a then [] else _] => destruct a end; [constructor|].
    match goal with |- context [if ?a then _ else _] => destruct a end.
    + constructor; [|apply ch_muts; reflexivity]. constructor; [|constructor]. cbn [op_ch]. reflexivity.
    + constructor; [|constructor]. constructor; [|constructor]. cbn [op_ch]. reflexivity.
  - constructor.
    + constructor; [|constructor]. cbn [op_ch]. reflexivity.
    + apply Forall_app. split; [apply ch_muts; reflexivity|]. repeat constructor.
Qed.

Definition CHC (s : state) (cs : list commit) : Prop := forall n, ch_inv (apply_commits (firstn n cs) s).

Lemma chc_of_chh s cs : ch_inv s -> Forall (Forall (op_ch (w_stages s))) cs -> CHC s cs.
Proof. intros C H n. apply chh_preserves; assumption. Qed.

Lemma chc_start_stage s id i k0 : ch_inv s -> CHC s (h_commits (handle_start_stage s id i k0)).
Proof.
  intros C. unfold handle_start_stage. destruct (get_stage s i) as [st0|] eqn:Hs; [|apply chc_of_chh; [exact C|constructor]].
  destruct (parent_not_started s st0); [apply chc_of_chh; [exact C|ch_list I]|].
  assert (Forall (Forall (op_ch (w_stages s)))
            (h_commits (if start_stage_late (s_status st0) then ok []
                        else if start_stage_waits (evaluate_readiness (rstage_of st0) (upstream s st0) (s_bypass st0)) (upstream s st0) then ok []
                        else if wait_exhausted k0 max_stage_wait_retries
                             then if can_transition (s_status st0) TERMINAL
                                  then ok [txn [c_put i (st_set st0 TERMINAL (s_started st0) true (s_fired st0) (s_branches st0) true (s_ctx st0) (s_outs st0) (s_tasks st0)); c_push (MCompleteStage i)]]
                                  else ok [txn [c_put i (st_exc st0); c_push (MCompleteStage i)]]
                             else ok [c_push (MStartStage i (k0 + 1))]))) as Hw.
  { destruct (start_stage_late _); [constructor|]. destruct (start_stage_waits _ _); [constructor|].
    destruct (wait_exhausted _ _); [destruct (can_transition _ _)|]; ch_list Hs. }
  destruct (rr_phase _); [|apply chc_of_chh; [exact C|exact Hw]|apply chc_of_chh; [exact C|ch_list I]|apply chc_of_chh; [exact C|exact Hw]].
  unfold start_if_ready.
  set (st := if s_bypass st0 then st_ctl st0 false (s_jump_count st0) (s_buffered st0) (s_signal st0) else st0).
  assert (s_choice st = s_choice st0) as Ech by (unfold st; destruct (s_bypass st0); reflexivity).
  set (zombie := status_eqb (s_status st) RUNNING && _).
  destruct (negb (start_stage_fresh (s_status st)) && negb zombie); [apply chc_of_chh; [exact C|constructor]|].
  destruct (should_skip st); [apply chc_of_chh; [exact C|ch_list I]|].
  destruct (milestone_expired s st); [apply chc_of_chh; [exact C|ch_list I]|].
  destruct (mutex_blocked s i st); [apply chc_of_chh; [exact C|ch_list I]|].
  destruct (_ && choice_claimed s i st); [apply chc_of_chh; [exact C|ch_list I]|].
  destruct (y_expired _); [apply chc_of_chh; [exact C|ch_list I]|].
  set (m := match s_mutex st with Some k => acquire_claim s true k i true | None => (true, w_claims s) end).
  destruct (fst m) eqn:Fm; cbn [negb]; [|apply chc_of_chh; [exact C|ch_list I]].
  set (c := match s_choice st with Some g => acquire_claim (with_claims (snd m) s) false g i false | None => (true, snd m) end).
  destruct (fst c) eqn:Fc; cbn [negb]; [|apply chc_of_chh; [exact C|ch_list I]].
  cbn [h_commits ok].
  (* choice keys: untouched by the mutex acquisition; for the group of i the owner is i, for others unchanged *)
  assert (forall g, claim_lookup (snd m) false g = claim_lookup (w_claims s) false g) as K1.
  { clear - m. intros g. subst m. destruct (s_mutex st) as [k|]; [|reflexivity]. apply acquire_other. discriminate. }
  assert (forall g, s_choice st = Some g -> claim_lookup (snd c) false g = Some i) as O2.
  { clear - Fc. subst c. intros g Eg. rewrite Eg in *. apply acquire_owner. exact Fc. }
  assert (forall g j, claim_lookup (w_claims s) false g = Some j -> claim_lookup (snd c) false g = Some j) as K2.
  { intros g j Old. rewrite <- K1 in Old. clear - Fc Old. subst c. destruct (s_choice st) as [gi|]; [|exact Old].
    destruct (Nat.eq_dec g gi) as [E|Ne].
    - subst g. unfold acquire_claim in *. cbn [w_claims with_claims] in *. rewrite Old in *. simpl in *.
      destruct (j =? i) eqn:Ej; simpl in *; [exact Old|discriminate].
    - rewrite acquire_other; [exact Old|]. intros Q. inversion Q. contradiction. }
  set (claimed := if zombie then st_touch st else with_pending _ true).
  assert (s_choice claimed = s_choice st0) as Ecc by (unfold claimed; destruct zombie; exact Ech).
  set (c1 := [OClaims (snd c); OPut i claimed] ++ (if zombie then [] else [OGStart i (s_jump_count st)])).
  set (s1 := apply_commit s c1).
  assert (w_stages s1 = list_set (w_stages s) i claimed /\ w_claims s1 = snd c /\
          (forall e, In e (g_starts s1) -> e = (i, s_jump_count st) \/ In e (g_starts s))) as [Es [Ec Eg]].
  { unfold s1, c1, apply_commit. rewrite fold_left_app. cbn [fold_left apply_op].
    destruct zombie; cbn [fold_left apply_op]; (split; [reflexivity|split; [reflexivity|]]); intros e He; simpl in He; [right; exact He|].
    destruct He as [He|He]; [left; symmetry; exact He|right; exact He]. }
  assert (ch_inv s1) as C1.
  { intros j x Hin. rewrite Es, Ec. destruct (Eg _ Hin) as [E|Old].
    - inversion E; subst j x. exists claimed. split; [apply (nth_list_set_same _ _ _ st0); exact Hs|].
      intros g Hg. apply O2. rewrite Ech. rewrite <- Ecc. exact Hg.
    - destruct (C j x Old) as [stj [Hj Cj]]. destruct (Nat.eq_dec i j) as [E|Ne].
      + subst j. exists claimed. split; [apply (nth_list_set_same _ _ _ st0); exact Hs|].
        intros g Hg. apply K2. apply Cj. unfold get_stage in Hs. rewrite Hs in Hj. inversion Hj; subst stj. rewrite <- Ecc. exact Hg.
      + exists stj. split; [rewrite nth_list_set_other by exact Ne; exact Hj|]. intros g Hg. apply K2. apply Cj. exact Hg. }
  intros n. destruct n as [|n]; [exact C|].
  change (firstn (S n) ([c1] ++ ?a ++ ?b)) with (c1 :: firstn n (a ++ b)). cbn [apply_commits]. fold s1.
  apply chh_preserves; [exact C1|]. rewrite Es. apply Forall_app. split.
  - destruct (s_choice st); [|constructor]. induction (siblings_not_started _ _ _); simpl; constructor; auto. repeat constructor.
  - constructor; [|constructor]. cbn [txn concat app c_put c_mark]. constructor.
    + cbn [op_ch]. intros y Hy. rewrite (nth_list_set_same _ _ _ st0 Hs) in Hy. inversion Hy; subst y. unfold claimed. destruct zombie; reflexivity.
    + apply Forall_app. split; [apply ch_adds|]. constructor; [exact I|]. rewrite app_nil_r. apply ch_pushes.
Qed.

Theorem chc_handle orc s r : ch_inv s -> CHC s (h_commits (handle orc s r)).
Proof.
  intros C. unfold handle. destruct (q_msg r).
  - apply chc_of_chh; [exact C|apply chh_start_workflow].
  - apply chc_of_chh; [exact C|apply chh_complete_workflow].
  - apply chc_of_chh; [exact C|apply chh_cancel_workflow].
  - apply chc_start_stage, C.
  - apply chc_of_chh; [exact C|apply chh_complete_stage].
  - apply chc_of_chh; [exact C|apply chh_skip_stage].
  - apply chc_of_chh; [exact C|apply chh_cancel_stage].
  - apply chc_of_chh; [exact C|apply chh_start_task].
  - apply chc_of_chh; [exact C|apply chh_run_task].
  - apply chc_of_chh; [exact C|apply chh_complete_task].
  - apply chc_of_chh; [exact C|apply chh_jump].
  - apply chc_of_chh; [exact C|apply chh_signal].
  - apply chc_of_chh; [exact C|apply chh_pause_task].
  - apply chc_of_chh; [exact C|apply chh_resume_stage].
  - apply chc_of_chh; [exact C|apply chh_restart_stage].
  - apply chc_of_chh; [exact C|apply chh_continue_parent].
Qed.

Lemma plain_is_ch l o : plain_op o -> op_ch l o.
Proof. destruct o; simpl; auto; contradiction. Qed.

Lemma chc_app s a b : CHC s a -> Forall (Forall plain_op) b -> CHC s (a ++ b).
Proof.
  intros Ca Hb n. destruct (firstn_app_cases n a b) as [E|[m E]]; rewrite E; [apply Ca|].
  rewrite apply_commits_app. specialize (Ca (length a)). rewrite firstn_all in Ca.
  apply chh_preserves; [exact Ca|]. clear E.
  induction Hb as [|c b Hc Hb IH]; [constructor|]. constructor; [|exact IH].
  clear IH. induction Hc as [|o c Ho Hc IHc]; [constructor|]. constructor; [apply plain_is_ch; exact Ho|exact IHc].
Qed.

Lemma ch_frame s s' : w_stages s' = w_stages s -> w_claims s' = w_claims s -> g_starts s' = g_starts s -> ch_inv s -> ch_inv s'.
Proof. intros E1 E2 E3 C i jc H. rewrite E3 in H. rewrite E1, E2. apply (C i jc H). Qed.

Lemma ch_pre p s : ch_inv s -> ch_inv (apply_pre p s).
Proof. destruct p as [[a b]|]; [|auto]. apply ch_frame; reflexivity. Qed.

Lemma ch_delivery orc s id do_ack d n :
  ch_inv s -> delivery_commits orc s id do_ack = Some d ->
  ch_inv (apply_commits (firstn n (d_rest d)) (apply_pre (d_pre d) (apply_commit s (d_poll d)))).
Proof.
  intros C. unfold delivery_commits. destruct (find_row s id) as [r0|]; [|discriminate].
  destruct (queue_max_attempts <=? q_attempts r0)%Z; [discriminate|].
  assert (ch_inv (bump_attempts id s)) as Cb by (apply (ch_frame s); [reflexivity|reflexivity|reflexivity|exact C]).
  assert (forall p cs, CHC (bump_attempts id s) cs -> ch_inv (apply_commits (firstn n cs) (apply_pre p (bump_attempts id s)))) as Hfin.
  { intros [[a b]|] cs Cc; simpl; [rewrite ghost_commits; apply (ch_pre (Some (a, b))); apply Cc|apply Cc]. }
  destruct (mem_nat id (w_processed (bump_attempts id s))); intros H; inversion H; subst d; cbn [d_poll d_pre d_rest];
    change (apply_commit s [OBump id]) with (bump_attempts id s).
  - apply (Hfin None). apply (chc_app _ [] _); [intros k; destruct k; exact Cb|].
    destruct do_ack; repeat constructor.
  - apply Hfin. apply chc_app; [apply chc_handle; exact Cb|].
    destruct (h_raised _); [constructor|]. destruct do_ack; repeat constructor.
Qed.

Theorem ch_step orc s a : ch_inv s -> ch_inv (step orc s a).
Proof.
  intros C. destruct a; simpl.
  - destruct (delivery_commits orc s id do_ack) as [d|] eqn:Hd; [|exact C].
    pose proof (ch_delivery orc s id do_ack d (length (d_rest d)) C Hd) as Q. rewrite firstn_all in Q. exact Q.
  - destruct k as [|k']; [exact C|]. destruct (delivery_commits orc s id true) as [d|] eqn:Hd; [|exact C].
    apply (ch_delivery orc s id true d k' C Hd).
  - unfold recover. pose proof (chh_preserves s [c_pushes (recovery_msgs s)] 1 C) as Q. apply Q. constructor; [apply ch_pushes|constructor].
  - apply (ch_frame s); [reflexivity|reflexivity|reflexivity|exact C].
  - apply (ch_frame s); [reflexivity|reflexivity|reflexivity|exact C].
  - apply (ch_frame s); [reflexivity|reflexivity|reflexivity|exact C].
  - apply (ch_frame s); [reflexivity|reflexivity|reflexivity|exact C].
  - pose proof (chh_preserves s [c_pushes (map MResumeStage (paused_stages s))] 1 C) as Q. apply Q. constructor; [apply ch_pushes|constructor].
  - apply (ch_frame s); [reflexivity|reflexivity|reflexivity|exact C].
Qed.

Theorem ch_run orc acts : forall s, ch_inv s -> ch_inv (run orc s acts).
Proof. unfold run. induction acts as [|a acts IH]; simpl; intros s C; [exact C|]. apply IH, ch_step, C. Qed.

Lemma ch_init stages wmax : ch_inv (init_state stages wmax).
Proof. intros i jc []. Qed.
