(* Concrete workflows / states used as non-vacuity witnesses by the property files. *)
From Coq Require Import List Bool Arith ZArith.
Import ListNotations.
From Stab.model Require Import Base StatusM Readiness StageStat Engine.

Definition ex_stage (reqs : list nat) (ntasks : nat) : stage :=
  {| s_reqs := reqs; s_join := J_AND; s_threshold := 0; s_cof := false; s_fp := true; s_enabled := None;
     s_mutex := None; s_choice := None; s_max_jumps := None; s_split_or := false; s_conds := []; s_status := NOT_STARTED; s_started := false;
     s_ended := false; s_version := 0; s_fired := false; s_branches := []; s_bypass := false; s_jump_count := 0;
     s_buffered := []; s_signal := None; s_has_exc := false; s_plan_pending := false; s_hydrated := [];
     s_ctx := []; s_outs := []; s_tasks := repeat (mk_task false) ntasks; s_syn := top_syn 0; s_onfail := false |}.

(* chain A -> B, one task each *)
Definition ex_chain : state := init_state [ex_stage [] 1; ex_stage [0] 1] None.
Definition ok_oracle : oracle := fun _ _ _ => RSucceed [(1, 7%Z)].
Definition susp_oracle : oracle := fun i _ n => match i, n with O, O => RSuspend | _, _ => RSucceed [] end.

(* FIFO drain with fuel: always deliver the oldest row *)
Fixpoint drain (orc : oracle) (fuel : nat) (s : state) : state :=
  match fuel with
  | O => s
  | S f => match w_queue s with
           | [] => s
           | r :: _ => drain orc f (step orc s (Deliver (q_id r) true))
           end
  end.

Definition statuses (s : state) : status * list status := (w_status s, map s_status (w_stages s)).

(* a parent with one before stage and one after stage (one task each), followed by a plain stage *)
Definition ex_parent : stage :=
  {| s_reqs := []; s_join := J_AND; s_threshold := 0; s_cof := false; s_fp := true; s_enabled := None;
     s_mutex := None; s_choice := None; s_max_jumps := None; s_split_or := false; s_conds := []; s_status := NOT_STARTED; s_started := false;
     s_ended := false; s_version := 0; s_fired := false; s_branches := []; s_bypass := false; s_jump_count := 0;
     s_buffered := []; s_signal := None; s_has_exc := false; s_plan_pending := false; s_hydrated := [];
     s_ctx := []; s_outs := []; s_tasks := [mk_task false];
     s_syn := {| y_parent := None; y_owner := None; y_script := 0; y_ntasks := 0;
                 y_before := [{| tp_script := 1000; tp_ntasks := 1; tp_chain := false; tp_blocking := false |}];
                 y_after := [{| tp_script := 1001; tp_ntasks := 1; tp_chain := false; tp_blocking := false |}]; y_fail := [];
                 y_blocking := false; y_milestone := None; y_expired := false |};
     s_onfail := false |}.
Definition ex_syn : state := init_state [ex_parent; ex_stage [0] 1] None.
