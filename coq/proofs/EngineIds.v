(* Row identifiers and processed marks: an invariant of EVERY run (any workflow, any action list), proved by
   induction over the actions with no premise on the handlers beyond "a handler marks only the message it handles".
   Consequence: a freshly pushed message is never born already marked processed, and row ids are unique, so the
   durable duplicate check of C02 / C09 can only ever suppress a redelivery of the very row that committed. *)
From Coq Require Import List Bool Arith ZArith Lia.
Import ListNotations.
From Stab.model Require Import Base StatusM Readiness StageStat Engine.
From Stab.gen Require Import Gen_Config Gen_Guards.
From Stab.proofs Require Import EngineLegal.

Definition ids_ok (s : state) : Prop :=
  (forall r, In r (w_queue s) -> q_id r < w_next s) /\
  NoDup (map q_id (w_queue s)) /\
  (forall p, In p (w_processed s) -> p < w_next s).

(* ---- a handler marks only the message it handles ---- *)
Definition mark_is (id : nat) (o : op) : bool := match o with OMark k => k =? id | OBump _ | OAck _ => false | _ => true end.
Definition MARKS id (h : hres) : Prop := Forall (fun c => forallb (mark_is id) c = true) (h_commits h).

Lemma mi_pushes id ms : forallb (mark_is id) (c_pushes ms) = true.
Proof. unfold c_pushes. induction ms; simpl; auto. Qed.
Lemma mi_adds id l : forallb (mark_is id) (map OAdd l) = true.
Proof. induction l; simpl; auto. Qed.
Lemma mi_app id a b : forallb (mark_is id) (a ++ b) = forallb (mark_is id) a && forallb (mark_is id) b.
Proof. apply forallb_app. Qed.

Ltac mi :=
  repeat first
    [ reflexivity
    | apply Forall_nil
    | apply Forall_cons
    | progress (cbn [txn concat app c_put c_mark c_push c_wf c_cancel c_mutate forallb mark_is negb andb])
    | rewrite Nat.eqb_refl
    | rewrite app_nil_r
    | rewrite mi_pushes
    | rewrite mi_adds
    | rewrite mi_app ].

Ltac simple_mi h := unfold MARKS, h; repeat (match goal with |- context [match ?x with _ => _ end] => destruct x end);
                    unfold ok, raised; cbn [h_commits]; mi.

Lemma mi_start_workflow s id : MARKS id (handle_start_workflow s id). Proof. simple_mi handle_start_workflow. Qed.
Lemma mi_complete_workflow s id k : MARKS id (handle_complete_workflow s id k). Proof. simple_mi handle_complete_workflow. Qed.
Lemma mi_cancel_workflow s id : MARKS id (handle_cancel_workflow s id). Proof. simple_mi handle_cancel_workflow. Qed.
Lemma mi_skip_stage s id i : MARKS id (handle_skip_stage s id i). Proof. simple_mi handle_skip_stage. Qed.
Lemma mi_cancel_stage s id i : MARKS id (handle_cancel_stage s id i). Proof. simple_mi handle_cancel_stage. Qed.
Lemma mi_start_task s id i t : MARKS id (handle_start_task s id i t). Proof. simple_mi handle_start_task. Qed.
Lemma mi_complete_task s id i t x : MARKS id (handle_complete_task s id i t x). Proof. simple_mi handle_complete_task. Qed.
Lemma mi_signal s id i n p : MARKS id (handle_signal_stage s id i n p). Proof. simple_mi handle_signal_stage. Qed.
Lemma mi_pause_task s id i t : MARKS id (handle_pause_task s id i t). Proof. simple_mi handle_pause_task. Qed.
Lemma mi_resume_stage s id i : MARKS id (handle_resume_stage s id i). Proof. simple_mi handle_resume_stage. Qed.
Lemma mi_restart_stage s id i : MARKS id (handle_restart_stage s id i). Proof. simple_mi handle_restart_stage. Qed.
Lemma mi_continue_parent s id i o k : MARKS id (handle_continue_parent s id i o k). Proof. simple_mi handle_continue_parent. Qed.

Lemma mi_join_tracking id s i ds : Forall (fun c => forallb (mark_is id) c = true) (join_tracking s i ds).
Proof.
  unfold join_tracking. induction ds as [|d ds IH]; simpl; [constructor|].
  apply Forall_app. split; [|exact IH].
  destruct (get_stage s d) as [dst|]; [|constructor].
  destruct (s_join dst); try (constructor; fail); destruct (mem_nat i (s_branches dst)); repeat constructor.
Qed.

Lemma mi_complete_stage s id i : MARKS id (handle_complete_stage s id i).
Proof.
  unfold MARKS, handle_complete_stage. destruct (get_stage s i) as [st|]; [|mi].
  destruct (status_eqb _ NOT_STARTED); [unfold ok; cbn [h_commits]; mi|].
  destruct (negb _). { destruct (is_halt _); unfold ok; cbn [h_commits]; mi. }
  cbn zeta.
  match goal with |- context [if ?c then ok [txn [c_put i (st_touch st); _; _; _]] else _] => destruct c end; [unfold ok; cbn [h_commits]; mi|].
  match goal with |- context [if ?c then ok [c_mark id] else _] => destruct c end; [unfold ok; cbn [h_commits]; mi|].
  match goal with |- context [if ?c then ok [txn [c_put i (st_touch (with_onfail st true)); _; _; _]] else _] => destruct c end;
    [unfold ok; cbn [h_commits]; mi|].
  match goal with |- context [status_eqb ?x RUNNING] => destruct (status_eqb x RUNNING) end; [unfold ok; cbn [h_commits]; mi|].
  destruct (negb _); [mi|].
  destruct (_ || _ || _); unfold ok; cbn [h_commits].
  - apply Forall_app. split; [apply mi_join_tracking|]. mi.
  - mi.
Qed.

Lemma mi_start_stage s id i k : MARKS id (handle_start_stage s id i k).
Proof.
  unfold MARKS, handle_start_stage. destruct (get_stage s i) as [st|]; [|mi].
  destruct (parent_not_started s st); [unfold ok; cbn [h_commits]; mi|].
  match goal with |- context [match rr_phase ?r with _ => _ end] => destruct (rr_phase r) end.
  - unfold start_if_ready.
    match goal with |- context [if ?c then ok [] else _] => destruct c end; [mi|].
    destruct (should_skip _); [unfold ok; cbn [h_commits]; mi|].
    destruct (milestone_expired _ _); [unfold ok; cbn [h_commits]; mi|].
    destruct (mutex_blocked _ _ _); [unfold ok; cbn [h_commits]; mi|].
    destruct (_ && choice_claimed _ _ _); [unfold ok; cbn [h_commits]; mi|].
    destruct (y_expired _); [unfold ok; cbn [h_commits]; mi|].
    match goal with |- context [negb (fst ?m)] => destruct (fst m) end; cbn [negb]; [|unfold ok; cbn [h_commits]; mi].
    match goal with |- context [negb (fst ?c)] => destruct (fst c) end; cbn [negb]; [|unfold ok; cbn [h_commits]; mi].
    unfold ok; cbn [h_commits]. apply Forall_app. split.
    + constructor; [|constructor]. rewrite mi_app. simpl.
      match goal with |- context [if ?z then [] else _] => destruct z end; reflexivity.
    + apply Forall_app. split.
      * match goal with |- context [match ?c with Some _ => _ | None => [] end] => destruct c end; [|constructor].
        induction (siblings_not_started _ _ _); simpl; constructor; auto.
      * mi.
  - destruct (start_stage_late _); [mi|]. destruct (start_stage_waits _ _); [mi|].
    destruct (wait_exhausted _ _); [destruct (can_transition _ _)|]; unfold ok; cbn [h_commits]; mi.
  - unfold ok; cbn [h_commits]; mi.
  - destruct (start_stage_late _); [mi|]. destruct (start_stage_waits _ _); [mi|].
    destruct (wait_exhausted _ _); [destruct (can_transition _ _)|]; unfold ok; cbn [h_commits]; mi.
Qed.

Lemma mi_run_task orc s id i t a : MARKS id (handle_run_task orc s id i t a).
Proof.
  unfold MARKS, handle_run_task. destruct (get_stage s i) as [st|]; [|mi].
  destruct (nth_error _ t) as [tk|]; [|mi].
  destruct (negb _); [unfold ok; cbn [h_commits]; mi|].
  destruct (w_canceled s); [unfold ok; cbn [h_commits]; mi|].
  destruct (is_complete _); [unfold ok; cbn [h_commits]; mi|].
  destruct (status_eqb _ PAUSED); [unfold ok; cbn [h_commits]; mi|].
  cbn [h_commits].
  destruct (orc i t (count_execs s i t)); unfold process_result, handle_exception, mark_terminal; try mi.
  - destruct (retry_guard _ _); [destruct ctx|]; mi.
  - destruct (s_buffered st); mi.
Qed.

Lemma mi_concat id cs : Forall (fun c => forallb (mark_is id) c = true) cs -> forallb (mark_is id) (concat cs) = true.
Proof. induction 1 as [|c cs Hc _ IH]; simpl; [reflexivity|]. rewrite mi_app, Hc, IH. reflexivity. Qed.

Lemma mi_muts id (l : list nat) (f : stage -> stage) : Forall (fun c => forallb (mark_is id) c = true) (map (fun j => c_mutate j f) l).
Proof. induction l; simpl; constructor; auto. Qed.

Lemma mi_jump s id i tg c : MARKS id (handle_jump s id i tg c).
Proof.
  unfold MARKS, handle_jump. destruct (get_stage s i) as [src|]; [|mi].
  destruct (w_canceled s); [unfold ok; cbn [h_commits]; mi|].
  destruct (get_stage s tg) as [tgt|]; [|unfold ok; cbn [h_commits]; mi].
  destruct (jump_exhausted _ _); [unfold ok; cbn [h_commits]; mi|].
  unfold ok; cbn [h_commits]. constructor; [|constructor].
  unfold txn. apply mi_concat. repeat (apply Forall_app; split).
  - match goal with |- Forall _ (flat_map _ ?l) => generalize l end. intros l0.
    induction l0 as [|j l0 IH]; simpl; [constructor|].
    constructor; [reflexivity|]. apply Forall_app. split; [apply mi_muts|exact IH].
  - apply mi_muts.
  - match goal with |- context [if ?a then [] else _] => destruct a end; [constructor|].
    match goal with |- context [if ?a then _ else _] => destruct a end.
    + constructor; [reflexivity|apply mi_muts].
    + constructor; [reflexivity|constructor].
  - constructor; [reflexivity|]. apply Forall_app. split; [apply mi_muts|].
    constructor; [simpl; rewrite Nat.eqb_refl; reflexivity|]. repeat constructor.
Qed.

Theorem marks_handle orc s r : MARKS (q_id r) (handle orc s r).
Proof.
  unfold handle. destruct (q_msg r).
  - apply mi_start_workflow.
  - apply mi_complete_workflow.
  - apply mi_cancel_workflow.
  - apply mi_start_stage.
  - apply mi_complete_stage.
  - apply mi_skip_stage.
  - apply mi_cancel_stage.
  - apply mi_start_task.
  - apply mi_run_task.
  - apply mi_complete_task.
  - apply mi_jump.
  - apply mi_signal.
  - apply mi_pause_task.
  - apply mi_resume_stage.
  - apply mi_restart_stage.
  - apply mi_continue_parent.
Qed.

Lemma NoDup_app_one {A} (l : list A) x : NoDup l -> ~ In x l -> NoDup (l ++ [x]).
Proof.
  induction l as [|a l IH]; intros Hn Hx; simpl; [constructor; [intros []|constructor]|].
  inversion Hn; subst. constructor.
  - intros Hin. apply in_app_or in Hin. destruct Hin as [Hin|[E|[]]]; [contradiction|]. subst. apply Hx. left. reflexivity.
  - apply IH; [assumption|]. intros Hin. apply Hx. right. exact Hin.
Qed.

(* ---- the invariant is preserved by every primitive write whose marks are below the allocator ---- *)
Lemma next_apply_op o s : w_next s <= w_next (apply_op s o).
Proof.
  destruct o; simpl; try lia. unfold mutate_stage. destruct (get_stage s i); simpl; lia.
Qed.

Lemma ids_apply_op o s :
  ids_ok s -> (forall k, o = OMark k -> k < w_next s) -> ids_ok (apply_op s o).
Proof.
  intros [Hq [Hn Hp]] Hm. destruct o; simpl; try (split; [exact Hq|split; [exact Hn|exact Hp]]).
  - unfold mutate_stage. destruct (get_stage s i); simpl; (split; [exact Hq|split; [exact Hn|exact Hp]]).
  - (* OPush *) split; [|split].
    + intros r Hr. simpl in Hr. apply in_app_or in Hr. destruct Hr as [Hr|[Hr|[]]].
      * specialize (Hq r Hr). simpl. lia.
      * subst r. simpl. lia.
    + simpl. rewrite map_app. simpl. apply NoDup_app_one; [exact Hn|].
      intros Hin. apply in_map_iff in Hin. destruct Hin as [r [E Hr]]. specialize (Hq r Hr). lia.
    + intros p Hpp. simpl in Hpp. specialize (Hp p Hpp). simpl. lia.
  - (* OMark *) split; [exact Hq|split; [exact Hn|]].
    intros p Hpp. simpl in Hpp. destruct (mem_nat id (w_processed s)); [apply Hp; exact Hpp|].
    destruct Hpp as [E|Hpp]; [subst p; apply Hm; reflexivity|apply Hp; exact Hpp].
  - (* OBump *) split; [|split; [|exact Hp]].
    + intros r Hr. simpl in Hr. apply in_map_iff in Hr. destruct Hr as [r0 [E Hr0]].
      specialize (Hq r0 Hr0). destruct (q_id r0 =? id); subst r; simpl; exact Hq.
    + simpl. rewrite map_map.
      replace (map (fun x => q_id (if q_id x =? id then {| q_id := q_id x; q_msg := q_msg x; q_attempts := q_attempts x + 1 |} else x)) (w_queue s))
        with (map q_id (w_queue s)); [exact Hn|].
      apply map_ext. intros x. destruct (q_id x =? id); reflexivity.
  - (* OAck *) split; [|split; [|exact Hp]].
    + intros r Hr. simpl in Hr. apply filter_In in Hr. apply Hq. tauto.
    + simpl. clear - Hn. induction (w_queue s) as [|a l IH]; simpl; [constructor|].
      inversion Hn; subst. destruct (negb (q_id a =? id)); simpl; [|apply IH; assumption].
      constructor; [|apply IH; assumption].
      intros Hin. apply in_map_iff in Hin. destruct Hin as [r [E Hr]]. apply filter_In in Hr. destruct Hr as [Hr _].
      apply H1. rewrite <- E. apply in_map. exact Hr.
Qed.

Lemma ids_apply_commit c : forall s,
  ids_ok s -> (forall k, In (OMark k) c -> k < w_next s) ->
  ids_ok (apply_commit s c) /\ w_next s <= w_next (apply_commit s c).
Proof.
  unfold apply_commit. induction c as [|o c IH]; simpl; intros s H Hm; [split; [exact H|lia]|].
  assert (ids_ok (apply_op s o)) as H1 by (apply ids_apply_op; [exact H|intros k E; apply Hm; left; exact E]).
  pose proof (next_apply_op o s) as N1.
  destruct (IH (apply_op s o) H1) as [H2 N2]; [intros k Hk; specialize (Hm k (or_intror Hk)); lia|].
  split; [exact H2|lia].
Qed.

Lemma ids_apply_commits cs : forall s,
  ids_ok s -> (forall c k, In c cs -> In (OMark k) c -> k < w_next s) ->
  ids_ok (apply_commits cs s).
Proof.
  induction cs as [|c cs IH]; simpl; intros s H Hm; [exact H|].
  destruct (ids_apply_commit c s H) as [H1 N1]; [intros k Hk; apply (Hm c k); [left; reflexivity|exact Hk]|].
  apply IH; [exact H1|]. intros c' k Hc Hk. specialize (Hm c' k (or_intror Hc) Hk). lia.
Qed.

Lemma ids_pre p s : ids_ok s -> ids_ok (apply_pre p s).
Proof. destruct p as [[i t]|]; auto. Qed.

Lemma ids_pushes ms s : ids_ok s -> ids_ok (apply_commit s (c_pushes ms)).
Proof.
  intros H. apply ids_apply_commit; [exact H|]. intros k Hk. unfold c_pushes in Hk.
  apply in_map_iff in Hk. destruct Hk as [m [E _]]. discriminate.
Qed.

Lemma find_row_id s id r : find_row s id = Some r -> q_id r = id /\ In r (w_queue s).
Proof. unfold find_row. intros H. apply find_some in H. destruct H as [H1 H2]. apply Nat.eqb_eq in H2. auto. Qed.

Lemma mark_is_in id c k : forallb (mark_is id) c = true -> In (OMark k) c -> k = id.
Proof.
  intros H Hin. rewrite forallb_forall in H. specialize (H _ Hin). simpl in H. apply Nat.eqb_eq in H. exact H.
Qed.

(* every commit of a delivery marks only the delivered row's id *)
Lemma delivery_marks orc s id do_ack d :
  delivery_commits orc s id do_ack = Some d ->
  (forall k, In (OMark k) (d_poll d) -> k = id) /\ (forall c k, In c (d_rest d) -> In (OMark k) c -> k = id).
Proof.
  unfold delivery_commits. destruct (find_row s id) as [r0|] eqn:Hr; [|discriminate].
  destruct (queue_max_attempts <=? q_attempts r0)%Z; [discriminate|].
  destruct (mem_nat id (w_processed (bump_attempts id s))); intros H; inversion H; simpl; split.
  - intros k [E|[]]. discriminate.
  - destruct do_ack; simpl; [|intros c k []]. intros c k [E|[]] Hk. subst c. destruct Hk as [E|[]]. discriminate.
  - intros k [E|[]]. discriminate.
  - intros c k Hc Hk. apply in_app_or in Hc. destruct Hc as [Hc|Hc].
    + pose proof (marks_handle orc (bump_attempts id s) {| q_id := id; q_msg := q_msg r0; q_attempts := q_attempts r0 + 1 |}) as M.
      unfold MARKS in M. rewrite Forall_forall in M. specialize (M c Hc). apply (mark_is_in _ _ _ M Hk).
    + destruct (h_raised _); [destruct Hc|]. destruct Hc as [E|Hc]; [subst c; destruct Hk as [E|[]]; inversion E; reflexivity|].
      destruct do_ack; [|destruct Hc]. destruct Hc as [E|[]]. subst c. destruct Hk as [E|[]]. discriminate.
Qed.

Lemma firstn_in {A} k (l : list A) x : In x (firstn k l) -> In x l.
Proof. revert k. induction l as [|a l IH]; intros [|k] H; simpl in *; try contradiction. destruct H; [left; assumption|right; eapply IH; eassumption]. Qed.

(* THE INVARIANT: preserved by every action, for every workflow, oracle and state *)
Theorem ids_step orc s a : ids_ok s -> ids_ok (step orc s a).
Proof.
  intros H. destruct a; simpl.
  - destruct (delivery_commits orc s id do_ack) as [d|] eqn:Hd; [|exact H].
    destruct (delivery_marks _ _ _ _ _ Hd) as [Mp Mr].
    assert (id < w_next s) as Hid.
    { unfold delivery_commits in Hd. destruct (find_row s id) as [r0|] eqn:Hr; [|discriminate].
      destruct (find_row_id _ _ _ Hr) as [E Hin]. destruct H as [Hq _]. specialize (Hq r0 Hin). lia. }
    destruct (ids_apply_commit (d_poll d) s H) as [H1 N1]; [intros k Hk; rewrite (Mp k Hk); exact Hid|].
    apply ids_apply_commits; [apply ids_pre; exact H1|].
    intros c k Hc Hk. rewrite (Mr c k Hc Hk). destruct (d_pre d) as [[i t]|]; simpl; lia.
  - destruct k as [|k']; [exact H|].
    destruct (delivery_commits orc s id true) as [d|] eqn:Hd; [|exact H].
    destruct (delivery_marks _ _ _ _ _ Hd) as [Mp Mr].
    assert (id < w_next s) as Hid.
    { unfold delivery_commits in Hd. destruct (find_row s id) as [r0|] eqn:Hr; [|discriminate].
      destruct (find_row_id _ _ _ Hr) as [E Hin]. destruct H as [Hq _]. specialize (Hq r0 Hin). lia. }
    destruct (ids_apply_commit (d_poll d) s H) as [H1 N1]; [intros k Hk; rewrite (Mp k Hk); exact Hid|].
    apply ids_apply_commits; [apply ids_pre; exact H1|].
    intros c k Hc Hk. rewrite (Mr c k (firstn_in _ _ _ Hc) Hk). destruct (d_pre d) as [[i t]|]; simpl; lia.
  - unfold recover. apply ids_pushes. exact H.
  - apply (ids_apply_op (OPush MCancelWorkflow)); [exact H|discriminate].
  - apply (ids_apply_op (OPush (MSignalStage i name persistent))); [exact H|discriminate].
  - apply (ids_apply_op (OPush MStartWorkflow)); [exact H|discriminate].
  - apply (ids_apply_op (OWf PAUSED)); [exact H|discriminate].
  - apply ids_pushes. exact H.
  - apply (ids_apply_op (OPush (MRestartStage i))); [exact H|discriminate].
Qed.

Theorem ids_run orc acts : forall s, ids_ok s -> ids_ok (run orc s acts).
Proof. unfold run. induction acts as [|a acts IH]; simpl; intros s H; [exact H|]. apply IH, ids_step, H. Qed.

Lemma ids_init stages wmax : ids_ok (init_state stages wmax).
Proof. split; [intros r []|split; [constructor|intros p []]]. Qed.

(* consequences, in every reachable state: row ids are unique, and a message pushed now gets an id that carries no
   processed mark - the durable duplicate check can only suppress a redelivery of a row that was already handled *)
Theorem fresh_row_unmarked s m : ids_ok s ->
  let s' := push m s in
  exists r, In r (w_queue s') /\ q_id r = w_next s /\ q_msg r = m /\ mem_nat (q_id r) (w_processed s') = false
            /\ forall r', In r' (w_queue s) -> q_id r' <> q_id r.
Proof.
  intros [Hq [Hn Hp]]. simpl. exists {| q_id := w_next s; q_msg := m; q_attempts := 0 |}.
  split; [apply in_or_app; right; left; reflexivity|]. split; [reflexivity|]. split; [reflexivity|]. split.
  - simpl. unfold mem_nat. apply Bool.not_true_is_false. intros E. apply existsb_exists in E.
    destruct E as [p [Hin Ep]]. apply Nat.eqb_eq in Ep. subst p. specialize (Hp _ Hin). lia.
  - intros r' Hr' E. simpl in E. specialize (Hq r' Hr'). lia.
Qed.

(* ---- a processed mark is never removed: once a message's handling has committed, it stays processed in every
        continuation of the run ---- *)
Lemma processed_op_mono o s p : mem_nat p (w_processed s) = true -> mem_nat p (w_processed (apply_op s o)) = true.
Proof.
  intros H. destruct o; simpl; try exact H.
  - unfold mutate_stage. destruct (get_stage s i); exact H.
  - destruct (mem_nat id (w_processed s)); [exact H|]. unfold mem_nat in *. simpl. rewrite H. apply orb_true_r.
Qed.

Lemma processed_commit_mono c : forall s p, mem_nat p (w_processed s) = true -> mem_nat p (w_processed (apply_commit s c)) = true.
Proof. unfold apply_commit. induction c as [|o c IH]; simpl; intros s p H; [exact H|]. apply IH, processed_op_mono, H. Qed.

Lemma processed_commits_mono cs : forall s p, mem_nat p (w_processed s) = true -> mem_nat p (w_processed (apply_commits cs s)) = true.
Proof. induction cs as [|c cs IH]; simpl; intros s p H; [exact H|]. apply IH, processed_commit_mono, H. Qed.

Theorem processed_step_mono orc s a p : mem_nat p (w_processed s) = true -> mem_nat p (w_processed (step orc s a)) = true.
Proof.
  intros H. destruct a; simpl; try exact H.
  - destruct (delivery_commits orc s id do_ack) as [d|]; [|exact H].
    apply processed_commits_mono. destruct (d_pre d) as [[i t]|]; simpl; apply processed_commit_mono, H.
  - destruct k; [exact H|]. destruct (delivery_commits orc s id true) as [d|]; [|exact H].
    apply processed_commits_mono. destruct (d_pre d) as [[i t]|]; simpl; apply processed_commit_mono, H.
  - unfold recover. apply processed_commit_mono, H.
  - apply processed_commit_mono, H.
Qed.

Theorem processed_run_mono orc acts : forall s p,
  mem_nat p (w_processed s) = true -> mem_nat p (w_processed (run orc s acts)) = true.
Proof. unfold run. induction acts as [|a acts IH]; simpl; intros s p H; [exact H|]. apply IH, processed_step_mono, H. Qed.
