(* Reflection between the executable invariant clauses of model/EngineInv.v and their Prop versions. *)
From Coq Require Import List Bool Arith ZArith Lia.
Import ListNotations.
From Stab.model Require Import Base StatusM Readiness StageStat Engine EngineInv.
From Stab.proofs Require Import EngineLegal.

Lemma forallb_combine_seq {A} (p : nat -> A -> bool) (l : list A) b :
  forallb (fun q => p (fst q) (snd q)) (combine (seq b (length l)) l) = true ->
  forall i x, nth_error l i = Some x -> p (b + i) x = true.
Proof.
  revert b. induction l as [|a l IH]; simpl; intros b H i x Hn; [destruct i; discriminate|].
  apply andb_true_iff in H. destruct H as [H1 H2]. destruct i as [|i]; simpl in Hn.
  - inversion Hn; subst. rewrite Nat.add_0_r. exact H1.
  - replace (b + S i) with (S b + i) by lia. apply IH; assumption.
Qed.

Lemma all_stages_spec s p :
  all_stages s p = true -> forall i st, get_stage s i = Some st -> p i st = true.
Proof.
  unfold all_stages, stages_idx, seqn, get_stage. intros H i st Hn.
  apply (forallb_combine_seq p (w_stages s) 0 H i st Hn).
Qed.

Lemma i_running_task_sound s : i_running_task s = true -> running_task_in_running_stage s.
Proof.
  intros H i st tk Hs Hin Hr. apply (all_stages_spec _ _ H) in Hs.
  apply orb_true_iff in Hs. destruct Hs as [Hs|Hs]; [|apply status_eqb_eq; exact Hs].
  apply negb_true_iff in Hs. exfalso.
  assert (existsb (task_is RUNNING) (s_tasks st) = true) as E.
  { apply existsb_exists. exists tk. split; [exact Hin|]. unfold task_is. rewrite Hr. reflexivity. }
  congruence.
Qed.
