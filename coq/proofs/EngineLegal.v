(* Status-write analysis of the engine model: what a commit does to the stage list and the workflow
   status, as pure list functions (stages_after / wf_after), and the legality relation between
   consecutive durable states. *)
From Coq Require Import List Bool Arith ZArith Lia.
Import ListNotations.
From Stab.model Require Import Base StatusM Readiness StageStat Engine.
From Stab.gen Require Import Gen_Config Gen_Guards.
From Stab.proofs Require Import StatusP.

(* ------------------------------------------------------------------------------------------ *)
(* the effect of a commit on stages / workflow status                                          *)
(* ------------------------------------------------------------------------------------------ *)

Definition op_stages (l : list stage) (o : op) : list stage :=
  match o with
  | OPut i st => list_set l i st
  | OMut i f => match nth_error l i with Some st => list_set l i (f st) | None => l end
  | OAdd st => l ++ [st]
  | _ => l
  end.

Definition op_wf (w : status) (o : op) : status := match o with OWf x => x | _ => w end.

Definition stages_after (l : list stage) (c : commit) : list stage := fold_left op_stages c l.
Definition wf_after (w : status) (c : commit) : status := fold_left op_wf c w.

Lemma stages_apply_op s o : w_stages (apply_op s o) = op_stages (w_stages s) o.
Proof.
  destruct o; simpl; try reflexivity.
  unfold mutate_stage, get_stage. destruct (nth_error (w_stages s) i); reflexivity.
Qed.

Lemma wf_apply_op s o : w_status (apply_op s o) = op_wf (w_status s) o.
Proof.
  destruct o; simpl; try reflexivity.
  unfold mutate_stage. destruct (get_stage s i); reflexivity.
Qed.

Lemma stages_apply_commit c : forall s, w_stages (apply_commit s c) = stages_after (w_stages s) c.
Proof.
  unfold apply_commit, stages_after. induction c as [|o c IH]; simpl; intros s; [reflexivity|].
  rewrite IH, stages_apply_op. reflexivity.
Qed.

Lemma wf_apply_commit c : forall s, w_status (apply_commit s c) = wf_after (w_status s) c.
Proof.
  unfold apply_commit, wf_after. induction c as [|o c IH]; simpl; intros s; [reflexivity|].
  rewrite IH, wf_apply_op. reflexivity.
Qed.

Lemma stages_after_app l c1 c2 : stages_after l (c1 ++ c2) = stages_after (stages_after l c1) c2.
Proof. unfold stages_after. apply fold_left_app. Qed.

Lemma wf_after_app w c1 c2 : wf_after w (c1 ++ c2) = wf_after (wf_after w c1) c2.
Proof. unfold wf_after. apply fold_left_app. Qed.

(* ops that never touch stages or the workflow status *)
Definition quiet (o : op) : bool :=
  match o with OPut _ _ | OMut _ _ | OWf _ | OAdd _ => false | _ => true end.

Lemma stages_after_quiet c : forallb quiet c = true -> forall l, stages_after l c = l.
Proof.
  unfold stages_after. induction c as [|o c IH]; simpl; intros H l; [reflexivity|].
  apply andb_true_iff in H. destruct H as [Ho Hc]. rewrite IH by exact Hc. destruct o; simpl in *; congruence.
Qed.

Lemma wf_after_quiet c : forallb quiet c = true -> forall w, wf_after w c = w.
Proof.
  unfold wf_after. induction c as [|o c IH]; simpl; intros H w; [reflexivity|].
  apply andb_true_iff in H. destruct H as [Ho Hc]. rewrite IH by exact Hc. destruct o; simpl in *; congruence.
Qed.

Lemma quiet_pushes ms : forallb quiet (c_pushes ms) = true.
Proof. unfold c_pushes. induction ms; simpl; auto. Qed.

Lemma quiet_map_push {A} (f : A -> msg) l : forallb quiet (map OPush (map f l)) = true.
Proof. induction l; simpl; auto. Qed.

(* ------------------------------------------------------------------------------------------ *)
(* list_set / nth_error                                                                        *)
(* ------------------------------------------------------------------------------------------ *)

Lemma list_set_length {A} (l : list A) i x : length (list_set l i x) = length l.
Proof. revert i. induction l as [|a l IH]; intros [|i]; simpl; auto. Qed.

Lemma nth_list_set_same {A} (l : list A) i x y : nth_error l i = Some y -> nth_error (list_set l i x) i = Some x.
Proof. revert i. induction l as [|a l IH]; intros [|i]; simpl; try discriminate; auto. Qed.

Lemma nth_list_set_other {A} (l : list A) i j x : i <> j -> nth_error (list_set l i x) j = nth_error l j.
Proof.
  revert i j. induction l as [|a l IH]; intros [|i] [|j] H; simpl; try reflexivity; try congruence.
  apply IH. congruence.
Qed.

Lemma list_set_none {A} (l : list A) i x : nth_error l i = None -> list_set l i x = l.
Proof. revert i. induction l as [|a l IH]; intros [|i]; simpl; try discriminate; auto. intros H. f_equal. auto. Qed.

(* ------------------------------------------------------------------------------------------ *)
(* legality                                                                                    *)
(* ------------------------------------------------------------------------------------------ *)

(* rows may be ADDED (synthetic stages, the tasks a builder creates at plan time): the old rows are related
   pointwise, the new rows must be fresh *)
Inductive grows {A} (R : A -> A -> Prop) (F : A -> Prop) : list A -> list A -> Prop :=
| G_nil added : Forall F added -> grows R F [] added
| G_cons a b l l' : R a b -> grows R F l l' -> grows R F (a :: l) (b :: l').

Lemma grows_refl {A} (R : A -> A -> Prop) F : (forall x, R x x) -> forall l, grows R F l l.
Proof. intros H l. induction l; constructor; auto. Qed.

Lemma grows_of_Forall2 {A} (R : A -> A -> Prop) F l l' : Forall2 R l l' -> grows R F l l'.
Proof. induction 1; constructor; auto. Qed.

Lemma grows_app {A} (R : A -> A -> Prop) F l l' add : grows R F l l' -> Forall F add -> grows R F l (l' ++ add).
Proof.
  induction 1 as [added Ha|a b l l' Hab Hg IH]; intros Hf; simpl.
  - constructor. apply Forall_app. split; assumption.
  - constructor; auto.
Qed.

Lemma grows_nth {A} (R : A -> A -> Prop) F l l' i a :
  grows R F l l' -> nth_error l i = Some a -> exists b, nth_error l' i = Some b /\ R a b.
Proof.
  intros H. revert i. induction H as [added Ha|x y l l' Hxy Hg IH]; intros [|i] Hn; simpl in *; try discriminate.
  - inversion Hn; subst. eauto.
  - apply IH. exact Hn.
Qed.

Lemma grows_set {A} (R : A -> A -> Prop) F (Hr : forall x, R x x) l i a b :
  nth_error l i = Some a -> R a b -> grows R F l (list_set l i b).
Proof.
  revert i. induction l as [|x l IH]; intros [|i] H Hl; simpl in *; try discriminate.
  - inversion H; subst. constructor; [exact Hl|apply grows_refl, Hr].
  - constructor; [apply Hr|]. apply IH; assumption.
Qed.

Definition task_legal (a b : task) : Prop := can_transition (t_status a) (t_status b) = true.
Definition task_fresh (tk : task) : Prop := t_status tk = NOT_STARTED.
Definition tasks_legal (ts ts' : list task) : Prop := grows task_legal task_fresh ts ts'.
Definition stage_legal (a b : stage) : Prop :=
  can_transition (s_status a) (s_status b) = true /\ tasks_legal (s_tasks a) (s_tasks b).
Definition stage_fresh (st : stage) : Prop := s_status st = NOT_STARTED /\ Forall task_fresh (s_tasks st).
Definition stages_legal (l l' : list stage) : Prop := grows stage_legal stage_fresh l l'.
Definition legal (l : list stage) (w : status) (l' : list stage) (w' : status) : Prop :=
  stages_legal l l' /\ can_transition w w' = true.

Lemma task_legal_refl a : task_legal a a.
Proof. apply can_transition_refl. Qed.

Lemma Forall2_refl {A} (R : A -> A -> Prop) : (forall x, R x x) -> forall l, Forall2 R l l.
Proof. intros H l. induction l; constructor; auto. Qed.

Lemma tasks_legal_refl ts : tasks_legal ts ts.
Proof. apply grows_refl, task_legal_refl. Qed.

Lemma stage_legal_refl a : stage_legal a a.
Proof. split; [apply can_transition_refl|apply tasks_legal_refl]. Qed.

Lemma stages_legal_refl l : stages_legal l l.
Proof. apply grows_refl, stage_legal_refl. Qed.

Lemma legal_refl l w : legal l w l w.
Proof. split; [apply stages_legal_refl|apply can_transition_refl]. Qed.

Lemma stages_legal_set l i st st' :
  nth_error l i = Some st -> stage_legal st st' -> stages_legal l (list_set l i st').
Proof. apply grows_set, stage_legal_refl. Qed.

Lemma stages_legal_set_none l i st' : nth_error l i = None -> stages_legal l (list_set l i st').
Proof. intros H. rewrite list_set_none by exact H. apply stages_legal_refl. Qed.

(* task list updates *)
Lemma tasks_legal_set ts t x started tk :
  nth_error ts t = Some tk -> can_transition (t_status tk) x = true ->
  tasks_legal ts (task_set ts t x started).
Proof.
  intros H Hc. unfold task_set. rewrite H. apply grows_set with tk; [apply task_legal_refl|exact H|exact Hc].
Qed.

Lemma tasks_legal_cancel ts : tasks_legal ts (cancel_tasks ts).
Proof.
  apply grows_of_Forall2. unfold cancel_tasks. induction ts as [|a ts IH]; simpl; constructor; [|exact IH].
  unfold task_legal.
  destruct (status_eqb (t_status a) NOT_STARTED) eqn:E1.
  - apply status_eqb_eq in E1. simpl. rewrite E1. reflexivity.
  - destruct (status_eqb (t_status a) RUNNING) eqn:E2; simpl.
    + apply status_eqb_eq in E2. rewrite E2. reflexivity.
    + apply can_transition_refl.
Qed.

(* a chain of commits applied from (l, w): every consecutive pair of durable states is legal *)
Fixpoint chain_legal (l : list stage) (w : status) (cs : list commit) : Prop :=
  match cs with
  | [] => True
  | c :: r => legal l w (stages_after l c) (wf_after w c) /\ chain_legal (stages_after l c) (wf_after w c) r
  end.

Lemma chain_legal_app l w cs1 cs2 :
  chain_legal l w cs1 ->
  chain_legal (fold_left stages_after cs1 l) (fold_left wf_after cs1 w) cs2 ->
  chain_legal l w (cs1 ++ cs2).
Proof.
  revert l w. induction cs1 as [|c cs1 IH]; simpl; intros l w H1 H2; [exact H2|].
  destruct H1 as [Hc Hr]. split; [exact Hc|]. apply IH; assumption.
Qed.

Lemma chain_legal_quiet l w cs : Forall (fun c => forallb quiet c = true) cs -> chain_legal l w cs.
Proof.
  revert l w. induction cs as [|c cs IH]; simpl; intros l w H; [exact I|].
  inversion H; subst. rewrite stages_after_quiet, wf_after_quiet by assumption.
  split; [apply legal_refl|]. apply IH. assumption.
Qed.

Lemma fold_stages_quiet cs : Forall (fun c => forallb quiet c = true) cs -> forall l, fold_left stages_after cs l = l.
Proof.
  induction cs as [|c cs IH]; simpl; intros H l; [reflexivity|]. inversion H; subst.
  rewrite stages_after_quiet by assumption. apply IH. assumption.
Qed.

Lemma fold_wf_quiet cs : Forall (fun c => forallb quiet c = true) cs -> forall w, fold_left wf_after cs w = w.
Proof.
  induction cs as [|c cs IH]; simpl; intros H w; [reflexivity|]. inversion H; subst.
  rewrite wf_after_quiet by assumption. apply IH. assumption.
Qed.

Lemma chain_legal_firstn l w cs k : chain_legal l w cs -> chain_legal l w (firstn k cs).
Proof.
  revert l w k. induction cs as [|c cs IH]; intros l w [|k]; simpl; auto.
  intros [H1 H2]. split; [exact H1|]. apply IH. exact H2.
Qed.

(* ------------------------------------------------------------------------------------------ *)
(* commits with at most one stage write                                                        *)
(* ------------------------------------------------------------------------------------------ *)

Lemma stages_after_one_put l q1 i st' q2 :
  forallb quiet q1 = true -> forallb quiet q2 = true ->
  stages_after l (q1 ++ OPut i st' :: q2) = list_set l i st'.
Proof.
  intros H1 H2. rewrite stages_after_app, (stages_after_quiet q1 H1).
  change (OPut i st' :: q2) with ([OPut i st'] ++ q2). rewrite stages_after_app. simpl.
  apply stages_after_quiet. exact H2.
Qed.

Lemma wf_after_one_put w q1 i st' q2 :
  forallb quiet q1 = true -> forallb quiet q2 = true -> wf_after w (q1 ++ OPut i st' :: q2) = w.
Proof.
  intros H1 H2. rewrite wf_after_app, (wf_after_quiet q1 H1).
  change (OPut i st' :: q2) with ([OPut i st'] ++ q2). rewrite wf_after_app. simpl. apply wf_after_quiet. exact H2.
Qed.

Lemma legal_one_put l w q1 i st st' q2 :
  forallb quiet q1 = true -> forallb quiet q2 = true ->
  nth_error l i = Some st -> stage_legal st st' ->
  legal l w (stages_after l (q1 ++ OPut i st' :: q2)) (wf_after w (q1 ++ OPut i st' :: q2)).
Proof.
  intros H1 H2 Hn Hl. rewrite stages_after_one_put, wf_after_one_put by assumption.
  split; [apply stages_legal_set with st; assumption|apply can_transition_refl].
Qed.

Lemma legal_one_mut l w q1 i f st q2 :
  forallb quiet q1 = true -> forallb quiet q2 = true ->
  nth_error l i = Some st -> stage_legal st (f st) ->
  legal l w (stages_after l (q1 ++ OMut i f :: q2)) (wf_after w (q1 ++ OMut i f :: q2)).
Proof.
  intros H1 H2 Hn Hl.
  assert (stages_after l (q1 ++ OMut i f :: q2) = list_set l i (f st)) as E.
  { rewrite stages_after_app, (stages_after_quiet q1 H1).
    change (OMut i f :: q2) with ([OMut i f] ++ q2). rewrite stages_after_app. simpl. rewrite Hn.
    apply stages_after_quiet. exact H2. }
  assert (wf_after w (q1 ++ OMut i f :: q2) = w) as E2.
  { rewrite wf_after_app, (wf_after_quiet q1 H1).
    change (OMut i f :: q2) with ([OMut i f] ++ q2). rewrite wf_after_app. simpl. apply wf_after_quiet. exact H2. }
  rewrite E, E2. split; [apply stages_legal_set with st; assumption|apply can_transition_refl].
Qed.

Lemma legal_one_wf l w q1 x q2 :
  forallb quiet q1 = true -> forallb quiet q2 = true -> can_transition w x = true ->
  legal l w (stages_after l (q1 ++ OWf x :: q2)) (wf_after w (q1 ++ OWf x :: q2)).
Proof.
  intros H1 H2 Hc.
  assert (stages_after l (q1 ++ OWf x :: q2) = l) as E.
  { rewrite stages_after_app, (stages_after_quiet q1 H1).
    change (OWf x :: q2) with ([OWf x] ++ q2). rewrite stages_after_app. simpl. apply stages_after_quiet. exact H2. }
  assert (wf_after w (q1 ++ OWf x :: q2) = x) as E2.
  { rewrite wf_after_app, (wf_after_quiet q1 H1).
    change (OWf x :: q2) with ([OWf x] ++ q2). rewrite wf_after_app. simpl. apply wf_after_quiet. exact H2. }
  rewrite E, E2. split; [apply stages_legal_refl|exact Hc].
Qed.

Lemma legal_quiet l w c : forallb quiet c = true -> legal l w (stages_after l c) (wf_after w c).
Proof. intros H. rewrite stages_after_quiet, wf_after_quiet by exact H. apply legal_refl. Qed.

(* stage-level legality of the record updates used by the handlers *)
Lemma stage_legal_same_status st st' :
  s_status st' = s_status st -> s_tasks st' = s_tasks st -> stage_legal st st'.
Proof. intros H1 H2. split; [rewrite H1; apply can_transition_refl|rewrite H2; apply tasks_legal_refl]. Qed.

(* commits that store a stage and ADD new (synthetic) stages *)
Lemma stages_after_adds adds : forall l, stages_after l (map OAdd adds) = l ++ adds.
Proof.
  unfold stages_after. induction adds as [|a adds IH]; simpl; intros l; [symmetry; apply app_nil_r|].
  rewrite IH, <- app_assoc. reflexivity.
Qed.

Lemma wf_after_adds adds : forall w, wf_after w (map OAdd adds) = w.
Proof. unfold wf_after. induction adds as [|a adds IH]; simpl; intros w; [reflexivity|apply IH]. Qed.

Lemma legal_put_adds l w i st st' adds q2 :
  forallb quiet q2 = true -> nth_error l i = Some st -> stage_legal st st' -> Forall stage_fresh adds ->
  legal l w (stages_after l (OPut i st' :: map OAdd adds ++ q2)) (wf_after w (OPut i st' :: map OAdd adds ++ q2)).
Proof.
  intros Hq Hn Hl Hf.
  assert (stages_after l (OPut i st' :: map OAdd adds ++ q2) = list_set l i st' ++ adds) as E1.
  { change (OPut i st' :: map OAdd adds ++ q2) with ([OPut i st'] ++ map OAdd adds ++ q2).
    rewrite !stages_after_app. simpl. rewrite stages_after_adds. apply stages_after_quiet. exact Hq. }
  assert (wf_after w (OPut i st' :: map OAdd adds ++ q2) = w) as E2.
  { change (OPut i st' :: map OAdd adds ++ q2) with ([OPut i st'] ++ map OAdd adds ++ q2).
    rewrite !wf_after_app. simpl. rewrite wf_after_adds. apply wf_after_quiet. exact Hq. }
  rewrite E1, E2. split; [|apply can_transition_refl].
  apply grows_app; [apply stages_legal_set with st; assumption|exact Hf].
Qed.

Lemma mk_children_fresh k base parent o ts : Forall stage_fresh (mk_children_from k base parent o ts).
Proof.
  revert k. induction ts as [|t ts IH]; intros k; simpl; constructor; [|apply IH].
  split; [reflexivity|constructor].
Qed.

Lemma fresh_tasks_fresh n : Forall task_fresh (fresh_tasks n).
Proof. unfold fresh_tasks. induction n; simpl; constructor; [reflexivity|assumption]. Qed.

Lemma tasks_legal_planned st : tasks_legal (s_tasks st) (planned_tasks st).
Proof.
  unfold planned_tasks. destruct (s_tasks st) as [|a ts] eqn:E; [constructor; apply fresh_tasks_fresh|apply tasks_legal_refl].
Qed.

Lemma forallb_quiet_app a b : forallb quiet (a ++ b) = forallb quiet a && forallb quiet b.
Proof. apply forallb_app. Qed.

Ltac expose :=
  cbn [h_commits ok raised chain_legal txn concat app c_put c_mark c_push c_wf c_cancel c_mutate].

Ltac solve_quiet :=
  cbn [forallb quiet andb app];
  repeat (rewrite ?forallb_quiet_app, ?quiet_pushes; cbn [forallb quiet andb]);
  reflexivity.

(* ---- StartWorkflow ---- *)
Lemma legal_start_workflow s id :
  chain_legal (w_stages s) (w_status s) (h_commits (handle_start_workflow s id)).
Proof.
  unfold handle_start_workflow.
  destruct (status_eqb (w_status s) NOT_STARTED) eqn:E; cbn [negb]; [|exact I].
  apply status_eqb_eq in E.
  destruct (w_canceled s); [exact I|].
  destruct (initial_stages s) as [|j ini]; expose; (split; [|exact I]).
  - apply (legal_one_wf _ _ [] TERMINAL (OMark id :: [])); [solve_quiet|solve_quiet|rewrite E; reflexivity].
  - apply (legal_one_wf _ _ [] RUNNING (OMark id :: c_pushes _ ++ [])); [solve_quiet|solve_quiet|rewrite E; reflexivity].
Qed.

(* ---- what the generated guards mean (re-checked against handlers/*.py on every run) ---- *)
Lemma start_task_guard_spec x : start_task_guard x = true -> x = NOT_STARTED.
Proof. destruct x; cbv; congruence. Qed.
Lemma run_task_guard_spec x : run_task_guard x = true -> x = RUNNING.
Proof. destruct x; cbv; congruence. Qed.
Lemma complete_task_guard_spec x m : complete_task_guard x m = true -> x = RUNNING \/ (x = SKIPPED /\ m = SKIPPED).
Proof. destruct x; cbv; try congruence; auto. destruct m; cbv; try congruence; auto. Qed.
Lemma complete_stage_guard_spec x : complete_stage_guard x = true -> x = RUNNING.
Proof. destruct x; cbv; congruence. Qed.
Lemma skip_stage_guard_spec x : skip_stage_guard x = true -> x = NOT_STARTED.
Proof. destruct x; cbv; congruence. Qed.
Lemma cancel_stage_guard_spec x : cancel_stage_guard x = true -> is_complete x = false.
Proof. unfold cancel_stage_guard. destruct (is_complete x); simpl; congruence. Qed.
Lemma start_stage_fresh_spec x : start_stage_fresh x = true -> x = NOT_STARTED.
Proof. destruct x; cbv; congruence. Qed.
Lemma start_stage_late_spec x : start_stage_late x = false -> x = NOT_STARTED.
Proof. destruct x; cbv; congruence. Qed.

Lemma get_stage_nth s i : get_stage s i = nth_error (w_stages s) i.
Proof. reflexivity. Qed.

(* ---- StartTask ---- *)
Lemma legal_start_task s id i t :
  chain_legal (w_stages s) (w_status s) (h_commits (handle_start_task s id i t)).
Proof.
  unfold handle_start_task.
  destruct (get_stage s i) as [st|] eqn:Hs; [|exact I].
  destruct (nth_error (s_tasks st) t) as [tk|] eqn:Ht; [|exact I].
  destruct (status_eqb (s_status st) NOT_STARTED). { expose. split; [apply legal_quiet; solve_quiet|exact I]. }
  destruct (before_incomplete s i). { expose. split; [apply legal_quiet; solve_quiet|exact I]. }
  destruct (start_task_guard (t_status tk)) eqn:G; cbn [negb].
  - apply start_task_guard_spec in G.
    destruct (t_disabled tk); expose; (split; [|exact I]).
    + apply (legal_one_put _ _ [] i st _ (OMark id :: OPush _ :: [])); [solve_quiet|solve_quiet|exact Hs|].
      split; [apply can_transition_refl|]. simpl. apply tasks_legal_set with tk; [exact Ht|rewrite G; reflexivity].
    + apply (legal_one_put _ _ [] i st _ (OMark id :: OPush _ :: [])); [solve_quiet|solve_quiet|exact Hs|].
      split; [apply can_transition_refl|]. simpl. apply tasks_legal_set with tk; [exact Ht|rewrite G; reflexivity].
  - expose. split; [apply legal_quiet; solve_quiet|exact I].
Qed.

(* ---- CompleteTask (set_task_status validates the transition; an invalid one raises) ---- *)
Lemma legal_complete_task s id i t x :
  chain_legal (w_stages s) (w_status s) (h_commits (handle_complete_task s id i t x)).
Proof.
  unfold handle_complete_task.
  destruct (get_stage s i) as [st|] eqn:Hs; [|exact I].
  destruct (nth_error (s_tasks st) t) as [tk|] eqn:Ht; [|exact I].
  destruct (complete_task_guard (t_status tk) x); cbn [negb].
  - destruct (can_transition (t_status tk) x) eqn:C; cbn [negb]; [|exact I].
    assert (stage_legal st (st_tasks st (task_set (s_tasks st) t x (t_started tk)))) as L.
    { split; [apply can_transition_refl|]. simpl. apply tasks_legal_set with tk; assumption. }
    destruct (status_eqb x REDIRECT); [|destruct (S t <? length (s_tasks st))]; expose; (split; [|exact I]).
    + apply (legal_one_put _ _ [] i st _ (OMark id :: [])); [solve_quiet|solve_quiet|exact Hs|exact L].
    + apply (legal_one_put _ _ [] i st _ (OMark id :: OPush _ :: [])); [solve_quiet|solve_quiet|exact Hs|exact L].
    + apply (legal_one_put _ _ [] i st _ (OMark id :: OPush _ :: [])); [solve_quiet|solve_quiet|exact Hs|exact L].
  - expose. split; [apply legal_quiet; solve_quiet|exact I].
Qed.

(* ---- SkipStage ---- *)
Lemma legal_skip_stage s id i :
  chain_legal (w_stages s) (w_status s) (h_commits (handle_skip_stage s id i)).
Proof.
  unfold handle_skip_stage.
  destruct (get_stage s i) as [st|] eqn:Hs; [|exact I].
  destruct (skip_stage_guard (s_status st)) eqn:G; cbn [negb]; [|exact I].
  apply skip_stage_guard_spec in G. expose. split; [|exact I].
  apply (legal_one_put _ _ [] i st _ (OMark id :: c_pushes _ ++ [])); [solve_quiet|solve_quiet|exact Hs|].
  split; [simpl; rewrite G; reflexivity|simpl; apply tasks_legal_refl].
Qed.

(* ---- CancelStage ---- *)
Lemma legal_cancel_stage s id i :
  chain_legal (w_stages s) (w_status s) (h_commits (handle_cancel_stage s id i)).
Proof.
  unfold handle_cancel_stage.
  destruct (get_stage s i) as [st|] eqn:Hs; [|exact I].
  destruct (cancel_stage_guard (s_status st)); cbn [negb]; [|exact I].
  destruct (can_transition (s_status st) CANCELED) eqn:C; cbn [negb]; [|exact I].
  expose. split; [|exact I].
  apply (legal_one_put _ _ [] i st _ (OMark id :: [])); [solve_quiet|solve_quiet|exact Hs|].
  split; [exact C|simpl; apply tasks_legal_cancel].
Qed.

(* ---- CompleteWorkflow ---- *)
Lemma legal_complete_workflow s id k :
  chain_legal (w_stages s) (w_status s) (h_commits (handle_complete_workflow s id k)).
Proof.
  unfold handle_complete_workflow.
  destruct (is_complete (w_status s)); [exact I|].
  destruct (determine_final_status _ _ _ _) as [x|].
  - destruct (can_transition (w_status s) x) eqn:C; cbn [negb]; [|exact I].
    expose. split; [|exact I].
    apply (legal_one_wf _ _ [] x (OMark id :: c_pushes _ ++ [])); [solve_quiet|solve_quiet|exact C].
  - expose. split; [apply legal_quiet; solve_quiet|exact I].
Qed.

(* ---- CancelWorkflow ---- *)
Lemma legal_cancel_workflow s id :
  chain_legal (w_stages s) (w_status s) (h_commits (handle_cancel_workflow s id)).
Proof.
  unfold handle_cancel_workflow.
  destruct (is_complete (w_status s)); expose.
  - split; [apply legal_quiet; solve_quiet|exact I].
  - split; [apply legal_quiet; solve_quiet|].
    rewrite stages_after_quiet, wf_after_quiet by solve_quiet.
    split; [apply legal_quiet; solve_quiet|exact I].
Qed.

(* ---- SignalStage ---- *)
Lemma find_combine_seq {A} (p : nat * A -> bool) ti x : forall (l : list A) b,
  find p (combine (seq b (length l)) l) = Some (ti, x) -> b <= ti /\ nth_error l (ti - b) = Some x /\ p (ti, x) = true.
Proof.
  induction l as [|a l IH]; simpl; intros b H; [discriminate|].
  destruct (p (b, a)) eqn:E.
  - inversion H; subst. rewrite Nat.sub_diag. auto.
  - apply IH in H. destruct H as [H1 [H2 H3]]. split; [lia|]. split; [|exact H3].
    replace (ti - b) with (S (ti - S b)) by lia. exact H2.
Qed.

Lemma find_combine_nth {A} (p : nat * A -> bool) (l : list A) ti x :
  find p (combine (seqn (length l)) l) = Some (ti, x) -> nth_error l ti = Some x /\ p (ti, x) = true.
Proof.
  unfold seqn. intros H. apply find_combine_seq in H. destruct H as [_ [H2 H3]].
  rewrite Nat.sub_0_r in H2. auto.
Qed.

Lemma legal_signal_stage s id i n p :
  chain_legal (w_stages s) (w_status s) (h_commits (handle_signal_stage s id i n p)).
Proof.
  unfold handle_signal_stage.
  destruct (get_stage s i) as [st|] eqn:Hs; [|exact I].
  destruct (status_eqb (s_status st) SUSPENDED) eqn:E.
  - apply status_eqb_eq in E.
    destruct (find _ _) as [[ti tk]|] eqn:F; expose; (split; [|exact I]).
    + apply find_combine_nth in F. destruct F as [Hn Hp]. simpl in Hp. apply status_eqb_eq in Hp.
      apply (legal_one_put _ _ [] i st _ (OMark id :: OPush _ :: [])); [solve_quiet|solve_quiet|exact Hs|].
      split; [simpl; rewrite E; reflexivity|]. simpl. apply tasks_legal_set with tk; [exact Hn|rewrite Hp; reflexivity].
    + apply (legal_one_put _ _ [] i st _ (OMark id :: OPush _ :: [])); [solve_quiet|solve_quiet|exact Hs|].
      split; [simpl; rewrite E; reflexivity|simpl; apply tasks_legal_refl].
  - destruct p; expose; (split; [|exact I]).
    + apply (legal_one_put _ _ [] i st _ (OMark id :: [])); [solve_quiet|solve_quiet|exact Hs|].
      apply stage_legal_same_status; reflexivity.
    + apply legal_quiet; solve_quiet.
Qed.

(* ---- RunTask: result processing writes no status, except the suspend path (direct assignment) ---- *)
Definition running_task_in_running_stage (s : state) : Prop :=
  forall i st tk, get_stage s i = Some st -> In tk (s_tasks st) -> t_status tk = RUNNING -> s_status st = RUNNING.

Lemma legal_put_same l w i st st' q2 :
  forallb quiet q2 = true -> nth_error l i = Some st ->
  s_status st' = s_status st -> s_tasks st' = s_tasks st ->
  legal l w (stages_after l (OPut i st' :: q2)) (wf_after w (OPut i st' :: q2)).
Proof.
  intros Hq Hn H1 H2. apply (legal_one_put l w [] i st st' q2); [reflexivity|exact Hq|exact Hn|].
  apply stage_legal_same_status; assumption.
Qed.

Lemma legal_process_result s id i t st tk r :
  get_stage s i = Some st -> nth_error (s_tasks st) t = Some tk -> t_status tk = RUNNING ->
  (match r with RSuspend => s_status st = RUNNING | _ => True end) ->
  chain_legal (w_stages s) (w_status s) (process_result s id i t st tk r).
Proof.
  intros Hs Ht Hr Hsus. unfold process_result.
  destruct r; expose; try exact I;
    try (split; [|exact I]; apply legal_put_same with st; [solve_quiet|exact Hs|reflexivity|reflexivity]).
  (* RSuspend *)
  destruct (s_buffered st) as [|sig rest]; expose; (split; [|exact I]).
  - apply (legal_one_put _ _ [] i st _ (OMark id :: [])); [solve_quiet|solve_quiet|exact Hs|].
    split; [simpl; rewrite Hsus; reflexivity|]. simpl. apply tasks_legal_set with tk; [exact Ht|rewrite Hr; reflexivity].
  - apply (legal_one_put _ _ [] i st _ (OMark id :: OPush _ :: [])); [solve_quiet|solve_quiet|exact Hs|].
    split; [simpl; rewrite Hsus; reflexivity|]. simpl. apply tasks_legal_set with tk; [exact Ht|rewrite Hr; reflexivity].
Qed.

Lemma legal_handle_exception s id i t st a r :
  get_stage s i = Some st ->
  chain_legal (w_stages s) (w_status s) (handle_exception s id i t st a r).
Proof.
  intros Hs. unfold handle_exception, mark_terminal.
  destruct r; expose; try (split; [|exact I]; apply legal_put_same with st; [solve_quiet|exact Hs|reflexivity|reflexivity]).
  destruct (retry_guard a default_max_attempts).
  - destruct ctx; expose; (split; [|exact I]).
    + apply legal_quiet; solve_quiet.
    + apply legal_put_same with st; [solve_quiet|exact Hs|reflexivity|reflexivity].
  - expose. split; [|exact I]. apply legal_put_same with st; [solve_quiet|exact Hs|reflexivity|reflexivity].
Qed.

Definition never_suspends (orc : oracle) : Prop := forall i t n, orc i t n <> RSuspend.

Lemma legal_run_task orc s id i t a :
  running_task_in_running_stage s \/ never_suspends orc ->
  chain_legal (w_stages s) (w_status s) (h_commits (handle_run_task orc s id i t a)).
Proof.
  intros Inv. unfold handle_run_task.
  destruct (get_stage s i) as [st|] eqn:Hs; [|exact I].
  destruct (nth_error (s_tasks st) t) as [tk|] eqn:Ht; [|exact I].
  destruct (run_task_guard (t_status tk)) eqn:G; cbn [negb].
  2:{ expose. split; [apply legal_quiet; solve_quiet|exact I]. }
  apply run_task_guard_spec in G.
  destruct (w_canceled s). { expose. split; [apply legal_quiet; solve_quiet|exact I]. }
  destruct (is_complete (w_status s)). { expose. split; [apply legal_quiet; solve_quiet|exact I]. }
  destruct (status_eqb (w_status s) PAUSED). { expose. split; [apply legal_quiet; solve_quiet|exact I]. }
  cbn [h_commits].
  destruct (orc i t (count_execs s i t)) eqn:R;
    try (apply legal_handle_exception; exact Hs);
    try (apply legal_process_result; [exact Hs|exact Ht|exact G|exact I]).
  (* RSuspend: the only unvalidated status assignment *)
  apply legal_process_result; [exact Hs|exact Ht|exact G|].
  destruct Inv as [Inv|Ns].
  - apply (Inv i st tk Hs); [eapply nth_error_In; exact Ht|exact G].
  - exfalso. apply (Ns i t (count_execs s i t)). exact R.
Qed.

(* ---- CompleteStage: join tracking (benign re-writes of downstream stages) then the validated status write ---- *)
Definition same_status (a b : stage) : Prop := s_status b = s_status a /\ s_tasks b = s_tasks a.
Definition benign (c : commit) : Prop := exists d f, c = [OMut d f] /\ forall st, same_status st (f st).

Lemma same_status_refl a : same_status a a.
Proof. split; reflexivity. Qed.

Lemma same_status_trans a b c : same_status a b -> same_status b c -> same_status a c.
Proof. intros [H1 H2] [H3 H4]. split; congruence. Qed.

Lemma benign_step l w c :
  benign c -> legal l w (stages_after l c) (wf_after w c) /\ Forall2 same_status l (stages_after l c) /\ wf_after w c = w.
Proof.
  intros [d [f [E Hf]]]. subst c. unfold stages_after, wf_after. simpl.
  destruct (nth_error l d) as [st|] eqn:Hn.
  - split; [|split; [|reflexivity]].
    + split; [apply stages_legal_set with st; [exact Hn|]|apply can_transition_refl].
      destruct (Hf st) as [H1 H2]. apply stage_legal_same_status; assumption.
    + clear - Hn Hf. revert d Hn. induction l as [|a l IH]; intros [|d] Hn; simpl in *; try discriminate.
      * inversion Hn; subst. constructor; [apply Hf|apply Forall2_refl, same_status_refl].
      * constructor; [apply same_status_refl|apply IH; exact Hn].
  - split; [apply legal_refl|]. split; [apply Forall2_refl, same_status_refl|reflexivity].
Qed.

Lemma Forall2_same_trans l1 l2 l3 :
  Forall2 same_status l1 l2 -> Forall2 same_status l2 l3 -> Forall2 same_status l1 l3.
Proof.
  intros H. revert l3. induction H; intros l3 H3; inversion H3; subst; constructor.
  - eapply same_status_trans; eassumption.
  - apply IHForall2. assumption.
Qed.

Lemma benign_chain cs : Forall benign cs -> forall l w,
  chain_legal l w cs /\ Forall2 same_status l (fold_left stages_after cs l) /\ fold_left wf_after cs w = w.
Proof.
  induction cs as [|c cs IH]; simpl; intros H l w.
  - split; [exact I|]. split; [apply Forall2_refl, same_status_refl|reflexivity].
  - inversion H; subst. destruct (benign_step l w c H2) as [L [S W]].
    destruct (IH H3 (stages_after l c) (wf_after w c)) as [C [S2 W2]].
    split; [split; assumption|]. split; [eapply Forall2_same_trans; eassumption|congruence].
Qed.

Lemma benign_join_tracking s i ds : Forall benign (join_tracking s i ds).
Proof.
  unfold join_tracking. induction ds as [|d ds IH]; simpl; [constructor|].
  apply Forall_app. split; [|exact IH].
  destruct (get_stage s d) as [dst|]; [|constructor].
  destruct (s_join dst); try constructor;
    destruct (mem_nat i (s_branches dst)); constructor; try constructor;
    (eexists; eexists; split; [reflexivity|]; intros st; split; reflexivity).
Qed.

Lemma Forall2_nth_same l l' i st :
  Forall2 same_status l l' -> nth_error l i = Some st -> exists st', nth_error l' i = Some st' /\ same_status st st'.
Proof.
  intros H. revert i. induction H; intros [|i] Hn; simpl in *; try discriminate.
  - inversion Hn; subst. eauto.
  - apply IHForall2. exact Hn.
Qed.

Lemma mk_children_fresh' base parent o ts : Forall stage_fresh (mk_children base parent o ts).
Proof. apply mk_children_fresh. Qed.

Lemma if_fresh (b : bool) l : Forall stage_fresh l -> Forall stage_fresh (if b then l else []).
Proof. destruct b; [auto|constructor]. Qed.

Lemma legal_complete_stage s id i :
  chain_legal (w_stages s) (w_status s) (h_commits (handle_complete_stage s id i)).
Proof.
  unfold handle_complete_stage.
  destruct (get_stage s i) as [st|] eqn:Hs; [|exact I].
  destruct (status_eqb (s_status st) NOT_STARTED). { expose. split; [apply legal_quiet; solve_quiet|exact I]. }
  destruct (complete_stage_guard (s_status st)); cbn [negb].
  2:{ destruct (is_halt (s_status st)); expose; [split; [apply legal_quiet; solve_quiet|exact I]|exact I]. }
  set (x := determine_status _ _ _ _ _ _).
  set (first_after := filter (initial_at s) (kids s i OwnAfter)).
  set (do_after := _ || _).
  set (new_after := if do_after && is_nil first_after then _ else []).
  assert (Forall stage_fresh new_after) as Fa by (apply if_fresh, mk_children_fresh').
  set (after_ns := _ ++ new_initial _ new_after).
  destruct (do_after && negb (is_nil after_ns)).
  { expose. split; [|exact I].
    apply legal_put_adds with st; [solve_quiet|exact Hs|apply stage_legal_same_status; reflexivity|exact Fa]. }
  set (failing := negb do_after && is_failure x).
  destruct (failing && existsb _ first_after). { expose. split; [apply legal_quiet; solve_quiet|exact I]. }
  set (new_fail := if failing && negb (s_onfail st) then _ else []).
  assert (Forall stage_fresh new_fail) as Ff by (apply if_fresh, mk_children_fresh').
  set (fail_ns := _ ++ new_initial _ new_fail).
  destruct (negb (is_nil new_fail) && negb (is_nil fail_ns)).
  { expose. split; [|exact I].
    apply legal_put_adds with st; [solve_quiet|exact Hs|apply stage_legal_same_status; reflexivity|exact Ff]. }
  set (st2 := if negb (is_nil new_fail) then with_onfail st true else st).
  assert (s_status st2 = s_status st /\ s_tasks st2 = s_tasks st) as [E2s E2t]
    by (unfold st2; destruct (negb (is_nil new_fail)); split; reflexivity).
  destruct (status_eqb x RUNNING). { expose. split; [apply legal_quiet; solve_quiet|exact I]. }
  cbn zeta.
  set (x2 := if status_eqb x FAILED_CONTINUE && y_blocking (s_syn st2) then TERMINAL else x).
  destruct (can_transition (s_status st2) x2) eqn:C; cbn [negb]; [|exact I].
  assert (stage_legal st (st_end st2 x2)) as L.
  { split; [simpl; rewrite <- E2s; exact C|simpl; rewrite E2t; apply tasks_legal_refl]. }
  destruct (status_eqb x2 SUCCEEDED || status_eqb x2 FAILED_CONTINUE || status_eqb x2 SKIPPED).
  - cbn [h_commits ok].
    destruct (benign_chain _ (benign_join_tracking s i (downstream s i)) (w_stages s) (w_status s)) as [Ch [Sm Wf]].
    apply chain_legal_app; [exact Ch|]. rewrite Wf.
    destruct (Forall2_nth_same _ _ _ _ Sm Hs) as [st' [Hn [E1 E2]]].
    expose. split; [|exact I].
    apply (legal_one_put _ _ [] i st' _ (OMark id :: c_pushes _ ++ [])); [solve_quiet|solve_quiet|exact Hn|].
    split; [simpl; rewrite E1, <- E2s; exact C|simpl; rewrite E2, E2t; apply tasks_legal_refl].
  - expose. split; [|exact I].
    apply (legal_one_put _ _ [] i st _ (OPush _ :: OPush _ :: [])); [solve_quiet|solve_quiet|exact Hs|exact L].
Qed.

(* ---- StartStage ---- *)
Lemma quiet_chain_map_push {A} (f : A -> msg) l : Forall (fun c => forallb quiet c = true) (map (fun j => c_push (f j)) l).
Proof. induction l; simpl; constructor; auto. Qed.

Lemma legal_start_if_ready s id i k st0 bypass :
  get_stage s i = Some st0 ->
  chain_legal (w_stages s) (w_status s) (h_commits (start_if_ready s id i k st0 bypass)).
Proof.
  intros Hs. unfold start_if_ready.
  set (st := if bypass then st_ctl st0 false (s_jump_count st0) (s_buffered st0) (s_signal st0) else st0).
  assert (s_status st = s_status st0 /\ s_tasks st = s_tasks st0) as [Est Ets] by (unfold st; destruct bypass; split; reflexivity).
  set (zombie := status_eqb (s_status st) RUNNING && (s_plan_pending st || (is_nil (s_tasks st) && is_nil (children s i)))).
  destruct (negb (start_stage_fresh (s_status st)) && negb zombie) eqn:E0; [exact I|].
  destruct (should_skip st). { expose. split; [apply legal_quiet; solve_quiet|exact I]. }
  destruct (milestone_expired s st). { expose. split; [apply legal_quiet; solve_quiet|exact I]. }
  destruct (mutex_blocked s i st). { expose. split; [apply legal_quiet; solve_quiet|exact I]. }
  destruct (status_eqb (s_status st) NOT_STARTED && choice_claimed s i st). { expose. split; [apply legal_quiet; solve_quiet|exact I]. }
  destruct (y_expired (s_syn st)). { expose. split; [apply legal_quiet; solve_quiet|exact I]. }
  set (m := match s_mutex st with Some k0 => acquire_claim s true k0 i true | None => (true, w_claims s) end).
  destruct (fst m); cbn [negb]. 2:{ expose. split; [apply legal_quiet; solve_quiet|exact I]. }
  set (c := match s_choice st with Some g => acquire_claim (with_claims (snd m) s) false g i false | None => (true, snd m) end).
  destruct (fst c); cbn [negb]. 2:{ expose. split; [apply legal_quiet; solve_quiet|exact I]. }
  set (claimed := if zombie then st_touch st else with_pending _ true).
  assert (stage_legal st0 claimed) as Lc.
  { unfold claimed. destruct zombie eqn:Z.
    - apply stage_legal_same_status; simpl; assumption.
    - split; [|simpl; rewrite Ets; apply tasks_legal_refl].
      simpl. rewrite andb_false_r in E0 || idtac.
      assert (start_stage_fresh (s_status st) = true) as F.
      { destruct (start_stage_fresh (s_status st)); [reflexivity|]. simpl in E0. discriminate. }
      apply start_stage_fresh_spec in F. rewrite <- Est, F. reflexivity. }
  cbn [h_commits ok].
  (* claim commit, sibling cancels, plan commit *)
  set (claim_commit := [OClaims (snd c); OPut i claimed] ++ (if zombie then [] else [OGStart i (s_jump_count st)])).
  assert (stages_after (w_stages s) claim_commit = list_set (w_stages s) i claimed /\ wf_after (w_status s) claim_commit = w_status s) as [SA WA].
  { unfold claim_commit. split.
    - apply (stages_after_one_put _ [OClaims (snd c)] i claimed); [reflexivity|destruct zombie; reflexivity].
    - apply (wf_after_one_put _ [OClaims (snd c)] i claimed); [reflexivity|destruct zombie; reflexivity]. }
  change ([claim_commit] ++ ?a ++ ?b) with (claim_commit :: a ++ b).
  cbn [chain_legal app]. rewrite SA, WA. split.
  - split; [apply stages_legal_set with st0; [exact Hs|exact Lc]|apply can_transition_refl].
  - apply chain_legal_app.
    + apply chain_legal_quiet. destruct (s_choice st); [apply quiet_chain_map_push|constructor].
    + rewrite fold_stages_quiet, fold_wf_quiet by (destruct (s_choice st); [apply quiet_chain_map_push|constructor]).
      expose. split; [|exact I].
      apply legal_put_adds with claimed; [solve_quiet| | |].
      * apply nth_list_set_same with st0. exact Hs.
      * split; [apply can_transition_refl|]. simpl.
        replace (s_tasks claimed) with (s_tasks st) by (unfold claimed; destruct zombie; reflexivity).
        apply tasks_legal_planned.
      * unfold new_before. destruct (kids s i OwnBefore); [apply mk_children_fresh'|constructor].
Qed.

Lemma legal_start_stage s id i k :
  chain_legal (w_stages s) (w_status s) (h_commits (handle_start_stage s id i k)).
Proof.
  unfold handle_start_stage.
  destruct (get_stage s i) as [st|] eqn:Hs; [|exact I].
  destruct (parent_not_started s st). { expose. split; [apply legal_quiet; solve_quiet|exact I]. }
  set (r := evaluate_readiness _ _ _).
  assert (chain_legal (w_stages s) (w_status s)
            (h_commits (if start_stage_late (s_status st) then ok []
                        else if start_stage_waits r (upstream s st) then ok []
                        else if wait_exhausted k max_stage_wait_retries
                             then if can_transition (s_status st) TERMINAL
                                  then ok [txn [c_put i (st_set st TERMINAL (s_started st) true (s_fired st) (s_branches st) true (s_ctx st) (s_outs st) (s_tasks st)); c_push (MCompleteStage i)]]
                                  else ok [txn [c_put i (st_exc st); c_push (MCompleteStage i)]]
                             else ok [c_push (MStartStage i (k + 1))]))) as Hw.
  { destruct (start_stage_late (s_status st)); [exact I|].
    destruct (start_stage_waits r (upstream s st)); [exact I|].
    destruct (wait_exhausted k max_stage_wait_retries).
    - destruct (can_transition (s_status st) TERMINAL) eqn:C; expose; (split; [|exact I]).
      + apply (legal_one_put _ _ [] i st _ (OPush _ :: [])); [solve_quiet|solve_quiet|exact Hs|].
        split; [exact C|simpl; apply tasks_legal_refl].
      + apply legal_put_same with st; [solve_quiet|exact Hs|reflexivity|reflexivity].
    - expose. split; [apply legal_quiet; solve_quiet|exact I]. }
  destruct (rr_phase r).
  - apply legal_start_if_ready. exact Hs.
  - exact Hw.
  - expose. split; [apply legal_quiet; solve_quiet|exact I].
  - exact Hw.
Qed.

(* ---- PauseTask / ResumeStage ---- *)
Lemma legal_pause_task s id i t :
  chain_legal (w_stages s) (w_status s) (h_commits (handle_pause_task s id i t)).
Proof.
  unfold handle_pause_task.
  destruct (get_stage s i) as [st|] eqn:Hs; [|exact I].
  destruct (nth_error (s_tasks st) t) as [tk|] eqn:Ht; [|exact I].
  destruct (is_complete (t_status tk)). { expose. split; [apply legal_quiet; solve_quiet|exact I]. }
  destruct (can_transition (t_status tk) PAUSED) eqn:C1; cbn [negb orb]; [|exact I].
  destruct (can_transition (s_status st) PAUSED) eqn:C2; cbn [negb]; [|exact I].
  expose. split; [|exact I].
  apply (legal_one_put _ _ [] i st _ (OMark id :: [])); [solve_quiet|solve_quiet|exact Hs|].
  split; [exact C2|]. simpl. apply tasks_legal_set with tk; assumption.
Qed.

Lemma legal_put_wf l w i st st' x q2 :
  forallb quiet q2 = true -> nth_error l i = Some st -> stage_legal st st' -> can_transition w x = true ->
  legal l w (stages_after l (OPut i st' :: OWf x :: q2)) (wf_after w (OPut i st' :: OWf x :: q2)).
Proof.
  intros Hq Hn Hl Hc.
  assert (stages_after l (OPut i st' :: OWf x :: q2) = list_set l i st') as E1.
  { change (OPut i st' :: OWf x :: q2) with ([OPut i st'; OWf x] ++ q2). rewrite stages_after_app. simpl.
    apply stages_after_quiet. exact Hq. }
  assert (wf_after w (OPut i st' :: OWf x :: q2) = x) as E2.
  { change (OPut i st' :: OWf x :: q2) with ([OPut i st'; OWf x] ++ q2). rewrite wf_after_app. simpl.
    apply wf_after_quiet. exact Hq. }
  rewrite E1, E2. split; [apply stages_legal_set with st; assumption|exact Hc].
Qed.

Lemma legal_resume_stage s id i :
  chain_legal (w_stages s) (w_status s) (h_commits (handle_resume_stage s id i)).
Proof.
  unfold handle_resume_stage.
  destruct (get_stage s i) as [st|] eqn:Hs; [|exact I].
  destruct (status_eqb (s_status st) PAUSED) eqn:E; cbn [negb].
  2:{ expose. split; [apply legal_quiet; solve_quiet|exact I]. }
  apply status_eqb_eq in E.
  destruct (find _ _) as [[ti tk]|] eqn:F.
  - apply find_combine_nth in F. destruct F as [Hn Hp]. simpl in Hp. apply status_eqb_eq in Hp.
    assert (stage_legal st (st_set st RUNNING (s_started st) (s_ended st) (s_fired st) (s_branches st) (s_has_exc st)
                                   (s_ctx st) (s_outs st) (task_set (s_tasks st) ti RUNNING (t_started tk)))) as L.
    { split; [simpl; rewrite E; reflexivity|]. simpl. apply tasks_legal_set with tk; [exact Hn|rewrite Hp; reflexivity]. }
    destruct (status_eqb (w_status s) PAUSED) eqn:W; expose; (split; [|exact I]).
    + apply status_eqb_eq in W. apply legal_put_wf with st; [solve_quiet|exact Hs|exact L|rewrite W; reflexivity].
    + apply (legal_one_put _ _ [] i st _ (OMark id :: OPush _ :: [])); [solve_quiet|solve_quiet|exact Hs|exact L].
  - assert (stage_legal st (st_status st RUNNING)) as L.
    { split; [simpl; rewrite E; reflexivity|simpl; apply tasks_legal_refl]. }
    destruct (status_eqb (w_status s) PAUSED) eqn:W; expose; (split; [|exact I]).
    + apply status_eqb_eq in W. apply legal_put_wf with st; [solve_quiet|exact Hs|exact L|rewrite W; reflexivity].
    + apply (legal_one_put _ _ [] i st _ (OMark id :: [])); [solve_quiet|solve_quiet|exact Hs|exact L].
Qed.

(* ---- ContinueParentStage ---- *)
Lemma legal_continue_parent s id i o k :
  chain_legal (w_stages s) (w_status s) (h_commits (handle_continue_parent s id i o k)).
Proof.
  unfold handle_continue_parent.
  destruct (get_stage s i) as [st|] eqn:Hs; [|exact I].
  destruct (existsb in_halt _).
  { cbn zeta. match goal with |- context [can_transition (s_status st) ?x] => destruct (can_transition (s_status st) x) eqn:C end; cbn [negb]; [|exact I].
    expose. split; [|exact I].
    apply (legal_one_put _ _ [] i st _ (OMark id :: OPush _ :: [])); [solve_quiet|solve_quiet|exact Hs|].
    split; [exact C|simpl; apply tasks_legal_refl]. }
  destruct (forallb in_continuable _); cbn [negb].
  2:{ destruct (max_stage_wait_retries <=? k)%Z.
      - destruct (can_transition (s_status st) TERMINAL) eqn:C; cbn [negb]; [|exact I].
        expose. split; [|exact I].
        apply (legal_one_put _ _ [] i st _ (OMark id :: OPush _ :: [])); [solve_quiet|solve_quiet|exact Hs|].
        split; [exact C|simpl; apply tasks_legal_refl].
      - expose. split; [apply legal_quiet; solve_quiet|exact I]. }
  destruct o.
  - destruct (s_tasks st). 2:{ expose. split; [apply legal_quiet; solve_quiet|exact I]. }
    destruct (filter (initial_at s) (kids s i OwnAfter)). { expose. split; [apply legal_quiet; solve_quiet|exact I]. }
    destruct (filter _ (n :: l)); [exact I|].
    expose. split; [apply legal_quiet; solve_quiet|exact I].
  - expose. split; [apply legal_quiet; solve_quiet|exact I].
Qed.

(* ------------------------------------------------------------------------------------------ *)
(* every commit of every delivery, recovery sweep and request                                  *)
(* ------------------------------------------------------------------------------------------ *)

(* the two re-arm exceptions of the property: a jump, and an operator restart *)
Definition is_jump (m : msg) : bool := match m with MJumpToStage _ _ _ _ | MRestartStage _ => true | _ => false end.

Lemma legal_handle orc s r :
  running_task_in_running_stage s \/ never_suspends orc -> is_jump (q_msg r) = false ->
  chain_legal (w_stages s) (w_status s) (h_commits (handle orc s r)).
Proof.
  intros Inv Hj. unfold handle. destruct (q_msg r); try discriminate.
  - apply legal_start_workflow.
  - apply legal_complete_workflow.
  - apply legal_cancel_workflow.
  - apply legal_start_stage.
  - apply legal_complete_stage.
  - apply legal_skip_stage.
  - apply legal_cancel_stage.
  - apply legal_start_task.
  - apply legal_run_task. exact Inv.
  - apply legal_complete_task.
  - apply legal_signal_stage.
  - apply legal_pause_task.
  - apply legal_resume_stage.
  - apply legal_continue_parent.
Qed.

Fixpoint pairwise_legal (s : state) (ss : list state) : Prop :=
  match ss with
  | [] => True
  | s' :: r => legal (w_stages s) (w_status s) (w_stages s') (w_status s') /\ pairwise_legal s' r
  end.

Lemma scan_legal cs : forall s, chain_legal (w_stages s) (w_status s) cs -> pairwise_legal s (scan_commits cs s).
Proof.
  induction cs as [|c cs IH]; simpl; intros s H; [exact I|]. destruct H as [H1 H2].
  rewrite stages_apply_commit, wf_apply_commit. split; [exact H1|].
  apply IH. rewrite stages_apply_commit, wf_apply_commit. exact H2.
Qed.

Lemma pairwise_legal_ext a b ss :
  w_stages a = w_stages b -> w_status a = w_status b -> pairwise_legal a ss -> pairwise_legal b ss.
Proof. destruct ss; simpl; [auto|]. intros E1 E2. rewrite E1, E2. auto. Qed.

Lemma stages_pre p s : w_stages (apply_pre p s) = w_stages s /\ w_status (apply_pre p s) = w_status s.
Proof. destruct p as [[i t]|]; split; reflexivity. Qed.

Lemma inv_bump id s orc : running_task_in_running_stage s \/ never_suspends orc ->
  running_task_in_running_stage (bump_attempts id s) \/ never_suspends orc.
Proof. intros [H|H]; [left; intros i st tk; apply H|right; exact H]. Qed.

Lemma delivery_chain orc s id do_ack d :
  running_task_in_running_stage s \/ never_suspends orc ->
  (forall r, find_row s id = Some r -> is_jump (q_msg r) = false) ->
  delivery_commits orc s id do_ack = Some d ->
  d_poll d = [OBump id] /\ chain_legal (w_stages s) (w_status s) (d_rest d).
Proof.
  intros Inv Hj. unfold delivery_commits.
  destruct (find_row s id) as [r0|] eqn:Hr; [|discriminate].
  destruct (queue_max_attempts <=? q_attempts r0)%Z; [discriminate|].
  destruct (mem_nat id (w_processed (bump_attempts id s))).
  - intros H. inversion H. simpl. split; [reflexivity|].
    destruct do_ack; [|exact I]. simpl. split; [apply legal_refl|exact I].
  - intros H. inversion H. simpl. split; [reflexivity|].
    apply chain_legal_app.
    + apply (legal_handle orc (bump_attempts id s)); [apply inv_bump; exact Inv|]. simpl. apply (Hj r0). reflexivity.
    + apply chain_legal_quiet. destruct (h_raised _); [constructor|].
      constructor; [reflexivity|]. destruct do_ack; constructor; [reflexivity|constructor].
Qed.

(* the jump exception of the property: deliveries of a JumpToStage message may re-arm stages *)
Definition delivers_jump (s : state) (a : action) : Prop :=
  match a with
  | Deliver id _ | DeliverCut id _ => exists r, find_row s id = Some r /\ is_jump (q_msg r) = true
  | Pause => w_status s <> RUNNING      (* store.pause on a workflow that is not running: operator misuse, unvalidated *)
  | _ => False
  end.

Lemma not_jump_rows s id :
  ~ (exists r, find_row s id = Some r /\ is_jump (q_msg r) = true) ->
  forall r, find_row s id = Some r -> is_jump (q_msg r) = false.
Proof. intros H r Hr. destruct (is_jump (q_msg r)) eqn:E; [|reflexivity]. exfalso. apply H. eauto. Qed.

Theorem commit_legal_gen orc s a :
  running_task_in_running_stage s \/ never_suspends orc -> ~ delivers_jump s a ->
  pairwise_legal s (step_trace orc s a).
Proof.
  intros Inv Hj. destruct a; simpl in *.
  - destruct (delivery_commits orc s id do_ack) as [d|] eqn:Hd; [|exact I].
    destruct (delivery_chain _ _ _ _ _ Inv (not_jump_rows _ _ Hj) Hd) as [Hp Hc].
    rewrite Hp. simpl. split; [apply legal_refl|].
    destruct (stages_pre (d_pre d) (bump_attempts id s)) as [E1 E2].
    apply (pairwise_legal_ext (apply_pre (d_pre d) (bump_attempts id s))); [exact E1|exact E2|].
    apply scan_legal. rewrite E1, E2. exact Hc.
  - destruct k as [|k']; [exact I|].
    destruct (delivery_commits orc s id true) as [d|] eqn:Hd; [|exact I].
    destruct (delivery_chain _ _ _ _ _ Inv (not_jump_rows _ _ Hj) Hd) as [Hp Hc].
    rewrite Hp. simpl. split; [apply legal_refl|].
    destruct (stages_pre (d_pre d) (bump_attempts id s)) as [E1 E2].
    apply (pairwise_legal_ext (apply_pre (d_pre d) (bump_attempts id s))); [exact E1|exact E2|].
    apply scan_legal. rewrite E1, E2. apply chain_legal_firstn. exact Hc.
  - split; [|exact I]. unfold recover. rewrite stages_apply_commit, wf_apply_commit.
    apply legal_quiet. apply quiet_pushes.
  - split; [apply legal_refl|exact I].
  - split; [apply legal_refl|exact I].
  - split; [apply legal_refl|exact I].
  - split; [|exact I]. split; [apply stages_legal_refl|].
    destruct (status_dec (w_status s) RUNNING) as [E|E]; [rewrite E; reflexivity|contradiction].
  - split; [|exact I]. rewrite stages_apply_commit, wf_apply_commit. apply legal_quiet. apply quiet_pushes.
  - split; [apply legal_refl|exact I].
Qed.

Theorem commit_legal orc s a :
  running_task_in_running_stage s -> ~ delivers_jump s a -> pairwise_legal s (step_trace orc s a).
Proof. intros H. apply commit_legal_gen. left. exact H. Qed.

(* for tasks that never suspend the statement needs no invariant at all: it holds in EVERY state *)
Theorem commit_legal_nosuspend orc s a :
  never_suspends orc -> ~ delivers_jump s a -> pairwise_legal s (step_trace orc s a).
Proof. intros H. apply commit_legal_gen. right. exact H. Qed.

(* completed is final: in a legal step a completed stage / task / workflow status does not change *)
Lemma legal_completed_final l w l' w' :
  legal l w l' w' ->
  (is_complete w = true -> w' = w) /\
  (forall i st st', nth_error l i = Some st -> nth_error l' i = Some st' ->
     (is_complete (s_status st) = true -> s_status st' = s_status st) /\
     (forall t tk tk', nth_error (s_tasks st) t = Some tk -> nth_error (s_tasks st') t = Some tk' ->
        is_complete (t_status tk) = true -> t_status tk' = t_status tk)).
Proof.
  intros [Hs Hw]. split.
  - intros Hc. symmetry. apply (completed_final _ _ Hc Hw).
  - intros i st st' Hn Hn'.
    assert (stage_legal st st') as [H1 H2].
    { destruct (grows_nth _ _ _ _ _ _ Hs Hn) as [b [Hb Hl]]. congruence. }
    split.
    + intros Hc. symmetry. apply (completed_final _ _ Hc H1).
    + intros t tk tk' Ht Ht' Hc.
      assert (task_legal tk tk') as L.
      { destruct (grows_nth _ _ _ _ _ _ H2 Ht) as [b [Hb Hl]]. congruence. }
      symmetry. apply (completed_final _ _ Hc L).
Qed.

(* rows that a legal step ADDS are fresh: NOT_STARTED, every task NOT_STARTED *)
Lemma grows_added {A} (R : A -> A -> Prop) F l l' i x :
  grows R F l l' -> nth_error l i = None -> nth_error l' i = Some x -> F x.
Proof.
  intros H. revert i. induction H as [added Ha|a b l l' Hab Hg IH]; intros i Hn Hn'.
  - rewrite Forall_forall in Ha. apply Ha. eapply nth_error_In. exact Hn'.
  - destruct i as [|i]; simpl in *; [discriminate|]. apply IH with i; assumption.
Qed.

Lemma legal_added_fresh l w l' w' i st' :
  legal l w l' w' -> nth_error l i = None -> nth_error l' i = Some st' -> stage_fresh st'.
Proof. intros [H _]. apply (grows_added _ _ _ _ _ _ H). Qed.
