(* Mutual exclusion at engine level: in EVERY run (any delivery order, redeliveries, crash cuts at any commit,
   recovery sweeps, cancels, signals, pauses, jumps, operator restarts) a stage that is RUNNING - or parked SUSPENDED /
   PAUSED while holding the key - with mutex key k owns the claim row `mutex:k`.  The claim table has one owner per
   key, so two such stages sharing a key never coexist.  Complements C11's n-worker theorems (model/Conc.v), which
   cover the StartStage race but not suspension, pause, jumps or crashes. *)
From Coq Require Import List Bool Arith ZArith Lia.
Import ListNotations.
From Stab.model Require Import Base StatusM Readiness StageStat Engine.
From Stab.gen Require Import Gen_Config Gen_Guards.
From Stab.proofs Require Import StatusP EngineLegal.

Definition liveb (st : stage) : bool :=
  status_eqb (s_status st) RUNNING || status_eqb (s_status st) SUSPENDED || status_eqb (s_status st) PAUSED.

Definition claims := list (bool * nat * nat).

Definition owns (cl : claims) (i : nat) (st : stage) : Prop :=
  liveb st = true -> forall k, s_mutex st = Some k -> claim_lookup cl true k = Some i.

Definition mx_ok (s : state) : Prop := forall i st, get_stage s i = Some st -> owns (w_claims s) i st.

(* two live stages sharing a key are the same stage *)
Theorem mx_exclusive s i j a b k :
  mx_ok s -> get_stage s i = Some a -> get_stage s j = Some b ->
  liveb a = true -> liveb b = true -> s_mutex a = Some k -> s_mutex b = Some k -> i = j.
Proof.
  intros M Ha Hb La Lb Ka Kb. pose proof (M i a Ha La k Ka) as E1. pose proof (M j b Hb Lb k Kb) as E2. congruence.
Qed.

(* ---- ops that do not touch the claim table ---- *)
Definition op_mx (cl : claims) (o : op) : Prop :=
  match o with
  | OPut i st' => owns cl i st'
  | OMut _ f => forall x, (liveb (f x) = true -> liveb x = true) /\ s_mutex (f x) = s_mutex x
  | OAdd st => liveb st = false
  | OClaims _ => False
  | _ => True
  end.

Lemma nth_list_set_eq {A} (l : list A) i j x y : nth_error (list_set l i x) j = Some y -> (i = j /\ y = x) \/ nth_error l j = Some y.
Proof.
  revert i j. induction l as [|a l IH]; intros [|i] [|j] H; simpl in *; try discriminate; auto.
  - inversion H; subst. left. auto.
  - destruct (IH i j H) as [[E1 E2]|E]; [left; split; congruence|right; exact E].
Qed.

Lemma mx_apply_op o s : mx_ok s -> op_mx (w_claims s) o -> mx_ok (apply_op s o) /\ w_claims (apply_op s o) = w_claims s.
Proof.
  intros M Ho. destruct o; simpl in *; try (split; [exact M|reflexivity]).
  - (* OPut *) split; [|reflexivity]. intros j y Hj. unfold get_stage in Hj. simpl in Hj.
    destruct (nth_list_set_eq _ _ _ _ _ Hj) as [[E1 E2]|E]; [subst; exact Ho|apply (M j y E)].
  - (* OMut *) unfold mutate_stage. destruct (get_stage s i) as [x|] eqn:Hx; [|split; [exact M|reflexivity]].
    split; [|reflexivity]. intros j y Hj. unfold get_stage in Hj. simpl in Hj.
    destruct (nth_list_set_eq _ _ _ _ _ Hj) as [[E1 E2]|E]; [|apply (M j y E)].
    subst. destruct (Ho x) as [L K]. intros Lv k Hk. rewrite K in Hk. apply (M j x Hx (L Lv) k Hk).
  - contradiction.
  - (* OAdd *) split; [|reflexivity]. intros j y Hj. unfold get_stage in Hj. simpl in Hj.
    destruct (Nat.lt_ge_cases j (length (w_stages s))) as [Lt|Ge].
    + rewrite nth_error_app1 in Hj by exact Lt. apply (M j y Hj).
    + rewrite nth_error_app2 in Hj by exact Ge. destruct (j - length (w_stages s)) as [|n]; simpl in Hj; [|destruct n; discriminate].
      inversion Hj; subst. intros Lv. rewrite Ho in Lv. discriminate.
Qed.

Lemma mx_apply_commit c : forall s, mx_ok s -> Forall (op_mx (w_claims s)) c ->
  mx_ok (apply_commit s c) /\ w_claims (apply_commit s c) = w_claims s.
Proof.
  unfold apply_commit. induction c as [|o c IH]; simpl; intros s M Hc; [split; [exact M|reflexivity]|].
  inversion Hc; subst. destruct (mx_apply_op o s M H1) as [M1 E1].
  destruct (IH (apply_op s o) M1) as [M2 E2]; [rewrite E1; exact H2|]. split; [exact M2|congruence].
Qed.

Lemma mx_apply_commits cs : forall s, mx_ok s -> Forall (Forall (op_mx (w_claims s))) cs ->
  mx_ok (apply_commits cs s) /\ w_claims (apply_commits cs s) = w_claims s.
Proof.
  induction cs as [|c cs IH]; simpl; intros s M Hc; [split; [exact M|reflexivity]|].
  inversion Hc; subst. destruct (mx_apply_commit c s M H1) as [M1 E1].
  destruct (IH (apply_commit s c) M1) as [M2 E2]; [rewrite E1; exact H2|]. split; [exact M2|congruence].
Qed.

(* ---- stage-level facts ---- *)
Lemma owns_dead cl i st : liveb st = false -> owns cl i st.
Proof. intros H L. rewrite H in L. discriminate. Qed.

Lemma owns_same cl i st st' : owns cl i st -> (liveb st' = true -> liveb st = true) -> s_mutex st' = s_mutex st -> owns cl i st'.
Proof. intros H L K Lv k Hk. rewrite K in Hk. apply (H (L Lv) k Hk). Qed.

Definition MXH (s : state) (h : hres) : Prop := Forall (Forall (op_mx (w_claims s))) (h_commits h).

Ltac mx_op H :=
  match goal with
  | |- True => exact I
  | |- owns _ _ _ => first [ apply owns_dead; reflexivity
                           | apply (owns_same _ _ _ _ H); [simpl; try (intros _; reflexivity); auto|reflexivity] ]
  | |- forall x, _ /\ _ => let x := fresh "x" in let Q := fresh "Q" in intros x; split; [intros Q; first [discriminate Q | exact Q | (simpl in Q; auto)]|reflexivity]
  | |- liveb _ = false => reflexivity
  end.

Ltac mx_list H :=
  unfold ok, raised; cbn [h_commits txn concat app c_put c_mark c_push c_wf c_cancel c_mutate c_pushes];
  repeat first [ apply Forall_nil
               | apply Forall_cons
               | (cbn [op_mx]; mx_op H)
               | apply Forall_app; split ].

Lemma mx_pushes cl ms : Forall (op_mx cl) (c_pushes ms).
Proof. unfold c_pushes. induction ms; simpl; constructor; [exact I|assumption]. Qed.
Lemma mx_map_push {A} cl (f : A -> msg) l : Forall (op_mx cl) (map OPush (map f l)).
Proof. induction l; simpl; constructor; [exact I|assumption]. Qed.

Section Handlers.
Variable s : state.
Hypothesis M : mx_ok s.

Lemma mxh_start_workflow id : MXH s (handle_start_workflow s id).
Proof.
  unfold MXH, handle_start_workflow. destruct (negb _); [constructor|]. destruct (w_canceled s); [constructor|].
  destruct (initial_stages s); mx_list I; apply mx_map_push.
Qed.

Lemma mxh_complete_workflow id k : MXH s (handle_complete_workflow s id k).
Proof.
  unfold MXH, handle_complete_workflow. destruct (is_complete _); [constructor|].
  destruct (determine_final_status _ _ _ _); [destruct (negb _)|]; mx_list I.
  destruct (status_eqb _ SUCCEEDED); [constructor|apply mx_map_push].
Qed.

Lemma mxh_cancel_workflow id : MXH s (handle_cancel_workflow s id).
Proof. unfold MXH, handle_cancel_workflow. destruct (is_complete _); mx_list I. apply mx_map_push. Qed.

Lemma mxh_skip_stage id i : MXH s (handle_skip_stage s id i).
Proof.
  unfold MXH, handle_skip_stage. destruct (get_stage s i) as [st|]; [|constructor]. destruct (negb _); [constructor|].
  mx_list I. apply mx_pushes.
Qed.

Lemma mxh_cancel_stage id i : MXH s (handle_cancel_stage s id i).
Proof.
  unfold MXH, handle_cancel_stage. destruct (get_stage s i) as [st|]; [|constructor]. destruct (negb _); [constructor|].
  destruct (negb _); mx_list I.
Qed.

Lemma mxh_start_task id i t : MXH s (handle_start_task s id i t).
Proof.
  unfold MXH, handle_start_task. destruct (get_stage s i) as [st|] eqn:Hs; [|constructor].
  pose proof (M i st Hs) as H.
  destruct (nth_error _ t) as [tk|]; [|constructor].
  destruct (status_eqb _ NOT_STARTED); [mx_list H|].
  destruct (before_incomplete s i); [mx_list H|].
  destruct (negb _); [mx_list H|]. destruct (t_disabled tk); mx_list H.
Qed.

Lemma mxh_complete_task id i t x : MXH s (handle_complete_task s id i t x).
Proof.
  unfold MXH, handle_complete_task. destruct (get_stage s i) as [st|] eqn:Hs; [|constructor].
  pose proof (M i st Hs) as H.
  destruct (nth_error _ t) as [tk|]; [|constructor].
  destruct (negb _); [mx_list H|]. destruct (negb _); [constructor|].
  destruct (status_eqb x REDIRECT); [|destruct (S t <? _)]; mx_list H.
Qed.

Lemma live_of_eqb st x : status_eqb (s_status st) x = true -> x = RUNNING \/ x = SUSPENDED \/ x = PAUSED -> liveb st = true.
Proof.
  intros E Hx. apply status_eqb_eq in E. unfold liveb. rewrite E. destruct Hx as [Hx|[Hx|Hx]]; rewrite Hx; reflexivity.
Qed.

Lemma mxh_signal id i n p : MXH s (handle_signal_stage s id i n p).
Proof.
  unfold MXH, handle_signal_stage. destruct (get_stage s i) as [st|] eqn:Hs; [|constructor].
  pose proof (M i st Hs) as H.
  destruct (status_eqb (s_status st) SUSPENDED) eqn:E.
  - assert (liveb st = true) as L by (apply (live_of_eqb st SUSPENDED E); auto).
    destruct (find _ _) as [[ti tk]|]; mx_list H.
  - destruct p; mx_list H.
Qed.

Lemma mxh_pause_task id i t : MXH s (handle_pause_task s id i t).
Proof.
  unfold MXH, handle_pause_task. destruct (get_stage s i) as [st|] eqn:Hs; [|constructor].
  pose proof (M i st Hs) as H.
  destruct (nth_error _ t) as [tk|]; [|constructor].
  destruct (is_complete _); [mx_list H|].
  destruct (negb (can_transition (t_status tk) PAUSED)); cbn [orb]; [constructor|].
  destruct (can_transition (s_status st) PAUSED) eqn:C; cbn [negb]; [|constructor].
  assert (liveb st = true) as L by (unfold liveb; destruct (s_status st); try discriminate; reflexivity).
  mx_list H.
Qed.

Lemma mxh_resume_stage id i : MXH s (handle_resume_stage s id i).
Proof.
  unfold MXH, handle_resume_stage. destruct (get_stage s i) as [st|] eqn:Hs; [|constructor].
  pose proof (M i st Hs) as H.
  destruct (status_eqb (s_status st) PAUSED) eqn:E; cbn [negb]; [|mx_list H].
  assert (liveb st = true) as L by (apply (live_of_eqb st PAUSED E); auto).
  destruct (find _ _) as [[ti tk]|]; destruct (status_eqb (w_status s) PAUSED); mx_list H.
Qed.

Lemma mxh_restart_stage id i : MXH s (handle_restart_stage s id i).
Proof.
  unfold MXH, handle_restart_stage. destruct (get_stage s i) as [st|]; [|constructor].
  destruct (w_canceled s); [mx_list I|]. destruct (negb _); [mx_list I|]. destruct (is_complete (w_status s)); mx_list I.
Qed.

Lemma mxh_continue_parent id i o k : MXH s (handle_continue_parent s id i o k).
Proof.
  unfold MXH, handle_continue_parent. destruct (get_stage s i) as [st|]; [|constructor].
  cbn zeta. destruct (existsb _ _).
  { destruct (forallb _ _); (destruct (negb _); [constructor|mx_list I]). }
  destruct (negb _).
  { destruct (_ <=? _)%Z; [destruct (negb _); [constructor|mx_list I]|mx_list I]. }
  destruct o; [|mx_list I].
  destruct (s_tasks st); [|mx_list I].
  destruct (filter (initial_at s) _); [mx_list I|].
  destruct (filter _ (_ :: _)); mx_list I. apply mx_map_push.
Qed.
End Handlers.

Lemma mx_adds cl l : Forall (fun st => liveb st = false) l -> Forall (op_mx cl) (map OAdd l).
Proof. induction 1; simpl; constructor; assumption. Qed.

Lemma fresh_dead st : stage_fresh st -> liveb st = false.
Proof. intros [E _]. unfold liveb. rewrite E. reflexivity. Qed.

Lemma children_dead (b : bool) base i o ts : Forall (fun st => liveb st = false) (if b then mk_children base i o ts else []).
Proof.
  destruct b; [|constructor]. pose proof (mk_children_fresh' base i o ts) as F.
  induction F; constructor; [apply fresh_dead; assumption|assumption].
Qed.

Lemma mxh_join_tracking s i ds : Forall (Forall (op_mx (w_claims s))) (join_tracking s i ds).
Proof.
  unfold join_tracking. induction ds as [|d ds IH]; simpl; [constructor|].
  apply Forall_app. split; [|exact IH].
  destruct (get_stage s d) as [dst|]; [|constructor].
  assert (Forall (Forall (op_mx (w_claims s))) [c_mutate d (fun f : stage => st_set f (s_status f) (s_started f) (s_ended f) (s_fired f)
                                                    (s_branches f ++ [i]) (s_has_exc f) (s_ctx f) (s_outs f) (s_tasks f))]) as Hm.
  { constructor; [|constructor]. constructor; [|constructor]. cbn [op_mx]. intros x. split; [simpl; auto|reflexivity]. }
  destruct (s_join dst); try (constructor; fail); destruct (mem_nat i (s_branches dst)); try (constructor; fail); exact Hm.
Qed.

Lemma mxh_complete_stage s id i : mx_ok s -> MXH s (handle_complete_stage s id i).
Proof.
  intros M. unfold MXH, handle_complete_stage. destruct (get_stage s i) as [st|] eqn:Hs; [|constructor].
  pose proof (M i st Hs) as H.
  destruct (status_eqb _ NOT_STARTED); [mx_list H|].
  destruct (complete_stage_guard (s_status st)) eqn:G; cbn [negb].
  2:{ destruct (is_halt _); mx_list H. }
  apply complete_stage_guard_spec in G.
  assert (liveb st = true) as L by (unfold liveb; rewrite G; reflexivity).
  cbn zeta.
  match goal with |- context [if ?c then ok [txn [c_put i (st_touch st); _; _; _]] else _] => destruct c end.
  { mx_list H; first [apply mx_adds, children_dead|apply mx_map_push]. }
  match goal with |- context [if ?c then ok [c_mark id] else _] => destruct c end; [mx_list H|].
  match goal with |- context [if ?c then ok [txn [c_put i (st_touch (with_onfail st true)); _; _; _]] else _] => destruct c end.
  { mx_list H; first [apply mx_adds, children_dead|apply mx_map_push]. }
  match goal with |- context [status_eqb ?x RUNNING] => destruct (status_eqb x RUNNING) end; [mx_list H|].
  match goal with |- context [can_transition (s_status ?st2) ?x2] =>
    assert (owns (w_claims s) i (st_end st2 x2)) as Ho
      by (apply (owns_same _ _ st); [exact H|intros _; exact L|destruct (negb (is_nil _)); reflexivity]);
    destruct (negb (can_transition (s_status st2) x2)); [constructor|] end.
  destruct (_ || _ || _); cbn [h_commits ok].
  - apply Forall_app. split; [apply mxh_join_tracking|].
    constructor; [|constructor]. cbn [txn concat app c_put c_mark]. constructor; [cbn [op_mx]; apply Ho|].
    constructor; [exact I|]. rewrite app_nil_r. apply mx_pushes.
  - constructor; [|constructor]. cbn [txn concat app c_put c_push]. constructor; [cbn [op_mx]; apply Ho|]. repeat constructor.
Qed.

Definition never_suspends (orc : oracle) : Prop := forall i t n, orc i t n <> RSuspend.

Lemma mxh_run_task orc s id i t a : mx_ok s -> never_suspends orc -> MXH s (handle_run_task orc s id i t a).
Proof.
  intros M Ns. unfold MXH, handle_run_task. destruct (get_stage s i) as [st|] eqn:Hs; [|constructor].
  pose proof (M i st Hs) as H.
  destruct (nth_error _ t) as [tk|]; [|constructor].
  destruct (negb _); [mx_list H|].
  destruct (w_canceled s); [mx_list H|].
  destruct (is_complete _); [mx_list H|].
  destruct (status_eqb _ PAUSED); [mx_list H|].
  cbn [h_commits].
  destruct (orc i t (count_execs s i t)) eqn:R; unfold process_result, handle_exception, mark_terminal; try mx_list H.
  - destruct (retry_guard _ _); [destruct ctx|]; mx_list H.
  - exfalso. apply (Ns i t (count_execs s i t)). exact R.
Qed.

Lemma Forall_concat'' {A} (P : A -> Prop) ls : Forall (Forall P) ls -> Forall P (concat ls).
Proof. induction 1 as [|l ls Hl _ IH]; simpl; [constructor|]. apply Forall_app. split; assumption. Qed.

Lemma mx_muts cl (l : list nat) f :
  (forall x, (liveb (f x) = true -> liveb x = true) /\ s_mutex (f x) = s_mutex x) -> Forall (Forall (op_mx cl)) (map (fun j => c_mutate j f) l).
Proof. intros Hf. induction l; simpl; constructor; [constructor; [exact Hf|constructor]|assumption]. Qed.

Lemma mxh_jump s id i tg c : MXH s (handle_jump s id i tg c).
Proof.
  unfold MXH, handle_jump. destruct (get_stage s i) as [src|]; [|constructor].
  destruct (w_canceled s); [mx_list I|].
  destruct (get_stage s tg) as [tgt|]; [|mx_list I].
  destruct (jump_exhausted _ _); [mx_list I|].
  cbn [h_commits ok]. constructor; [|constructor].
  unfold txn. apply Forall_concat''.
  assert (forall x, (liveb (reset_for_retry x) = true -> liveb x = true) /\ s_mutex (reset_for_retry x) = s_mutex x) as Fr
    by (intros x; split; [intros Q; discriminate|reflexivity]).
  repeat (apply Forall_app; split).
  - match goal with |- Forall _ (flat_map _ ?l) => generalize l end. intros l0.
    induction l0 as [|j l0 IH]; simpl; [constructor|].
    constructor; [constructor; [exact Fr|constructor]|]. apply Forall_app. split; [apply mx_muts; exact Fr|exact IH].
  - apply mx_muts. intros x. split; [intros Q; discriminate|reflexivity].
  - match goal with |- context [if ?a then [] else _] => destruct a end; [constructor|].
    match goal with |- context [if ?a then _ else _] => destruct a end.
    + constructor; [|apply mx_muts; exact Fr]. constructor; [|constructor]. cbn [op_mx]. intros x. split; [intros Q; discriminate|reflexivity].
    + constructor; [|constructor]. constructor; [|constructor]. cbn [op_mx]. intros x. split; [intros Q; discriminate|reflexivity].
  - constructor.
    + constructor; [|constructor]. cbn [op_mx]. intros x. split; [intros Q; discriminate|reflexivity].
    + apply Forall_app. split; [apply mx_muts; exact Fr|]. repeat constructor.
Qed.

(* ---- the claim table ---- *)
Definition key_is (m : bool) (k : nat) (c : bool * nat * nat) : bool := Bool.eqb (fst (fst c)) m && (snd (fst c) =? k).

Lemma claim_lookup_find cl m k :
  claim_lookup cl m k = match find (key_is m k) cl with Some c => Some (snd c) | None => None end.
Proof. reflexivity. Qed.

Lemma lookup_app_new cl m k i : claim_lookup cl m k = None -> claim_lookup (cl ++ [(m, k, i)]) m k = Some i.
Proof.
  rewrite !claim_lookup_find. induction cl as [|c cl IH]; simpl.
  - intros _. unfold key_is. simpl. rewrite Bool.eqb_reflx, Nat.eqb_refl. reflexivity.
  - destruct (key_is m k c); [discriminate|]. exact IH.
Qed.

Lemma lookup_app_other cl m k i m' k' : (m', k') <> (m, k) -> claim_lookup (cl ++ [(m, k, i)]) m' k' = claim_lookup cl m' k'.
Proof.
  intros Hne. rewrite !claim_lookup_find. induction cl as [|c cl IH]; simpl.
  - unfold key_is. simpl. destruct (Bool.eqb m m') eqn:E1; [|reflexivity]. destruct (k =? k') eqn:E2; [|reflexivity].
    apply Bool.eqb_prop in E1. apply Nat.eqb_eq in E2. subst. contradiction.
  - destruct (key_is m' k' c); [reflexivity|exact IH].
Qed.

Lemma lookup_map_same cl m k i :
  claim_lookup cl m k <> None ->
  claim_lookup (map (fun c => if key_is m k c then (m, k, i) else c) cl) m k = Some i.
Proof.
  rewrite !claim_lookup_find. induction cl as [|c cl IH]; simpl; [intros H; contradiction|].
  destruct (key_is m k c) eqn:E.
  - intros _. simpl. unfold key_is at 1. simpl. rewrite Bool.eqb_reflx, Nat.eqb_refl. reflexivity.
  - intros H. simpl. rewrite E. apply IH. exact H.
Qed.

Lemma lookup_map_other cl m k i m' k' : (m', k') <> (m, k) ->
  claim_lookup (map (fun c => if key_is m k c then (m, k, i) else c) cl) m' k' = claim_lookup cl m' k'.
Proof.
  intros Hne. rewrite !claim_lookup_find. induction cl as [|c cl IH]; simpl; [reflexivity|].
  destruct (key_is m k c) eqn:E.
  - assert (key_is m' k' (m, k, i) = false) as E1.
    { unfold key_is. simpl. destruct (Bool.eqb m m') eqn:A; [|reflexivity]. destruct (k =? k') eqn:B; [|reflexivity].
      apply Bool.eqb_prop in A. apply Nat.eqb_eq in B. subst. contradiction. }
    assert (key_is m' k' c = false) as E2.
    { unfold key_is in *. apply andb_true_iff in E. destruct E as [A B]. apply Bool.eqb_prop in A. apply Nat.eqb_eq in B.
      destruct c as [[cm ck] co]. simpl in *. subst.
      destruct (Bool.eqb m m') eqn:A'; [|reflexivity]. destruct (k =? k') eqn:B'; [|reflexivity].
      apply Bool.eqb_prop in A'. apply Nat.eqb_eq in B'. subst. contradiction. }
    rewrite E1, E2. exact IH.
  - destruct (key_is m' k' c); [reflexivity|exact IH].
Qed.

(* acquire_claim's result, whenever it succeeds *)
Lemma acquire_owner s m k i steal : fst (acquire_claim s m k i steal) = true -> claim_lookup (snd (acquire_claim s m k i steal)) m k = Some i.
Proof.
  unfold acquire_claim. destruct (claim_lookup (w_claims s) m k) as [o|] eqn:E; simpl.
  - destruct (o =? i) eqn:Eo; simpl; [intros _; apply Nat.eqb_eq in Eo; subst; exact E|].
    destruct (steal && _); simpl; [intros _|discriminate].
    apply (lookup_map_same (w_claims s) m k i). rewrite E. discriminate.
  - intros _. apply lookup_app_new. exact E.
Qed.

Lemma acquire_other s m k i steal m' k' : (m', k') <> (m, k) ->
  claim_lookup (snd (acquire_claim s m k i steal)) m' k' = claim_lookup (w_claims s) m' k'.
Proof.
  intros Hne. unfold acquire_claim. destruct (claim_lookup (w_claims s) m k) as [o|]; simpl.
  - destruct (o =? i); simpl; [reflexivity|]. destruct (steal && _); simpl; [|reflexivity].
    apply (lookup_map_other (w_claims s) m k i m' k' Hne).
  - apply lookup_app_other. exact Hne.
Qed.

Lemma complete_not_live st : is_complete (s_status st) = true -> liveb st = false.
Proof. unfold liveb. destruct (s_status st); simpl; try discriminate; reflexivity. Qed.

(* after a successful mutex acquisition every live holder still owns its key, and key k belongs to i *)
Lemma acquire_keeps s k i :
  mx_ok s -> fst (acquire_claim s true k i true) = true ->
  forall j st, get_stage s j = Some st -> owns (snd (acquire_claim s true k i true)) j st.
Proof.
  intros M Ok j st Hj Lv k' Hk'. destruct (Nat.eq_dec k' k) as [E|Ne].
  - subst k'. pose proof (M j st Hj Lv k Hk') as Old.
    unfold acquire_claim in *. rewrite Old in *. simpl in *.
    destruct (j =? i) eqn:Ej; simpl in *; [exact Old|].
    rewrite Hj in Ok. rewrite (complete_not_live st) in Lv; [discriminate|].
    destruct (is_complete (s_status st)); [reflexivity|simpl in Ok; discriminate].
  - rewrite acquire_other; [apply (M j st Hj Lv k' Hk')|]. intros Q. inversion Q. contradiction.
Qed.

(* ---- crash-cut closed form: the invariant holds after every prefix of a handler's commits ---- *)
Definition MXC (s : state) (cs : list commit) : Prop := forall n, mx_ok (apply_commits (firstn n cs) s).

Lemma Forall_firstn' {A} (P : A -> Prop) k l : Forall P l -> Forall P (firstn k l).
Proof. revert k. induction l as [|a l IH]; intros [|k] H; simpl; try constructor; inversion H; subst; auto. Qed.

Lemma mxc_of_mxh s cs : mx_ok s -> Forall (Forall (op_mx (w_claims s))) cs -> MXC s cs.
Proof. intros M H n. apply mx_apply_commits; [exact M|apply Forall_firstn'; exact H]. Qed.

Lemma mutex_of_ctl st b jc bf sg : s_mutex (st_ctl st b jc bf sg) = s_mutex st. Proof. reflexivity. Qed.

Lemma mxc_start_stage s id i k0 : mx_ok s -> MXC s (h_commits (handle_start_stage s id i k0)).
Proof.
  intros M. unfold handle_start_stage. destruct (get_stage s i) as [st0|] eqn:Hs; [|apply mxc_of_mxh; [exact M|constructor]].
  pose proof (M i st0 Hs) as H0.
  destruct (parent_not_started s st0); [apply mxc_of_mxh; [exact M|mx_list I]|].
  assert (Forall (Forall (op_mx (w_claims s)))
            (h_commits (if start_stage_late (s_status st0) then ok []
                        else if start_stage_waits (evaluate_readiness (rstage_of st0) (upstream s st0) (s_bypass st0)) (upstream s st0) then ok []
                        else if wait_exhausted k0 max_stage_wait_retries
                             then if can_transition (s_status st0) TERMINAL
                                  then ok [txn [c_put i (st_set st0 TERMINAL (s_started st0) true (s_fired st0) (s_branches st0) true (s_ctx st0) (s_outs st0) (s_tasks st0)); c_push (MCompleteStage i)]]
                                  else ok [txn [c_put i (st_exc st0); c_push (MCompleteStage i)]]
                             else ok [c_push (MStartStage i (k0 + 1))]))) as Hw.
  { destruct (start_stage_late _); [constructor|]. destruct (start_stage_waits _ _); [constructor|].
    destruct (wait_exhausted _ _); [destruct (can_transition _ _)|]; mx_list H0. }
  destruct (rr_phase _); [|apply mxc_of_mxh; [exact M|exact Hw]|apply mxc_of_mxh; [exact M|mx_list I]|apply mxc_of_mxh; [exact M|exact Hw]].
  unfold start_if_ready.
  set (st := if s_bypass st0 then st_ctl st0 false (s_jump_count st0) (s_buffered st0) (s_signal st0) else st0).
  assert (s_mutex st = s_mutex st0 /\ s_status st = s_status st0) as [Emx Est] by (unfold st; destruct (s_bypass st0); split; reflexivity).
  set (zombie := status_eqb (s_status st) RUNNING && _).
  destruct (negb (start_stage_fresh (s_status st)) && negb zombie); [apply mxc_of_mxh; [exact M|constructor]|].
  destruct (should_skip st); [apply mxc_of_mxh; [exact M|mx_list I]|].
  destruct (milestone_expired s st); [apply mxc_of_mxh; [exact M|mx_list I]|].
  destruct (mutex_blocked s i st); [apply mxc_of_mxh; [exact M|mx_list I]|].
  destruct (_ && choice_claimed s i st); [apply mxc_of_mxh; [exact M|mx_list I]|].
  destruct (y_expired _); [apply mxc_of_mxh; [exact M|mx_list I]|].
  set (m := match s_mutex st with Some k => acquire_claim s true k i true | None => (true, w_claims s) end).
  destruct (fst m) eqn:Fm; cbn [negb]; [|apply mxc_of_mxh; [exact M|mx_list I]].
  set (c := match s_choice st with Some g => acquire_claim (with_claims (snd m) s) false g i false | None => (true, snd m) end).
  destruct (fst c) eqn:Fc; cbn [negb]; [|apply mxc_of_mxh; [exact M|mx_list I]].
  cbn [h_commits ok].
  (* the claim table after both acquisitions: every live holder keeps its key, and i owns its own *)
  assert (forall j stj, get_stage s j = Some stj -> owns (snd m) j stj) as K1.
  { clear - M Fm. subst m. destruct (s_mutex st) as [k|]; [|exact M]. intros j stj Hj. apply acquire_keeps; [exact M|exact Fm|exact Hj]. }
  assert (forall k, s_mutex st = Some k -> claim_lookup (snd m) true k = Some i) as O1.
  { clear - Fm. subst m. intros k Ek. rewrite Ek in *. apply acquire_owner. exact Fm. }
  assert (forall k, claim_lookup (snd c) true k = claim_lookup (snd m) true k) as K2.
  { intros k. unfold c. destruct (s_choice st) as [g|]; [|reflexivity].
    change (snd m) with (w_claims (with_claims (snd m) s)) at 2. apply acquire_other. discriminate. }
  set (claimed := if zombie then st_touch st else with_pending _ true).
  assert (s_mutex claimed = s_mutex st) as Emc by (unfold claimed; destruct zombie; reflexivity).
  set (c1 := [OClaims (snd c); OPut i claimed] ++ (if zombie then [] else [OGStart i (s_jump_count st)])).
  assert (mx_ok (apply_commit s c1) /\ w_claims (apply_commit s c1) = snd c) as [M1 E1].
  { unfold c1, apply_commit. rewrite fold_left_app. cbn [fold_left apply_op].
    assert (mx_ok (put_stage i claimed (with_claims (snd c) s)) /\ w_claims (put_stage i claimed (with_claims (snd c) s)) = snd c) as [Ma Ea].
    { split; [|reflexivity]. intros j y Hj. unfold get_stage in Hj. simpl in Hj.
      destruct (nth_list_set_eq _ _ _ _ _ Hj) as [[Ej Ey]|Ej].
      - subst. intros _ k Ek. cbn [w_claims put_stage with_stages with_claims]. rewrite K2. apply O1. rewrite <- Emc. exact Ek.
      - intros Lv k Ek. cbn [w_claims put_stage with_stages with_claims]. rewrite K2. apply (K1 j y Ej Lv k Ek). }
    destruct zombie; cbn [fold_left apply_op]; [split; assumption|]. split; [exact Ma|exact Ea]. }
  intros n. destruct n as [|n]; [exact M|].
  change (firstn (S n) ([c1] ++ ?a ++ ?b)) with (c1 :: firstn n (a ++ b)). cbn [apply_commits].
  apply mx_apply_commits; [exact M1|]. rewrite E1. apply Forall_firstn'. apply Forall_app. split.
  - destruct (s_choice st); [|constructor]. induction (siblings_not_started _ _ _); simpl; constructor; auto. repeat constructor.
  - constructor; [|constructor]. cbn [txn concat app c_put c_mark]. constructor.
    + cbn [op_mx]. intros _ k Ek. rewrite K2. apply O1. simpl in Ek. rewrite <- Emc. exact Ek.
    + apply Forall_app. split.
      * apply mx_adds. unfold new_before. destruct (kids s i OwnBefore); [|constructor].
        pose proof (mk_children_fresh' (length (w_stages s)) i OwnBefore (y_before (s_syn st))) as F.
        induction F; constructor; [apply fresh_dead; assumption|assumption].
      * constructor; [exact I|]. rewrite app_nil_r. apply mx_pushes.
Qed.

(* ---- every handler, every prefix of its commits ---- *)
Theorem mxc_handle orc s r : mx_ok s -> never_suspends orc -> MXC s (h_commits (handle orc s r)).
Proof.
  intros M Ns. unfold handle. destruct (q_msg r).
  - apply mxc_of_mxh; [exact M|apply mxh_start_workflow].
  - apply mxc_of_mxh; [exact M|apply mxh_complete_workflow].
  - apply mxc_of_mxh; [exact M|apply mxh_cancel_workflow].
  - apply mxc_start_stage, M.
  - apply mxc_of_mxh; [exact M|apply mxh_complete_stage, M].
  - apply mxc_of_mxh; [exact M|apply mxh_skip_stage].
  - apply mxc_of_mxh; [exact M|apply mxh_cancel_stage].
  - apply mxc_of_mxh; [exact M|apply mxh_start_task, M].
  - apply mxc_of_mxh; [exact M|apply mxh_run_task; assumption].
  - apply mxc_of_mxh; [exact M|apply mxh_complete_task, M].
  - apply mxc_of_mxh; [exact M|apply mxh_jump].
  - apply mxc_of_mxh; [exact M|apply mxh_signal, M].
  - apply mxc_of_mxh; [exact M|apply mxh_pause_task, M].
  - apply mxc_of_mxh; [exact M|apply mxh_resume_stage, M].
  - apply mxc_of_mxh; [exact M|apply mxh_restart_stage].
  - apply mxc_of_mxh; [exact M|apply mxh_continue_parent].
Qed.

Lemma mx_frame s s' : w_stages s' = w_stages s -> w_claims s' = w_claims s -> mx_ok s -> mx_ok s'.
Proof. intros E1 E2 M i st H. unfold get_stage in H. rewrite E1 in H. rewrite E2. apply (M i st H). Qed.

Lemma apply_commits_app a b s : apply_commits (a ++ b) s = apply_commits b (apply_commits a s).
Proof. revert s. induction a as [|c a IH]; simpl; intros s; [reflexivity|apply IH]. Qed.

Lemma firstn_app_cases {A} n (a b : list A) : firstn n (a ++ b) = firstn n a \/ exists m, firstn n (a ++ b) = a ++ firstn m b.
Proof.
  destruct (Nat.le_gt_cases n (length a)) as [L|G].
  - left. rewrite firstn_app. replace (n - length a) with 0 by lia. simpl. apply app_nil_r.
  - right. exists (n - length a). rewrite firstn_app. rewrite firstn_all2 by lia. reflexivity.
Qed.

(* commits made only of marks / acks / bumps / pushes keep the invariant, whatever the claim table *)
Definition plain_op (o : op) : Prop := match o with OMark _ | OAck _ | OBump _ | OPush _ => True | _ => False end.

Lemma plain_is_mx cl o : plain_op o -> op_mx cl o.
Proof. destruct o; simpl; auto; contradiction. Qed.

Lemma mxc_app s a b : mx_ok s -> MXC s a -> Forall (Forall plain_op) b -> MXC s (a ++ b).
Proof.
  intros M Ca Hb n. destruct (firstn_app_cases n a b) as [E|[m E]]; rewrite E; [apply Ca|].
  rewrite apply_commits_app. specialize (Ca (length a)). rewrite firstn_all in Ca.
  apply mx_apply_commits; [exact Ca|]. apply Forall_firstn'. clear E.
  induction Hb as [|c b Hc Hb IH]; [constructor|]. constructor; [|exact IH].
  clear IH. induction Hc as [|o c Ho Hc IHc]; [constructor|]. constructor; [apply plain_is_mx; exact Ho|exact IHc].
Qed.

(* the ghost ledger entry commutes with every write *)
Lemma ghost_op a b o s : apply_op (ghost_exec a b s) o = ghost_exec a b (apply_op s o).
Proof. destruct o; try reflexivity. simpl. unfold mutate_stage. simpl. change (get_stage (ghost_exec a b s) i) with (get_stage s i). destruct (get_stage s i); reflexivity. Qed.

Lemma ghost_commit a b c : forall s, apply_commit (ghost_exec a b s) c = ghost_exec a b (apply_commit s c).
Proof. unfold apply_commit. induction c as [|o c IH]; simpl; intros s; [reflexivity|]. rewrite ghost_op. apply IH. Qed.

Lemma ghost_commits a b cs : forall s, apply_commits cs (ghost_exec a b s) = ghost_exec a b (apply_commits cs s).
Proof. induction cs as [|c cs IH]; simpl; intros s; [reflexivity|]. rewrite ghost_commit. apply IH. Qed.

Lemma mx_pre p s : mx_ok s -> mx_ok (apply_pre p s).
Proof. destruct p as [[a b]|]; [|auto]. apply mx_frame; reflexivity. Qed.

(* a delivery, complete or cut after any number of commits *)
Lemma mx_delivery orc s id do_ack d n :
  mx_ok s -> never_suspends orc -> delivery_commits orc s id do_ack = Some d ->
  mx_ok (apply_commits (firstn n (d_rest d)) (apply_pre (d_pre d) (apply_commit s (d_poll d)))).
Proof.
  intros M Ns. unfold delivery_commits. destruct (find_row s id) as [r0|]; [|discriminate].
  destruct (queue_max_attempts <=? q_attempts r0)%Z; [discriminate|].
  assert (mx_ok (bump_attempts id s)) as Mb by (apply (mx_frame s); [reflexivity|reflexivity|exact M]).
  assert (forall p cs, MXC (bump_attempts id s) cs -> mx_ok (apply_commits (firstn n cs) (apply_pre p (bump_attempts id s)))) as Hfin.
  { intros [[a b]|] cs C; simpl; [rewrite ghost_commits; apply (mx_pre (Some (a, b))); apply C|apply C]. }
  destruct (mem_nat id (w_processed (bump_attempts id s))); intros H; inversion H; subst d; cbn [d_poll d_pre d_rest];
    change (apply_commit s [OBump id]) with (bump_attempts id s).
  - apply (Hfin None). apply (mxc_app _ [] _ Mb); [intros k; destruct k; exact Mb|].
    destruct do_ack; repeat constructor.
  - apply Hfin. apply mxc_app; [exact Mb|apply mxc_handle; assumption|].
    destruct (h_raised _); [constructor|]. destruct do_ack; repeat constructor.
Qed.

Theorem mx_step orc s a : never_suspends orc -> mx_ok s -> mx_ok (step orc s a).
Proof.
  intros Ns M. destruct a; simpl.
  - destruct (delivery_commits orc s id do_ack) as [d|] eqn:Hd; [|exact M].
    pose proof (mx_delivery orc s id do_ack d (length (d_rest d)) M Ns Hd) as Q. rewrite firstn_all in Q. exact Q.
  - destruct k as [|k']; [exact M|]. destruct (delivery_commits orc s id true) as [d|] eqn:Hd; [|exact M].
    apply (mx_delivery orc s id true d k' M Ns Hd).
  - unfold recover. apply mx_apply_commit; [exact M|apply mx_pushes].
  - apply (mx_frame s); [reflexivity|reflexivity|exact M].
  - apply (mx_frame s); [reflexivity|reflexivity|exact M].
  - apply (mx_frame s); [reflexivity|reflexivity|exact M].
  - apply (mx_frame s); [reflexivity|reflexivity|exact M].
  - apply mx_apply_commit; [exact M|apply mx_pushes].
  - apply (mx_frame s); [reflexivity|reflexivity|exact M].
Qed.

Theorem mx_run orc acts : never_suspends orc -> forall s, mx_ok s -> mx_ok (run orc s acts).
Proof. intros Ns. unfold run. induction acts as [|a acts IH]; simpl; intros s M; [exact M|]. apply IH, mx_step; assumption. Qed.

(* a workflow as submitted: no stage is live *)
Lemma mx_init stages wmax : Forall (fun st => liveb st = false) stages -> mx_ok (init_state stages wmax).
Proof.
  intros H i st Hs L. unfold get_stage in Hs. simpl in Hs. rewrite Forall_forall in H.
  rewrite (H st (nth_error_In _ _ Hs)) in L. discriminate.
Qed.
