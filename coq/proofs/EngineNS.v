(* A stage that has not started has no started task - an invariant of EVERY run (jumps, restarts, crashes, any
   delivery order included), proved by induction over the actions.  It closes the last gap of C03's argument: tasks
   are executed only when RUNNING (RunTask's guard), a RUNNING task never sits in a NOT_STARTED stage (this file), and a
   stage leaves NOT_STARTED for RUNNING only under its join condition (StartGuardP).  It holds only since StartTask
   refuses a NOT_STARTED stage (repair c9af2a4): before, a StartTask left over from before a re-arm broke it. *)
From Coq Require Import List Bool Arith ZArith Lia.
Import ListNotations.
From Stab.model Require Import Base StatusM Readiness StageStat Engine.
From Stab.gen Require Import Gen_Config Gen_Guards.
From Stab.proofs Require Import StatusP EngineLegal.

Definition ns_stage (st : stage) : Prop :=
  s_status st = NOT_STARTED -> Forall (fun tk => t_status tk = NOT_STARTED) (s_tasks st).
Definition ns_ok (s : state) : Prop := Forall ns_stage (w_stages s).

Definition op_ns (o : op) : Prop :=
  match o with
  | OPut _ st' => ns_stage st'
  | OMut _ f => forall st, ns_stage st -> ns_stage (f st)
  | OAdd st => ns_stage st
  | _ => True
  end.
Definition NS (h : hres) : Prop := Forall (Forall op_ns) (h_commits h).

Lemma Forall_list_set {A} (P : A -> Prop) l i x : Forall P l -> P x -> Forall P (list_set l i x).
Proof.
  revert i. induction l as [|a l IH]; intros [|i] H Hx; simpl; try constructor; inversion H; subst; auto.
Qed.

Lemma ns_apply_op o s : ns_ok s -> op_ns o -> ns_ok (apply_op s o).
Proof.
  unfold ns_ok. intros H Ho. destruct o; simpl in *; try exact H.
  - apply Forall_list_set; assumption.
  - unfold mutate_stage. destruct (get_stage s i) as [st|] eqn:E; [|exact H]. simpl.
    apply Forall_list_set; [exact H|]. apply Ho. rewrite Forall_forall in H. apply H. eapply nth_error_In. exact E.
  - apply Forall_app. split; [exact H|constructor; [exact Ho|constructor]].
Qed.

Lemma ns_apply_commit c : forall s, ns_ok s -> Forall op_ns c -> ns_ok (apply_commit s c).
Proof.
  unfold apply_commit. induction c as [|o c IH]; simpl; intros s H Hc; [exact H|]. inversion Hc; subst.
  apply IH; [apply ns_apply_op; assumption|assumption].
Qed.

Lemma ns_apply_commits cs : forall s, ns_ok s -> Forall (Forall op_ns) cs -> ns_ok (apply_commits cs s).
Proof.
  induction cs as [|c cs IH]; simpl; intros s H Hc; [exact H|]. inversion Hc; subst.
  apply IH; [apply ns_apply_commit; assumption|assumption].
Qed.

Lemma ns_get s i st : ns_ok s -> get_stage s i = Some st -> ns_stage st.
Proof. unfold ns_ok. intros H E. rewrite Forall_forall in H. apply H. eapply nth_error_In. exact E. Qed.

(* ---- stage-level facts ---- *)
Lemma ns_not st : s_status st <> NOT_STARTED -> ns_stage st.
Proof. intros H E. contradiction. Qed.

Lemma ns_same st st' : ns_stage st -> s_status st' = s_status st -> s_tasks st' = s_tasks st -> ns_stage st'.
Proof. intros H E1 E2 E. rewrite E2. apply H. congruence. Qed.

Lemma ns_reset st : ns_stage (reset_for_retry st).
Proof. intros _. simpl. apply Forall_forall. intros tk H. apply in_map_iff in H. destruct H as [x [E _]]. subst tk. reflexivity. Qed.

Ltac ns_op :=
  match goal with
  | |- True => exact I
  | |- ns_stage _ => first [ apply ns_not; simpl; discriminate
                           | eapply ns_same; [eassumption|reflexivity|reflexivity]
                           | apply ns_reset ]
  | |- forall st, ns_stage st -> ns_stage _ =>
      let x := fresh "x" in let Hx := fresh "Hx" in intros x Hx;
      first [ apply ns_not; simpl; discriminate
            | apply (ns_same x); [exact Hx|reflexivity|reflexivity]
            | apply ns_reset ]
  end.

Ltac ns_list :=
  unfold ok, raised; cbn [h_commits txn concat app c_put c_mark c_push c_wf c_cancel c_mutate c_pushes];
  repeat first [ apply Forall_nil
               | apply Forall_cons
               | (cbn [op_ns]; ns_op)
               | apply Forall_app; split ].

Lemma ns_pushes ms : Forall op_ns (c_pushes ms).
Proof. unfold c_pushes. induction ms; simpl; constructor; [exact I|assumption]. Qed.
Lemma ns_map_push {A} (f : A -> msg) l : Forall op_ns (map OPush (map f l)).
Proof. induction l; simpl; constructor; [exact I|assumption]. Qed.

Lemma ns_start_workflow s id : NS (handle_start_workflow s id).
Proof.
  unfold NS, handle_start_workflow. destruct (negb _); [constructor|]. destruct (w_canceled s); [constructor|].
  destruct (initial_stages s); ns_list; apply ns_map_push.
Qed.

Lemma ns_complete_workflow s id k : NS (handle_complete_workflow s id k).
Proof.
  unfold NS, handle_complete_workflow. destruct (is_complete _); [constructor|].
  destruct (determine_final_status _ _ _ _); [destruct (negb _)|]; ns_list.
  destruct (status_eqb _ SUCCEEDED); [constructor|apply ns_map_push].
Qed.

Lemma ns_cancel_workflow s id : NS (handle_cancel_workflow s id).
Proof.
  unfold NS, handle_cancel_workflow. destruct (is_complete _); ns_list. apply ns_map_push.
Qed.

Lemma ns_skip_stage s id i : NS (handle_skip_stage s id i).
Proof.
  unfold NS, handle_skip_stage. destruct (get_stage s i) as [st|]; [|constructor]. destruct (negb _); [constructor|].
  ns_list. apply ns_pushes.
Qed.

Lemma ns_cancel_stage s id i : NS (handle_cancel_stage s id i).
Proof.
  unfold NS, handle_cancel_stage. destruct (get_stage s i) as [st|]; [|constructor]. destruct (negb _); [constructor|].
  destruct (negb _); ns_list.
Qed.

Lemma ns_start_task s id i t : ns_ok s -> NS (handle_start_task s id i t).
Proof.
  intros K. unfold NS, handle_start_task. destruct (get_stage s i) as [st|] eqn:Hs; [|constructor].
  destruct (nth_error _ t) as [tk|]; [|constructor].
  destruct (status_eqb (s_status st) NOT_STARTED) eqn:E; [ns_list|].
  assert (s_status st <> NOT_STARTED) as Hn by (intros Q; rewrite Q in E; discriminate).
  destruct (before_incomplete s i); [ns_list|].
  destruct (negb _); [ns_list|]. destruct (t_disabled tk); ns_list; apply ns_not; simpl; exact Hn.
Qed.

Lemma ns_complete_task s id i t x : ns_ok s -> NS (handle_complete_task s id i t x).
Proof.
  intros K. unfold NS, handle_complete_task. destruct (get_stage s i) as [st|] eqn:Hs; [|constructor].
  destruct (nth_error _ t) as [tk|] eqn:Ht; [|constructor].
  destruct (complete_task_guard (t_status tk) x) eqn:G; cbn [negb]; [|ns_list].
  destruct (negb _); [constructor|].
  (* the guard holds, so the task is not NOT_STARTED, so (invariant) the stage is not NOT_STARTED *)
  assert (s_status st <> NOT_STARTED) as Hn.
  { intros Q. pose proof (ns_get _ _ _ K Hs Q) as F. rewrite Forall_forall in F.
    specialize (F tk (nth_error_In _ _ Ht)). rewrite F in G. destruct x; discriminate. }
  destruct (status_eqb x REDIRECT); [|destruct (S t <? _)]; ns_list; apply ns_not; simpl; exact Hn.
Qed.

Lemma ns_signal s id i n p : ns_ok s -> NS (handle_signal_stage s id i n p).
Proof.
  intros K. unfold NS, handle_signal_stage. destruct (get_stage s i) as [st|] eqn:Hs; [|constructor].
  pose proof (ns_get _ _ _ K Hs) as H.
  destruct (status_eqb _ SUSPENDED); [destruct (find _ _) as [[ti tk]|]|destruct p]; ns_list.
Qed.

Lemma ns_pause_task s id i t : NS (handle_pause_task s id i t).
Proof.
  unfold NS, handle_pause_task. destruct (get_stage s i) as [st|]; [|constructor]. destruct (nth_error _ t); [|constructor].
  destruct (is_complete _); [ns_list|]. destruct (_ || _); ns_list.
Qed.

Lemma ns_resume_stage s id i : NS (handle_resume_stage s id i).
Proof.
  unfold NS, handle_resume_stage. destruct (get_stage s i) as [st|]; [|constructor]. destruct (negb _); [ns_list|].
  destruct (find _ _) as [[ti tk]|]; destruct (status_eqb (w_status s) PAUSED); ns_list.
Qed.

Lemma ns_restart_stage s id i : NS (handle_restart_stage s id i).
Proof.
  unfold NS, handle_restart_stage. destruct (get_stage s i) as [st|]; [|constructor].
  destruct (w_canceled s); [ns_list|]. destruct (negb _); [ns_list|]. destruct (is_complete (w_status s)); ns_list.
Qed.

Lemma ns_continue_parent s id i o k : NS (handle_continue_parent s id i o k).
Proof.
  unfold NS, handle_continue_parent. destruct (get_stage s i) as [st|]; [|constructor].
  cbn zeta. destruct (existsb _ _).
  { destruct (forallb _ _); (destruct (negb _); [constructor|ns_list]). }
  destruct (negb _).
  { destruct (_ <=? _)%Z; [destruct (negb _); [constructor|ns_list]|ns_list]. }
  destruct o; [|ns_list].
  destruct (s_tasks st); [|ns_list].
  destruct (filter (initial_at s) _); [ns_list|].
  destruct (filter _ (_ :: _)); ns_list. apply ns_map_push.
Qed.

Lemma ns_join_tracking s i ds : Forall (Forall op_ns) (join_tracking s i ds).
Proof.
  unfold join_tracking. induction ds as [|d ds IH]; simpl; [constructor|].
  apply Forall_app. split; [|exact IH].
  destruct (get_stage s d) as [dst|]; [|constructor].
  assert (Forall (Forall op_ns) [c_mutate d (fun f : stage => st_set f (s_status f) (s_started f) (s_ended f) (s_fired f)
                                                    (s_branches f ++ [i]) (s_has_exc f) (s_ctx f) (s_outs f) (s_tasks f))]) as Hm.
  { constructor; [|constructor]. constructor; [|constructor]. cbn [op_ns]. intros x Hx. apply (ns_same x); [exact Hx|reflexivity|reflexivity]. }
  destruct (s_join dst); try (constructor; fail); destruct (mem_nat i (s_branches dst)); try (constructor; fail); exact Hm.
Qed.

Lemma ns_adds l : Forall ns_stage l -> Forall op_ns (map OAdd l).
Proof. induction 1; simpl; constructor; assumption. Qed.

Lemma fresh_is_ns st : stage_fresh st -> ns_stage st.
Proof. intros [_ H] _. exact H. Qed.

Lemma ns_children (b : bool) base i o ts : Forall ns_stage (if b then mk_children base i o ts else []).
Proof.
  destruct b; [|constructor]. pose proof (mk_children_fresh' base i o ts) as F.
  induction F; constructor; [apply fresh_is_ns; assumption|assumption].
Qed.

Lemma ns_complete_stage s id i : ns_ok s -> NS (handle_complete_stage s id i).
Proof.
  intros K. unfold NS, handle_complete_stage. destruct (get_stage s i) as [st|] eqn:Hs; [|constructor].
  pose proof (ns_get _ _ _ K Hs) as H.
  destruct (status_eqb _ NOT_STARTED); [ns_list|].
  destruct (complete_stage_guard (s_status st)) eqn:G; cbn [negb].
  2:{ destruct (is_halt _); ns_list. }
  apply complete_stage_guard_spec in G.
  cbn zeta.
  match goal with |- context [if ?c then ok [txn [c_put i (st_touch st); _; _; _]] else _] => destruct c end.
  { ns_list; first [apply ns_adds, ns_children|apply ns_map_push]. }
  match goal with |- context [if ?c then ok [c_mark id] else _] => destruct c end; [ns_list|].
  match goal with |- context [if ?c then ok [txn [c_put i (st_touch (with_onfail st true)); _; _; _]] else _] => destruct c end.
  { ns_list; first [apply ns_adds, ns_children|apply ns_map_push|(apply ns_not; simpl; rewrite G; discriminate)]. }
  match goal with |- context [status_eqb ?x RUNNING] => destruct (status_eqb x RUNNING) end; [ns_list|].
  match goal with |- context [can_transition (s_status ?st2) ?x2] =>
    assert (s_status st2 = RUNNING) as E2 by (destruct (negb (is_nil _)); exact G);
    destruct (can_transition (s_status st2) x2) eqn:C; cbn [negb]; [|constructor];
    assert (x2 <> NOT_STARTED) as Hx by (intros Q; rewrite Q, E2 in C; discriminate) end.
  destruct (_ || _ || _); cbn [h_commits ok].
  - apply Forall_app. split; [apply ns_join_tracking|].
    constructor; [|constructor]. cbn [txn concat app c_put c_mark]. constructor; [cbn [op_ns]; apply ns_not; simpl; exact Hx|].
    constructor; [exact I|]. rewrite app_nil_r. apply ns_pushes.
  - constructor; [|constructor]. cbn [txn concat app c_put c_push]. constructor; [cbn [op_ns]; apply ns_not; simpl; exact Hx|].
    repeat constructor.
Qed.

Lemma ns_start_stage s id i k : ns_ok s -> NS (handle_start_stage s id i k).
Proof.
  intros K. unfold NS, handle_start_stage. destruct (get_stage s i) as [st0|] eqn:Hs; [|constructor].
  pose proof (ns_get _ _ _ K Hs) as H0.
  destruct (parent_not_started s st0); [ns_list|].
  assert (Forall (Forall op_ns)
            (h_commits (if start_stage_late (s_status st0) then ok []
                        else if start_stage_waits (evaluate_readiness (rstage_of st0) (upstream s st0) (s_bypass st0)) (upstream s st0) then ok []
                        else if wait_exhausted k max_stage_wait_retries
                             then if can_transition (s_status st0) TERMINAL
                                  then ok [txn [c_put i (st_set st0 TERMINAL (s_started st0) true (s_fired st0) (s_branches st0) true (s_ctx st0) (s_outs st0) (s_tasks st0)); c_push (MCompleteStage i)]]
                                  else ok [txn [c_put i (st_exc st0); c_push (MCompleteStage i)]]
                             else ok [c_push (MStartStage i (k + 1))]))) as Hw.
  { destruct (start_stage_late _); [constructor|]. destruct (start_stage_waits _ _); [constructor|].
    destruct (wait_exhausted _ _); [destruct (can_transition _ _)|]; ns_list. }
  destruct (rr_phase _); [|exact Hw|ns_list|exact Hw].
  unfold start_if_ready.
  set (st := if s_bypass st0 then st_ctl st0 false (s_jump_count st0) (s_buffered st0) (s_signal st0) else st0).
  assert (ns_stage st) as H by (unfold st; destruct (s_bypass st0); [apply (ns_same st0); [exact H0|reflexivity|reflexivity]|exact H0]).
  set (zombie := status_eqb (s_status st) RUNNING && _).
  destruct (negb (start_stage_fresh (s_status st)) && negb zombie); [constructor|].
  destruct (should_skip st); [ns_list|].
  destruct (milestone_expired s st); [ns_list|].
  destruct (mutex_blocked s i st); [ns_list|].
  destruct (_ && choice_claimed s i st); [ns_list|].
  destruct (y_expired _); [ns_list|].
  match goal with |- context [negb (fst ?m)] => destruct (fst m) end; cbn [negb]; [|ns_list].
  match goal with |- context [negb (fst ?c)] => destruct (fst c) end; cbn [negb]; [|ns_list].
  cbn [h_commits ok].
  assert (s_status (if zombie then st_touch st else with_pending (st_set st RUNNING true (s_ended st) (s_fired st) (s_branches st)
                       (s_has_exc st) (s_ctx st) (s_outs st) (s_tasks st)) true) = RUNNING) as Ec.
  { destruct zombie eqn:Z; [|reflexivity]. unfold zombie in Z. apply andb_true_iff in Z. destruct Z as [Z _].
    apply status_eqb_eq in Z. simpl. exact Z. }
  apply Forall_app. split; [|apply Forall_app; split].
  - constructor; [|constructor]. apply Forall_app. split.
    + constructor; [exact I|]. constructor; [|constructor]. cbn [op_ns]. apply ns_not. rewrite Ec. discriminate.
    + destruct zombie; repeat constructor.
  - destruct (s_choice st); [|constructor]. induction (siblings_not_started _ _ _); simpl; constructor; auto. repeat constructor.
  - constructor; [|constructor]. cbn [txn concat app c_put c_mark].
    constructor; [cbn [op_ns]; apply ns_not; simpl; rewrite Ec; discriminate|].
    apply Forall_app. split.
    + apply ns_adds. unfold new_before. destruct (kids s i OwnBefore); [|constructor].
      pose proof (mk_children_fresh' (length (w_stages s)) i OwnBefore (y_before (s_syn st))) as F.
      induction F; constructor; [apply fresh_is_ns; assumption|assumption].
    + constructor; [exact I|]. rewrite app_nil_r. apply ns_pushes.
Qed.

Lemma ns_run_task orc s id i t a : ns_ok s -> NS (handle_run_task orc s id i t a).
Proof.
  intros K. unfold NS, handle_run_task. destruct (get_stage s i) as [st|] eqn:Hs; [|constructor].
  pose proof (ns_get _ _ _ K Hs) as H.
  destruct (nth_error _ t) as [tk|]; [|constructor].
  destruct (negb _); [ns_list|].
  destruct (w_canceled s); [ns_list|].
  destruct (is_complete _); [ns_list|].
  destruct (status_eqb _ PAUSED); [ns_list|].
  cbn [h_commits].
  destruct (orc i t (count_execs s i t)); unfold process_result, handle_exception, mark_terminal; try ns_list.
  - destruct (retry_guard _ _); [destruct ctx|]; ns_list.
  - destruct (s_buffered st); ns_list.
Qed.

Lemma ns_mut_list (l : list nat) f : (forall st, ns_stage st -> ns_stage (f st)) -> Forall op_ns (concat (map (fun j => c_mutate j f) l)).
Proof. intros Hf. induction l; simpl; constructor; [exact Hf|assumption]. Qed.

Lemma Forall_concat' {A} (P : A -> Prop) ls : Forall (Forall P) ls -> Forall P (concat ls).
Proof. induction 1 as [|l ls Hl _ IH]; simpl; [constructor|]. apply Forall_app. split; assumption. Qed.

Lemma ns_muts (l : list nat) f : (forall st, ns_stage st -> ns_stage (f st)) -> Forall (Forall op_ns) (map (fun j => c_mutate j f) l).
Proof. intros Hf. induction l; simpl; constructor; [constructor; [exact Hf|constructor]|assumption]. Qed.

Lemma ns_jump s id i tg c : NS (handle_jump s id i tg c).
Proof.
  unfold NS, handle_jump. destruct (get_stage s i) as [src|]; [|constructor].
  destruct (w_canceled s); [ns_list|].
  destruct (get_stage s tg) as [tgt|]; [|ns_list].
  destruct (jump_exhausted _ _); [ns_list|].
  cbn [h_commits ok]. constructor; [|constructor].
  unfold txn. apply Forall_concat'.
  assert (forall l : list nat, Forall (Forall op_ns) (map (fun j => c_mutate j reset_for_retry) l)) as Hr
    by (intros l; apply ns_muts; intros st _; apply ns_reset).
  repeat (apply Forall_app; split).
  - match goal with |- Forall _ (flat_map _ ?l) => generalize l end. intros l0.
    induction l0 as [|j l0 IH]; simpl; [constructor|].
    constructor; [constructor; [cbn [op_ns]; intros st _; apply ns_reset|constructor]|]. apply Forall_app. split; [apply Hr|exact IH].
  - apply ns_muts. intros st _. apply ns_not. simpl. discriminate.
  - match goal with |- context [if ?a then [] else _] => destruct a end; [constructor|].
    match goal with |- context [if ?a then _ else _] => destruct a end.
    + constructor; [|apply Hr]. constructor; [|constructor]. cbn [op_ns]. intros st _.
      apply (ns_same (reset_for_retry st)); [apply ns_reset|reflexivity|reflexivity].
    + constructor; [|constructor]. constructor; [|constructor]. cbn [op_ns]. intros st _. apply ns_not. simpl. discriminate.
  - constructor.
    + constructor; [|constructor]. cbn [op_ns]. intros st _.
      apply (ns_same (reset_for_retry st)); [apply ns_reset|reflexivity|reflexivity].
    + apply Forall_app. split; [apply Hr|]. repeat constructor.
Qed.

Theorem ns_handle orc s r : ns_ok s -> NS (handle orc s r).
Proof.
  intros K. unfold handle. destruct (q_msg r).
  - apply ns_start_workflow.
  - apply ns_complete_workflow.
  - apply ns_cancel_workflow.
  - apply ns_start_stage, K.
  - apply ns_complete_stage, K.
  - apply ns_skip_stage.
  - apply ns_cancel_stage.
  - apply ns_start_task, K.
  - apply ns_run_task, K.
  - apply ns_complete_task, K.
  - apply ns_jump.
  - apply ns_signal, K.
  - apply ns_pause_task.
  - apply ns_resume_stage.
  - apply ns_restart_stage.
  - apply ns_continue_parent.
Qed.

(* ---- every action preserves the invariant ---- *)
Lemma ns_bump id s : ns_ok s -> ns_ok (bump_attempts id s).
Proof. auto. Qed.

Lemma ns_delivery orc s id do_ack d :
  ns_ok s -> delivery_commits orc s id do_ack = Some d -> Forall op_ns (d_poll d) /\ Forall (Forall op_ns) (d_rest d).
Proof.
  intros K. unfold delivery_commits. destruct (find_row s id) as [r0|]; [|discriminate].
  destruct (queue_max_attempts <=? q_attempts r0)%Z; [discriminate|].
  destruct (mem_nat id (w_processed (bump_attempts id s))); intros H; inversion H; simpl; (split; [repeat constructor|]).
  - destruct do_ack; repeat constructor.
  - apply Forall_app. split.
    + apply ns_handle. apply ns_bump, K.
    + destruct (h_raised _); [constructor|]. destruct do_ack; repeat constructor.
Qed.

Lemma Forall_firstn {A} (P : A -> Prop) k l : Forall P l -> Forall P (firstn k l).
Proof. revert k. induction l as [|a l IH]; intros [|k] H; simpl; try constructor; inversion H; subst; auto. Qed.

Theorem ns_step orc s a : ns_ok s -> ns_ok (step orc s a).
Proof.
  intros K. destruct a; simpl; try exact K.
  - destruct (delivery_commits orc s id do_ack) as [d|] eqn:Hd; [|exact K].
    destruct (ns_delivery _ _ _ _ _ K Hd) as [Hp Hr].
    apply ns_apply_commits; [|exact Hr]. destruct (d_pre d) as [[i t]|]; simpl; apply ns_apply_commit; assumption.
  - destruct k as [|k']; [exact K|]. destruct (delivery_commits orc s id true) as [d|] eqn:Hd; [|exact K].
    destruct (ns_delivery _ _ _ _ _ K Hd) as [Hp Hr].
    apply ns_apply_commits; [|apply Forall_firstn; exact Hr]. destruct (d_pre d) as [[i t]|]; simpl; apply ns_apply_commit; assumption.
  - unfold recover. apply ns_apply_commit; [exact K|apply ns_pushes].
  - apply ns_apply_commit; [exact K|apply ns_pushes].
Qed.

Theorem ns_run orc acts : forall s, ns_ok s -> ns_ok (run orc s acts).
Proof. unfold run. induction acts as [|a acts IH]; simpl; intros s K; [exact K|]. apply IH, ns_step, K. Qed.

(* a workflow as submitted: every stage and task NOT_STARTED *)
Lemma ns_init stages wmax :
  Forall (fun st => Forall (fun tk => t_status tk = NOT_STARTED) (s_tasks st)) stages -> ns_ok (init_state stages wmax).
Proof. unfold ns_ok. simpl. intros H. induction H; constructor; [intros _; assumption|assumption]. Qed.

(* the consequence C03 needs: in every reachable state, a task that is RUNNING (the only kind RunTask executes) or has
   any other started / finished status belongs to a stage that has left NOT_STARTED *)
Theorem started_task_in_started_stage s i st t tk :
  ns_ok s -> get_stage s i = Some st -> nth_error (s_tasks st) t = Some tk -> t_status tk <> NOT_STARTED ->
  s_status st <> NOT_STARTED.
Proof.
  intros K Hs Ht Hn E. pose proof (ns_get _ _ _ K Hs E) as F. rewrite Forall_forall in F.
  apply Hn. apply F. eapply nth_error_In. exact Ht.
Qed.
