(* Basic facts about model/Engine.v: frame properties of the primitive writes, and the two
   unconditional engine theorems (cancel flag, duplicate delivery). *)
From Coq Require Import List Bool Arith ZArith Lia.
Import ListNotations.
From Stab.model Require Import Base StatusM Readiness StageStat Engine.
From Stab.gen Require Import Gen_Config Gen_Guards.

(* ---- frame lemmas: what a primitive write cannot change ---- *)
Lemma canceled_op o s : w_canceled s = true -> w_canceled (apply_op s o) = true.
Proof. destruct o; simpl; auto. unfold mutate_stage. destruct (get_stage s i); simpl; auto. Qed.

Lemma execs_op o s : g_execs (apply_op s o) = g_execs s.
Proof. destruct o; simpl; auto. unfold mutate_stage. destruct (get_stage s i); simpl; auto. Qed.

Lemma canceled_commit c : forall s, w_canceled s = true -> w_canceled (apply_commit s c) = true.
Proof. unfold apply_commit. induction c as [|o c IH]; simpl; intros s H; [exact H|]. apply IH, canceled_op, H. Qed.

Lemma execs_commit c : forall s, g_execs (apply_commit s c) = g_execs s.
Proof. unfold apply_commit. induction c as [|o c IH]; simpl; intros s; [reflexivity|]. rewrite IH. apply execs_op. Qed.

Lemma canceled_commits cs : forall s, w_canceled s = true -> w_canceled (apply_commits cs s) = true.
Proof. induction cs as [|c cs IH]; simpl; intros s H; [exact H|]. apply IH, canceled_commit, H. Qed.

Lemma execs_commits cs : forall s, g_execs (apply_commits cs s) = g_execs s.
Proof. induction cs as [|c cs IH]; simpl; intros s; [reflexivity|]. rewrite IH. apply execs_commit. Qed.

Lemma canceled_pre p s : w_canceled (apply_pre p s) = w_canceled s.
Proof. destruct p as [[i t]|]; reflexivity. Qed.

(* ---- which handler invocations execute a task ---- *)
Ltac break_match :=
  repeat match goal with
         | |- context [match ?x with _ => _ end] => destruct x
         end.

Lemma pre_start_workflow s id : h_pre (handle_start_workflow s id) = None.
Proof. unfold handle_start_workflow. break_match; reflexivity. Qed.
Lemma pre_complete_workflow s id k : h_pre (handle_complete_workflow s id k) = None.
Proof. unfold handle_complete_workflow. break_match; reflexivity. Qed.
Lemma pre_cancel_workflow s id : h_pre (handle_cancel_workflow s id) = None.
Proof. unfold handle_cancel_workflow. break_match; reflexivity. Qed.
Lemma pre_start_stage s id i k : h_pre (handle_start_stage s id i k) = None.
Proof. unfold handle_start_stage, start_if_ready. break_match; reflexivity. Qed.
Lemma pre_complete_stage s id i : h_pre (handle_complete_stage s id i) = None.
Proof. unfold handle_complete_stage. break_match; reflexivity. Qed.
Lemma pre_skip_stage s id i : h_pre (handle_skip_stage s id i) = None.
Proof. unfold handle_skip_stage. break_match; reflexivity. Qed.
Lemma pre_cancel_stage s id i : h_pre (handle_cancel_stage s id i) = None.
Proof. unfold handle_cancel_stage. break_match; reflexivity. Qed.
Lemma pre_start_task s id i t : h_pre (handle_start_task s id i t) = None.
Proof. unfold handle_start_task. break_match; reflexivity. Qed.
Lemma pre_complete_task s id i t x : h_pre (handle_complete_task s id i t x) = None.
Proof. unfold handle_complete_task. break_match; reflexivity. Qed.
Lemma pre_signal s id i n p : h_pre (handle_signal_stage s id i n p) = None.
Proof. unfold handle_signal_stage. break_match; reflexivity. Qed.
Lemma pre_jump s id i tg c : h_pre (handle_jump s id i tg c) = None.
Proof. unfold handle_jump. break_match; reflexivity. Qed.
Lemma pre_pause_task s id i t : h_pre (handle_pause_task s id i t) = None.
Proof. unfold handle_pause_task. break_match; reflexivity. Qed.
Lemma pre_resume_stage s id i : h_pre (handle_resume_stage s id i) = None.
Proof. unfold handle_resume_stage. break_match; reflexivity. Qed.
Lemma pre_restart_stage s id i : h_pre (handle_restart_stage s id i) = None.
Proof. unfold handle_restart_stage. break_match; reflexivity. Qed.
Lemma pre_continue_parent s id i o k : h_pre (handle_continue_parent s id i o k) = None.
Proof. unfold handle_continue_parent. break_match; reflexivity. Qed.

(* RunTask executes the task only if the cancel flag is off, the task is RUNNING (run_task_guard) and the
   workflow is not complete *)
Lemma pre_run_task orc s id i t a p :
  h_pre (handle_run_task orc s id i t a) = Some p ->
  w_canceled s = false /\ p = (i, t) /\
  exists st tk, get_stage s i = Some st /\ nth_error (s_tasks st) t = Some tk /\ run_task_guard (t_status tk) = true
                /\ is_complete (w_status s) = false.
Proof.
  unfold handle_run_task.
  destruct (get_stage s i) as [st|] eqn:Hs; [|discriminate].
  destruct (nth_error (s_tasks st) t) as [tk|] eqn:Ht; [|discriminate].
  destruct (run_task_guard (t_status tk)) eqn:Hg; simpl; [|discriminate].
  destruct (w_canceled s) eqn:Hc; [discriminate|].
  destruct (is_complete (w_status s)) eqn:Hw; [discriminate|].
  destruct (status_eqb (w_status s) PAUSED); [discriminate|].
  simpl. intros H. inversion H. subst p. repeat split. exists st, tk. auto.
Qed.

Lemma pre_handle orc s r p :
  h_pre (handle orc s r) = Some p -> w_canceled s = false /\ exists i t, q_msg r = MRunTask i t /\ p = (i, t).
Proof.
  unfold handle. destruct (q_msg r) eqn:E;
    rewrite ?pre_start_workflow, ?pre_complete_workflow, ?pre_cancel_workflow, ?pre_start_stage, ?pre_complete_stage,
            ?pre_skip_stage, ?pre_cancel_stage, ?pre_start_task, ?pre_complete_task, ?pre_signal, ?pre_jump,
            ?pre_pause_task, ?pre_resume_stage, ?pre_restart_stage, ?pre_continue_parent; try discriminate.
  intros H. apply pre_run_task in H. destruct H as [Hc [Hp _]]. split; [exact Hc|]. exists s0, t. auto.
Qed.

Lemma canceled_bump id s : w_canceled (bump_attempts id s) = w_canceled s.
Proof. reflexivity. Qed.

Lemma delivery_pre_not_canceled orc s id ack d :
  delivery_commits orc s id ack = Some d -> w_canceled s = true -> d_pre d = None.
Proof.
  unfold delivery_commits. destruct (find_row s id) as [r0|]; [|discriminate].
  destruct (queue_max_attempts <=? q_attempts r0)%Z; [discriminate|].
  destruct (mem_nat id (w_processed (bump_attempts id s))).
  - intros H _. inversion H. reflexivity.
  - intros H Hc. inversion H. simpl.
    destruct (h_pre (handle orc (bump_attempts id s) _)) as [p|] eqn:Hp; [|reflexivity].
    apply pre_handle in Hp. destruct Hp as [Hn _]. rewrite canceled_bump in Hn. congruence.
Qed.

(* ---- C17: once the cancel flag is durable it stays, and no task is executed any more ---- *)
Theorem cancel_sticky orc s a : w_canceled s = true -> w_canceled (step orc s a) = true.
Proof.
  intros Hc. destruct a; simpl.
  - destruct (delivery_commits orc s id do_ack) as [d|]; [|exact Hc].
    apply canceled_commits. rewrite canceled_pre. apply canceled_commit, Hc.
  - destruct k; [exact Hc|]. destruct (delivery_commits orc s id true) as [d|]; [|exact Hc].
    apply canceled_commits. rewrite canceled_pre. apply canceled_commit, Hc.
  - unfold recover. apply canceled_commit, Hc.
  - exact Hc.
  - exact Hc.
  - exact Hc.
  - exact Hc.
  - apply canceled_commit, Hc.
  - exact Hc.
Qed.

Theorem no_exec_after_cancel orc s a : w_canceled s = true -> g_execs (step orc s a) = g_execs s.
Proof.
  intros Hc. destruct a; simpl; try reflexivity.
  - destruct (delivery_commits orc s id do_ack) as [d|] eqn:Hd; [|reflexivity].
    rewrite execs_commits. rewrite (delivery_pre_not_canceled _ _ _ _ _ Hd Hc). simpl. apply execs_commit.
  - destruct k; [reflexivity|]. destruct (delivery_commits orc s id true) as [d|] eqn:Hd; [|reflexivity].
    rewrite execs_commits. rewrite (delivery_pre_not_canceled _ _ _ _ _ Hd Hc). simpl. apply execs_commit.
  - unfold recover. apply execs_commit.
  - apply execs_commit.
Qed.

Theorem no_exec_after_cancel_run orc acts : forall s,
  w_canceled s = true -> g_execs (run orc s acts) = g_execs s /\ w_canceled (run orc s acts) = true.
Proof.
  unfold run. induction acts as [|a acts IH]; simpl; intros s Hc; [auto|].
  destruct (IH (step orc s a) (cancel_sticky orc s a Hc)) as [H1 H2].
  split; [|exact H2]. rewrite H1. apply no_exec_after_cancel, Hc.
Qed.

(* the flag is set exactly by handling CancelWorkflow on an unfinished workflow *)
Lemma cancel_workflow_sets_flag s id :
  is_complete (w_status s) = false ->
  w_canceled (apply_commits (h_commits (handle_cancel_workflow s id)) s) = true.
Proof.
  intros H. unfold handle_cancel_workflow. rewrite H. simpl.
  apply canceled_commit. reflexivity.
Qed.

(* ---- C02 / C09 (engine half): a message whose processed mark is durable is never handled again ---- *)
Theorem processed_delivery_is_noop orc s id do_ack r :
  find_row s id = Some r -> (q_attempts r < queue_max_attempts)%Z -> mem_nat id (w_processed s) = true ->
  step orc s (Deliver id do_ack) = (if do_ack then ack id (bump_attempts id s) else bump_attempts id s).
Proof.
  intros Hr Ha Hp. simpl. unfold delivery_commits. rewrite Hr.
  destruct (queue_max_attempts <=? q_attempts r)%Z eqn:E; [apply Z.leb_le in E; lia|].
  change (w_processed (bump_attempts id s)) with (w_processed s). rewrite Hp.
  destruct do_ack; reflexivity.
Qed.

Corollary processed_delivery_frame orc s id do_ack r :
  find_row s id = Some r -> (q_attempts r < queue_max_attempts)%Z -> mem_nat id (w_processed s) = true ->
  let s' := step orc s (Deliver id do_ack) in
  w_stages s' = w_stages s /\ w_status s' = w_status s /\ w_canceled s' = w_canceled s /\ g_execs s' = g_execs s
  /\ w_processed s' = w_processed s /\ w_next s' = w_next s /\ w_claims s' = w_claims s.
Proof.
  intros Hr Ha Hp s'. unfold s'. rewrite (processed_delivery_is_noop _ _ _ _ _ Hr Ha Hp).
  destruct do_ack; repeat split.
Qed.
