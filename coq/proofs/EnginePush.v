(* Which messages the handlers push: used to show that re-arm messages (JumpToStage / RestartStage) only come
   from a task that jumps or from an operator restart, so that the per-commit legality theorem lifts to whole runs. *)
From Coq Require Import List Bool Arith ZArith Lia.
Import ListNotations.
From Stab.model Require Import Base StatusM Readiness StageStat Engine.
From Stab.gen Require Import Gen_Config Gen_Guards.
From Stab.proofs Require Import EngineLegal.

Definition safe_msg (m : msg) : bool := negb (is_jump m).
Definition safe_op (o : op) : bool := match o with OPush m => safe_msg m | _ => true end.
Definition safe_commits (cs : list commit) : Prop := Forall (fun c => forallb safe_op c = true) cs.

Definition never_jumps (orc : oracle) : Prop := forall i t n tg, orc i t n <> RJump tg.

Lemma safe_pushes ms : forallb safe_msg ms = true -> forallb safe_op (c_pushes ms) = true.
Proof. unfold c_pushes. induction ms as [|m ms IH]; simpl; [auto|]. intros H. apply andb_true_iff in H. destruct H as [H1 H2]. rewrite H1, IH; auto. Qed.

Lemma safe_map {A} (f : A -> msg) l : (forall x, safe_msg (f x) = true) -> forallb safe_msg (map f l) = true.
Proof. intros H. induction l; simpl; [reflexivity|]. rewrite H, IHl. reflexivity. Qed.

Lemma safe_app a b : forallb safe_op (a ++ b) = forallb safe_op a && forallb safe_op b.
Proof. apply forallb_app. Qed.

Ltac safe :=
  repeat first
    [ reflexivity
    | apply Forall_nil
    | apply Forall_cons
    | progress (cbn [txn concat app c_put c_mark c_push c_wf c_cancel c_mutate forallb safe_op safe_msg is_jump negb andb])
    | rewrite app_nil_r
    | rewrite safe_pushes by (first [apply safe_map; intros; reflexivity | reflexivity])
    | rewrite safe_app ].

Lemma safe_start_workflow s id : safe_commits (h_commits (handle_start_workflow s id)).
Proof. unfold safe_commits, handle_start_workflow. destruct (negb _); [safe|]. destruct (w_canceled s); [safe|].
  destruct (initial_stages s); unfold ok; cbn [h_commits]; safe. Qed.

Lemma safe_complete_workflow s id k : safe_commits (h_commits (handle_complete_workflow s id k)).
Proof. unfold safe_commits, handle_complete_workflow. destruct (is_complete _); [safe|].
  destruct (determine_final_status _ _ _ _); [destruct (negb _)|]; unfold ok, raised; cbn [h_commits]; safe.
  destruct (status_eqb s0 SUCCEEDED); safe. Qed.

Lemma safe_cancel_workflow s id : safe_commits (h_commits (handle_cancel_workflow s id)).
Proof. unfold safe_commits, handle_cancel_workflow. destruct (is_complete _); unfold ok; cbn [h_commits]; safe. Qed.

Lemma safe_op_adds l : forallb safe_op (map OAdd l) = true.
Proof. induction l; simpl; auto. Qed.

Lemma safe_skip_stage s id i : safe_commits (h_commits (handle_skip_stage s id i)).
Proof. unfold safe_commits, handle_skip_stage. destruct (get_stage s i) as [st|]; [|safe]. destruct (negb _); unfold ok; cbn [h_commits]; safe.
  destruct (downstream s i); safe. destruct (y_owner (s_syn st)); [destruct (y_parent (s_syn st))|]; reflexivity. Qed.

Lemma safe_cancel_stage s id i : safe_commits (h_commits (handle_cancel_stage s id i)).
Proof. unfold safe_commits, handle_cancel_stage. destruct (get_stage s i); [|safe]. destruct (negb _); [safe|].
  destruct (negb _); unfold ok, raised; cbn [h_commits]; safe. Qed.

Lemma safe_start_task s id i t : safe_commits (h_commits (handle_start_task s id i t)).
Proof. unfold safe_commits, handle_start_task. destruct (get_stage s i); [|safe]. destruct (nth_error _ t); [|safe].
  destruct (status_eqb _ NOT_STARTED); [unfold ok; cbn [h_commits]; safe|].
  destruct (before_incomplete s i); [unfold ok; cbn [h_commits]; safe|].
  destruct (negb _); [unfold ok; cbn [h_commits]; safe|]. destruct (t_disabled t0); unfold ok; cbn [h_commits]; safe. Qed.

Lemma safe_complete_task s id i t x : safe_commits (h_commits (handle_complete_task s id i t x)).
Proof. unfold safe_commits, handle_complete_task. destruct (get_stage s i); [|safe]. destruct (nth_error _ t); [|safe].
  destruct (negb _); [unfold ok; cbn [h_commits]; safe|]. destruct (negb _); [safe|].
  destruct (status_eqb x REDIRECT); [|destruct (S t <? _)]; unfold ok; cbn [h_commits]; safe. Qed.

Lemma safe_signal s id i n p : safe_commits (h_commits (handle_signal_stage s id i n p)).
Proof. unfold safe_commits, handle_signal_stage. destruct (get_stage s i); [|safe].
  destruct (status_eqb _ SUSPENDED); [destruct (find _ _) as [[ti tk]|]|destruct p]; unfold ok; cbn [h_commits]; safe. Qed.

Lemma safe_pause_task s id i t : safe_commits (h_commits (handle_pause_task s id i t)).
Proof. unfold safe_commits, handle_pause_task. destruct (get_stage s i); [|safe]. destruct (nth_error _ t); [|safe].
  destruct (is_complete _); [unfold ok; cbn [h_commits]; safe|]. destruct (_ || _); unfold ok, raised; cbn [h_commits]; safe. Qed.

Lemma safe_resume_stage s id i : safe_commits (h_commits (handle_resume_stage s id i)).
Proof. unfold safe_commits, handle_resume_stage. destruct (get_stage s i); [|safe]. destruct (negb _); [unfold ok; cbn [h_commits]; safe|].
  destruct (find _ _) as [[ti tk]|]; destruct (status_eqb (w_status s) PAUSED); unfold ok; cbn [h_commits]; safe. Qed.

Lemma safe_downstream_msgs st ds : forallb safe_msg (downstream_msgs st ds) = true.
Proof.
  unfold downstream_msgs. destruct ds as [|d ds]; [reflexivity|].
  destruct (fst (apply_split st (d :: ds))) eqn:E.
  - apply safe_map. reflexivity.
  - rewrite forallb_app. rewrite !safe_map by reflexivity. reflexivity.
Qed.

Lemma safe_join_tracking s i ds : safe_commits (join_tracking s i ds).
Proof.
  unfold safe_commits, join_tracking. induction ds as [|d ds IH]; simpl; [constructor|].
  apply Forall_app. split; [|exact IH].
  destruct (get_stage s d) as [dst|]; [|constructor].
  destruct (s_join dst); try constructor; destruct (mem_nat i (s_branches dst)); constructor; try constructor; reflexivity.
Qed.

Lemma safe_up_msg st : safe_msg (up_msg st) = true.
Proof. unfold up_msg. destruct (y_owner (s_syn st)); [destruct (y_parent (s_syn st))|]; reflexivity. Qed.

Lemma safe_next_msgs st ds : forallb safe_msg (next_msgs st ds) = true.
Proof.
  unfold next_msgs. destruct ds as [|d ds]; [|apply safe_downstream_msgs].
  destruct (y_owner (s_syn st)); [destruct (y_parent (s_syn st))|]; reflexivity.
Qed.

Lemma safe_put_adds_pushes i st adds id ms :
  forallb safe_msg ms = true ->
  forallb safe_op (txn [c_put i st; map OAdd adds; c_mark id; c_pushes ms]) = true.
Proof.
  intros H. cbn [txn concat app c_put c_mark forallb safe_op]. rewrite safe_app, safe_op_adds. simpl.
  rewrite app_nil_r. apply safe_pushes. exact H.
Qed.

Lemma safe_complete_stage s id i : safe_commits (h_commits (handle_complete_stage s id i)).
Proof.
  unfold safe_commits, handle_complete_stage. destruct (get_stage s i) as [st|]; [|safe].
  destruct (status_eqb _ NOT_STARTED); [unfold ok; cbn [h_commits]; safe|].
  destruct (negb _).
  { destruct (is_halt _); unfold ok; cbn [h_commits]; [|safe]. constructor; [|constructor].
    cbn [txn concat app c_mark c_push forallb safe_op]. rewrite safe_up_msg. reflexivity. }
  match goal with |- context [if ?c then ok [txn [c_put i (st_touch st); _; _; _]] else _] => destruct c end.
  { unfold ok; cbn [h_commits]. constructor; [|constructor]. apply safe_put_adds_pushes. apply safe_map. reflexivity. }
  match goal with |- context [if ?c then ok [c_mark id] else _] => destruct c end; [unfold ok; cbn [h_commits]; safe|].
  match goal with |- context [if ?c then ok [txn [c_put i (st_touch (with_onfail st true)); _; _; _]] else _] => destruct c end.
  { unfold ok; cbn [h_commits]. constructor; [|constructor]. apply safe_put_adds_pushes. apply safe_map. reflexivity. }
  match goal with |- context [status_eqb ?x RUNNING] => destruct (status_eqb x RUNNING) end; [unfold ok; cbn [h_commits]; safe|].
  destruct (negb _); [safe|].
  destruct (_ || _ || _); unfold ok; cbn [h_commits].
  - apply Forall_app. split; [apply safe_join_tracking|]. constructor; [|constructor].
    cbn [txn concat app c_put c_mark forallb safe_op]. rewrite app_nil_r.
    rewrite safe_pushes by apply safe_next_msgs. reflexivity.
  - constructor; [|constructor]. cbn [txn concat app c_put c_push forallb safe_op]. rewrite safe_up_msg. reflexivity.
Qed.

Lemma safe_first_msgs s i st : forallb safe_msg (first_msgs s i st) = true.
Proof.
  unfold first_msgs.
  destruct (_ ++ _); [|apply safe_map; reflexivity].
  destruct (planned_tasks st); [|reflexivity].
  destruct (filter _ _); [reflexivity|apply safe_map; reflexivity].
Qed.

Lemma safe_continue_parent s id i o k : safe_commits (h_commits (handle_continue_parent s id i o k)).
Proof.
  unfold safe_commits, handle_continue_parent. destruct (get_stage s i) as [st|]; [|safe].
  destruct (existsb _ _). { destruct (negb _); unfold ok, raised; cbn [h_commits]; safe. }
  destruct (negb _).
  { destruct (_ <=? _)%Z; [destruct (negb _)|]; unfold ok, raised; cbn [h_commits]; safe. }
  destruct o; [|unfold ok; cbn [h_commits]; safe].
  destruct (s_tasks st); [|unfold ok; cbn [h_commits]; safe].
  destruct (filter (initial_at s) _); [unfold ok; cbn [h_commits]; safe|].
  destruct (filter _ (_ :: _)); unfold ok; cbn [h_commits]; [safe|].
  constructor; [|constructor]. cbn [txn concat app c_mark forallb safe_op]. rewrite app_nil_r.
  apply safe_pushes. apply safe_map. reflexivity.
Qed.

Lemma safe_start_stage s id i k : safe_commits (h_commits (handle_start_stage s id i k)).
Proof.
  unfold safe_commits, handle_start_stage. destruct (get_stage s i) as [st|]; [|safe].
  destruct (parent_not_started s st); [unfold ok; cbn [h_commits]; safe|].
  match goal with |- context [match rr_phase ?r with _ => _ end] => destruct (rr_phase r) end.
  - unfold start_if_ready.
    match goal with |- context [if ?c then ok [] else _] => destruct c end; [safe|].
    destruct (should_skip _); [unfold ok; cbn [h_commits]; safe|].
    destruct (milestone_expired _ _); [unfold ok; cbn [h_commits]; safe|].
    destruct (mutex_blocked _ _ _); [unfold ok; cbn [h_commits]; safe|].
    destruct (_ && choice_claimed _ _ _); [unfold ok; cbn [h_commits]; safe|].
    destruct (y_expired _); [unfold ok; cbn [h_commits]; safe|].
    match goal with |- context [negb (fst ?m)] => destruct (fst m) end; cbn [negb]; [|unfold ok; cbn [h_commits]; safe].
    match goal with |- context [negb (fst ?c)] => destruct (fst c) end; cbn [negb]; [|unfold ok; cbn [h_commits]; safe].
    unfold ok; cbn [h_commits]. apply Forall_app. split.
    + constructor; [|constructor]. rewrite safe_app. simpl.
      match goal with |- context [if ?z then [] else _] => destruct z end; reflexivity.
    + apply Forall_app. split.
      * match goal with |- context [match ?c with Some _ => _ | None => [] end] => destruct c end; [|constructor].
        induction (siblings_not_started _ _ _); simpl; constructor; auto.
      * constructor; [|constructor]. apply safe_put_adds_pushes. apply safe_first_msgs.
  - destruct (start_stage_late _); [safe|]. destruct (start_stage_waits _ _); [safe|].
    destruct (wait_exhausted _ _); [destruct (can_transition _ _)|]; unfold ok; cbn [h_commits]; safe.
  - unfold ok; cbn [h_commits]; safe.
  - destruct (start_stage_late _); [safe|]. destruct (start_stage_waits _ _); [safe|].
    destruct (wait_exhausted _ _); [destruct (can_transition _ _)|]; unfold ok; cbn [h_commits]; safe.
Qed.

Lemma safe_run_task orc s id i t a : never_jumps orc -> safe_commits (h_commits (handle_run_task orc s id i t a)).
Proof.
  intros Nj. unfold safe_commits, handle_run_task. destruct (get_stage s i) as [st|]; [|safe].
  destruct (nth_error _ t) as [tk|]; [|safe].
  destruct (negb _); [unfold ok; cbn [h_commits]; safe|].
  destruct (w_canceled s); [unfold ok; cbn [h_commits]; safe|].
  destruct (is_complete _); [unfold ok; cbn [h_commits]; safe|].
  destruct (status_eqb _ PAUSED); [unfold ok; cbn [h_commits]; safe|].
  cbn [h_commits].
  destruct (orc i t (count_execs s i t)) eqn:R; unfold process_result, handle_exception, mark_terminal; try safe.
  - destruct (retry_guard _ _); [destruct ctx|]; safe.
  - exfalso. apply (Nj i t (count_execs s i t) target). exact R.
  - destruct (s_buffered st); safe.
Qed.

(* ------------------------------------------------------------------------------------------ *)
(* the queue never holds a re-arm message unless a task jumps or an operator restarts a stage    *)
(* ------------------------------------------------------------------------------------------ *)

Definition no_rearm_msgs (s : state) : Prop := forall r, In r (w_queue s) -> is_jump (q_msg r) = false.

Lemma no_rearm_op o s : no_rearm_msgs s -> safe_op o = true -> no_rearm_msgs (apply_op s o).
Proof.
  intros H Hs. destruct o; simpl; try exact H.
  - unfold mutate_stage. destruct (get_stage s i); exact H.
  - intros r Hr. simpl in Hr. apply in_app_or in Hr. destruct Hr as [Hr|[Hr|[]]]; [apply H; exact Hr|].
    subst r. simpl. simpl in Hs. unfold safe_msg in Hs. apply negb_true_iff in Hs. exact Hs.
  - intros r Hr. unfold bump_attempts in Hr. simpl in Hr. apply in_map_iff in Hr. destruct Hr as [r0 [E Hr0]].
    destruct (q_id r0 =? id); subst r; simpl; apply H; exact Hr0.
  - intros r Hr. unfold ack in Hr. simpl in Hr. apply filter_In in Hr. apply H. tauto.
Qed.

Lemma no_rearm_commit c : forall s, no_rearm_msgs s -> forallb safe_op c = true -> no_rearm_msgs (apply_commit s c).
Proof.
  unfold apply_commit. induction c as [|o c IH]; simpl; intros s H Hs; [exact H|].
  apply andb_true_iff in Hs. destruct Hs as [H1 H2]. apply IH; [apply no_rearm_op; assumption|exact H2].
Qed.

Lemma no_rearm_commits cs : forall s, no_rearm_msgs s -> safe_commits cs -> no_rearm_msgs (apply_commits cs s).
Proof.
  induction cs as [|c cs IH]; simpl; intros s H Hs; [exact H|]. inversion Hs; subst.
  apply IH; [apply no_rearm_commit; assumption|assumption].
Qed.

Lemma safe_firstn k cs : safe_commits cs -> safe_commits (firstn k cs).
Proof. unfold safe_commits. revert k. induction cs as [|c cs IH]; intros [|k] H; simpl; try constructor; inversion H; subst; auto. Qed.

Lemma safe_handle orc s r : never_jumps orc -> is_jump (q_msg r) = false -> safe_commits (h_commits (handle orc s r)).
Proof.
  intros Nj Hj. unfold handle. destruct (q_msg r); try discriminate.
  - apply safe_start_workflow.
  - apply safe_complete_workflow.
  - apply safe_cancel_workflow.
  - apply safe_start_stage.
  - apply safe_complete_stage.
  - apply safe_skip_stage.
  - apply safe_cancel_stage.
  - apply safe_start_task.
  - apply safe_run_task. exact Nj.
  - apply safe_complete_task.
  - apply safe_signal.
  - apply safe_pause_task.
  - apply safe_resume_stage.
  - apply safe_continue_parent.
Qed.

Lemma find_row_in s id r : find_row s id = Some r -> In r (w_queue s).
Proof. unfold find_row. intros H. apply find_some in H. tauto. Qed.

Lemma safe_delivery orc s id do_ack d :
  never_jumps orc -> no_rearm_msgs s -> delivery_commits orc s id do_ack = Some d ->
  forallb safe_op (d_poll d) = true /\ safe_commits (d_rest d).
Proof.
  intros Nj K. unfold delivery_commits. destruct (find_row s id) as [r0|] eqn:Hr; [|discriminate].
  destruct (queue_max_attempts <=? q_attempts r0)%Z; [discriminate|].
  destruct (mem_nat id (w_processed (bump_attempts id s))); intros H; inversion H; simpl; (split; [reflexivity|]).
  - destruct do_ack; repeat constructor.
  - apply Forall_app. split.
    + apply safe_handle; [exact Nj|]. simpl. apply K. apply find_row_in with id. exact Hr.
    + destruct (h_raised _); [constructor|]. constructor; [reflexivity|]. destruct do_ack; repeat constructor.
Qed.

Lemma no_rearm_pre p s : no_rearm_msgs s -> no_rearm_msgs (apply_pre p s).
Proof. destruct p as [[i t]|]; auto. Qed.

Lemma safe_recovery_msgs s : forallb safe_msg (recovery_msgs s) = true.
Proof.
  unfold recovery_msgs. destruct (is_complete _); [reflexivity|]. destruct (negb _); [reflexivity|].
  assert (forallb safe_msg (flat_map (fun i => match get_stage s i with Some st => recover_stage s i st | None => [] end)
                                     (seqn (length (w_stages s)))) = true) as H.
  { induction (seqn (length (w_stages s))) as [|i l IH]; simpl; [reflexivity|]. rewrite forallb_app, IH, andb_true_r.
    destruct (get_stage s i) as [st|]; [|reflexivity]. unfold recover_stage.
    destruct (status_eqb (s_status st) RUNNING).
    - match goal with |- context [match ?x with [] => _ | _ :: _ => _ end] => destruct x as [|a la] eqn:E end.
      + destruct (negb _ && existsb _ (kids s i OwnBefore)); [reflexivity|].
        match goal with |- context [match ?x with [] => _ | _ :: _ => _ end] => destruct x end; [reflexivity|].
        destruct (_ && _); [destruct (has_pending_for_task _ _ _)|]; reflexivity.
      + clear E. generalize (a :: la). intros l0. induction l0 as [|t0 l0 IH0]; simpl; [reflexivity|].
        rewrite forallb_app, IH0, andb_true_r. destruct (has_pending_for_task _ _ _); reflexivity.
    - destruct (status_eqb (s_status st) NOT_STARTED); [|reflexivity].
      destruct (_ || _); [reflexivity|]. destruct (can_start _ _ _ _); reflexivity. }
  destruct (flat_map _ _) eqn:E; [|exact H].
  destruct (_ && _); reflexivity.
Qed.

(* actions that are neither an operator restart nor a pause *)
Definition plain (a : action) : bool := match a with Restart _ | Pause => false | _ => true end.

Theorem no_rearm_step orc s a :
  never_jumps orc -> plain a = true -> no_rearm_msgs s -> no_rearm_msgs (step orc s a).
Proof.
  intros Nj Hp K. destruct a; simpl in *; try discriminate.
  - destruct (delivery_commits orc s id do_ack) as [d|] eqn:E; [|exact K].
    destruct (safe_delivery _ _ _ _ _ Nj K E) as [H1 H2].
    apply no_rearm_commits; [|exact H2]. apply no_rearm_pre. apply no_rearm_commit; assumption.
  - destruct k; [exact K|]. destruct (delivery_commits orc s id true) as [d|] eqn:E; [|exact K].
    destruct (safe_delivery _ _ _ _ _ Nj K E) as [H1 H2].
    apply no_rearm_commits; [|apply safe_firstn; exact H2]. apply no_rearm_pre. apply no_rearm_commit; assumption.
  - unfold recover. apply no_rearm_commit; [exact K|]. apply safe_pushes. apply safe_recovery_msgs.
  - apply (no_rearm_op (OPush MCancelWorkflow)); [exact K|reflexivity].
  - apply (no_rearm_op (OPush (MSignalStage i name persistent))); [exact K|reflexivity].
  - apply (no_rearm_op (OPush MStartWorkflow)); [exact K|reflexivity].
  - apply no_rearm_commit; [exact K|]. apply safe_pushes. apply safe_map. reflexivity.
Qed.

(* ---- whole runs ---- *)
Fixpoint run_legal (orc : oracle) (s : state) (acts : list action) : Prop :=
  match acts with
  | [] => True
  | a :: r => pairwise_legal s (step_trace orc s a) /\ run_legal orc (step orc s a) r
  end.

Lemma no_rearm_not_delivers_jump s a : no_rearm_msgs s -> plain a = true -> ~ delivers_jump s a.
Proof.
  intros K Hp. destruct a; simpl in *; try discriminate; try tauto.
  - intros [r [H1 H2]]. apply find_row_in in H1. rewrite (K r H1) in H2. discriminate.
  - intros [r [H1 H2]]. apply find_row_in in H1. rewrite (K r H1) in H2. discriminate.
Qed.

(* For tasks that never suspend and never jump: EVERY commit of EVERY run (any workflow, any action list of
   deliveries in any order, redeliveries, crashes after any commit, recovery sweeps, cancels, signals, unpauses)
   is a legal status transition — no premise on reachability, no invariant assumed. *)
Theorem run_legal_plain orc acts : forall s,
  never_suspends orc -> never_jumps orc -> forallb plain acts = true -> no_rearm_msgs s -> run_legal orc s acts.
Proof.
  induction acts as [|a acts IH]; simpl; intros s Ns Nj Hp K; [exact I|].
  apply andb_true_iff in Hp. destruct Hp as [Ha Hr]. split.
  - apply commit_legal_nosuspend; [exact Ns|]. apply no_rearm_not_delivers_jump; assumption.
  - apply IH; try assumption. apply no_rearm_step; assumption.
Qed.

Lemma no_rearm_init stages wmax : no_rearm_msgs (init_state stages wmax).
Proof. intros r []. Qed.

(* whole runs: completed statuses (workflow, stages, tasks) survive every run of non-suspending, non-jumping tasks *)
From Stab.proofs Require Import EngineSteps.

Theorem completed_survives_run_plain orc acts : forall s,
  never_suspends orc -> never_jumps orc -> forallb plain acts = true -> no_rearm_msgs s ->
  completed_kept s (run orc s acts).
Proof.
  unfold run. induction acts as [|a acts IH]; simpl; intros s Ns Nj Hp K; [apply completed_kept_refl|].
  apply andb_true_iff in Hp. destruct Hp as [Ha Hr].
  apply completed_kept_trans with (step orc s a).
  - apply completed_kept_ext with (last (step_trace orc s a) s); [apply step_last|].
    apply pairwise_completed_kept. apply commit_legal_nosuspend; [exact Ns|].
    apply no_rearm_not_delivers_jump; assumption.
  - apply IH; try assumption. apply no_rearm_step; assumption.
Qed.
