(* The effect of commits on the queue and on the processed set, as pure functions (like stages_after). *)
From Coq Require Import List Bool Arith ZArith Lia.
Import ListNotations.
From Stab.model Require Import Base StatusM Readiness StageStat Engine.
From Stab.proofs Require Import EngineLegal.

(* ops of handler commits: everything except the delivery wrapper's OBump / OAck *)
Definition handler_op (o : op) : bool := match o with OBump _ | OAck _ => false | _ => true end.

Definition pushes_of (c : commit) : list msg := flat_map (fun o => match o with OPush m => [m] | _ => [] end) c.
Definition marks_of (c : commit) : list nat := flat_map (fun o => match o with OMark id => [id] | _ => [] end) c.

Definition mk_rows (next : nat) (ms : list msg) : list qrow :=
  map (fun p => {| q_id := fst p; q_msg := snd p; q_attempts := 0 |}) (combine (seq next (length ms)) ms).

Lemma mk_rows_app a : forall next b, mk_rows next (a ++ b) = mk_rows next a ++ mk_rows (next + length a) b.
Proof.
  unfold mk_rows. induction a as [|x a IH]; simpl; intros next b.
  - rewrite Nat.add_0_r. reflexivity.
  - f_equal. rewrite IH. replace (S next + length a) with (next + S (length a)) by lia. reflexivity.
Qed.

Lemma queue_apply_op o s : handler_op o = true ->
  w_queue (apply_op s o) = w_queue s ++ mk_rows (w_next s) (pushes_of [o]) /\
  w_next (apply_op s o) = w_next s + length (pushes_of [o]).
Proof.
  intros H. destruct o; simpl in *; try discriminate; rewrite ?app_nil_r, ?Nat.add_0_r; try (split; reflexivity).
  - unfold mutate_stage. destruct (get_stage s i); simpl; rewrite ?app_nil_r; split; reflexivity.
  - split; [reflexivity|lia].
Qed.

Lemma pushes_of_cons o c : pushes_of (o :: c) = pushes_of [o] ++ pushes_of c.
Proof. unfold pushes_of. simpl. rewrite app_nil_r. reflexivity. Qed.

Lemma queue_apply_commit c : forall s, forallb handler_op c = true ->
  w_queue (apply_commit s c) = w_queue s ++ mk_rows (w_next s) (pushes_of c) /\
  w_next (apply_commit s c) = w_next s + length (pushes_of c).
Proof.
  unfold apply_commit. induction c as [|o c IH]; intros s H.
  - cbn. rewrite app_nil_r, Nat.add_0_r. split; reflexivity.
  - cbn [fold_left forallb] in *. apply andb_true_iff in H. destruct H as [Ho Hc].
    destruct (IH (apply_op s o) Hc) as [Q N]. destruct (queue_apply_op o s Ho) as [Q1 N1].
    rewrite Q, N, Q1, N1, (pushes_of_cons o c), mk_rows_app, app_length, <- app_assoc.
    split; [reflexivity|lia].
Qed.

(* processed set after a commit: the old marks plus the commit's *)
Lemma mem_nat_cons x a l : mem_nat x (a :: l) = (x =? a) || mem_nat x l.
Proof. reflexivity. Qed.

Lemma processed_mark id s x :
  mem_nat x (w_processed (mark id s)) = mem_nat x (w_processed s) || mem_nat x [id].
Proof.
  unfold mark. simpl w_processed. rewrite (mem_nat_cons x id []). change (mem_nat x []) with false. rewrite orb_false_r.
  destruct (mem_nat id (w_processed s)) eqn:E.
  - destruct (x =? id) eqn:Ex; [apply Nat.eqb_eq in Ex; subst; rewrite E; reflexivity|rewrite orb_false_r; reflexivity].
  - rewrite mem_nat_cons. apply orb_comm.
Qed.

Lemma processed_apply_op o s x :
  mem_nat x (w_processed (apply_op s o)) = mem_nat x (w_processed s) || mem_nat x (marks_of [o]).
Proof.
  destruct o; try (cbn [apply_op marks_of flat_map app]; change (mem_nat x []) with false; rewrite orb_false_r; reflexivity).
  - cbn [apply_op marks_of flat_map app]. unfold mutate_stage. destruct (get_stage s i); change (mem_nat x []) with false; rewrite orb_false_r; reflexivity.
  - cbn [apply_op marks_of flat_map app]. apply processed_mark.
Qed.

Lemma mem_nat_app x a b : mem_nat x (a ++ b) = mem_nat x a || mem_nat x b.
Proof. unfold mem_nat. apply existsb_app. Qed.

Lemma marks_of_cons o c : marks_of (o :: c) = marks_of [o] ++ marks_of c.
Proof. unfold marks_of. simpl. rewrite app_nil_r. reflexivity. Qed.

Lemma processed_apply_commit c : forall s x,
  mem_nat x (w_processed (apply_commit s c)) = mem_nat x (w_processed s) || mem_nat x (marks_of c).
Proof.
  unfold apply_commit. induction c as [|o c IH]; intros s x; [cbn; rewrite orb_false_r; reflexivity|].
  cbn [fold_left]. rewrite IH, processed_apply_op, (marks_of_cons o c), mem_nat_app, orb_assoc. reflexivity.
Qed.

(* ids of fresh rows are >= next *)
Lemma mk_rows_ids next ms r : In r (mk_rows next ms) -> next <= q_id r /\ In (q_msg r) ms.
Proof.
  unfold mk_rows. intros H. apply in_map_iff in H. destruct H as [[i m] [E H]]. subst r. simpl.
  split; [apply in_combine_l in H; apply in_seq in H; lia|apply in_combine_r in H; exact H].
Qed.
