(* Facts about whole steps (the state after an action) derived from the per-commit analysis:
   what a step can add to the execution ledger, and that completed statuses survive non-jump steps. *)
From Coq Require Import List Bool Arith ZArith Lia.
Import ListNotations.
From Stab.model Require Import Base StatusM Readiness StageStat Engine.
From Stab.gen Require Import Gen_Config Gen_Guards.
From Stab.proofs Require Import StatusP EngineP EngineLegal.

Lemma stages_bump id s : w_stages (bump_attempts id s) = w_stages s /\ w_status (bump_attempts id s) = w_status s.
Proof. split; reflexivity. Qed.

(* the ledger grows by at most one entry per step, and only by a task that was RUNNING (in a non-canceled,
   unfinished workflow) when the handler read it *)
Theorem step_execs orc s a :
  g_execs (step orc s a) = g_execs s \/
  exists i t st tk, g_execs (step orc s a) = (i, t) :: g_execs s /\ get_stage s i = Some st /\
                    nth_error (s_tasks st) t = Some tk /\ t_status tk = RUNNING /\ w_canceled s = false.
Proof.
  assert (forall d do_ack id, delivery_commits orc s id do_ack = Some d ->
            d_pre d = None \/ exists i t st tk, d_pre d = Some (i, t) /\ get_stage s i = Some st /\
                    nth_error (s_tasks st) t = Some tk /\ t_status tk = RUNNING /\ w_canceled s = false) as Hd.
  { intros d do_ack id. unfold delivery_commits.
    destruct (find_row s id) as [r0|]; [|discriminate].
    destruct (queue_max_attempts <=? q_attempts r0)%Z; [discriminate|].
    destruct (mem_nat id (w_processed (bump_attempts id s))); intros H; inversion H; simpl; [left; reflexivity|].
    destruct (h_pre (handle orc (bump_attempts id s) _)) as [p|] eqn:Hp; [|left; reflexivity].
    right. unfold handle in Hp. simpl in Hp.
    destruct (q_msg r0) eqn:Em;
      rewrite ?pre_start_workflow, ?pre_complete_workflow, ?pre_cancel_workflow, ?pre_start_stage, ?pre_complete_stage,
              ?pre_skip_stage, ?pre_cancel_stage, ?pre_start_task, ?pre_complete_task, ?pre_signal, ?pre_jump,
              ?pre_pause_task, ?pre_resume_stage, ?pre_restart_stage, ?pre_continue_parent in Hp; try discriminate.
    apply pre_run_task in Hp. destruct Hp as [Hc [Hpp [st [tk [G1 [G2 [G3 _]]]]]]]. subst p.
    exists s0, t, st, tk. repeat split; try assumption. apply run_task_guard_spec. exact G3. }
  destruct a; simpl; try (left; reflexivity).
  - destruct (delivery_commits orc s id do_ack) as [d|] eqn:E; [|left; reflexivity].
    rewrite execs_commits. destruct (Hd d do_ack id E) as [Hn|[i [t [st [tk [Hp H]]]]]].
    + rewrite Hn. simpl. left. apply execs_commit.
    + rewrite Hp. simpl. right. exists i, t, st, tk. split; [|exact H]. f_equal. apply execs_commit.
  - destruct k; [left; reflexivity|].
    destruct (delivery_commits orc s id true) as [d|] eqn:E; [|left; reflexivity].
    rewrite execs_commits. destruct (Hd d true id E) as [Hn|[i [t [st [tk [Hp H]]]]]].
    + rewrite Hn. simpl. left. apply execs_commit.
    + rewrite Hp. simpl. right. exists i, t, st, tk. split; [|exact H]. f_equal. apply execs_commit.
  - left. unfold recover. apply execs_commit.
  - left. apply execs_commit.
Qed.

(* stages and workflow status after a step = those of the last state of its commit trace *)
Lemma last_default {A} (l : list A) d d' : l <> [] -> last l d = last l d'.
Proof.
  induction l as [|a l IH]; intros H; [contradiction|]. destruct l as [|b l]; [reflexivity|].
  change (last (a :: b :: l) d) with (last (b :: l) d). change (last (a :: b :: l) d') with (last (b :: l) d').
  apply IH. discriminate.
Qed.

Lemma last_cons {A} (a : A) l d : l <> [] -> last (a :: l) d = last l d.
Proof. destruct l; [contradiction|reflexivity]. Qed.

Lemma scan_nil cs s : scan_commits cs s = [] -> cs = [].
Proof. destruct cs; [reflexivity|discriminate]. Qed.

Lemma last_scan cs : forall s, last (scan_commits cs s) s = apply_commits cs s.
Proof.
  induction cs as [|c cs IH]; intros s; [reflexivity|].
  change (scan_commits (c :: cs) s) with (apply_commit s c :: scan_commits cs (apply_commit s c)).
  change (apply_commits (c :: cs) s) with (apply_commits cs (apply_commit s c)).
  destruct cs as [|c' cs'].
  - reflexivity.
  - rewrite last_cons by discriminate. rewrite (last_default _ s (apply_commit s c)) by discriminate. apply IH.
Qed.

Definition same_durable (a b : state) : Prop := w_stages a = w_stages b /\ w_status a = w_status b.

(* completed statuses are preserved along a legal chain *)
Definition completed_kept (a b : state) : Prop :=
  (is_complete (w_status a) = true -> w_status b = w_status a) /\
  forall i st, get_stage a i = Some st ->
    exists st', get_stage b i = Some st' /\
      (is_complete (s_status st) = true -> s_status st' = s_status st) /\
      length (s_tasks st) <= length (s_tasks st') /\
      (forall t tk, nth_error (s_tasks st) t = Some tk -> exists tk', nth_error (s_tasks st') t = Some tk' /\
         (is_complete (t_status tk) = true -> t_status tk' = t_status tk)).

Lemma completed_kept_refl a : completed_kept a a.
Proof. split; [auto|]. intros i st H. exists st. repeat split; auto. intros t tk Ht. exists tk. auto. Qed.

Lemma completed_kept_trans a b c : completed_kept a b -> completed_kept b c -> completed_kept a c.
Proof.
  intros [H1 H2] [H3 H4]. split.
  - intros Hc. rewrite H3; rewrite (H1 Hc); [reflexivity|exact Hc].
  - intros i st Hs. destruct (H2 i st Hs) as [st' [Hs' [Hst [Hl Ht]]]].
    destruct (H4 i st' Hs') as [st'' [Hs'' [Hst' [Hl' Ht']]]].
    exists st''. split; [exact Hs''|]. split; [|split; [lia|]].
    + intros Hc. rewrite Hst'; rewrite (Hst Hc); [reflexivity|exact Hc].
    + intros t tk Hn. destruct (Ht t tk Hn) as [tk' [Hn' Hk]]. destruct (Ht' t tk' Hn') as [tk'' [Hn'' Hk']].
      exists tk''. split; [exact Hn''|]. intros Hc. rewrite Hk'; rewrite (Hk Hc); [reflexivity|exact Hc].
Qed.

Lemma grows_length {A} (R : A -> A -> Prop) F l l' : grows R F l l' -> length l <= length l'.
Proof. induction 1; simpl; lia. Qed.

Lemma legal_completed_kept a b :
  legal (w_stages a) (w_status a) (w_stages b) (w_status b) -> completed_kept a b.
Proof.
  intros [Hs Hw]. split.
  - intros Hc. symmetry. apply (completed_final _ _ Hc Hw).
  - intros i st Hn. destruct (grows_nth _ _ _ _ _ _ Hs Hn) as [st' [Hn' [H1 H2]]].
    exists st'. split; [exact Hn'|]. split; [|split].
    + intros Hc. symmetry. apply (completed_final _ _ Hc H1).
    + apply (grows_length _ _ _ _ H2).
    + intros t tk Ht. destruct (grows_nth _ _ _ _ _ _ H2 Ht) as [tk' [Ht' L]].
      exists tk'. split; [exact Ht'|]. intros Hc. symmetry. apply (completed_final _ _ Hc L).
Qed.

Lemma pairwise_completed_kept ss : forall s, pairwise_legal s ss -> completed_kept s (last ss s).
Proof.
  induction ss as [|x ss IH]; intros s H; simpl.
  - apply completed_kept_refl.
  - destruct H as [H1 H2]. apply completed_kept_trans with x; [apply legal_completed_kept; exact H1|].
    specialize (IH x H2). destruct ss; [apply completed_kept_refl|].
    rewrite (last_default _ s x) by discriminate. exact IH.
Qed.

Lemma completed_kept_ext a b b' : same_durable b b' -> completed_kept a b -> completed_kept a b'.
Proof.
  intros [E1 E2] [H1 H2]. split; [rewrite <- E2; exact H1|].
  intros i st Hs. destruct (H2 i st Hs) as [st' [Hs' R]]. exists st'. split; [|exact R].
  unfold get_stage in *. rewrite <- E1. exact Hs'.
Qed.

(* the state after a step has the stages / workflow status of the last state of the commit trace *)
Lemma step_last orc s a : same_durable (last (step_trace orc s a) s) (step orc s a).
Proof.
  destruct a; simpl; try (split; reflexivity).
  - destruct (delivery_commits orc s id do_ack) as [d|]; [|split; reflexivity].
    set (s1 := apply_commit s (d_poll d)). set (s2 := apply_pre (d_pre d) s1).
    assert (same_durable s1 s2) as [E1 E2] by (unfold s2; destruct (d_pre d) as [[i t]|]; split; reflexivity).
    destruct (d_rest d) as [|c cs] eqn:Er.
    + simpl. split; assumption.
    + rewrite last_cons by (simpl; discriminate).
      rewrite (last_default _ s s2) by (simpl; discriminate).
      rewrite last_scan. split; reflexivity.
  - destruct k as [|k]; [split; reflexivity|].
    destruct (delivery_commits orc s id true) as [d|]; [|split; reflexivity].
    set (s1 := apply_commit s (d_poll d)). set (s2 := apply_pre (d_pre d) s1).
    assert (same_durable s1 s2) as [E1 E2] by (unfold s2; destruct (d_pre d) as [[i t]|]; split; reflexivity).
    destruct (firstn k (d_rest d)) as [|c cs] eqn:Er.
    + simpl. split; assumption.
    + rewrite last_cons by (simpl; discriminate).
      rewrite (last_default _ s s2) by (simpl; discriminate).
      rewrite last_scan. split; reflexivity.
Qed.

(* C02: a completed task / stage / workflow stays completed over every non-jump step, and a task whose result
   is recorded is not the one a step executes *)
Theorem completed_survives_step orc s a :
  running_task_in_running_stage s -> ~ delivers_jump s a -> completed_kept s (step orc s a).
Proof.
  intros Inv Hj. apply completed_kept_ext with (last (step_trace orc s a) s); [apply step_last|].
  apply pairwise_completed_kept. apply commit_legal; assumption.
Qed.

Theorem recorded_result_not_reexecuted orc s a i t st tk :
  get_stage s i = Some st -> nth_error (s_tasks st) t = Some tk -> t_status tk <> RUNNING ->
  g_execs (step orc s a) = g_execs s \/ exists p, g_execs (step orc s a) = p :: g_execs s /\ p <> (i, t).
Proof.
  intros Hs Ht Hn. destruct (step_execs orc s a) as [H|[j [u [st' [tk' [H [Hs' [Ht' [Hr _]]]]]]]]]; [left; exact H|].
  right. exists (j, u). split; [exact H|]. intros E. inversion E; subst.
  rewrite Hs in Hs'. inversion Hs'; subst. rewrite Ht in Ht'. inversion Ht'; subst. contradiction.
Qed.
