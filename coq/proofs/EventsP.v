(* EventsP: lemmas about coq/model/EventsM.v (replay fold, as-of, snapshots, recording runs, the transaction scope). *)
From Coq Require Import List Bool NArith Lia Sorted.
Import ListNotations.
From Stab.model Require Import Base StatusM EventsM.
Local Open Scope N_scope.

(* ------------------------------------------------------------------------------------------------ *)
(* association lists                                                                                 *)
(* ------------------------------------------------------------------------------------------------ *)

Lemma aget_aset_same {V} k (v : V) m : aget k (aset k v m) = Some v.
Proof.
  induction m as [|[k' v'] m IH]; simpl.
  - now rewrite N.eqb_refl.
  - destruct (N.eqb k k') eqn:E; simpl; rewrite E; auto.
Qed.

Lemma aget_aset_other {V} k k' (v : V) m : k <> k' -> aget k (aset k' v m) = aget k m.
Proof.
  intros Hne. induction m as [|[k2 v2] m IH]; simpl.
  - destruct (N.eqb k k') eqn:E; auto. apply N.eqb_eq in E. contradiction.
  - destruct (N.eqb k' k2) eqn:E; simpl.
    + apply N.eqb_eq in E. subst k2. destruct (N.eqb k k') eqn:E2; auto. apply N.eqb_eq in E2. contradiction.
    + destruct (N.eqb k k2); auto.
Qed.

Lemma filter_filter {A} (f g : A -> bool) l : filter f (filter g l) = filter (fun x => g x && f x) l.
Proof.
  induction l as [|a l IH]; simpl; auto.
  destruct (g a); simpl; [destruct (f a)|]; rewrite ?IH; auto.
Qed.

(* ------------------------------------------------------------------------------------------------ *)
(* C12: as-of rebuild = replay of a prefix                                                           *)
(* ------------------------------------------------------------------------------------------------ *)

Lemma rebuild_as_of wf n log :
  rebuild wf None (Some n) log
  = replay (filter (fun e => N.eqb (ewf e) wf && N.ltb 0 (seq e) && N.leb (seq e) n) log).
Proof. unfold rebuild, events_for, replay. simpl. now rewrite filter_filter. Qed.

Lemma rebuild_full wf log :
  rebuild wf None None log = replay (filter (fun e => N.eqb (ewf e) wf && N.ltb 0 (seq e)) log).
Proof. reflexivity. Qed.

(* with positive sequence numbers (what AUTOINCREMENT hands out) the `0 <` conjunct disappears *)
Lemma rebuild_as_of_pos wf n log :
  Forall (fun e => 0 < seq e) log ->
  rebuild wf None (Some n) log = replay (filter (fun e => N.eqb (ewf e) wf && N.leb (seq e) n) log).
Proof.
  intros H. rewrite rebuild_as_of. f_equal. apply filter_ext_in. intros e He.
  rewrite Forall_forall in H. specialize (H e He). apply N.ltb_lt in H. rewrite H. now rewrite andb_true_r.
Qed.

Lemma replay_from_app st a b : replay_from st (a ++ b) = replay_from (replay_from st a) b.
Proof. unfold replay_from. apply fold_left_app. Qed.

(* ------------------------------------------------------------------------------------------------ *)
(* C12: snapshot + later events = full replay (on the restored fields)                               *)
(* ------------------------------------------------------------------------------------------------ *)

Lemma restored_eq_refl a : restored_eq a a.
Proof. unfold restored_eq. tauto. Qed.

Lemma restored_eq_trans a b c : restored_eq a b -> restored_eq b c -> restored_eq a c.
Proof. unfold restored_eq. intuition congruence. Qed.

Lemma apply_event_restored a b e : restored_eq a b -> restored_eq (apply_event a e) (apply_event b e).
Proof.
  destruct a, b. unfold restored_eq. simpl. intros (H1 & H2 & H3 & H4 & H5 & H6). subst.
  unfold apply_event. destruct (ety e).
  - unfold apply_workflow_event; destruct (kind e); simpl; repeat split; reflexivity.
  - unfold apply_stage_event; simpl; repeat split; reflexivity.
  - unfold apply_task_event; simpl; repeat split; reflexivity.
Qed.

Lemma replay_from_restored l : forall a b, restored_eq a b -> restored_eq (replay_from a l) (replay_from b l).
Proof.
  induction l as [|e l IH]; intros a b H; simpl; auto.
  apply IH. now apply apply_event_restored.
Qed.

(* what _load_state_from_snapshot brings back is the snapshotted state up to the two workflow-level times;
   this is where Gen_Events.snapshot_restores_* is used: a field dropped from the restore breaks this proof *)
Lemma load_snapshot_restored sn : restored_eq (load_snapshot sn) (sn_state sn).
Proof. unfold load_snapshot, restored_eq. simpl. repeat split; reflexivity. Qed.

Lemma sorted_split (p q : event -> bool) k l :
  seq_sorted l ->
  (forall e, seq e <= k -> q e = true) ->
  filter (fun e => p e && N.ltb 0 (seq e) && q e) l
  = filter (fun e => p e && N.ltb 0 (seq e) && N.leb (seq e) k) l
    ++ filter (fun e => (p e && N.ltb k (seq e)) && q e) l.
Proof.
  intros Hs Hq. induction Hs as [|a l Hs IH Ha]; simpl; auto.
  destruct (N.leb (seq a) k) eqn:Ek.
  - apply N.leb_le in Ek. rewrite (Hq a Ek).
    assert (N.ltb k (seq a) = false) as -> by (apply N.ltb_ge; lia).
    rewrite !andb_true_r, andb_false_r. simpl.
    destruct (p a && N.ltb 0 (seq a)); simpl; rewrite IH; auto.
  - apply N.leb_gt in Ek.
    rewrite andb_false_r.
    assert (Hnil : filter (fun e => p e && N.ltb 0 (seq e) && N.leb (seq e) k) l = []).
    { apply filter_nil_iff. intros x Hx. rewrite Forall_forall in Ha. specialize (Ha x Hx). simpl in Ha.
      assert (N.leb (seq x) k = false) as -> by (apply N.leb_gt; lia). now rewrite andb_false_r. }
    rewrite Hnil. simpl.
    assert (N.ltb k (seq a) = true) as Hk by (apply N.ltb_lt; lia).
    assert (N.ltb 0 (seq a) = true) as H0 by (apply N.ltb_lt; lia).
    rewrite Hk, H0.
    assert (Hext : filter (fun e => p e && N.ltb 0 (seq e) && q e) l = filter (fun e => (p e && N.ltb k (seq e)) && q e) l).
    { apply filter_ext_in. intros x Hx. rewrite Forall_forall in Ha. specialize (Ha x Hx). simpl in Ha.
      assert (N.ltb k (seq x) = true) as -> by (apply N.ltb_lt; lia).
      assert (N.ltb 0 (seq x) = true) as -> by (apply N.ltb_lt; lia). reflexivity. }
    rewrite Hext. reflexivity.
Qed.

Lemma snapshot_rebuild wf log k n ver :
  seq_sorted log ->
  let sn := mkSnap ver k (rebuild wf None (Some k) log) in
  restored_eq (rebuild wf (Some sn) (Some n) log) (rebuild wf None (Some n) log)
  /\ restored_eq (rebuild wf (Some sn) None log) (rebuild wf None None log).
Proof.
  intros Hs sn. split.
  - unfold rebuild at 1. unfold use_snapshot. simpl sn_seq.
    destruct (N.leb k n) eqn:Ekn.
    + apply N.leb_le in Ekn.
      rewrite (rebuild_as_of wf n log). unfold replay.
      rewrite (sorted_split (fun e => N.eqb (ewf e) wf) (fun e => N.leb (seq e) n) k log Hs)
        by (intros e He; apply N.leb_le; lia).
      rewrite replay_from_app. unfold events_for. rewrite filter_filter.
      eapply restored_eq_trans.
      * apply replay_from_restored. apply load_snapshot_restored.
      * simpl sn_state. rewrite rebuild_as_of. unfold replay. apply restored_eq_refl.
    + apply restored_eq_refl.
  - unfold rebuild at 1. simpl use_snapshot. cbv iota beta. simpl sn_seq.
    rewrite (rebuild_full wf log). unfold replay.
    assert (Hf : filter (fun e => N.eqb (ewf e) wf && N.ltb 0 (seq e)) log
                 = filter (fun e => N.eqb (ewf e) wf && N.ltb 0 (seq e) && true) log)
      by (apply filter_ext; intros; now rewrite andb_true_r).
    rewrite Hf.
    rewrite (sorted_split (fun e => N.eqb (ewf e) wf) (fun _ => true) k log Hs) by reflexivity.
    rewrite replay_from_app.
    assert (Hg : events_for wf k log = filter (fun e => (N.eqb (ewf e) wf && N.ltb k (seq e)) && true) log)
      by (unfold events_for; apply filter_ext; intros; now rewrite andb_true_r).
    rewrite Hg.
    eapply restored_eq_trans.
    + apply replay_from_restored. apply load_snapshot_restored.
    + simpl sn_state. rewrite rebuild_as_of. unfold replay. apply restored_eq_refl.
Qed.
