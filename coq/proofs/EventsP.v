(* EventsP: lemmas about coq/model/EventsM.v (replay fold, as-of, snapshots, recording runs, the transaction scope). *)
From Coq Require Import List Bool NArith Lia Sorted.
Import ListNotations.
From Stab.model Require Import Base StatusM EventsM.
Local Open Scope N_scope.

(* ------------------------------------------------------------------------------------------------ *)
(* association lists                                                                                 *)
(* ------------------------------------------------------------------------------------------------ *)

Lemma aget_aset_same {V} k (v : V) m : aget k (aset k v m) = Some v.
Proof.
  induction m as [|[k' v'] m IH]; simpl.
  - now rewrite N.eqb_refl.
  - destruct (N.eqb k k') eqn:E; simpl; rewrite E; auto.
Qed.

Lemma aget_aset_other {V} k k' (v : V) m : k <> k' -> aget k (aset k' v m) = aget k m.
Proof.
  intros Hne. induction m as [|[k2 v2] m IH]; simpl.
  - destruct (N.eqb k k') eqn:E; auto. apply N.eqb_eq in E. contradiction.
  - destruct (N.eqb k' k2) eqn:E; simpl.
    + apply N.eqb_eq in E. subst k2. destruct (N.eqb k k') eqn:E2; auto. apply N.eqb_eq in E2. contradiction.
    + destruct (N.eqb k k2); auto.
Qed.

Lemma filter_filter {A} (f g : A -> bool) l : filter f (filter g l) = filter (fun x => g x && f x) l.
Proof.
  induction l as [|a l IH]; simpl; auto.
  destruct (g a); simpl; [destruct (f a)|]; rewrite ?IH; auto.
Qed.

(* ------------------------------------------------------------------------------------------------ *)
(* C12: as-of rebuild = replay of a prefix                                                           *)
(* ------------------------------------------------------------------------------------------------ *)

Lemma rebuild_as_of wf n log :
  rebuild wf None (Some n) log
  = replay (filter (fun e => N.eqb (ewf e) wf && N.ltb 0 (seq e) && N.leb (seq e) n) log).
Proof. unfold rebuild, events_for, replay. simpl. now rewrite filter_filter. Qed.

Lemma rebuild_full wf log :
  rebuild wf None None log = replay (filter (fun e => N.eqb (ewf e) wf && N.ltb 0 (seq e)) log).
Proof. reflexivity. Qed.

(* with positive sequence numbers (what AUTOINCREMENT hands out) the `0 <` conjunct disappears *)
Lemma rebuild_as_of_pos wf n log :
  Forall (fun e => 0 < seq e) log ->
  rebuild wf None (Some n) log = replay (filter (fun e => N.eqb (ewf e) wf && N.leb (seq e) n) log).
Proof.
  intros H. rewrite rebuild_as_of. f_equal. apply filter_ext_in. intros e He.
  rewrite Forall_forall in H. specialize (H e He). apply N.ltb_lt in H. rewrite H. now rewrite andb_true_r.
Qed.

Lemma replay_from_app st a b : replay_from st (a ++ b) = replay_from (replay_from st a) b.
Proof. unfold replay_from. apply fold_left_app. Qed.

(* ------------------------------------------------------------------------------------------------ *)
(* C12: snapshot + later events = full replay (on the restored fields)                               *)
(* ------------------------------------------------------------------------------------------------ *)

Lemma restored_eq_refl a : restored_eq a a.
Proof. unfold restored_eq. tauto. Qed.

Lemma restored_eq_trans a b c : restored_eq a b -> restored_eq b c -> restored_eq a c.
Proof. unfold restored_eq. intuition congruence. Qed.

Lemma apply_event_restored a b e : restored_eq a b -> restored_eq (apply_event a e) (apply_event b e).
Proof.
  destruct a, b. unfold restored_eq. simpl. intros (H1 & H2 & H3 & H4 & H5 & H6). subst.
  unfold apply_event. destruct (ety e).
  - unfold apply_workflow_event; destruct (kind e); simpl; repeat split; reflexivity.
  - unfold apply_stage_event; simpl; repeat split; reflexivity.
  - unfold apply_task_event; simpl; repeat split; reflexivity.
Qed.

Lemma replay_from_restored l : forall a b, restored_eq a b -> restored_eq (replay_from a l) (replay_from b l).
Proof.
  induction l as [|e l IH]; intros a b H; simpl; auto.
  apply IH. now apply apply_event_restored.
Qed.

(* what _load_state_from_snapshot brings back is the snapshotted state up to the two workflow-level times;
   this is where Gen_Events.snapshot_restores_* is used: a field dropped from the restore breaks this proof *)
Lemma load_snapshot_restored sn : restored_eq (load_snapshot sn) (sn_state sn).
Proof. unfold load_snapshot, restored_eq. simpl. repeat split; reflexivity. Qed.

Lemma sorted_split (p q : event -> bool) k l :
  seq_sorted l ->
  (forall e, seq e <= k -> q e = true) ->
  filter (fun e => p e && N.ltb 0 (seq e) && q e) l
  = filter (fun e => p e && N.ltb 0 (seq e) && N.leb (seq e) k) l
    ++ filter (fun e => (p e && N.ltb k (seq e)) && q e) l.
Proof.
  intros Hs Hq. induction Hs as [|a l Hs IH Ha]; simpl; auto.
  destruct (N.leb (seq a) k) eqn:Ek.
  - apply N.leb_le in Ek. rewrite (Hq a Ek).
    assert (N.ltb k (seq a) = false) as -> by (apply N.ltb_ge; lia).
    rewrite !andb_true_r, andb_false_r. simpl.
    destruct (p a && N.ltb 0 (seq a)); simpl; rewrite IH; auto.
  - apply N.leb_gt in Ek.
    rewrite andb_false_r.
    assert (Hnil : filter (fun e => p e && N.ltb 0 (seq e) && N.leb (seq e) k) l = []).
    { apply filter_nil_iff. intros x Hx. rewrite Forall_forall in Ha. specialize (Ha x Hx). simpl in Ha.
      assert (N.leb (seq x) k = false) as -> by (apply N.leb_gt; lia). now rewrite andb_false_r. }
    rewrite Hnil. simpl.
    assert (N.ltb k (seq a) = true) as Hk by (apply N.ltb_lt; lia).
    assert (N.ltb 0 (seq a) = true) as H0 by (apply N.ltb_lt; lia).
    rewrite Hk, H0.
    assert (Hext : filter (fun e => p e && N.ltb 0 (seq e) && q e) l = filter (fun e => (p e && N.ltb k (seq e)) && q e) l).
    { apply filter_ext_in. intros x Hx. rewrite Forall_forall in Ha. specialize (Ha x Hx). simpl in Ha.
      assert (N.ltb k (seq x) = true) as -> by (apply N.ltb_lt; lia).
      assert (N.ltb 0 (seq x) = true) as -> by (apply N.ltb_lt; lia). reflexivity. }
    rewrite Hext. reflexivity.
Qed.

Lemma snapshot_rebuild wf log k n ver :
  seq_sorted log ->
  let sn := mkSnap ver k (rebuild wf None (Some k) log) in
  restored_eq (rebuild wf (Some sn) (Some n) log) (rebuild wf None (Some n) log)
  /\ restored_eq (rebuild wf (Some sn) None log) (rebuild wf None None log).
Proof.
  intros Hs sn. split.
  - unfold rebuild at 1. unfold use_snapshot. simpl sn_seq.
    destruct (N.leb k n) eqn:Ekn.
    + apply N.leb_le in Ekn.
      rewrite (rebuild_as_of wf n log). unfold replay.
      rewrite (sorted_split (fun e => N.eqb (ewf e) wf) (fun e => N.leb (seq e) n) k log Hs)
        by (intros e He; apply N.leb_le; lia).
      rewrite replay_from_app. unfold events_for. rewrite filter_filter.
      eapply restored_eq_trans.
      * apply replay_from_restored. apply load_snapshot_restored.
      * simpl sn_state. rewrite rebuild_as_of. unfold replay. apply restored_eq_refl.
    + apply restored_eq_refl.
  - unfold rebuild at 1. simpl use_snapshot. cbv iota beta. simpl sn_seq.
    rewrite (rebuild_full wf log). unfold replay.
    assert (Hf : filter (fun e => N.eqb (ewf e) wf && N.ltb 0 (seq e)) log
                 = filter (fun e => N.eqb (ewf e) wf && N.ltb 0 (seq e) && true) log)
      by (apply filter_ext; intros; now rewrite andb_true_r).
    rewrite Hf.
    rewrite (sorted_split (fun e => N.eqb (ewf e) wf) (fun _ => true) k log Hs) by reflexivity.
    rewrite replay_from_app.
    assert (Hg : events_for wf k log = filter (fun e => (N.eqb (ewf e) wf && N.ltb k (seq e)) && true) log)
      by (unfold events_for; apply filter_ext; intros; now rewrite andb_true_r).
    rewrite Hg.
    eapply restored_eq_trans.
    + apply replay_from_restored. apply load_snapshot_restored.
    + simpl sn_state. rewrite rebuild_as_of. unfold replay. apply restored_eq_refl.
Qed.

(* ------------------------------------------------------------------------------------------------ *)
(* C12: the replay invariant over recording runs                                                     *)
(* ------------------------------------------------------------------------------------------------ *)

Lemma entity_eqb_eq a b : entity_eqb a b = true <-> a = b.
Proof.
  destruct a, b; simpl; split; intros H; try congruence; try discriminate.
  - apply N.eqb_eq in H. congruence.
  - inversion H. apply N.eqb_refl.
  - apply N.eqb_eq in H. congruence.
  - inversion H. apply N.eqb_refl.
Qed.

Lemma entity_eqb_refl a : entity_eqb a a = true.
Proof. now apply entity_eqb_eq. Qed.

Lemma entity_eqb_neq a b : entity_eqb a b = false <-> a <> b.
Proof.
  split.
  - intros H E. apply entity_eqb_eq in E. congruence.
  - intros H. destruct (entity_eqb a b) eqn:E; auto. apply entity_eqb_eq in E. contradiction.
Qed.

Local Arguments status_effect : simpl never.

Lemma apply_status_sets t e old :
  apply_status t e old = match status_effect t (kind e) with
                         | SE_none => old
                         | SE_const s => Some s
                         | SE_data d => Some (match d_status e with Some s => s | None => d end)
                         end.
Proof. reflexivity. Qed.

Lemma w_status_apply_workflow st e : w_status (apply_workflow_event st e) = apply_status ET_WORKFLOW e (w_status st).
Proof. unfold apply_workflow_event. destruct (kind e); reflexivity. Qed.

Lemma stages_apply_workflow st e : r_stages (apply_workflow_event st e) = r_stages st.
Proof. unfold apply_workflow_event. destruct (kind e); reflexivity. Qed.

Lemma tasks_apply_workflow st e : r_tasks (apply_workflow_event st e) = r_tasks st.
Proof. unfold apply_workflow_event. destruct (kind e); reflexivity. Qed.

Lemma s_status_apply_fields s e : s_status (apply_stage_fields s e) = apply_status ET_STAGE e (s_status s).
Proof. unfold apply_stage_fields. destruct (kind e); reflexivity. Qed.

Lemma k_status_apply_fields t e : k_status (apply_task_fields t e) = apply_status ET_TASK e (k_status t).
Proof. unfold apply_task_fields. destruct (kind e); reflexivity. Qed.

(* one event changes the replayed status of its own entity only, and by the table alone *)
Lemma rstatus_apply_event st e x :
  rstatus (apply_event st e) x
  = if entity_eqb (event_entity e) x
    then match sets_status e with Some s => Some s | None => rstatus st x end
    else rstatus st x.
Proof.
  unfold apply_event, event_entity, sets_status. destruct (ety e) eqn:Ety.
  - destruct x; simpl.
    + rewrite w_status_apply_workflow, apply_status_sets. destruct (status_effect ET_WORKFLOW (kind e)); reflexivity.
    + now rewrite stages_apply_workflow.
    + now rewrite tasks_apply_workflow.
  - destruct x; simpl; auto.
    destruct (N.eqb (eid e) i) eqn:E.
    + apply N.eqb_eq in E. subst i. rewrite aget_aset_same, s_status_apply_fields, apply_status_sets.
      destruct (aget (eid e) (r_stages st)); simpl; destruct (status_effect ET_STAGE (kind e)); reflexivity.
    + rewrite aget_aset_other; auto. intros ->. now rewrite N.eqb_refl in E.
  - destruct x; simpl; auto.
    destruct (N.eqb (eid e) i) eqn:E.
    + apply N.eqb_eq in E. subst i. rewrite aget_aset_same, k_status_apply_fields, apply_status_sets.
      destruct (aget (eid e) (r_tasks st)); simpl; destruct (status_effect ET_TASK (kind e)); reflexivity.
    + rewrite aget_aset_other; auto. intros ->. now rewrite N.eqb_refl in E.
Qed.

Lemma last_set_snoc evs e x :
  last_set (evs ++ [e]) x
  = if entity_eqb (event_entity e) x
    then match sets_status e with Some s => Some s | None => last_set evs x end
    else last_set evs x.
Proof. unfold last_set. rewrite fold_left_app. reflexivity. Qed.

Lemma rstatus_replay_from evs : forall st x,
  rstatus (replay_from st evs) x = match last_set evs x with Some s => Some s | None => rstatus st x end.
Proof.
  induction evs as [|e evs IH] using rev_ind; intros st x.
  - reflexivity.
  - rewrite replay_from_app. simpl. rewrite rstatus_apply_event, last_set_snoc, IH.
    destruct (entity_eqb (event_entity e) x); auto. destruct (sets_status e); auto.
Qed.

Lemma last_set_in evs x s : last_set evs x = Some s -> In x (map event_entity evs).
Proof.
  induction evs as [|e evs IH] using rev_ind; [discriminate|].
  rewrite last_set_snoc, map_app, in_app_iff. simpl.
  destruct (entity_eqb (event_entity e) x) eqn:E.
  - apply entity_eqb_eq in E. auto.
  - intros H. left. auto.
Qed.

Lemma sget_sset_same x v m : sget x (sset x v m) = Some v.
Proof.
  induction m as [|[y v'] m IH]; simpl.
  - now rewrite entity_eqb_refl.
  - destruct (entity_eqb x y) eqn:E; simpl; rewrite E; auto.
Qed.

Lemma sget_sset_other x y v m : x <> y -> sget x (sset y v m) = sget x m.
Proof.
  intros Hne. induction m as [|[z v'] m IH]; simpl.
  - apply entity_eqb_neq in Hne. now rewrite Hne.
  - destruct (entity_eqb y z) eqn:E; simpl.
    + apply entity_eqb_eq in E. subst z. apply entity_eqb_neq in Hne. now rewrite Hne.
    + destruct (entity_eqb x z); auto.
Qed.

Lemma last_write_snoc ws w x :
  last_write (ws ++ [w]) x = if entity_eqb (wr_ent w) x then Some w else last_write ws x.
Proof. unfold last_write. rewrite fold_left_app. reflexivity. Qed.

Lemma sget_apply_writes ws : forall m x,
  sget x (apply_writes m ws) = match last_write ws x with
                               | Some w => Some (wr_new w, wr_regular w)
                               | None => sget x m
                               end.
Proof.
  induction ws as [|w ws IH] using rev_ind; intros m x; [reflexivity|].
  unfold apply_writes. rewrite fold_left_app. simpl. fold (apply_writes m ws).
  rewrite last_write_snoc. unfold apply_write.
  destruct (entity_eqb (wr_ent w) x) eqn:E.
  - apply entity_eqb_eq in E. subst x. apply sget_sset_same.
  - rewrite sget_sset_other; [apply IH|]. apply entity_eqb_neq in E. congruence.
Qed.

Lemma last_write_in ws x w : last_write ws x = Some w -> In x (map wr_ent ws).
Proof.
  induction ws as [|w' ws IH] using rev_ind; [discriminate|].
  rewrite last_write_snoc, map_app, in_app_iff. simpl.
  destruct (entity_eqb (wr_ent w') x) eqn:E.
  - apply entity_eqb_eq in E. auto.
  - intros H. left. eauto.
Qed.

Definition rec_inv (m : stored) (log : list event) : Prop := forall x, agrees m (replay log) x = true.

Lemma opt_status_eqb_eq a b : opt_status_eqb a b = true <-> a = b.
Proof.
  destruct a, b; simpl; split; intros H; try congruence; try discriminate.
  - apply status_eqb_eq in H. congruence.
  - inversion H. apply status_eqb_refl.
Qed.

Lemma rec_inv_step m log st :
  rec_inv m log -> step_ok st = true -> rec_inv (apply_writes m (fst st)) (log ++ snd st).
Proof.
  intros Hinv Hok x. unfold agrees. rewrite sget_apply_writes.
  unfold replay. rewrite replay_from_app. fold (replay log). rewrite rstatus_replay_from.
  unfold step_ok in Hok. rewrite forallb_forall in Hok.
  destruct (last_write (fst st) x) as [w|] eqn:Elw.
  - destruct (wr_regular w) eqn:Ereg; auto.
    assert (Hin : In x (entities_of st)).
    { unfold entities_of. apply in_app_iff. left. eapply last_write_in; eauto. }
    specialize (Hok x Hin). unfold entity_ok in Hok. rewrite Elw, Ereg in Hok.
    apply opt_status_eqb_eq in Hok. rewrite Hok. simpl. apply status_eqb_refl.
  - destruct (last_set (snd st) x) as [s|] eqn:Els.
    + assert (Hin : In x (entities_of st)).
      { unfold entities_of. apply in_app_iff. right. eapply last_set_in; eauto. }
      specialize (Hok x Hin). unfold entity_ok in Hok. rewrite Elw, Els in Hok. discriminate.
    + specialize (Hinv x). unfold agrees in Hinv. exact Hinv.
Qed.

Lemma rec_inv_run run : forall m log,
  rec_inv m log -> forallb step_ok run = true ->
  rec_inv (fold_left (fun m st => apply_writes m (fst st)) run m) (log ++ run_log run).
Proof.
  induction run as [|st run IH]; intros m log Hinv Hok; simpl.
  - unfold run_log. simpl. now rewrite app_nil_r.
  - simpl in Hok. apply andb_true_iff in Hok. destruct Hok as [H1 H2].
    unfold run_log. simpl. rewrite app_assoc. apply IH; auto. now apply rec_inv_step.
Qed.

Theorem replay_invariant run :
  forallb step_ok run = true ->
  forall x, agrees (run_store run) (replay (run_log run)) x = true.
Proof.
  intros Hok. apply (rec_inv_run run [] []); auto.
  intros x. reflexivity.
Qed.

(* every lifecycle step of the engine except a task skip records the event that replays to the written status *)
Lemma last_write_force ws x :
  Forall (fun w => wr_regular w = false) ws ->
  match last_write ws x with Some w => wr_regular w = false | None => True end.
Proof.
  induction ws as [|w ws IH] using rev_ind; intros H; simpl; auto.
  rewrite last_write_snoc. apply Forall_app in H. destruct H as [H1 H2].
  destruct (entity_eqb (wr_ent w) x); [now inversion H2|apply IH; exact H1].
Qed.

Ltac crunch_step :=
  unfold step_ok, entity_ok, last_write, last_set, entities_of; cbn; rewrite ?N.eqb_refl; cbn; try reflexivity.

Lemma cancel_stage_ok tag i ts x : entity_ok (record_of tag (LCancelStage i ts)) x = true.
Proof.
  unfold entity_ok. cbn [record_of fst snd]. rewrite last_write_snoc. cbn [wr_ent].
  destruct (entity_eqb (EStage i) x) eqn:E.
  - apply entity_eqb_eq in E. subst x. unfold last_set. cbn. rewrite N.eqb_refl. reflexivity.
  - pose proof (last_write_force (map (fun t => mkW (ETask t) CANCELED false tag) ts) x) as Hf.
    destruct (last_write (map (fun t => mkW (ETask t) CANCELED false tag) ts) x) as [w|].
    + rewrite Hf; auto. apply Forall_forall. intros w' Hw'. apply in_map_iff in Hw'. destruct Hw' as (t & <- & _). reflexivity.
    + unfold last_set. cbn. cbn in E. rewrite E. reflexivity.
Qed.

Lemma record_of_ok tag st :
  is_task_skip st = false -> is_stage_err st = false -> step_ok (record_of tag st) = true.
Proof.
  intros Hs He. destruct st; simpl in Hs, He; try discriminate.
  - crunch_step.
  - destruct s; crunch_step.
  - crunch_step.
  - destruct s; crunch_step.
  - crunch_step.
  - unfold step_ok. apply forallb_forall. intros x _. apply cancel_stage_ok.
  - crunch_step.
  - destruct s; try discriminate; crunch_step.
  - crunch_step. rewrite entity_eqb_refl. reflexivity.
Qed.

Lemma records_from_ok steps : forall tag,
  forallb (fun st => negb (is_task_skip st) && negb (is_stage_err st)) steps = true ->
  forallb step_ok (records_from tag steps) = true.
Proof.
  induction steps as [|st steps IH]; intros tag H; simpl; auto.
  simpl in H. apply andb_true_iff in H. destruct H as [H1 H2].
  apply andb_true_iff in H1. destruct H1 as [Ha Hb].
  apply negb_true_iff in Ha. apply negb_true_iff in Hb.
  rewrite record_of_ok; auto. simpl. apply IH; auto.
Qed.

Theorem engine_replay steps tag :
  forallb (fun st => negb (is_task_skip st) && negb (is_stage_err st)) steps = true ->
  forall x, agrees (run_store (records_from tag steps)) (replay (run_log (records_from tag steps))) x = true.
Proof. intros H. apply replay_invariant. now apply records_from_ok. Qed.

(* ------------------------------------------------------------------------------------------------ *)
(* C13: sequence numbers                                                                             *)
(* ------------------------------------------------------------------------------------------------ *)

Definition log_ok (l : list event) (c : N) : Prop :=
  StronglySorted N.lt (map seq l) /\ Forall (fun e => 0 < seq e <= c) l.

Definition seq_inv (s : tstate) : Prop :=
  log_ok (db_log (durable s)) (db_ctr (durable s))
  /\ log_ok (db_log (working s)) (db_ctr (working s))
  /\ db_ctr (durable s) <= db_ctr (working s).

Lemma sorted_snoc l y : StronglySorted N.lt l -> Forall (fun x => x < y) l -> StronglySorted N.lt (l ++ [y]).
Proof.
  induction 1 as [|a l Hs IH Ha]; intros Hy; simpl.
  - constructor; constructor.
  - inversion Hy; subst. constructor; auto.
    apply Forall_app. split; auto.
Qed.

Lemma log_ok_mono l c c' : log_ok l c -> c <= c' -> log_ok l c'.
Proof.
  intros [H1 H2] Hle. split; auto. eapply Forall_impl; [|exact H2]. simpl. intros; lia.
Qed.

Lemma seq_set_seq n e : seq (set_seq n e) = n.
Proof. reflexivity. Qed.

Lemma log_ok_snoc l c c' e : log_ok l c -> c <= c' -> log_ok (l ++ [set_seq (c' + 1) e]) (c' + 1).
Proof.
  intros [H1 H2] Hle. split.
  - rewrite map_app. simpl. apply sorted_snoc; auto.
    apply Forall_map. eapply Forall_impl; [|exact H2]. simpl. intros; lia.
  - apply Forall_app. split.
    + eapply Forall_impl; [|exact H2]. simpl. intros; lia.
    + constructor; [|constructor]. rewrite seq_set_seq. lia.
Qed.

Lemma tstep_seq_inv same_db s o : seq_inv s -> seq_inv (tstep same_db s o).
Proof.
  intros (Hd & Hw & Hle). unfold seq_inv. destruct o; simpl.
  - destruct (depth s); simpl; (split; [exact Hd|split; [exact Hw|exact Hle]]).
  - split; [exact Hd|split; [exact Hw|exact Hle]].
  - split; [exact Hw|split; [exact Hw|lia]].
  - unfold db_append. simpl.
    assert (Hwk : log_ok (db_log (working s) ++ [set_seq (db_ctr (working s) + 1) e]) (db_ctr (working s) + 1))
      by (apply log_ok_snoc with (c := db_ctr (working s)); auto; lia).
    assert (Hdu : log_ok (db_log (durable s) ++ [set_seq (db_ctr (working s) + 1) e]) (db_ctr (working s) + 1))
      by (apply log_ok_snoc with (c := db_ctr (durable s)); auto).
    destruct (depth s); destruct same_db; simpl;
      first [ split; [exact Hwk|split; [exact Hwk|lia]]
            | split; [exact Hdu|split; [exact Hwk|lia]]
            | split; [exact Hd|split; [exact Hwk|lia]] ].
  - destruct (depth s) as [|[|d]]; simpl; (split; [exact Hw|split; [exact Hw|lia]]).
  - destruct (depth s) as [|[|d]]; simpl; (split; [exact Hd|split; [exact Hd|lia]]).
  - split; [exact Hd|split; [exact Hd|lia]].
Qed.

Lemma trun_seq_inv same_db ops : forall s, seq_inv s -> seq_inv (trun same_db s ops).
Proof.
  induction ops as [|o ops IH]; intros s H; simpl; auto.
  apply IH. now apply tstep_seq_inv.
Qed.

Lemma seq_inv_init : seq_inv init_tstate.
Proof. repeat split; simpl; try constructor; lia. Qed.

Lemma sorted_lt_nodup l : StronglySorted N.lt l -> NoDup l.
Proof.
  induction 1 as [|a l Hs IH Ha]; constructor; auto.
  intros Hin. rewrite Forall_forall in Ha. specialize (Ha a Hin). lia.
Qed.

Theorem sequence_increasing same_db ops :
  let log := db_log (durable (trun same_db init_tstate ops)) in
  StronglySorted N.lt (map seq log) /\ NoDup (map seq log) /\ Forall (fun e => 0 < seq e) log.
Proof.
  pose proof (trun_seq_inv same_db ops init_tstate seq_inv_init) as ((H1 & H2) & _).
  simpl. split; [exact H1|]. split; [now apply sorted_lt_nodup|].
  eapply Forall_impl; [|exact H2]. simpl. intros; lia.
Qed.

(* a log with strictly increasing sequence numbers is in the order get_events_for_workflow returns it *)
Lemma sorted_lt_seq_sorted l : StronglySorted N.lt (map seq l) -> seq_sorted l.
Proof.
  unfold seq_sorted. induction l as [|a l IH]; intros H; [constructor|].
  simpl in H. inversion H; subst. constructor; auto.
  rewrite Forall_map in H3. eapply Forall_impl; [|exact H3]. simpl. intros; lia.
Qed.

(* ------------------------------------------------------------------------------------------------ *)
(* C13: publication after commit                                                                     *)
(* ------------------------------------------------------------------------------------------------ *)

Lemma subseq_refl {A} (l : list A) : subseq l l.
Proof. induction l; [apply subseq_nil|apply subseq_take; auto]. Qed.

Lemma subseq_nil_l {A} (l : list A) : subseq [] l.
Proof. induction l; [apply subseq_nil|apply subseq_skip; auto]. Qed.

Lemma subseq_app_r {A} (a l : list A) x : subseq a l -> subseq a (l ++ [x]).
Proof.
  induction 1; simpl.
  - apply subseq_skip, subseq_nil.
  - apply subseq_skip; auto.
  - apply subseq_take; auto.
Qed.

Lemma subseq_snoc {A} (a l : list A) x : subseq a l -> subseq (a ++ [x]) (l ++ [x]).
Proof.
  induction 1; simpl.
  - apply subseq_take, subseq_nil.
  - apply subseq_skip; auto.
  - apply subseq_take; auto.
Qed.

Lemma subseq_prefix {A} (a b l : list A) : subseq (a ++ b) l -> subseq a l.
Proof.
  revert a b. induction l as [|x l IH]; intros a b H.
  - inversion H as [Hn| |]. destruct a; [apply subseq_nil|discriminate].
  - inversion H as [|a0 l0 x0 Hs|a0 l0 x0 Hs Ha]; subst.
    + apply subseq_skip. eapply IH; eauto.
    + destruct a as [|y a]; simpl in *.
      * apply subseq_nil_l.
      * inversion Ha; subst. apply subseq_take. eapply IH; eauto.
Qed.

Lemma subseq_in {A} (a l : list A) x : subseq a l -> In x a -> In x l.
Proof.
  induction 1; simpl; intros Hin; auto.
  destruct Hin as [<-|Hin]; auto.
Qed.

Definition pub_inv (s : tstate) : Prop :=
  subseq (published s) (db_log (durable s))
  /\ subseq (published s ++ pending s) (db_log (working s))
  /\ (depth s = 0%nat -> pending s = [])
  /\ (depth s <= 1)%nat.

Lemma tstep_pub_inv same_db s o :
  pub_inv s -> flat_from (depth s) [o] = true -> pub_inv (tstep same_db s o).
Proof.
  intros (H1 & H2 & H3 & H4) Hflat.
  assert (Hpre : subseq (published s) (db_log (working s))) by (eapply subseq_prefix; eauto).
  unfold pub_inv. destruct o; simpl in *.
  - destruct (depth s) as [|d] eqn:Ed; [|discriminate]. simpl.
    rewrite app_nil_r. split; [exact H1|split; [exact Hpre|split; [discriminate|lia]]].
  - split; [exact H1|split; [exact H2|split; [exact H3|exact H4]]].
  - split; [exact Hpre|split; [exact H2|split; [exact H3|exact H4]]].
  - unfold db_append. simpl.
    destruct (depth s) as [|d] eqn:Ed.
    + rewrite (H3 eq_refl) in *. rewrite app_nil_r in *.
      destruct same_db; simpl; rewrite ?app_nil_r.
      * split; [apply subseq_snoc; exact H2|split; [apply subseq_snoc; exact H2|split; [reflexivity|lia]]].
      * split; [apply subseq_snoc; exact H1|split; [apply subseq_snoc; exact H2|split; [reflexivity|lia]]].
    + destruct same_db; simpl.
      * split; [exact H1|split; [rewrite app_assoc; apply subseq_snoc; exact H2|split; [discriminate|exact H4]]].
      * split; [apply subseq_app_r; exact H1|split; [rewrite app_assoc; apply subseq_snoc; exact H2|split; [discriminate|exact H4]]].
  - destruct (depth s) as [|[|d]] eqn:Ed; simpl.
    + split; [exact Hpre|split; [exact H2|split; [exact H3|lia]]].
    + rewrite app_nil_r. split; [exact H2|split; [exact H2|split; [reflexivity|lia]]].
    + lia.
  - destruct (depth s) as [|[|d]] eqn:Ed; simpl.
    + rewrite (H3 eq_refl), app_nil_r. split; [exact H1|split; [exact H1|split; [reflexivity|lia]]].
    + rewrite app_nil_r. split; [exact H1|split; [exact H1|split; [reflexivity|lia]]].
    + lia.
  - rewrite app_nil_r. split; [exact H1|split; [exact H1|split; [reflexivity|lia]]].
Qed.

Lemma flat_from_cons d o ops :
  flat_from d (o :: ops) = true ->
  flat_from d [o] = true /\ forall same_db s, depth s = d -> flat_from (depth (tstep same_db s o)) ops = true.
Proof.
  intros H. destruct o; simpl in *.
  - destruct d; [|discriminate]. split; auto. intros sd s Hd. rewrite Hd. simpl. exact H.
  - split; auto. intros sd s Hd. simpl. now rewrite Hd.
  - split; auto. intros sd s Hd. simpl. now rewrite Hd.
  - split; auto. intros sd s Hd. simpl. unfold db_append. simpl.
    rewrite Hd. destruct d; destruct sd; simpl; exact H.
  - split; auto. intros sd s Hd. rewrite Hd. destruct d as [|[|d]]; simpl; exact H.
  - split; auto. intros sd s Hd. rewrite Hd. destruct d as [|[|d]]; simpl; exact H.
  - split; auto.
Qed.

Lemma trun_pub_inv same_db ops : forall s,
  pub_inv s -> flat_from (depth s) ops = true -> pub_inv (trun same_db s ops).
Proof.
  induction ops as [|o ops IH]; intros s Hinv Hflat; simpl; auto.
  apply flat_from_cons in Hflat. destruct Hflat as [Hf1 Hf2].
  apply IH.
  - apply tstep_pub_inv; auto.
  - apply Hf2. reflexivity.
Qed.

Lemma pub_inv_init : pub_inv init_tstate.
Proof. repeat split; simpl; auto; constructor. Qed.

Theorem publish_after_commit same_db ops :
  flat_from 0 ops = true ->
  let s := trun same_db init_tstate ops in
  subseq (published s) (db_log (durable s)).
Proof.
  intros Hflat. apply (trun_pub_inv same_db ops init_tstate pub_inv_init Hflat).
Qed.

(* every published event is durable at that moment (and the log only grows) *)
Corollary published_are_durable same_db ops e :
  flat_from 0 ops = true ->
  In e (published (trun same_db init_tstate ops)) -> In e (db_log (durable (trun same_db init_tstate ops))).
Proof. intros Hf Hin. eapply subseq_in; [apply publish_after_commit; exact Hf|exact Hin]. Qed.

(* ------------------------------------------------------------------------------------------------ *)
(* C13: transaction blocks -- state and events of a block are one commit                             *)
(* ------------------------------------------------------------------------------------------------ *)

Fixpoint db_apply_items (d : dbs) (items : list item) : dbs * list event :=
  match items with
  | [] => (d, [])
  | IWrite w :: r => db_apply_items (db_write w d) r
  | IRecord e :: r =>
      let p := db_append e d in
      let q := db_apply_items (fst p) r in
      (fst q, snd p :: snd q)
  end.

Definition quiescent (s : tstate) : Prop := depth s = 0%nat /\ working s = durable s /\ pending s = [].

Lemma run_items items : forall s n,
  depth s = S n ->
  trun true s (map item_op items)
  = mkT (durable s) (fst (db_apply_items (working s) items)) (depth s)
        (pending s ++ snd (db_apply_items (working s) items)) (published s).
Proof.
  induction items as [|it items IH]; intros s n Hd; simpl.
  - rewrite app_nil_r. destruct s; reflexivity.
  - destruct it as [w|e]; simpl.
    + rewrite (IH _ n); simpl; auto.
    + rewrite Hd. simpl. rewrite (IH _ n); simpl; auto.
      rewrite <- app_assoc. reflexivity.
Qed.

Lemma trun_app same_db s a b : trun same_db s (a ++ b) = trun same_db (trun same_db s a) b.
Proof. unfold trun. apply fold_left_app. Qed.

Lemma run_block s items f :
  quiescent s ->
  trun true s (block_ops (items, f))
  = match f with
    | FCommit => let r := db_apply_items (durable s) items in mkT (fst r) (fst r) 0%nat [] (published s ++ snd r)
    | _ => s
    end.
Proof.
  intros (Hd & Hw & Hp). unfold block_ops. simpl fst. simpl snd.
  change (OBegin :: map item_op items ++ [fate_op f]) with ([OBegin] ++ map item_op items ++ [fate_op f]).
  rewrite !trun_app. simpl (trun true s [OBegin]). rewrite Hd.
  rewrite (run_items items _ 0%nat) by reflexivity. simpl.
  rewrite Hw. destruct f; simpl; auto.
  - destruct s; simpl in *; subst; reflexivity.
  - destruct s; simpl in *; subst; reflexivity.
Qed.

Lemma quiescent_block s items f : quiescent s -> quiescent (trun true s (block_ops (items, f))).
Proof.
  intros Hq. rewrite run_block; auto. destruct f; auto. repeat split; reflexivity.
Qed.

Lemma unseq_set_seq n e : unseq (set_seq n e) = unseq e.
Proof. reflexivity. Qed.

Lemma apply_items_writes items : forall d,
  db_writes (fst (db_apply_items d items)) = db_writes d ++ item_writes items.
Proof.
  induction items as [|[w|e] items IH]; intros d; simpl.
  - now rewrite app_nil_r.
  - rewrite IH. simpl. now rewrite <- app_assoc.
  - rewrite IH. reflexivity.
Qed.

Lemma apply_items_log items : forall d,
  db_log (fst (db_apply_items d items)) = db_log d ++ snd (db_apply_items d items).
Proof.
  induction items as [|[w|e] items IH]; intros d; simpl.
  - now rewrite app_nil_r.
  - rewrite IH. reflexivity.
  - rewrite IH. simpl. now rewrite <- app_assoc.
Qed.

Lemma apply_items_events items : forall d,
  map unseq (snd (db_apply_items d items)) = map unseq (item_events items).
Proof.
  induction items as [|[w|e] items IH]; intros d; simpl; auto.
  rewrite IH. reflexivity.
Qed.

Lemma apply_items_tags items : forall d,
  map etag (snd (db_apply_items d items)) = map etag (item_events items).
Proof.
  induction items as [|[w|e] items IH]; intros d; simpl; auto.
  rewrite IH. reflexivity.
Qed.

Definition committed_writes (bs : list block) : list write :=
  concat (map (fun b => item_writes (fst b)) (filter committed bs)).
Definition committed_events (bs : list block) : list event :=
  concat (map (fun b => item_events (fst b)) (filter committed bs)).

Lemma blocks_ops_cons b bs : blocks_ops (b :: bs) = block_ops b ++ blocks_ops bs.
Proof. reflexivity. Qed.

Lemma committed_writes_cons items f bs :
  committed_writes ((items, f) :: bs) = (match f with FCommit => item_writes items | _ => [] end) ++ committed_writes bs.
Proof. unfold committed_writes, committed. simpl. destruct f; reflexivity. Qed.

Lemma committed_events_cons items f bs :
  committed_events ((items, f) :: bs) = (match f with FCommit => item_events items | _ => [] end) ++ committed_events bs.
Proof. unfold committed_events, committed. simpl. destruct f; reflexivity. Qed.

Theorem atomic_blocks bs : forall s,
  quiescent s ->
  quiescent (trun true s (blocks_ops bs))
  /\ db_writes (durable (trun true s (blocks_ops bs))) = db_writes (durable s) ++ committed_writes bs
  /\ map unseq (db_log (durable (trun true s (blocks_ops bs)))) = map unseq (db_log (durable s)) ++ map unseq (committed_events bs)
  /\ map unseq (published (trun true s (blocks_ops bs))) = map unseq (published s) ++ map unseq (committed_events bs).
Proof.
  induction bs as [|[items f] bs IH]; intros s Hq.
  - unfold committed_writes, committed_events. simpl. rewrite !app_nil_r. auto.
  - rewrite blocks_ops_cons, trun_app.
    pose proof (quiescent_block s items f Hq) as Hq'.
    destruct (IH _ Hq') as (Ha & Hb & Hc & Hd).
    split; [exact Ha|].
    rewrite Hb, Hc, Hd. rewrite run_block by exact Hq.
    rewrite committed_writes_cons, committed_events_cons.
    destruct f; simpl.
    + rewrite apply_items_writes, apply_items_log, !map_app, apply_items_events, !app_assoc. auto.
    + auto.
    + auto.
Qed.

Lemma quiescent_init : quiescent init_tstate.
Proof. repeat split. Qed.

(* ------------------------------------------------------------------------------------------------ *)
(* C13: a handler that records inside its transaction, cut anywhere                                  *)
(* ------------------------------------------------------------------------------------------------ *)

Definition fresh (t : N) (s : tstate) : Prop :=
  has_write_tag t (durable s) = false /\ has_event_tag t (durable s) = false.

Lemma firstn_snoc {A} k (l : list A) c :
  firstn k (l ++ [c]) = if Nat.leb k (length l) then firstn k l else l ++ [c].
Proof.
  revert k. induction l as [|a l IH]; intros k; simpl.
  - destruct k; simpl; auto. now rewrite firstn_nil.
  - destruct k; simpl; auto. rewrite IH. destruct (Nat.leb k (length l)); auto.
Qed.

Lemma existsb_map_tag_w t ws : Forall (fun w => wr_tag w = t) ws -> ws <> [] -> existsb (fun w => N.eqb (wr_tag w) t) ws = true.
Proof.
  destruct ws as [|w ws]; [congruence|]. intros H _. inversion H; subst. simpl. now rewrite N.eqb_refl.
Qed.

Lemma has_event_tag_app t l1 l2 c :
  has_event_tag t (mkDb l1 l2 c) = existsb (fun e => N.eqb (etag e) t) l2.
Proof. reflexivity. Qed.

Lemma existsb_etag t (l : list event) : existsb (fun e => N.eqb (etag e) t) l = existsb (N.eqb t) (map etag l).
Proof. induction l as [|e l IH]; simpl; auto. rewrite IH. now rewrite (N.eqb_sym t). Qed.

Definition in_txn_items (ws : list write) (evs : list event) : list item := map IWrite ws ++ map IRecord evs.

Lemma in_txn_ops ws evs : handler_ops InTxn ws evs = block_ops (in_txn_items ws evs, FCommit).
Proof.
  unfold handler_ops, block_ops, in_txn_items. simpl. rewrite map_app, !map_map. simpl.
  rewrite <- app_assoc. reflexivity.
Qed.

Lemma item_writes_in_txn ws evs : item_writes (in_txn_items ws evs) = ws.
Proof.
  unfold in_txn_items, item_writes. rewrite map_app, concat_app, !map_map. simpl.
  assert (H1 : concat (map (fun w => [w]) ws) = ws) by (induction ws; simpl; congruence).
  assert (H2 : concat (map (fun _ : event => @nil write) evs) = []) by (induction evs; simpl; auto).
  now rewrite H1, H2, app_nil_r.
Qed.

Lemma item_events_in_txn ws evs : item_events (in_txn_items ws evs) = evs.
Proof.
  unfold in_txn_items, item_events. rewrite map_app, concat_app, !map_map. simpl.
  assert (H1 : concat (map (fun _ : write => @nil event) ws) = []) by (induction ws; simpl; auto).
  assert (H2 : concat (map (fun e => [e]) evs) = evs) by (induction evs; simpl; congruence).
  now rewrite H1, H2.
Qed.

(* the cut handler, as a block of a prefix of its statements that never commits, or the whole block *)
Lemma cut_in_txn s ws evs k (cut : op) :
  quiescent s -> (cut = OCrash \/ cut = OAbort) ->
  trun true s (firstn k (handler_ops InTxn ws evs) ++ [cut]) = s
  \/ trun true s (firstn k (handler_ops InTxn ws evs) ++ [cut])
     = trun true s (block_ops (in_txn_items ws evs, FCommit)).
Proof.
  intros Hq Hcut. rewrite in_txn_ops. unfold block_ops at 1 2. simpl fst. simpl snd. simpl fate_op.
  destruct k as [|k].
  - left. simpl. destruct Hq as (Hd & Hw & Hp). destruct s; simpl in *; subst.
    destruct Hcut as [->| ->]; reflexivity.
  - simpl firstn. rewrite firstn_snoc.
    destruct (Nat.leb k (length (map item_op (in_txn_items ws evs)))) eqn:Ek.
    + left. rewrite firstn_map.
      assert (Hf : exists f, (f = FCrash \/ f = FAbort) /\ cut = fate_op f).
      { destruct Hcut as [->| ->]; [exists FCrash|exists FAbort]; auto. }
      destruct Hf as (f & Hf & ->).
      change (trun true s (block_ops (firstn k (in_txn_items ws evs), f)) = s).
      rewrite run_block by exact Hq. destruct Hf as [->| ->]; reflexivity.
    + right.
      change (trun true s (block_ops (in_txn_items ws evs, FCommit) ++ [cut])
              = trun true s (block_ops (in_txn_items ws evs, FCommit))).
      rewrite trun_app.
      pose proof (quiescent_block s (in_txn_items ws evs) FCommit Hq) as (Hd & Hw & Hp).
      remember (trun true s (block_ops (in_txn_items ws evs, FCommit))) as s'.
      destruct s'; simpl in *; subst. destruct Hcut as [->| ->]; reflexivity.
Qed.

Theorem in_txn_atomic s ws evs tag k cut :
  quiescent s -> fresh tag s ->
  (cut = OCrash \/ cut = OAbort) ->
  Forall (fun w => wr_tag w = tag) ws -> Forall (fun e => etag e = tag) evs -> ws <> [] -> evs <> [] ->
  let s' := trun true s (firstn k (handler_ops InTxn ws evs) ++ [cut]) in
  has_event_tag tag (durable s') = has_write_tag tag (durable s').
Proof.
  intros Hq (Hfw & Hfe) Hcut Hws Hevs Hnw Hne s'.
  destruct (cut_in_txn s ws evs k cut Hq Hcut) as [H|H]; unfold s'; rewrite H.
  - congruence.
  - rewrite run_block by exact Hq. simpl.
    unfold has_event_tag, has_write_tag.
    rewrite apply_items_writes, apply_items_log, item_writes_in_txn, !existsb_app.
    rewrite (existsb_map_tag_w tag ws Hws Hnw).
    rewrite (existsb_etag tag (snd _)), apply_items_tags, item_events_in_txn, <- existsb_etag.
    destruct evs as [|e evs]; [congruence|]. inversion Hevs; subst. simpl. rewrite N.eqb_refl.
    now rewrite !orb_true_r.
Qed.

(* run to completion: both are there *)
Theorem in_txn_complete s ws evs tag :
  quiescent s ->
  Forall (fun w => wr_tag w = tag) ws -> Forall (fun e => etag e = tag) evs -> ws <> [] -> evs <> [] ->
  let s' := trun true s (handler_ops InTxn ws evs) in
  has_event_tag tag (durable s') = true /\ has_write_tag tag (durable s') = true
  /\ map unseq (published s') = map unseq (published s) ++ map unseq evs.
Proof.
  intros Hq Hws Hevs Hnw Hne s'. unfold s'. rewrite in_txn_ops, run_block by exact Hq. simpl.
  unfold has_event_tag, has_write_tag.
  rewrite apply_items_writes, apply_items_log, item_writes_in_txn, !existsb_app.
  rewrite (existsb_map_tag_w tag ws Hws Hnw).
  rewrite (existsb_etag tag (snd _)), apply_items_tags, item_events_in_txn, <- existsb_etag.
  rewrite map_app, apply_items_events, item_events_in_txn.
  destruct evs as [|e evs]; [congruence|]. inversion Hevs; subst. simpl. rewrite N.eqb_refl.
  rewrite !orb_true_r. auto.
Qed.

(* nothing is handed to subscribers for a block that did not commit; a committed block's events are handed over *)
Theorem aborted_block_publishes_nothing s items f :
  quiescent s -> f <> FCommit ->
  published (trun true s (block_ops (items, f))) = published s
  /\ durable (trun true s (block_ops (items, f))) = durable s.
Proof. intros Hq Hf. rewrite run_block by exact Hq. destruct f; try congruence; auto. Qed.

Theorem committed_block_publishes s items :
  quiescent s ->
  map unseq (published (trun true s (block_ops (items, FCommit)))) = map unseq (published s) ++ map unseq (item_events items).
Proof. intros Hq. rewrite run_block by exact Hq. simpl. now rewrite map_app, apply_items_events. Qed.

(* ------------------------------------------------------------------------------------------------ *)
(* C13: CompleteTask and CompleteStage (positions from Gen_Events: these proofs fail to compile when a record call
   is moved out of its `with self.repository.transaction(...)` block)                                *)
(* ------------------------------------------------------------------------------------------------ *)

Theorem complete_task_atomic s tag t st k cut :
  quiescent s -> fresh tag s -> (cut = OCrash \/ cut = OAbort) -> status_eqb st SKIPPED = false ->
  has_event_tag tag (durable (trun true s (firstn k (lstep_ops tag (LCompleteTask t st)) ++ [cut])))
  = has_write_tag tag (durable (trun true s (firstn k (lstep_ops tag (LCompleteTask t st)) ++ [cut]))).
Proof.
  intros Hq Hf Hcut Hs. unfold lstep_ops, lstep_pos.
  change (pos_of_flag complete_task_event_in_txn) with InTxn.
  destruct st; try discriminate; apply in_txn_atomic; auto; cbn; repeat constructor; discriminate.
Qed.

Theorem complete_task_done s tag t st :
  quiescent s -> status_eqb st SKIPPED = false ->
  has_event_tag tag (durable (trun true s (lstep_ops tag (LCompleteTask t st)))) = true
  /\ has_write_tag tag (durable (trun true s (lstep_ops tag (LCompleteTask t st)))) = true.
Proof.
  intros Hq Hs. unfold lstep_ops, lstep_pos.
  change (pos_of_flag complete_task_event_in_txn) with InTxn.
  destruct st; try discriminate;
    (edestruct in_txn_complete as (H1 & H2 & _); [exact Hq| | | | |split; [exact H1|exact H2]]);
    cbn; repeat constructor; discriminate.
Qed.

Theorem complete_stage_atomic s tag i st k cut :
  quiescent s -> fresh tag s -> (cut = OCrash \/ cut = OAbort) ->
  has_event_tag tag (durable (trun true s (firstn k (lstep_ops tag (LCompleteStage i st)) ++ [cut])))
  = has_write_tag tag (durable (trun true s (firstn k (lstep_ops tag (LCompleteStage i st)) ++ [cut]))).
Proof.
  intros Hq Hf Hcut. unfold lstep_ops, lstep_pos.
  change (pos_of_flag complete_stage_event_in_txn) with InTxn.
  destruct st; apply in_txn_atomic; auto; cbn; repeat constructor; discriminate.
Qed.

Theorem complete_stage_done s tag i st :
  quiescent s ->
  has_event_tag tag (durable (trun true s (lstep_ops tag (LCompleteStage i st)))) = true
  /\ has_write_tag tag (durable (trun true s (lstep_ops tag (LCompleteStage i st)))) = true.
Proof.
  intros Hq. unfold lstep_ops, lstep_pos.
  change (pos_of_flag complete_stage_event_in_txn) with InTxn.
  destruct st;
    (edestruct in_txn_complete as (H1 & H2 & _); [exact Hq| | | | |split; [exact H1|exact H2]]);
    cbn; repeat constructor; discriminate.
Qed.

(* any run of whole transaction blocks from the empty database leaves a quiescent state *)
Lemma quiescent_after_blocks bs : quiescent (trun true init_tstate (blocks_ops bs)).
Proof. apply (atomic_blocks bs init_tstate quiescent_init). Qed.

(* ------------------------------------------------------------------------------------------------ *)
(* witnesses: statements the faithful model violates                                                 *)
(* ------------------------------------------------------------------------------------------------ *)

Lemma task_skipped_refuted :
  complete_task_emit SKIPPED = None ->
  exists steps x,
    agrees (run_store (records_from 0 steps)) (replay (run_log (records_from 0 steps))) x = false
    /\ sget x (run_store (records_from 0 steps)) = Some (SKIPPED, true)
    /\ rstatus (replay (run_log (records_from 0 steps))) x = Some RUNNING.
Proof.
  intros H. exists [LStartStage 0; LStartTask 0; LCompleteTask 0 SKIPPED], (ETask 0).
  unfold records_from, record_of. rewrite H. vm_compute. repeat split.
Qed.

Lemma task_skipped_at_start_refuted :
  exists steps x,
    agrees (run_store (records_from 0 steps)) (replay (run_log (records_from 0 steps))) x = false
    /\ sget x (run_store (records_from 0 steps)) = Some (SKIPPED, true)
    /\ rstatus (replay (run_log (records_from 0 steps))) x = None.
Proof. exists [LStartStage 0; LSkipTaskAtStart 0], (ETask 0). vm_compute. repeat split. Qed.

(* CompleteStage's `except Exception` path stores the stage TERMINAL in a transaction that records nothing *)
Lemma stage_error_path_refuted :
  complete_stage_every_store_records = false ->
  forall i tag,
    has_write_tag tag (durable (trun true init_tstate (lstep_ops tag (LCompleteStageErr i)))) = true
    /\ has_event_tag tag (durable (trun true init_tstate (lstep_ops tag (LCompleteStageErr i)))) = false.
Proof.
  intros H i tag. unfold lstep_ops, record_of. rewrite H. cbn. rewrite N.eqb_refl. auto.
Qed.

Lemma stage_error_path_fixed :
  complete_stage_every_store_records = true ->
  forall s i tag k cut, quiescent s -> fresh tag s -> (cut = OCrash \/ cut = OAbort) ->
    has_event_tag tag (durable (trun true s (firstn k (lstep_ops tag (LCompleteStageErr i)) ++ [cut])))
    = has_write_tag tag (durable (trun true s (firstn k (lstep_ops tag (LCompleteStageErr i)) ++ [cut]))).
Proof.
  intros H s i tag k cut Hq Hf Hcut. unfold lstep_ops, lstep_pos, record_of. rewrite H.
  apply in_txn_atomic; auto; cbn; repeat constructor; discriminate.
Qed.

(* a nested `with transaction` whose inner block fails and whose exception is swallowed by the outer block:
   the inner rollback undoes the append, the pending publication survives (depth > 0) and the outer commit
   publishes an event that is not in the log *)
Lemma nested_abort_publishes_undurable :
  let e := mkEvent 0 0 E_CUSTOM ET_TASK 0 0 None None None [] 7 in
  let s := trun true init_tstate [OBegin; OBegin; ORecord e; OAbort; OCommit] in
  published s = [set_seq 1 e] /\ db_log (durable s) = [] /\ flat_from 0 [OBegin; OBegin; ORecord e; OAbort; OCommit] = false.
Proof. vm_compute. auto. Qed.

(* the handlers that record AFTER their transaction: a crash between the two commits leaves the status without its
   event; those that record BEFORE it: a crash leaves the event without the status.  (Not completions by the regular
   task- or stage-completion step: outside C13's atomicity clause; recorded as an observation.) *)
Lemma firstn_succ_mid {A} (l : list A) c r : firstn (S (length l)) (l ++ [c] ++ r) = l ++ [c].
Proof. induction l as [|a l IH]; simpl; [reflexivity|]. f_equal. exact IH. Qed.

Lemma after_txn_window st :
  lstep_pos st = AfterTxn -> snd (record_of 5 st) <> [] -> fst (record_of 5 st) <> [] ->
  Forall (fun w => wr_tag w = 5) (fst (record_of 5 st)) ->
  exists k,
    has_write_tag 5 (durable (trun true init_tstate (firstn k (lstep_ops 5 st) ++ [OCrash]))) = true
    /\ db_log (durable (trun true init_tstate (firstn k (lstep_ops 5 st) ++ [OCrash]))) = [].
Proof.
  intros Hpos Hev Hws Htag. unfold lstep_ops. rewrite Hpos. unfold handler_ops.
  exists (2 + length (fst (record_of 5 st)))%nat.
  remember (fst (record_of 5 st)) as ws. remember (snd (record_of 5 st)) as evs.
  assert (Hfirst : firstn (2 + length ws) (OBegin :: map OWrite ws ++ [OCommit] ++ map ORecord evs)
                   = block_ops (map IWrite ws, FCommit)).
  { unfold block_ops. cbn [fst snd fate_op]. change (2 + length ws)%nat with (S (S (length ws))).
    rewrite firstn_cons. f_equal. rewrite map_map. cbn [item_op].
    replace (S (length ws)) with (S (length (map OWrite ws))) by now rewrite map_length.
    apply firstn_succ_mid. }
  rewrite Hfirst, trun_app, run_block by exact quiescent_init. simpl.
  unfold has_write_tag. rewrite apply_items_log, apply_items_writes. simpl.
  assert (Hw : item_writes (map IWrite ws) = ws).
  { unfold item_writes. rewrite map_map. simpl. clear. induction ws; simpl; congruence. }
  assert (He : forall d, snd (db_apply_items d (map IWrite ws)) = []).
  { clear. induction ws; intros d; simpl; auto. }
  rewrite Hw, He. split; auto.
  apply existsb_map_tag_w; auto.
Qed.
