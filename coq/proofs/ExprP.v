(* Lemmas about model/Expr.v.  One compatibility lemma (any relation on outcomes that is preserved
   by `bind` is preserved by one _eval_node step) gives: totality of the repaired evaluator, the
   "a non-whitelisted node can only surface as ExpressionError" statement, and monotonicity in the
   recursion budget. *)
From Coq Require Import List Bool Arith ZArith Lia.
Import ListNotations.
From Stab.gen Require Import Gen_ExprCallers.
From Stab.model Require Import Base Expr ExprCallers.

Section Compat.
  Variable ident : value -> value -> bool.
  Variable c : cfg.
  Variable ctx : context.
  Variable R : forall A : Type, eres A -> eres A -> Prop.
  Hypothesis R_bind : forall A B (m r : eres A) (f g : A -> eres B),
      R A m r -> (forall a, R B (f a) (g a)) -> R B (bind m f) (bind r g).
  Hypothesis R_ok : forall A (a : A), R A (Ok a) (Ok a).
  Hypothesis R_err : forall A, R A Err Err.
  Hypothesis R_sub : forall v k, R _ (subscript c v k) (subscript c v k).
  Hypothesis R_un : forall op v, R _ (unary c op v) (unary c op v).

  Lemma mapM_compat f g :
    (forall e, R _ (f e) (g e)) -> forall es, R _ (mapM f es) (mapM g es).
  Proof.
    intros H es. induction es as [|e es IH]; simpl.
    - apply R_ok.
    - apply R_bind; [apply H|]. intros v. apply R_bind; [exact IH|]. intros vs. apply R_ok.
  Qed.

  Lemma chain_compat f g :
    (forall e, R _ (f e) (g e)) ->
    forall rest lv, R _ (chain ident f lv rest) (chain ident g lv rest).
  Proof.
    intros H rest. induction rest as [|[op ce] rest IH]; intros lv; simpl.
    - apply R_ok.
    - apply R_bind; [apply H|]. intros rv.
      destruct (cmp ident op lv rv) as [[|]|]; [apply IH|apply R_ok|apply R_err].
  Qed.

  Lemma eval_node_compat o1 o2 f g :
    R _ o1 o2 -> (forall e, R _ (f e) (g e)) ->
    forall e, R _ (eval_node ident o1 c ctx f e) (eval_node ident o2 c ctx g e).
  Proof.
    intros Ho H e. destruct e; simpl.
    - apply R_ok.
    - apply R_ok.
    - apply R_bind; [apply H|]. intros v. apply R_ok.
    - apply R_bind; [apply H|]. intros v. apply R_bind.
      + destruct e2; try apply H. apply R_ok.
      + intros k. apply R_sub.
    - apply R_bind; [apply H|]. intros lv. now apply chain_compat.
    - apply R_bind; [now apply mapM_compat|]. intros l. apply R_ok.
    - apply R_bind; [apply H|]. intros v. apply R_un.
    - apply R_bind; [apply H|]. intros tv. destruct (truthy tv); apply H.
    - apply R_bind; [now apply mapM_compat|]. intros l. apply R_ok.
    - apply R_bind; [now apply mapM_compat|]. intros l. apply R_ok.
    - exact Ho.
  Qed.
End Compat.

(* ------------------------------------------------------------------ totality of the repaired code *)
Definition safe {A} (r : eres A) : Prop := forall k, r = Crash k -> k = CrRecursion.
Definition Rsafe (A : Type) (m r : eres A) : Prop := m = r /\ safe m.

Lemma Rsafe_bind A B (m r : eres A) (f g : A -> eres B) :
  Rsafe A m r -> (forall a, Rsafe B (f a) (g a)) -> Rsafe B (bind m f) (bind r g).
Proof.
  intros [<- Hs] H. destruct m as [a| |k]; simpl.
  - apply H.
  - split; [reflexivity|intros k; discriminate].
  - split; [reflexivity|]. intros k' [= <-]. now apply Hs.
Qed.

Lemma safe_ok A (a : A) : safe (Ok a).  Proof. intros k; discriminate. Qed.
Lemma safe_err A : safe (@Err A).       Proof. intros k; discriminate. Qed.

Lemma subscript_fixed_safe v k : safe (subscript fixed v k).
Proof.
  destruct v; simpl; try apply safe_ok.
  - destruct (num k); apply safe_ok.
  - destruct (num k); apply safe_ok.
  - destruct (hashable k); [apply safe_ok|apply safe_err].
Qed.

Lemma unary_fixed_safe op v : safe (unary fixed op v).
Proof.
  destruct op; simpl; [apply safe_ok| |apply safe_err].
  destruct (num v); [apply safe_ok|apply safe_err].
Qed.

Lemma eval_fixed_safe ident ctx rl : forall e, safe (eval ident Err fixed ctx rl e).
Proof.
  induction rl as [|n IH]; intros e.
  - simpl. intros k [= <-]. reflexivity.
  - simpl. refine (proj2 (eval_node_compat ident fixed ctx Rsafe Rsafe_bind _ _ _ _ Err Err
                            (eval ident Err fixed ctx n) (eval ident Err fixed ctx n) _ _ e)).
    + intros A a. split; [reflexivity|apply safe_ok].
    + intros A. split; [reflexivity|apply safe_err].
    + intros v k. split; [reflexivity|apply subscript_fixed_safe].
    + intros op v. split; [reflexivity|apply unary_fixed_safe].
    + split; [reflexivity|apply safe_err].
    + intros e'. split; [reflexivity|apply IH].
Qed.

(* ast.parse raises only SyntaxError, ValueError (incl. UnicodeEncodeError), RecursionError,
   MemoryError: the outcomes the repaired evaluate_expression converts *)
Definition parse_catchable (p : parse_result) : Prop :=
  match p with
  | PCrash CrRecursion | PCrash CrValue | PCrash CrMemory => True
  | PCrash _ => False
  | _ => True
  end.

Lemma evaluate_fixed_total ident ctx src p rl :
  parse_catchable p -> forall k, evaluate_py ident fixed ctx src p rl <> Crash k.
Proof.
  intros Hp k. unfold evaluate_py, evaluate.
  destruct (forallb _ src); [discriminate|].
  destruct (_ || _); [discriminate|].
  destruct (_ || _); [discriminate|].
  destruct p as [e| |k'].
  - pose proof (eval_fixed_safe ident ctx rl e) as Hs.
    destruct (eval ident Err fixed ctx rl e) as [v| |k'] eqn:E; simpl; try discriminate.
    rewrite (Hs k' eq_refl). discriminate.
  - discriminate.
  - destruct k'; simpl in *; try contradiction; discriminate.
Qed.

(* ------------------------------------------------------------------ non-whitelisted nodes *)
(* m: the run in which such a node, when evaluated, raises a marker exception that nothing in the
   evaluator catches;  r: the run of the code (it raises ExpressionError). *)
Definition Rmark (A : Type) (m r : eres A) : Prop :=
  (m = Crash CrOther /\ r = Err) \/ (m = r /\ m <> Crash CrOther).

Lemma Rmark_bind A B (m r : eres A) (f g : A -> eres B) :
  Rmark A m r -> (forall a, Rmark B (f a) (g a)) -> Rmark B (bind m f) (bind r g).
Proof.
  intros [[-> ->]|[<- Hn]] H; simpl.
  - left. auto.
  - destruct m as [a| |k]; simpl.
    + apply H.
    + right. split; [reflexivity|discriminate].
    + right. split; [reflexivity|]. intros [= ->]. now apply Hn.
Qed.

Lemma eval_marker ident c ctx rl : forall e,
  Rmark _ (eval ident (Crash CrOther) c ctx rl e) (eval ident Err c ctx rl e).
Proof.
  induction rl as [|n IH]; intros e.
  - simpl. right. split; [reflexivity|discriminate].
  - simpl. apply (eval_node_compat ident c ctx Rmark Rmark_bind).
    + intros A a. right. split; [reflexivity|discriminate].
    + intros A. right. split; [reflexivity|discriminate].
    + intros v k. right. split; [reflexivity|].
      destruct v; simpl; try discriminate.
      * destruct (num k); discriminate.
      * destruct (num k); discriminate.
      * destruct (hashable k); [discriminate|]. destruct (fix_sub c); discriminate.
    + intros op v. right. split; [reflexivity|].
      destruct op; simpl; try discriminate.
      destruct (num v); [discriminate|]. destruct (fix_usub c); discriminate.
    + left. auto.
    + exact IH.
Qed.

Lemma eval_other ident c ctx n : eval_py ident c ctx (S n) EOther = Err.
Proof. reflexivity. Qed.

(* ------------------------------------------------------------------ recursion budget is monotone *)
Definition Rmono (A : Type) (m r : eres A) : Prop := m = Crash CrRecursion \/ m = r.

Lemma Rmono_bind A B (m r : eres A) (f g : A -> eres B) :
  Rmono A m r -> (forall a, Rmono B (f a) (g a)) -> Rmono B (bind m f) (bind r g).
Proof.
  intros [->|<-] H; simpl.
  - now left.
  - destruct m as [a| |k]; simpl; [apply H|now right|now right].
Qed.

Lemma eval_mono_step ident other c ctx rl : forall e,
  Rmono _ (eval ident other c ctx rl e) (eval ident other c ctx (S rl) e).
Proof.
  induction rl as [|n IH]; intros e.
  - now left.
  - change (Rmono _ (eval_node ident other c ctx (eval ident other c ctx n) e)
                    (eval_node ident other c ctx (eval ident other c ctx (S n)) e)).
    apply (eval_node_compat ident c ctx Rmono Rmono_bind); try (intros; now right).
    exact IH.
Qed.

Lemma eval_mono ident other c ctx rl e r :
  eval ident other c ctx rl e = r -> r <> Crash CrRecursion ->
  forall rl', rl <= rl' -> eval ident other c ctx rl' e = r.
Proof.
  intros E Hr rl' Hle. induction Hle as [|m Hle IH]; [exact E|].
  destruct (eval_mono_step ident other c ctx m e) as [H|H]; congruence.
Qed.

(* ------------------------------------------------------------------ callers *)
Lemma apply_split_value v :
  apply_split (Ok v) = Decided (if truthy v then Activate else SkipBranch).
Proof. unfold apply_split, caller, split_on_value. reflexivity. Qed.

Lemma apply_split_err : apply_split Err = Decided SkipBranch.
Proof. reflexivity. Qed.

Lemma should_skip_value v : should_skip (Ok v) = Decided (negb (truthy v)).
Proof. reflexivity. Qed.

Lemma should_skip_err : should_skip Err = Decided false.
Proof. reflexivity. Qed.

Lemma callers_decide r : (forall k, r <> Crash k) ->
  (exists d, apply_split r = Decided d) /\ (exists b, should_skip r = Decided b).
Proof.
  intros H. destruct r as [v| |k].
  - split; eexists; reflexivity.
  - split; eexists; reflexivity.
  - exfalso. now apply (H k).
Qed.

Lemma callers_crash k : apply_split (Crash k) = Raises k /\ should_skip (Crash k) = Raises k.
Proof. split; reflexivity. Qed.

(* ------------------------------------------------------------------ each repair is necessary *)
Lemma total_needs_all_fixes c :
  (forall ident ctx src p rl, parse_catchable p -> forall k, evaluate_py ident c ctx src p rl <> Crash k)
  -> c = fixed.
Proof.
  intros H. destruct c as [a b r v m].
  destruct a.
  2:{ exfalso.
      apply (H (fun _ _ => false) [([120]%Z, VStr [97]%Z)] [45; 120]%Z
               (Parsed (EUnary UUSub (EName [120]%Z))) 100 I CrTypeUSub).
      destruct b, r, v, m; vm_compute; reflexivity. }
  destruct b.
  2:{ exfalso.
      apply (H (fun _ _ => false) [([100]%Z, VDict [])] [100; 91; 91; 49; 93; 93]%Z
               (Parsed (ESub (EName [100]%Z) (EList [EConst (VInt 1)]))) 100 I CrTypeUnhashable).
      destruct r, v, m; vm_compute; reflexivity. }
  destruct r.
  2:{ exfalso.
      apply (H (fun _ _ => false) [] [110; 111; 116; 32; 120]%Z
               (Parsed (EUnary UNot (EName [120]%Z))) 1 I CrRecursion).
      destruct v, m; vm_compute; reflexivity. }
  destruct v.
  2:{ exfalso.
      apply (H (fun _ _ => false) [] [39; 55296; 39]%Z (PCrash CrValue) 100 I CrValue).
      destruct m; vm_compute; reflexivity. }
  destruct m; [reflexivity|].
  exfalso.
  apply (H (fun _ _ => false) [] [120]%Z (PCrash CrMemory) 100 I CrMemory).
  vm_compute; reflexivity.
Qed.

(* ------------------------------------------------------------------ a budget above the nesting
   depth suffices: RecursionError then cannot come from the evaluator *)
Definition norec {A} (r : eres A) : Prop := r <> Crash CrRecursion.

Lemma bind_norec A B (m : eres A) (f : A -> eres B) :
  norec m -> (forall a, m = Ok a -> norec (f a)) -> norec (bind m f).
Proof.
  intros Hm Hf. destruct m as [a| |k]; simpl.
  - now apply Hf.
  - discriminate.
  - intros [= ->]. now apply Hm.
Qed.

Lemma mapM_norec f es : (forall e, In e es -> norec (f e)) -> norec (mapM f es).
Proof.
  induction es as [|e es IH]; simpl; intros H; [discriminate|].
  apply bind_norec; [apply H; now left|]. intros v _.
  apply bind_norec; [apply IH; intros; apply H; now right|]. intros; discriminate.
Qed.

Lemma chain_norec ident f rest :
  (forall oc, In oc rest -> norec (f (snd oc))) -> forall lv, norec (chain ident f lv rest).
Proof.
  induction rest as [|[op ce] rest IH]; intros H lv; simpl; [discriminate|].
  apply bind_norec; [apply (H (op, ce)); now left|]. intros rv _.
  destruct (cmp ident op lv rv) as [[|]|]; [|discriminate|discriminate].
  apply IH. intros; apply H; now right.
Qed.

Lemma subscript_norec c v k : norec (subscript c v k).
Proof.
  destruct v; simpl; try discriminate.
  - destruct (num k); discriminate.
  - destruct (num k); discriminate.
  - destruct (hashable k); [discriminate|]. destruct (fix_sub c); discriminate.
Qed.

Lemma unary_norec c op v : norec (unary c op v).
Proof.
  destruct op; simpl; try discriminate.
  destruct (num v); [discriminate|]. destruct (fix_usub c); discriminate.
Qed.

Lemma list_max_in {A} (f : A -> nat) l x : In x l -> f x <= list_max (map f l).
Proof.
  intros H.
  pose proof (proj1 (list_max_le (map f l) (list_max (map f l))) (le_n _)) as F.
  rewrite Forall_forall in F. apply F. now apply in_map.
Qed.

Lemma eval_depth_enough ident other c ctx :
  norec other -> forall rl e, edepth e <= rl -> norec (eval ident other c ctx rl e).
Proof.
  intros Ho. induction rl as [|n IH]; intros e Hd.
  - destruct e; cbn [edepth] in Hd; lia.
  - cbn [eval]. destruct e; cbn [edepth] in Hd; cbn [eval_node].
    + discriminate.
    + discriminate.
    + apply bind_norec; [apply IH; lia|]. intros; discriminate.
    + apply bind_norec; [apply IH; lia|]. intros v _. apply bind_norec.
      * destruct e2; try (apply IH; lia). discriminate.
      * intros; apply subscript_norec.
    + apply bind_norec; [apply IH; lia|]. intros lv _. apply chain_norec.
      intros oc Hin. apply IH.
      pose proof (list_max_in (fun oc => edepth (snd oc)) rest oc Hin) as L. simpl in L. lia.
    + apply bind_norec; [|intros; discriminate]. apply mapM_norec. intros e Hin. apply IH.
      pose proof (list_max_in edepth vals e Hin). lia.
    + apply bind_norec; [apply IH; lia|]. intros; apply unary_norec.
    + apply bind_norec; [apply IH; lia|]. intros tv _. destruct (truthy tv); apply IH; lia.
    + apply bind_norec; [|intros; discriminate]. apply mapM_norec. intros e Hin. apply IH.
      pose proof (list_max_in edepth es e Hin). lia.
    + apply bind_norec; [|intros; discriminate]. apply mapM_norec. intros e Hin. apply IH.
      pose proof (list_max_in edepth es e Hin). lia.
    + exact Ho.
Qed.
