(* Lemmas about model/Graph.v: Kahn-by-layers is sound, complete and never runs out of fuel;
   validate_stage_graph accepts exactly the duplicate-free, self-edge-free, closed, acyclic graphs. *)
From Coq Require Import List Bool Arith ZArith Lia Permutation.
Import ListNotations.
From Stab.model Require Import Base Graph.

(* ---- sets as lists ---- *)
Lemma memZ_In x l : memZ x l = true <-> In x l.
Proof.
  unfold memZ. rewrite existsb_exists. split.
  - intros [y [Hy E]]. apply Z.eqb_eq in E. subst; auto.
  - intros H. exists x. split; auto. apply Z.eqb_refl.
Qed.

Lemma memZ_not_In x l : memZ x l = false <-> ~ In x l.
Proof.
  rewrite <- memZ_In. destruct (memZ x l); split; congruence.
Qed.

Lemma subsetZ_incl a b : subsetZ a b = true <-> incl a b.
Proof.
  unfold subsetZ, incl. rewrite forallb_forall. split; intros H x Hx.
  - apply memZ_In; auto.
  - apply memZ_In; auto.
Qed.

Lemma subsetZ_false a b : subsetZ a b = false -> exists r, In r a /\ ~ In r b.
Proof.
  induction a as [|x a IH]; simpl; [discriminate|].
  destruct (memZ x b) eqn:E; simpl.
  - intros H. destruct (IH H) as [r [H1 H2]]. exists r; auto.
  - intros _. exists x. split; auto. now apply memZ_not_In.
Qed.

Lemma filter_split_perm {A} (f : A -> bool) l :
  Permutation (filter f l ++ filter (fun x => negb (f x)) l) l.
Proof.
  induction l as [|a l IH]; simpl; auto.
  destruct (f a); simpl.
  - now constructor.
  - apply Permutation_sym, Permutation_cons_app, Permutation_sym, IH.
Qed.

Lemma filter_split_length {A} (f : A -> bool) l :
  length (filter f l) + length (filter (fun x => negb (f x)) l) = length l.
Proof.
  induction l as [|a l IH]; simpl; auto.
  destruct (f a); simpl; lia.
Qed.

Lemma exists_min {A} (m : A -> nat) (l : list A) :
  l <> [] -> exists x, In x l /\ forall y, In y l -> m x <= m y.
Proof.
  induction l as [|a l IH]; [congruence|]. intros _.
  destruct l as [|b l].
  - exists a. split; [now left|]. intros y [<-|[]]. lia.
  - destruct IH as [x [Hx Hmin]]; [discriminate|].
    destruct (le_lt_dec (m a) (m x)) as [Hle|Hlt].
    + exists a. split; [now left|]. intros y [<-|Hy]; [lia|]. specialize (Hmin y Hy). lia.
    + exists x. split; [now right|]. intros y [<-|Hy]; [lia|]. auto.
Qed.

(* ---- ordered_from d l: walking l left to right, every stage's requisites are already in the
   processed set (d plus the refs walked so far) ---- *)
Inductive ordered_from : list Z -> list stage -> Prop :=
| of_nil d : ordered_from d []
| of_cons d s l : incl (s_reqs s) d -> ordered_from (s_ref s :: d) l -> ordered_from d (s :: l).

Lemma ordered_from_incl d l : ordered_from d l -> forall d', incl d d' -> ordered_from d' l.
Proof.
  induction 1 as [d|d s l Hs Hl IH]; intros d' Hi; constructor.
  - eapply incl_tran; eauto.
  - apply IH. intros x [<-|Hx]; [now left|right; auto].
Qed.

Lemma ordered_from_app d l1 : ordered_from d l1 ->
  forall l2, ordered_from (refs l1 ++ d) l2 -> ordered_from d (l1 ++ l2).
Proof.
  induction 1 as [d|d s l Hs Hl IH]; intros l2 H2; simpl in *; auto.
  constructor; auto. apply IH. eapply ordered_from_incl; [exact H2|].
  intros x [<-|Hx]; [apply in_or_app; right; now left|].
  apply in_app_or in Hx. apply in_or_app. destruct Hx; [now left|right; now right].
Qed.

Lemma ordered_layer d l : (forall s, In s l -> incl (s_reqs s) d) -> ordered_from d l.
Proof.
  induction l as [|a l IH]; intros H; constructor.
  - apply H; now left.
  - eapply ordered_from_incl; [apply IH; intros s Hs; apply H; now right|].
    intros x Hx; now right.
Qed.

Lemma ordered_from_split l1 : forall d s l2,
  ordered_from d (l1 ++ s :: l2) -> incl (s_reqs s) (refs l1 ++ d).
Proof.
  induction l1 as [|a l1 IH]; intros d s l2 H; simpl in *; inversion H; subst; auto.
  intros x Hx. specialize (IH _ _ _ H4 x Hx).
  apply in_app_or in IH. destruct IH as [I|[<-|I]].
  - right. apply in_or_app; now left.
  - now left.
  - right. apply in_or_app; now right.
Qed.

Lemma ordered_after_reqs o : ordered_from [] o -> after_reqs o.
Proof.
  intros H l1 s l2 ->. apply ordered_from_split in H. now rewrite app_nil_r in H.
Qed.

(* ---- the loop ---- *)
Lemma kahn_step f u us d acc :
  kahn (S f) (u :: us) d acc =
  match filter (sortable d) (u :: us) with
  | [] => SortCycle (u :: us)
  | r :: rs => kahn f (filter (fun s => negb (sortable d s)) (u :: us))
                    (d ++ refs (r :: rs)) (acc ++ r :: rs)
  end.
Proof. cbn [kahn]. destruct (filter (sortable d) (u :: us)); reflexivity. Qed.

Lemma kahn_sound fuel : forall unsorted d acc o,
  kahn fuel unsorted d acc = SortOk o ->
  exists tail, o = acc ++ tail /\ Permutation tail unsorted /\ ordered_from d tail.
Proof.
  induction fuel as [|f IH]; intros unsorted d acc o H.
  - destruct unsorted; simpl in H; [|discriminate]. injection H as <-.
    exists []. rewrite app_nil_r. repeat split; constructor.
  - destruct unsorted as [|u us].
    { simpl in H. injection H as <-. exists []. rewrite app_nil_r. repeat split; constructor. }
    rewrite kahn_step in H.
    remember (u :: us) as unsorted eqn:Hu.
    remember (filter (sortable d) unsorted) as ready eqn:Hr.
    destruct ready as [|r rs]; [discriminate|].
    apply IH in H. destruct H as [tail [Ho [Hp Hord]]].
    exists ((r :: rs) ++ tail). split; [|split].
    + now rewrite app_assoc.
    + eapply Permutation_trans; [apply Permutation_app_head; exact Hp|].
      rewrite Hr. apply filter_split_perm.
    + apply ordered_from_app.
      * apply ordered_layer. intros s Hs. rewrite Hr in Hs. apply filter_In in Hs.
        destruct Hs as [_ Hs]. now apply subsetZ_incl.
      * eapply ordered_from_incl; [exact Hord|].
        intros x Hx. apply in_app_or in Hx. apply in_or_app. tauto.
Qed.

Lemma kahn_fuel fuel : forall unsorted d acc,
  length unsorted <= fuel -> kahn fuel unsorted d acc <> SortFuel.
Proof.
  induction fuel as [|f IH]; intros unsorted d acc Hlen.
  - destruct unsorted; simpl in *; [discriminate|lia].
  - destruct unsorted as [|u us]; [simpl; discriminate|].
    rewrite kahn_step.
    remember (u :: us) as unsorted eqn:Hu.
    remember (filter (sortable d) unsorted) as ready eqn:Hr.
    destruct ready as [|r rs]; [discriminate|].
    apply IH.
    pose proof (filter_split_length (sortable d) unsorted) as L.
    rewrite <- Hr in L. simpl in L. lia.
Qed.

Lemma kahn_cycle fuel : forall unsorted d acc rest,
  kahn fuel unsorted d acc = SortCycle rest ->
  rest <> [] /\ incl rest unsorted /\
  exists d', incl d d' /\ (forall s, In s rest -> sortable d' s = false)
             /\ (forall s, In s unsorted -> In s rest \/ In (s_ref s) d').
Proof.
  induction fuel as [|f IH]; intros unsorted d acc rest H.
  - destruct unsorted; simpl in H; discriminate.
  - destruct unsorted as [|u us]; [simpl in H; discriminate|].
    rewrite kahn_step in H.
    remember (u :: us) as unsorted eqn:Hu.
    remember (filter (sortable d) unsorted) as ready eqn:Hr.
    destruct ready as [|r rs].
    + injection H as <-. split; [subst; discriminate|]. split; [apply incl_refl|].
      exists d. split; [apply incl_refl|]. split; [|auto].
      symmetry in Hr. rewrite filter_nil_iff in Hr. exact Hr.
    + apply IH in H. destruct H as [Hne [Hincl [d' [Hd [Hns Hcov]]]]].
      split; [exact Hne|]. split.
      { intros x Hx. apply Hincl in Hx. apply filter_In in Hx. tauto. }
      exists d'. split; [|split].
      * intros x Hx. apply Hd. apply in_or_app; now left.
      * exact Hns.
      * intros s Hs. destruct (sortable d s) eqn:E.
        -- right. apply Hd. apply in_or_app. right. rewrite Hr.
           apply in_map. apply filter_In. auto.
        -- apply Hcov. apply filter_In. split; auto. now rewrite E.
Qed.

Lemma kahn_layers_concat fuel : forall unsorted d acc o,
  kahn fuel unsorted d acc = SortOk o -> o = acc ++ concat (kahn_layers fuel unsorted d).
Proof.
  induction fuel as [|f IH]; intros unsorted d acc o H.
  - destruct unsorted; simpl in *; [|discriminate]. injection H as <-. now rewrite app_nil_r.
  - destruct unsorted as [|u us].
    { simpl in *. injection H as <-. now rewrite app_nil_r. }
    rewrite kahn_step in H. cbn [kahn_layers].
    remember (u :: us) as unsorted eqn:Hu.
    remember (filter (sortable d) unsorted) as ready eqn:Hr.
    destruct ready as [|r rs]; [discriminate|].
    apply IH in H. rewrite H. cbn [concat]. now rewrite app_assoc.
Qed.

(* ---- completeness: a ranked (acyclic) closed graph is always sorted ---- *)
Lemma stuck_has_pred t rest d' :
  known t -> incl rest t ->
  (forall s, In s rest -> sortable d' s = false) ->
  (forall s, In s t -> In s rest \/ In (s_ref s) d') ->
  forall s, In s rest -> exists s', In s' rest /\ In (s_ref s') (s_reqs s).
Proof.
  intros Hk Hincl Hns Hcov s Hs.
  destruct (subsetZ_false _ _ (Hns s Hs)) as [r [Hr Hnd]].
  assert (Hrt : In r (refs t)) by (apply (Hk s); auto).
  apply in_map_iff in Hrt. destruct Hrt as [s' [Hrs' Hs't]].
  destruct (Hcov s' Hs't) as [Hin|Hin].
  - exists s'. split; auto. now rewrite Hrs'.
  - rewrite Hrs' in Hin. contradiction.
Qed.

Lemma kahn_no_cycle t rest : known t -> acyclic t -> kahn (length t) t [] [] <> SortCycle rest.
Proof.
  intros Hk [rank Hrank] H.
  apply kahn_cycle in H. destruct H as [Hne [Hincl [d' [_ [Hns Hcov]]]]].
  destruct (exists_min (fun s => rank (s_ref s)) rest Hne) as [s [Hs Hmin]].
  destruct (stuck_has_pred t rest d' Hk Hincl Hns Hcov s Hs) as [s' [Hs' Hedge]].
  specialize (Hrank s (Hincl s Hs) _ Hedge). specialize (Hmin s' Hs'). simpl in Hmin. lia.
Qed.

(* ---- a successful order yields a rank ---- *)
Fixpoint pos (r : Z) (o : list stage) : nat :=
  match o with
  | [] => 0
  | s :: o' => if Z.eqb (s_ref s) r then 0 else S (pos r o')
  end.

Lemma pos_lt r l1 l2 : In r (refs l1) -> pos r (l1 ++ l2) < length l1.
Proof.
  induction l1 as [|a l1 IH]; simpl; [tauto|].
  intros [E|H].
  - rewrite E, Z.eqb_refl. lia.
  - destruct (Z.eqb (s_ref a) r); [lia|]. specialize (IH H). lia.
Qed.

Lemma pos_eq s l1 l2 : ~ In (s_ref s) (refs l1) -> pos (s_ref s) (l1 ++ s :: l2) = length l1.
Proof.
  induction l1 as [|a l1 IH]; simpl; intros H.
  - now rewrite Z.eqb_refl.
  - destruct (Z.eqb (s_ref a) (s_ref s)) eqn:E.
    + apply Z.eqb_eq in E. tauto.
    + rewrite IH; auto.
Qed.

Lemma sorted_acyclic o t : Permutation o t -> NoDup (refs t) -> after_reqs o -> acyclic t.
Proof.
  intros Hp Hnd Hafter. exists (fun r => pos r o). intros s Hs r Hr.
  apply (Permutation_in _ (Permutation_sym Hp)) in Hs.
  apply in_split in Hs. destruct Hs as [l1 [l2 ->]].
  pose proof (Hafter l1 s l2 eq_refl r Hr) as Hr1.
  assert (Hnd' : NoDup (refs (l1 ++ s :: l2))).
  { eapply Permutation_NoDup; [apply Permutation_sym, Permutation_map; exact Hp|exact Hnd]. }
  unfold refs in Hnd'. rewrite map_app in Hnd'. simpl in Hnd'. apply NoDup_remove_2 in Hnd'.
  rewrite pos_eq.
  - now apply pos_lt.
  - intro Hin. apply Hnd'. apply in_or_app; now left.
Qed.

(* ---- the first two loops of validate_stage_graph ---- *)
Lemma has_dup_false l : forall seen,
  has_dup seen l = false <-> NoDup (refs l) /\ (forall r, In r (refs l) -> ~ In r seen).
Proof.
  induction l as [|a l IH]; intros seen; simpl.
  - split; [intros _; split; [constructor|tauto]|auto].
  - destruct (memZ (s_ref a) seen) eqn:E.
    + split; [discriminate|]. intros [_ Hdis]. exfalso.
      apply (Hdis (s_ref a)); [now left|now apply memZ_In].
    + rewrite IH. apply memZ_not_In in E. split.
      * intros [Hnd Hdis]. split.
        -- constructor; auto. intro Hin. apply (Hdis _ Hin). now left.
        -- intros r [<-|Hr]; auto. intro Hs. apply (Hdis r Hr). now right.
      * intros [Hnd Hdis]. inversion Hnd; subst. split; auto.
        intros r Hr [<-|Hs]; [contradiction|]. apply (Hdis r); auto.
Qed.

Lemma struct_err_none seen l :
  struct_err seen l = None <-> forall s, In s l -> ~ In (s_ref s) (s_reqs s) /\ incl (s_reqs s) seen.
Proof.
  induction l as [|a l IH]; simpl.
  - split; [intros _ s []|auto].
  - destruct (memZ (s_ref a) (s_reqs a)) eqn:E1.
    + split; [discriminate|]. intros H. destruct (H a (or_introl eq_refl)) as [H1 _].
      apply memZ_In in E1. contradiction.
    + destruct (subsetZ (s_reqs a) seen) eqn:E2; simpl.
      * rewrite IH. apply memZ_not_In in E1. apply subsetZ_incl in E2. split.
        -- intros H s [<-|Hs]; auto.
        -- intros H s Hs. apply H. now right.
      * split; [discriminate|]. intros H. destruct (H a (or_introl eq_refl)) as [_ H2].
        apply subsetZ_incl in H2. congruence.
Qed.

Lemma struct_err_some seen l e : struct_err seen l = Some e -> e = VSelf \/ e = VUnknown.
Proof.
  induction l as [|a l IH]; simpl; [discriminate|].
  destruct (memZ (s_ref a) (s_reqs a)); [intros [= <-]; now left|].
  destruct (subsetZ (s_reqs a) seen); simpl; [exact IH|intros [= <-]; now right].
Qed.

(* which of the two, and for which stage: the first stage (in list order) that has a defect decides *)
Lemma struct_err_first seen l e : struct_err seen l = Some e ->
  exists l1 s l2, l = l1 ++ s :: l2
    /\ (forall x, In x l1 -> ~ In (s_ref x) (s_reqs x) /\ incl (s_reqs x) seen)
    /\ ((e = VSelf /\ In (s_ref s) (s_reqs s))
        \/ (e = VUnknown /\ ~ In (s_ref s) (s_reqs s) /\ ~ incl (s_reqs s) seen)).
Proof.
  induction l as [|a l IH]; simpl; [discriminate|].
  destruct (memZ (s_ref a) (s_reqs a)) eqn:E1.
  - intros [= <-]. exists [], a, l. split; [reflexivity|]. split; [intros x []|].
    left. split; auto. now apply memZ_In.
  - destruct (subsetZ (s_reqs a) seen) eqn:E2; simpl.
    + intros H. destruct (IH H) as [l1 [s [l2 [-> [Hpre Hs]]]]].
      exists (a :: l1), s, l2. split; [reflexivity|]. split; [|exact Hs].
      intros x [<-|Hx]; auto. split; [now apply memZ_not_In|now apply subsetZ_incl].
    + intros [= <-]. exists [], a, l. split; [reflexivity|]. split; [intros x []|].
      right. split; auto. split; [now apply memZ_not_In|].
      intro Hi. apply subsetZ_incl in Hi. congruence.
Qed.

(* ---- main results ---- *)
Lemma topo_sort_sound all g o :
  topo_sort all g = SortOk o -> Permutation o (filtered all g) /\ after_reqs o.
Proof.
  unfold topo_sort. intros H. apply kahn_sound in H.
  destruct H as [tail [-> [Hp Hord]]]. simpl. split; auto. now apply ordered_after_reqs.
Qed.

Lemma topo_sort_fuel all g : topo_sort all g <> SortFuel.
Proof. unfold topo_sort. apply kahn_fuel. lia. Qed.

Lemma topo_sort_layers all g o :
  topo_sort all g = SortOk o -> o = concat (sort_layers all g).
Proof. unfold topo_sort, sort_layers. intros H. now apply kahn_layers_concat in H. Qed.

Lemma topo_sort_cycle_iff all g :
  NoDup (refs (filtered all g)) -> known (filtered all g) ->
  ((exists rest, topo_sort all g = SortCycle rest) <-> ~ acyclic (filtered all g)).
Proof.
  intros Hnd Hk. split.
  - intros [rest H] Hac. unfold topo_sort in H. exact (kahn_no_cycle _ rest Hk Hac H).
  - intros Hna. destruct (topo_sort all g) as [o|rest|] eqn:E.
    + exfalso. apply Hna. destruct (topo_sort_sound _ _ _ E) as [Hp Ha].
      eapply sorted_acyclic; eauto.
    + now exists rest.
    + exfalso. exact (topo_sort_fuel _ _ E).
Qed.

Lemma topo_sort_ok_iff all g :
  NoDup (refs (filtered all g)) -> known (filtered all g) ->
  ((exists o, topo_sort all g = SortOk o) <-> acyclic (filtered all g)).
Proof.
  intros Hnd Hk. split.
  - intros [o E]. destruct (topo_sort_sound _ _ _ E) as [Hp Ha]. eapply sorted_acyclic; eauto.
  - intros Hac. destruct (topo_sort all g) as [o|rest|] eqn:E.
    + now exists o.
    + exfalso. unfold topo_sort in E. exact (kahn_no_cycle _ rest Hk Hac E).
    + exfalso. exact (topo_sort_fuel _ _ E).
Qed.

Lemma validate_ok_iff g :
  validate g = VOk <->
  NoDup (refs (top_level g)) /\ no_self (top_level g) /\ known (top_level g) /\ acyclic (top_level g).
Proof.
  unfold validate. split.
  - destruct (has_dup [] (top_level g)) eqn:E1; [discriminate|].
    destruct (struct_err (refs (top_level g)) (top_level g)) as [e|] eqn:E2.
    { intros ->. apply struct_err_some in E2. destruct E2; discriminate. }
    apply has_dup_false in E1. destruct E1 as [Hnd _].
    rewrite struct_err_none in E2.
    assert (Hk : known (top_level g)) by (intros s Hs; apply E2; auto).
    destruct (topological_sort g) as [o|rest|] eqn:E3; try discriminate. intros _.
    split; [exact Hnd|]. split; [intros s Hs; apply E2; auto|]. split; [exact Hk|].
    apply (topo_sort_ok_iff false g Hnd Hk). now exists o.
  - intros [Hnd [Hns [Hk Hac]]].
    assert (E1 : has_dup [] (top_level g) = false) by (apply has_dup_false; split; auto).
    rewrite E1.
    assert (E2 : struct_err (refs (top_level g)) (top_level g) = None).
    { apply struct_err_none. intros s Hs. split; [apply Hns|apply Hk]; auto. }
    rewrite E2.
    destruct (proj2 (topo_sort_ok_iff false g Hnd Hk) Hac) as [o E3].
    unfold topological_sort. now rewrite E3.
Qed.

(* error precedence: which error is reported *)
Lemma validate_dup_iff g : validate g = VDup <-> ~ NoDup (refs (top_level g)).
Proof.
  unfold validate. destruct (has_dup [] (top_level g)) eqn:E1.
  - split; auto. intros _ Hnd.
    assert (has_dup [] (top_level g) = false) by (apply has_dup_false; split; auto). congruence.
  - apply has_dup_false in E1. destruct E1 as [Hnd _]. split; [|tauto].
    destruct (struct_err _ _) as [e|] eqn:E2.
    + intros ->. apply struct_err_some in E2. destruct E2; discriminate.
    + destruct (topological_sort g); discriminate.
Qed.

Lemma validate_struct_iff g :
  (validate g = VSelf \/ validate g = VUnknown) <->
  NoDup (refs (top_level g)) /\ ~ (no_self (top_level g) /\ known (top_level g)).
Proof.
  unfold validate. destruct (has_dup [] (top_level g)) eqn:E1.
  - split; [intros [H|H]; discriminate|]. intros [Hnd _].
    assert (has_dup [] (top_level g) = false) by (apply has_dup_false; split; auto). congruence.
  - apply has_dup_false in E1. destruct E1 as [Hnd _].
    destruct (struct_err _ _) as [e|] eqn:E2.
    + split.
      * intros _. split; auto. intros [Hns Hk].
        assert (struct_err (refs (top_level g)) (top_level g) = None).
        { apply struct_err_none. intros s Hs. split; [apply Hns|apply Hk]; auto. }
        congruence.
      * intros _. apply struct_err_some in E2. destruct E2; subst; auto.
    + split.
      * destruct (topological_sort g); intros [H|H]; discriminate.
      * intros [_ Hn]. exfalso. apply Hn. rewrite struct_err_none in E2.
        split; intros s Hs; apply E2; auto.
Qed.

Lemma validate_cycle_iff g :
  validate g = VCycle <->
  NoDup (refs (top_level g)) /\ no_self (top_level g) /\ known (top_level g) /\ ~ acyclic (top_level g).
Proof.
  unfold validate. destruct (has_dup [] (top_level g)) eqn:E1.
  - split; [discriminate|]. intros [Hnd _].
    assert (has_dup [] (top_level g) = false) by (apply has_dup_false; split; auto). congruence.
  - apply has_dup_false in E1. destruct E1 as [Hnd _].
    destruct (struct_err _ _) as [e|] eqn:E2.
    + split.
      * intros ->. apply struct_err_some in E2. destruct E2; discriminate.
      * intros [_ [Hns [Hk _]]].
        assert (struct_err (refs (top_level g)) (top_level g) = None).
        { apply struct_err_none. intros s Hs. split; [apply Hns|apply Hk]; auto. }
        congruence.
    + rewrite struct_err_none in E2.
      assert (Hk : known (top_level g)) by (intros s Hs; apply E2; auto).
      assert (Hns : no_self (top_level g)) by (intros s Hs; apply E2; auto).
      pose proof (topo_sort_cycle_iff false g Hnd Hk) as Hc.
      pose proof (topo_sort_ok_iff false g Hnd Hk) as Ho.
      unfold topological_sort. destruct (topo_sort false g) as [o|rest|] eqn:E3.
      * split; [discriminate|]. intros [_ [_ [_ Hna]]]. exfalso. apply Hna, Ho. now exists o.
      * split; auto. intros _. repeat split; auto. apply Hc. now exists rest.
      * exfalso. exact (topo_sort_fuel _ _ E3).
Qed.

Lemma validate_never_fuel g : validate g <> VFuel.
Proof.
  unfold validate. destruct (has_dup _ _); [discriminate|].
  destruct (struct_err _ _) as [e|] eqn:E2.
  - intros ->. apply struct_err_some in E2. destruct E2; discriminate.
  - unfold topological_sort. destruct (topo_sort false g) eqn:E3; try discriminate.
    intros _. exact (topo_sort_fuel _ _ E3).
Qed.

(* ---- rank-acyclic <-> no non-empty path from a ref to itself ---- *)
Lemma path_rank t (rank : Z -> nat) :
  (forall s, In s t -> forall r, In r (s_reqs s) -> rank r < rank (s_ref s)) ->
  forall a b, path t a b -> rank a < rank b.
Proof.
  intros Hr a b P. induction P as [a b [s [Hs [<- Ha]]]|a b c [s [Hs [<- Ha]]] _ IH].
  - now apply Hr.
  - specialize (Hr s Hs a Ha). lia.
Qed.

Lemma acyclic_no_cycle t : acyclic t -> no_cycle t.
Proof.
  intros [rank Hr] a P. pose proof (path_rank t rank Hr a a P). lia.
Qed.

Lemma path_snoc t a b c : path t a b -> edge t b c -> path t a c.
Proof.
  induction 1 as [a b E|a b b' E _ IH]; intros E'.
  - eapply path_step; [exact E|now apply path_one].
  - eapply path_step; [exact E|auto].
Qed.

(* a chain r0 :: r1 :: r2 ...: each element is a requisite of the one before it *)
Fixpoint chain (t : list stage) (l : list Z) : Prop :=
  match l with
  | a :: l' => match l' with b :: _ => edge t b a /\ chain t l' | [] => True end
  | [] => True
  end.

Lemma chain_tail t l1 : forall l2, chain t (l1 ++ l2) -> chain t l2.
Proof.
  induction l1 as [|a l1 IH]; intros l2 H; simpl in *; auto.
  destruct (l1 ++ l2) eqn:E.
  - destruct l1; simpl in E; [subst; exact I|discriminate].
  - rewrite <- E in H. apply IH. tauto.
Qed.

Lemma chain_path t l2 : forall x y l3, chain t (x :: l2 ++ y :: l3) -> path t y x.
Proof.
  induction l2 as [|z l2 IH]; intros x y l3 H.
  - simpl in H. apply path_one. tauto.
  - change (chain t (x :: z :: l2 ++ y :: l3)) in H. destruct H as [E H].
    apply IH in H. eapply path_snoc; eauto.
Qed.

Lemma dup_split (l : list Z) : ~ NoDup l -> exists x l1 l2 l3, l = l1 ++ x :: l2 ++ x :: l3.
Proof.
  induction l as [|a l IH]; intros H.
  - exfalso. apply H. constructor.
  - destruct (in_dec Z.eq_dec a l) as [Hin|Hnin].
    + apply in_split in Hin. destruct Hin as [l2 [l3 ->]]. now exists a, [], l2, l3.
    + destruct IH as [x [l1 [l2 [l3 ->]]]].
      * intro Hnd. apply H. now constructor.
      * now exists x, (a :: l1), l2, l3.
Qed.

Lemma build_chain t rest :
  (forall s, In s rest -> exists s', In s' rest /\ In (s_ref s') (s_reqs s)) ->
  incl rest t ->
  forall n s, In s rest -> exists l, length l = n /\ incl (s_ref s :: l) (refs rest) /\ chain t (s_ref s :: l).
Proof.
  intros Hpred Hincl n. induction n as [|n IH]; intros s Hs.
  - exists []. split; auto. split; [|exact I]. intros x [<-|[]]. now apply in_map.
  - destruct (Hpred s Hs) as [s' [Hs' He]].
    destruct (IH s' Hs') as [l [Hlen [Hin Hch]]].
    exists (s_ref s' :: l). split; [simpl; lia|]. split.
    + intros x [<-|Hx]; [now apply in_map|auto].
    + split; auto. exists s. auto.
Qed.

Lemma no_cycle_acyclic t : NoDup (refs t) -> known t -> no_cycle t -> acyclic t.
Proof.
  intros Hnd Hk Hnc.
  destruct (kahn (length t) t [] []) as [o|rest|] eqn:E.
  - apply kahn_sound in E. destruct E as [tail [-> [Hp Hord]]]. simpl.
    eapply sorted_acyclic; eauto. now apply ordered_after_reqs.
  - exfalso. apply kahn_cycle in E. destruct E as [Hne [Hincl [d' [_ [Hns Hcov]]]]].
    pose proof (stuck_has_pred t rest d' Hk Hincl Hns Hcov) as Hpred.
    destruct rest as [|s0 rest0]; [congruence|].
    destruct (build_chain t _ Hpred Hincl (length (refs (s0 :: rest0))) s0 (or_introl eq_refl))
      as [l [Hlen [Hin Hch]]].
    assert (Hnd' : ~ NoDup (s_ref s0 :: l)).
    { intro N. pose proof (NoDup_incl_length N Hin) as L. simpl in L. simpl in Hlen. lia. }
    apply dup_split in Hnd'. destruct Hnd' as [x [l1 [l2 [l3 Hl]]]].
    rewrite Hl in Hch. apply chain_tail in Hch. apply chain_path in Hch. exact (Hnc x Hch).
  - exfalso. eapply kahn_fuel; [|exact E]. lia.
Qed.

Lemma acyclic_iff_no_cycle t : NoDup (refs t) -> known t -> (acyclic t <-> no_cycle t).
Proof.
  intros Hnd Hk. split; [apply acyclic_no_cycle|now apply no_cycle_acyclic].
Qed.
